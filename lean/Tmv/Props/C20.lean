import Tmv.Lemmas.LightRpcAux
/-! # C20 — the verifying RPC client relays an answer iff it matches light-verified headers

Property theorems only, about the model `Tmv.LightRpc` of /repo light/rpc/client.go (as repaired by
the `fix:` commits listed in known-findings.json). `H` is an arbitrary hash function of fixed output
length `L > 0`; soundness theorems conclude "the committed fields are the honest ones ∨ an explicit
collision of `H`". The light client is the `LC` of the model: `lc.at? h` is the light block of
height `h` the (honest) providers serve — that the real light client only ever trusts such blocks
is property C09, not proved here. -/
namespace Tmv.Props.C20
open Tmv Tmv.Merkle Tmv.LightRpc Tmv.TxProof
variable (H : Bytes → Bytes)

/-! ## Block / BlockByHash -/

/-- what an honest full node holds under the verified header of light block `t` -/
structure HonestBlock (t : LightBlock) (hb : Block) : Prop where
  header : hb.header = t.header
  data : t.header.dataHash = txsHash H hb.txs
  commit : t.header.lastCommitHash = commitHash H hb.lastCommitSigs
  evidence : t.header.evidenceHash = evidenceHash H hb.evidence

/-- the chain the providers serve is well formed: the block served for height `k` is labelled `k`
and carries a validators hash (both are checked by the light client before it trusts a block) -/
structure ChainOK (lc : LC) : Prop where
  vh : ∀ k t, lc.at? k = some t → t.header.validatorsHash ≠ []
  height : ∀ k t, lc.at? k = some t → t.header.height = k

/-- **Soundness (Block, BlockByHash).** A relayed block answer names a height the providers have;
its `BlockID.Hash` is the verified header's hash, its encoded header fields are the verified
header's, and its transactions, last-commit signatures and evidence are exactly those of the honest
block under that header — or a collision of `H` is exhibited. (`BlockID.PartSetHeader` and
`LastCommit.{Height,Round,BlockID}` are not claimed: see `block_partSetHeader_not_bound`.) -/
theorem relay_sound_block (L : Nat) (hL : 0 < L) (hlen : ∀ x, (H x).length = L)
    (lc lc' : LC) (hok : ChainOK lc) (req : BlockReq) (res : ResultBlock)
    (hacc : verifyBlock H lc req res = (.ok, lc')) :
    ∃ b t, res.block = some b ∧ lc.at? b.header.height = some t ∧ lc'.chain = lc.chain ∧
      res.blockID.hash = t.header.hash H ∧ req.matches res b = true ∧
      ((b.header.fields = t.header.fields ∧
        ∀ hb, HonestBlock H t hb →
          b.txs = hb.txs ∧ b.lastCommitSigs = hb.lastCommitSigs ∧ b.evidence = hb.evidence)
       ∨ Nonempty (Collision H)) := by
  unfold verifyBlock at hacc
  split at hacc; · simp at hacc
  split at hacc; · simp at hacc
  rename_i b hb
  split at hacc; · simp at hacc
  rename_i hvb
  split at hacc; · simp at hacc
  rename_i hid
  split at hacc; · simp at hacc
  rename_i hreq
  split at hacc
  · simp at hacc
  · rename_i t lc1 hupd
    split at hacc; · simp at hacc
    rename_i hhash
    have hhash' : b.header.hash H = t.header.hash H := by simpa using hhash
    have hid' : res.blockID.hash = b.header.hash H := by simpa using hid
    obtain ⟨hchain, _, hat⟩ := updateTo_ok lc lc1 _ t hupd
    have hat' := hat _ rfl
    have hlc : lc' = lc1 := by simp at hacc; exact hacc.symm
    refine ⟨b, t, hb, hat', by rw [hlc]; exact hchain, by rw [hid', hhash'], by simpa using hreq, ?_⟩
    by_cases hno : Nonempty (Collision H)
    · right; exact hno
    have htv : t.header.validatorsHash ≠ [] := hok.vh _ _ hat'
    have hvb' : b.validateBasic H = true := by simpa using hvb
    simp only [Block.validateBasic, Bool.and_eq_true, decide_eq_true_eq] at hvb'
    obtain ⟨⟨⟨⟨⟨⟨hhdr, _⟩, _⟩, hlch⟩, hdh⟩, _⟩, heh⟩ := hvb'
    unfold Header.hash at hhash'
    by_cases hbv : b.header.validatorsHash = []
    · -- the answer's header hash is nil, the trusted one is a root of length L > 0
      simp only [hbv, htv, if_true, if_false] at hhash'
      have := rootF_len H L hlen t.header.fields.length t.header.fields
      unfold root at hhash'
      rw [← hhash'] at this
      simp at this; omega
    · simp only [hbv, htv, if_false] at hhash'
      rcases root_inj H L hlen _ _ hhash' with hf | hc
      · left
        refine ⟨hf, ?_⟩
        intro hbk hh
        have hf' := hf
        simp only [Header.fields, List.cons.injEq] at hf'
        obtain ⟨_, _, _, _, _, e6, e7, _, _, _, _, _, e13, _⟩ := hf'
        have ltx : (txsHash H b.txs).length = L := rootF_len H L hlen _ _
        have ltx' : (txsHash H hbk.txs).length = L := rootF_len H L hlen _ _
        have lc1' : (commitHash H b.lastCommitSigs).length = L := rootF_len H L hlen _ _
        have lc2' : (commitHash H hbk.lastCommitSigs).length = L := rootF_len H L hlen _ _
        have le1 : (evidenceHash H b.evidence).length = L := rootF_len H L hlen _ _
        have le2 : (evidenceHash H hbk.evidence).length = L := rootF_len H L hlen _ _
        rw [hdh, hh.data] at e7
        rw [hlch, hh.commit] at e6
        rw [heh, hh.evidence] at e13
        have d := fBytes_cancel L hL _ _ _ ltx ltx' e7
        have c := fBytes_cancel L hL _ _ _ lc1' lc2' e6
        have e := fBytes_cancel L hL _ _ _ le1 le2 e13
        unfold txsHash at d
        unfold commitHash at c
        unfold evidenceHash at e
        refine ⟨?_, ?_, ?_⟩
        · rcases root_inj H L hlen _ _ d with hm | hc
          · rcases map_hash_inj H _ _ hm with ht | hc
            · exact ht
            · exact absurd hc hno
          · exact absurd hc hno
        · rcases root_inj H L hlen _ _ c with hm | hc
          · exact hm
          · exact absurd hc hno
        · rcases root_inj H L hlen _ _ e with hm | hc
          · exact hm
          · exact absurd hc hno
      · right; exact hc

/-- **Soundness (Block, BlockByHash), with the collisions located.** As `relay_sound_block`; every
alternative is a collision between two different strings hashed in this run — nodes of the answer's
header tree vs nodes of the verified header's tree; the answer's transactions and the nodes of its
data tree vs the honest block's; likewise for the last-commit signatures and the evidence. -/
theorem relay_sound_block_traced (L : Nat) (hL : 0 < L) (hlen : ∀ x, (H x).length = L)
    (lc lc' : LC) (hok : ChainOK lc) (req : BlockReq) (res : ResultBlock)
    (hacc : verifyBlock H lc req res = (.ok, lc')) :
    ∃ b t, res.block = some b ∧ lc.at? b.header.height = some t ∧
      res.blockID.hash = t.header.hash H ∧
      (b.header.fields = t.header.fields ∨
        CollisionIn H (rootPre H b.header.fields.length b.header.fields)
          (rootPre H t.header.fields.length t.header.fields)) ∧
      (b.header.fields = t.header.fields → ∀ hb, HonestBlock H t hb →
        (b.txs = hb.txs ∨ CollisionIn H (b.txs ++ rootPre H (b.txs.map H).length (b.txs.map H))
            (hb.txs ++ rootPre H (hb.txs.map H).length (hb.txs.map H))) ∧
        (b.lastCommitSigs = hb.lastCommitSigs ∨
          CollisionIn H (rootPre H b.lastCommitSigs.length b.lastCommitSigs)
            (rootPre H hb.lastCommitSigs.length hb.lastCommitSigs)) ∧
        (b.evidence = hb.evidence ∨
          CollisionIn H (rootPre H b.evidence.length b.evidence) (rootPre H hb.evidence.length hb.evidence))) := by
  unfold verifyBlock at hacc
  split at hacc; · simp at hacc
  split at hacc; · simp at hacc
  rename_i b hb
  split at hacc; · simp at hacc
  rename_i hvb
  split at hacc; · simp at hacc
  rename_i hid
  split at hacc; · simp at hacc
  split at hacc
  · simp at hacc
  · rename_i t lc1 hupd
    split at hacc; · simp at hacc
    rename_i hhash
    have hhash' : b.header.hash H = t.header.hash H := by simpa using hhash
    have hid' : res.blockID.hash = b.header.hash H := by simpa using hid
    obtain ⟨_, _, hat⟩ := updateTo_ok lc lc1 _ t hupd
    have hat' := hat _ rfl
    have htv : t.header.validatorsHash ≠ [] := hok.vh _ _ hat'
    have hvb' : b.validateBasic H = true := by simpa using hvb
    simp only [Block.validateBasic, Bool.and_eq_true, decide_eq_true_eq] at hvb'
    obtain ⟨⟨⟨⟨⟨⟨_, _⟩, _⟩, hlch⟩, hdh⟩, _⟩, heh⟩ := hvb'
    have hroots : root H b.header.fields = root H t.header.fields := by
      unfold Header.hash at hhash'
      by_cases hbv : b.header.validatorsHash = []
      · simp only [hbv, htv, if_true, if_false] at hhash'
        have := rootF_len H L hlen t.header.fields.length t.header.fields
        unfold root at hhash'
        rw [← hhash'] at this
        simp at this; omega
      · simpa only [hbv, htv, if_false] using hhash'
    refine ⟨b, t, hb, hat', by rw [hid', hhash'], root_inj_traced2 H L hlen _ _ hroots, ?_⟩
    intro hf hbk hh
    have hf' := hf
    simp only [Header.fields, List.cons.injEq] at hf'
    obtain ⟨_, _, _, _, _, e6, e7, _, _, _, _, _, e13, _⟩ := hf'
    have ltx : (txsHash H b.txs).length = L := rootF_len H L hlen _ _
    have ltx' : (txsHash H hbk.txs).length = L := rootF_len H L hlen _ _
    have lc1' : (commitHash H b.lastCommitSigs).length = L := rootF_len H L hlen _ _
    have lc2' : (commitHash H hbk.lastCommitSigs).length = L := rootF_len H L hlen _ _
    have le1 : (evidenceHash H b.evidence).length = L := rootF_len H L hlen _ _
    have le2 : (evidenceHash H hbk.evidence).length = L := rootF_len H L hlen _ _
    rw [hdh, hh.data] at e7
    rw [hlch, hh.commit] at e6
    rw [heh, hh.evidence] at e13
    have d := fBytes_cancel L hL _ _ _ ltx ltx' e7
    have c := fBytes_cancel L hL _ _ _ lc1' lc2' e6
    have e := fBytes_cancel L hL _ _ _ le1 le2 e13
    unfold txsHash at d
    unfold commitHash at c
    unfold evidenceHash at e
    refine ⟨?_, root_inj_traced2 H L hlen _ _ c, root_inj_traced2 H L hlen _ _ e⟩
    rcases root_inj_traced2 H L hlen _ _ d with hm | hcol
    · rcases map_hash_inj_traced2 H _ _ hm with ht | hcol
      · left; exact ht
      · right; exact hcol.mono H (fun x hx => List.mem_append.mpr (Or.inl hx)) (fun x hx => List.mem_append.mpr (Or.inl hx))
    · right; exact hcol.mono H (fun x hx => List.mem_append.mpr (Or.inr hx)) (fun x hx => List.mem_append.mpr (Or.inr hx))

/-- … and since the 14 hashed byte strings determine the header (for wire-sized fields), the relayed
header IS the verified header. -/
theorem relay_sound_block_header (L : Nat) (hL : 0 < L) (hlen : ∀ x, (H x).length = L)
    (lc lc' : LC) (hok : ChainOK lc) (req : BlockReq) (res : ResultBlock)
    (hacc : verifyBlock H lc req res = (.ok, lc')) :
    ∃ b t, res.block = some b ∧ lc.at? b.header.height = some t ∧
      (b.header.WF → t.header.WF → b.header = t.header ∨ Nonempty (Collision H)) := by
  obtain ⟨b, t, h1, h2, _, _, _, h5⟩ := relay_sound_block H L hL hlen lc lc' hok req res hacc
  refine ⟨b, t, h1, h2, ?_⟩
  intro w1 w2
  rcases h5 with ⟨hf, _⟩ | hc
  · left; exact Header.fields_inj _ _ w1 w2 hf
  · right; exact hc

/-- **Completeness (Block, BlockByHash).** The honest answer for a height the providers have — the
block under the verified header, with the `BlockID` whose hash is the header's, both passing their
`ValidateBasic` — is relayed. -/
theorem relay_complete_block (lc : LC) (hok : ChainOK lc) (k : Int) (t : LightBlock)
    (hat : lc.at? k = some t) (hb : Block) (hh : HonestBlock H t hb)
    (hvalid : hb.header.validateBasic = true)
    (hcommit : hb.lastCommitNil = false ∧ hb.lastCommitOK = true ∧ hb.evidenceOK = true)
    (bid : BlockID) (hbid : bid.hash = t.header.hash H) (hbidv : bid.validateBasic = true)
    (req : BlockReq) (hreq : req = .height none ∨ req = .height (some k) ∨ req = .hash bid.hash) :
    ∃ lc', verifyBlock H lc req { blockID := bid, block := some hb } = (.ok, lc') := by
  have hheight : hb.header.height = k := by rw [hh.header]; exact hok.height _ _ hat
  obtain ⟨lc1, hupd⟩ := updateTo_some_complete lc k t hat
  have hvb : hb.validateBasic H = true := by
    simp only [Block.validateBasic, Bool.and_eq_true, decide_eq_true_eq]
    obtain ⟨h1, h2, h3⟩ := hcommit
    refine ⟨⟨⟨⟨⟨⟨hvalid, by simp [h1]⟩, h2⟩, ?_⟩, ?_⟩, h3⟩, ?_⟩
    · rw [hh.header]; exact hh.commit
    · rw [hh.header]; exact hh.data
    · rw [hh.header]; exact hh.evidence
  have hm : req.matches { blockID := bid, block := some hb } hb = true := by
    rcases hreq with rfl | rfl | rfl <;> simp [BlockReq.matches, hheight]
  refine ⟨lc1, ?_⟩
  unfold verifyBlock
  simp only [hbidv, hvb, hm, Bool.not_true, Bool.false_eq_true, if_false, hheight, hupd]
  simp [hbid, hh.header]

/-! ## Tx (with inclusion proof) -/

/-- **Soundness (Tx with proof).** A relayed transaction answer names a height the providers have;
the proof's root is that header's `DataHash`; the returned bytes are the proven bytes, hash to the
requested hash, and the answer is labelled with it; and the transaction is one of the transactions
of the block under that header — or a collision is exhibited. (`Index` and `TxResult` are not
claimed: see `tx_index_not_bound`.) -/
theorem relay_sound_tx (L : Nat) (hL : 0 < L) (hlen : ∀ x, (H x).length = L)
    (lc lc' : LC) (reqHash : Bytes) (res : ResultTx)
    (hacc : verifyTx H lc reqHash res = (.ok, lc')) :
    ∃ t, lc.at? res.height = some t ∧ lc'.chain = lc.chain ∧
      res.proof.rootHash = t.header.dataHash ∧ res.tx = res.proof.data ∧
      res.hash = reqHash ∧ H res.tx = reqHash ∧
      (∀ txs, t.header.dataHash = txsHash H txs → res.tx ∈ txs ∨ Nonempty (Collision H)) := by
  unfold verifyTx at hacc
  split at hacc; · simp at hacc
  split at hacc
  · simp at hacc
  · rename_i t lc1 hupd
    obtain ⟨hchain, _, hat⟩ := updateTo_ok lc lc1 _ t hupd
    split at hacc
    all_goals try (simp at hacc; done)
    rename_i u hval
    split at hacc; · simp at hacc
    rename_i htx
    split at hacc; · simp at hacc
    rename_i hhash
    have hlc : lc' = lc1 := by simp at hacc; exact hacc.symm
    have htx' : res.proof.data = res.tx := by simpa using htx
    have hh : H res.tx = reqHash ∧ res.hash = reqHash := by
      constructor
      · rcases Decidable.em (H res.tx = reqHash) with h | h
        · exact h
        · exact absurd (Or.inl h) hhash
      · rcases Decidable.em (res.hash = reqHash) with h | h
        · exact h
        · exact absurd (Or.inr h) hhash
    unfold TxProof.validate at hval
    split at hval; · cases hval
    rename_i hdh
    split at hval; · cases hval
    split at hval; · cases hval
    split at hval
    · rename_i u2 hver
      have hroot : t.header.dataHash = res.proof.rootHash := by simpa using hdh
      refine ⟨t, hat _ rfl, by rw [hlc]; exact hchain, hroot.symm, htx'.symm, hh.2, hh.1, ?_⟩
      intro txs htxs
      rw [← hroot, htxs] at hver
      unfold txsHash at hver
      have hver' : verify H (root H (txs.map H)) (H res.proof.data) res.proof.proof = .ok () := by rw [hver]
      rcases verify_inclusion_any H L hL hlen _ _ _ hver' with hm | hc
      · rw [List.mem_map] at hm
        obtain ⟨tx, hmem, heq⟩ := hm
        by_cases hx : tx = res.proof.data
        · left; rw [← htx', ← hx]; exact hmem
        · right; exact ⟨⟨_, _, hx, heq⟩⟩
      · right; exact hc
    · cases hval

/-- **Soundness (Tx), with the collision located.** As `relay_sound_tx`, but the alternative to "the
transaction is in the block" is a collision between two DIFFERENT strings that were actually hashed in
this run: on the answer's side the transaction, the leaf preimage `0x00‖H(tx)` and the inner nodes
of the claimed path; on the chain's side the block's transactions and the nodes of its data tree.
(For a fixed-length `H` "some collision exists" holds by counting; a collision inside these
linearly many listed inputs does not.) -/
theorem relay_sound_tx_traced (L : Nat) (hL : 0 < L) (hlen : ∀ x, (H x).length = L)
    (lc lc' : LC) (reqHash : Bytes) (res : ResultTx)
    (hacc : verifyTx H lc reqHash res = (.ok, lc')) :
    ∃ t, lc.at? res.height = some t ∧ res.proof.rootHash = t.header.dataHash ∧
      res.tx = res.proof.data ∧ H res.tx = reqHash ∧
      (∀ txs, t.header.dataHash = txsHash H txs →
        res.tx ∈ txs ∨
          CollisionIn H
            (res.tx :: (0 :: H res.tx) ::
              pathPre H res.proof.proof.total.toNat res.proof.proof.index.toNat res.proof.proof.total.toNat
                (leafHash H (H res.tx)) res.proof.proof.aunts)
            (txs ++ rootPre H (txs.map H).length (txs.map H))) := by
  obtain ⟨t, hat, _, hroot, htx, _, hh, _⟩ := relay_sound_tx H L hL hlen lc lc' reqHash res hacc
  refine ⟨t, hat, hroot, htx, hh, ?_⟩
  -- the proof verified against the trusted data hash
  have hval : validate H t.header.dataHash res.proof = .ok () := by
    unfold verifyTx at hacc
    split at hacc; · simp at hacc
    split at hacc
    · simp at hacc
    · rename_i t' lc1 hupd
      obtain ⟨_, _, hat'⟩ := updateTo_ok lc lc1 _ t' hupd
      have : t' = t := by
        have := hat' _ rfl
        rw [hat] at this
        exact (Option.some.inj this).symm
      subst this
      split at hacc
      all_goals try (simp at hacc; done)
      rename_i u hv
      cases u; exact hv
  intro txs htxs
  unfold TxProof.validate at hval
  split at hval; · cases hval
  split at hval; · cases hval
  split at hval; · cases hval
  split at hval
  · rename_i u2 hver
    rw [hroot, htxs] at hver
    unfold txsHash at hver
    have hver' : verify H (root H (txs.map H)) (H res.proof.data) res.proof.proof = .ok () := by rw [hver]
    rw [← htx] at hver'
    rcases verify_inclusion_any_traced H L hL hlen _ _ _ hver' with hm | hcol
    · rw [List.mem_map] at hm
      obtain ⟨tx, hmem, heq⟩ := hm
      by_cases hx : res.tx = tx
      · left; rw [hx]; exact hmem
      · right; exact ⟨res.tx, tx, by simp, by simp [hmem], hx, heq.symm⟩
    · right
      refine hcol.mono H ?_ ?_
      · intro x hx
        simp only [List.mem_cons] at hx ⊢
        rcases hx with hx | hx
        · exact Or.inr (Or.inl hx)
        · exact Or.inr (Or.inr hx)
      · intro x hx
        simp only [List.mem_append]
        exact Or.inr hx
  · cases hval

/-- **Completeness (Tx with proof).** The answer an honest node builds (`Txs.Proof(i)`, the bytes, their
hash, any index label and result) for a block whose header the providers have is relayed. -/
theorem relay_complete_tx (L : Nat) (hL : 0 < L) (hlen : ∀ x, (H x).length = L)
    (lc : LC) (k : Int) (hk : 0 < k) (t : LightBlock) (hat : lc.at? k = some t)
    (txs : List Bytes) (hd : t.header.dataHash = txsHash H txs) (i : Nat) (hi : i < txs.length)
    (idx : Nat) (code : Nat) (data : Bytes) :
    ∃ lc', verifyTx H lc (H txs[i])
      { hash := H txs[i], height := k, index := idx, tx := txs[i], resultCode := code,
        resultData := data, proof := proofFor H txs i } = (.ok, lc') := by
  obtain ⟨lc1, hupd⟩ := updateTo_some_complete lc k t hat
  have hv := proofFor_validates H txs i hi
  refine ⟨lc1, ?_⟩
  unfold verifyTx
  have hk' : ¬ k ≤ 0 := by omega
  simp only [hk', if_false, hupd, hd, hv]
  have hdata : (proofFor H txs i).data = txs[i] := by
    simp [proofFor, List.getD_eq_getElem?_getD, hi]
  simp [hdata]

/-- **Soundness (TxSearch with proofs).** In a relayed answer every listed transaction is non-nil,
names a height the providers have, carries a proof whose root is that header's `DataHash`, its bytes
are the proven bytes and hash to its hash label, and it is one of the transactions of the block
under that header — or a collision is exhibited. (Which transactions are listed, `TotalCount`, the
`Index` labels and the results are bound by no header.) -/
theorem relay_sound_txSearch (L : Nat) (hL : 0 < L) (hlen : ∀ x, (H x).length = L) :
    ∀ (results : List (Option ResultTx)) (lc lc' : LC), verifyTxSearch H lc results = (.ok, lc') →
      lc'.chain = lc.chain ∧
      ∀ x ∈ results, ∃ res t, x = some res ∧ lc.at? res.height = some t ∧
        res.proof.rootHash = t.header.dataHash ∧ res.tx = res.proof.data ∧ H res.tx = res.hash ∧
        (∀ txs, t.header.dataHash = txsHash H txs → res.tx ∈ txs ∨ Nonempty (Collision H)) := by
  intro results
  induction results with
  | nil => intro lc lc' h; simp [verifyTxSearch] at h; subst h; simp
  | cons x rest ih =>
    intro lc lc' hacc
    cases x with
    | none => simp [verifyTxSearch] at hacc
    | some res =>
      simp only [verifyTxSearch] at hacc
      split at hacc; · simp at hacc
      split at hacc
      · simp at hacc
      · rename_i t lc1 hupd
        obtain ⟨hchain, _, hat⟩ := updateTo_ok lc lc1 _ t hupd
        split at hacc
        all_goals try (simp at hacc; done)
        rename_i u hval
        split at hacc; · simp at hacc
        rename_i hmm
        obtain ⟨hc2, hrest⟩ := ih lc1 lc' hacc
        have htx : res.proof.data = res.tx := by
          rcases Decidable.em (res.proof.data = res.tx) with h | h
          · exact h
          · exact absurd (Or.inl h) hmm
        have hh : H res.tx = res.hash := by
          rcases Decidable.em (H res.tx = res.hash) with h | h
          · exact h
          · exact absurd (Or.inr h) hmm
        refine ⟨by rw [hc2, hchain], ?_⟩
        intro y hy
        simp only [List.mem_cons] at hy
        rcases hy with rfl | hy
        · unfold TxProof.validate at hval
          split at hval; · cases hval
          rename_i hdh
          split at hval; · cases hval
          split at hval; · cases hval
          split at hval
          · rename_i u2 hver
            have hroot : t.header.dataHash = res.proof.rootHash := by simpa using hdh
            refine ⟨res, t, rfl, hat _ rfl, hroot.symm, htx.symm, hh, ?_⟩
            intro txs htxs
            rw [← hroot, htxs] at hver
            unfold txsHash at hver
            have hver' : verify H (root H (txs.map H)) (H res.proof.data) res.proof.proof = .ok () := by rw [hver]
            rcases verify_inclusion_any H L hL hlen _ _ _ hver' with hm | hc
            · rw [List.mem_map] at hm
              obtain ⟨tx, hmem, heq⟩ := hm
              by_cases hx : tx = res.proof.data
              · left; rw [← htx, ← hx]; exact hmem
              · right; exact ⟨⟨_, _, hx, heq⟩⟩
            · right; exact hc
          · cases hval
        · obtain ⟨r', t', e1, e2, e3⟩ := hrest y hy
          exact ⟨r', t', e1, by rw [← at?_of_chain_eq lc lc1 hchain]; exact e2, e3⟩

/-- **Completeness (TxSearch with proofs).** What an honest node's `TxSearch` returns — for each hit the
transaction, its hash and `Txs.Proof(index)` of the block at its height — is relayed, whatever the
hits, their order and the light client's store. -/
theorem relay_complete_txSearch (L : Nat) (hL : 0 < L) (hlen : ∀ x, (H x).length = L)
    (txsAt : Int → List Bytes) :
    ∀ (hits : List Hit) (lc : LC),
      (∀ h ∈ hits, 0 < h.height ∧ h.index < (txsAt h.height).length ∧
        ∃ t, lc.at? h.height = some t ∧ t.header.dataHash = txsHash H (txsAt h.height)) →
      ∃ lc', verifyTxSearch H lc (hits.map fun h => some
        { hash := H ((txsAt h.height).getD h.index []), height := h.height, index := h.index,
          tx := (txsAt h.height).getD h.index [], resultCode := 0, resultData := [],
          proof := proofFor H (txsAt h.height) h.index }) = (.ok, lc') := by
  intro hits
  induction hits with
  | nil => intro lc _; exact ⟨lc, rfl⟩
  | cons h rest ih =>
    intro lc hall
    obtain ⟨hpos, hi, t, hat, hd⟩ := hall h (by simp)
    obtain ⟨lc1, hupd⟩ := updateTo_some_complete lc _ t hat
    obtain ⟨hchain, _, _⟩ := updateTo_ok lc lc1 _ t hupd
    have hrest : ∀ h' ∈ rest, 0 < h'.height ∧ h'.index < (txsAt h'.height).length ∧
        ∃ t, lc1.at? h'.height = some t ∧ t.header.dataHash = txsHash H (txsAt h'.height) := by
      intro h' hh'
      obtain ⟨a, b, t', c, d⟩ := hall h' (by simp [hh'])
      exact ⟨a, b, t', by rw [at?_of_chain_eq lc lc1 hchain]; exact c, d⟩
    obtain ⟨lc2, h2⟩ := ih lc1 hrest
    refine ⟨lc2, ?_⟩
    have hv := proofFor_validates H (txsAt h.height) h.index hi
    have hk : ¬ h.height ≤ 0 := by omega
    simp only [List.map_cons, verifyTxSearch, hk, if_false, hupd, hd, hv]
    have hdata : (proofFor H (txsAt h.height) h.index).data = (txsAt h.height).getD h.index [] := by
      simp [proofFor]
    simp only [hdata, ne_eq, not_true_eq_false, or_self, if_false]
    exact h2

/-- the full statement one would want for the `Index` label of a transaction answer -/
def TxBindsIndex : Prop :=
  ∀ (H : Bytes → Bytes) (lc lc' : LC) (reqHash : Bytes) (res : ResultTx),
    verifyTx H lc reqHash res = (.ok, lc') → (res.index : Int) = res.proof.proof.index

/-! ## BlockResults -/

/-- **Soundness (BlockResults).** A relayed answer is labelled with the requested height `h`, the
providers have height `h+1`, and the (deterministic part of the) DeliverTx results are exactly those
whose root the header `h+1` carries as `LastResultsHash` — or a collision is exhibited. Events, logs,
validator and parameter updates are bound by no header and not claimed. -/
theorem relay_sound_blockResults (L : Nat) (hlen : ∀ x, (H x).length = L)
    (lc lc' : LC) (h resHeight : Int) (rs : List TxResult)
    (hacc : verifyBlockResults H lc h resHeight rs = (.ok, lc')) :
    resHeight = h ∧ 0 < h ∧ ∃ t, lc.at? (h + 1) = some t ∧ lc'.chain = lc.chain ∧
      resultsHash H rs = t.header.lastResultsHash ∧
      (∀ rs', t.header.lastResultsHash = resultsHash H rs' →
        (∀ r ∈ rs, r.WF) → (∀ r ∈ rs', r.WF) → rs = rs' ∨ Nonempty (Collision H)) := by
  unfold verifyBlockResults at hacc
  split at hacc; · simp at hacc
  rename_i hpos
  split at hacc; · simp at hacc
  rename_i hlab
  have hlab' : resHeight = h := by simpa using hlab
  split at hacc
  · simp at hacc
  · rename_i t lc1 hupd
    obtain ⟨hchain, _, hat⟩ := updateTo_ok lc lc1 _ t hupd
    split at hacc; · simp at hacc
    rename_i hhash
    have hhash' : resultsHash H rs = t.header.lastResultsHash := by simpa using hhash
    have hlc : lc' = lc1 := by simp at hacc; exact hacc.symm
    refine ⟨hlab', by omega, t, hat _ rfl, by rw [hlc]; exact hchain, hhash', ?_⟩
    intro rs' hrs' hw hw'
    rw [hrs'] at hhash'
    rcases root_inj H L hlen _ _ hhash' with hm | hc
    · left; exact map_enc_inj rs rs' hw hw' hm
    · right; exact hc

/-- **Completeness (BlockResults).** The honest results of block `h`, labelled `h`, are relayed as soon
as the providers have block `h+1` (whose `LastResultsHash` is their root, by `updateState`). -/
theorem relay_complete_blockResults (lc : LC) (h : Int) (hpos : 0 < h) (t : LightBlock)
    (hat : lc.at? (h + 1) = some t) (rs : List TxResult)
    (hr : t.header.lastResultsHash = resultsHash H rs) :
    ∃ lc', verifyBlockResults H lc h h rs = (.ok, lc') := by
  obtain ⟨lc1, hupd⟩ := updateTo_some_complete lc (h + 1) t hat
  refine ⟨lc1, ?_⟩
  unfold verifyBlockResults
  have : ¬ h ≤ 0 := by omega
  simp [this, hupd, hr]

/-! ## ConsensusParams -/

/-- the bytes `HashConsensusParams` hashes -/
def hashedParams (p : Params) : Bytes := fVarint 0x08 (u64 p.maxBytes) ++ fVarint 0x10 (u64 p.maxGas)

/-- **Soundness (ConsensusParams).** A relayed answer passes `ValidateConsensusParams`, names a height
the providers have, and its hashed part (Block.MaxBytes, Block.MaxGas) encodes like that of the
parameters committed by that header's `ConsensusHash` — or a collision. The other parameters are
bound by no header. -/
theorem relay_sound_params (lc lc' : LC) (req : Option Int) (blockHeight : Int) (p : Params)
    (hacc : verifyParams H lc req blockHeight p = (.ok, lc')) :
    p.validate = true ∧ (∀ k, req = some k → blockHeight = k) ∧
    ∃ t, lc.at? blockHeight = some t ∧ lc'.chain = lc.chain ∧
      p.hash H = t.header.consensusHash ∧
      (∀ p' : Params, t.header.consensusHash = p'.hash H →
        I64 p.maxBytes → I64 p.maxGas → I64 p'.maxBytes → I64 p'.maxGas →
        (p.maxBytes = p'.maxBytes ∧ p.maxGas = p'.maxGas) ∨ Nonempty (Collision H)) := by
  unfold verifyParams at hacc
  split at hacc; · simp at hacc
  rename_i hv
  split at hacc; · simp at hacc
  split at hacc; · simp at hacc
  rename_i hreq
  have hreq' : ∀ k, req = some k → blockHeight = k := by
    intro k hk; subst hk
    simpa using hreq
  split at hacc
  · simp at hacc
  · rename_i t lc1 hupd
    obtain ⟨hchain, _, hat⟩ := updateTo_ok lc lc1 _ t hupd
    split at hacc; · simp at hacc
    rename_i hhash
    have hhash' : p.hash H = t.header.consensusHash := by simpa using hhash
    have hlc : lc' = lc1 := by simp at hacc; exact hacc.symm
    refine ⟨by simpa using hv, hreq', t, hat _ rfl, by rw [hlc]; exact hchain, hhash', ?_⟩
    intro p' hp' b1 g1 b2 g2
    rw [hp'] at hhash'
    unfold Params.hash at hhash'
    by_cases hx : hashedParams p = hashedParams p'
    · left
      unfold hashedParams at hx
      have s10 : ∀ n : Nat, StartsNot 0x08 (fVarint 0x10 n ++ []) := fun n =>
        fVarint_startsNot _ _ _ _ (by decide) (startsNot_nil _)
      have hx' : fVarint 0x08 (u64 p.maxBytes) ++ (fVarint 0x10 (u64 p.maxGas) ++ [])
          = fVarint 0x08 (u64 p'.maxBytes) ++ (fVarint 0x10 (u64 p'.maxGas) ++ []) := by simpa using hx
      obtain ⟨e1, h1⟩ := fVarint_append_inj _ _ _ _ _ (u64_lt _ b1) (u64_lt _ b2) (s10 _) (s10 _) hx'
      obtain ⟨e2, _⟩ := fVarint_append_inj _ _ _ _ _ (u64_lt _ g1) (u64_lt _ g2) (startsNot_nil _) (startsNot_nil _) h1
      exact ⟨u64_inj _ _ b1 b2 e1, u64_inj _ _ g1 g2 e2⟩
    · right; exact ⟨⟨_, _, hx, hhash'⟩⟩

/-- **Completeness (ConsensusParams).** Valid parameters whose hash the header carries are relayed. -/
theorem relay_complete_params (lc : LC) (k : Int) (hk : 0 < k) (t : LightBlock)
    (hat : lc.at? k = some t) (p : Params) (hv : p.validate = true)
    (hh : t.header.consensusHash = p.hash H) (req : Option Int) (hreq : req = none ∨ req = some k) :
    ∃ lc', verifyParams H lc req k p = (.ok, lc') := by
  obtain ⟨lc1, hupd⟩ := updateTo_some_complete lc k t hat
  refine ⟨lc1, ?_⟩
  unfold verifyParams
  have : ¬ k ≤ 0 := by omega
  rcases hreq with rfl | rfl <;> simp [hv, this, hupd, hh]

/-! ## BlockchainInfo -/

/-- **Soundness (BlockchainInfo).** In a relayed answer every block meta is non-nil, names a height the
providers have, its header hashes to the verified header's hash (so its encoded fields are the
verified ones, or a collision is exhibited) and its `BlockID.Hash` is that hash. `BlockSize`,
`NumTxs`, `LastHeight` are bound by no header; for `BlockID.PartSetHeader` see
`relay_sound_blockchainInfo_partSetHeader_fails`. -/
theorem relay_sound_blockchainInfo (L : Nat) (hL : 0 < L) (hlen : ∀ x, (H x).length = L)
    (lc lc' : LC) (hok : ChainOK lc) (minH maxH : Int) (metas : List (Option BlockMeta))
    (hacc : verifyBlockchainInfo H lc minH maxH metas = (.ok, lc')) :
    lc'.chain = lc.chain ∧
    ∀ x ∈ metas, ∃ m t, x = some m ∧ lc.at? m.header.height = some t ∧
      m.header.hash H = t.header.hash H ∧ m.blockID.hash = t.header.hash H ∧
      InRange minH maxH m.header.height ∧
      (m.header.fields = t.header.fields ∨ Nonempty (Collision H)) := by
  unfold verifyBlockchainInfo at hacc
  split at hacc
  · rename_i v hsome
    simp only [Prod.mk.injEq] at hacc
    rw [hacc.1] at hsome
    exact absurd hsome (checkMetas_ne_ok H minH maxH metas)
  rename_i hchk
  have hck := checkMetas_none H minH maxH metas hchk
  have hvalid : ∀ x ∈ metas, ∀ m, x = some m → m.validateBasic H = true := by
    intro x hx m hm
    obtain ⟨m', e, hv, _⟩ := hck x hx
    rw [hm] at e; simp only [Option.some.injEq] at e; subst e; exact hv
  have hrange : ∀ x ∈ metas, ∀ m, x = some m → InRange minH maxH m.header.height := by
    intro x hx m hm
    obtain ⟨m', e, _, hr⟩ := hck x hx
    rw [hm] at e; simp only [Option.some.injEq] at e; subst e; exact hr
  have key : ∀ lcA : LC, lcA.chain = lc.chain → verifyMetas H lcA metas = (.ok, lc') →
      lc'.chain = lc.chain ∧
      ∀ x ∈ metas, ∃ m t, x = some m ∧ lc.at? m.header.height = some t ∧
        m.header.hash H = t.header.hash H ∧ m.blockID.hash = t.header.hash H ∧
        InRange minH maxH m.header.height ∧
        (m.header.fields = t.header.fields ∨ Nonempty (Collision H)) := by
    intro lcA hA hv
    obtain ⟨hc, hall⟩ := verifyMetas_sound H metas lcA lc' hv
    refine ⟨by rw [hc, hA], ?_⟩
    intro x hx
    obtain ⟨m, t, e1, e2, e3⟩ := hall x hx
    rw [at?_of_chain_eq lc lcA hA] at e2
    have hvb := hvalid x hx m e1
    simp only [BlockMeta.validateBasic, Bool.and_eq_true, decide_eq_true_eq] at hvb
    refine ⟨m, t, e1, e2, e3, by rw [hvb.2, e3], hrange x hx m e1, ?_⟩
    have htv : t.header.validatorsHash ≠ [] := hok.vh _ _ e2
    unfold Header.hash at e3
    by_cases hbv : m.header.validatorsHash = []
    · simp only [hbv, htv, if_true, if_false] at e3
      have := rootF_len H L hlen t.header.fields.length t.header.fields
      unfold root at e3
      rw [← e3] at this
      simp at this; omega
    · simp only [hbv, htv, if_false] at e3
      exact root_inj H L hlen _ _ e3
  split at hacc
  · rename_i m hlast
    split at hacc
    · rename_i t lc1 hupd
      obtain ⟨hchain, _, _⟩ := updateTo_ok lc lc1 _ t hupd
      exact key lc1 hchain hacc
    · simp at hacc
  · exact key lc rfl hacc

/-- **Completeness (BlockchainInfo).** An answer all of whose metas carry the header of the block the
providers have at that height, inside the requested range, with the `BlockID` whose hash is the
header's, is relayed — whatever
the number and order of the listed heights and whatever the light client had stored before. -/
theorem relay_complete_blockchainInfo (lc : LC) (minH maxH : Int) (metas : List (Option BlockMeta))
    (hall : ∀ x ∈ metas, ∃ m t, x = some m ∧ lc.at? m.header.height = some t ∧ m.header = t.header ∧
      m.blockID.hash = t.header.hash H ∧ m.blockID.validateBasic = true ∧
      InRange minH maxH m.header.height) :
    ∃ lc', verifyBlockchainInfo H lc minH maxH metas = (.ok, lc') := by
  have hany : checkMetas H minH maxH metas = none := by
    apply checkMetas_complete
    intro x hx
    obtain ⟨m, t, e1, _, e3, e4, e5, e6⟩ := hall x hx
    exact ⟨m, e1, by simp [BlockMeta.validateBasic, e5, e4, e3], e6⟩
  have hall' : ∀ lcA : LC, lcA.chain = lc.chain →
      ∀ x ∈ metas, ∃ m t, x = some m ∧ lcA.at? m.header.height = some t ∧ m.header = t.header := by
    intro lcA hA x hx
    obtain ⟨m, t, e1, e2, e3, _⟩ := hall x hx
    exact ⟨m, t, e1, by rw [at?_of_chain_eq lc lcA hA]; exact e2, e3⟩
  unfold verifyBlockchainInfo
  simp only [hany]
  cases hl : metas.getLast? with
  | none => exact verifyMetas_complete H metas lc (hall' lc rfl)
  | some o =>
    cases o with
    | none => exact verifyMetas_complete H metas lc (hall' lc rfl)
    | some m =>
      have hmem : some m ∈ metas := List.mem_of_getLast? hl
      obtain ⟨m', t, e1, e2, _⟩ := hall _ hmem
      simp only [Option.some.injEq] at e1
      subst e1
      obtain ⟨lc1, hupd⟩ := updateTo_some_complete lc _ t e2
      obtain ⟨hchain, _, _⟩ := updateTo_ok lc lc1 _ t hupd
      simp only [hupd]
      exact verifyMetas_complete H metas lc1 (hall' lc1 hchain)

/-! ## ABCIQuery (value proofs through the default proof runtime) -/

/-- store names and keys of an application state are non-empty (the client refuses an empty key, the
path regexp an empty store name) -/
def StoresNE (stores : List (Bytes × Store)) : Prop :=
  ∀ s ∈ stores, s.1 ≠ [] ∧ ∀ kv ∈ s.2, kv.1 ≠ []

/-- what `VerifyValue` establishes, for ANY number of proof operators, against a two-level
application state: the named store exists and either holds exactly the claimed pair, or — the one
way out — it holds under that key a value of hash length and the answer contains keyless operators
(whose computed root was passed off as that value). -/
theorem verifyValue_sound (L : Nat) (hL : 0 < L) (hL64 : L < 2 ^ 64) (hlen : ∀ x, (H x).length = L)
    (ops : List ProofOp) (hne : ops ≠ []) (stores : List (Bytes × Store)) (s' k' v : Bytes)
    (hwf : StoresWF stores) (hnem : StoresNE stores) (hsl : s'.length < 2 ^ 64) (hkl : k'.length < 2 ^ 64)
    (hver : verifyValue H ops (appHashOf H stores) [s', k'] v = true) :
    (∃ kvs, (s', kvs) ∈ stores ∧
      ((k', v) ∈ kvs ∨ ∃ v'', (k', v'') ∈ kvs ∧ v''.length = L ∧ ∃ o ∈ ops, o.key = []))
      ∨ Nonempty (Collision H) := by
  by_cases hno : Nonempty (Collision H)
  · right; exact hno
  left
  simp only [verifyValue, Bool.and_eq_true] at hver
  obtain ⟨_, hrun⟩ := hver
  cases hr : runOps H ops [s', k'] v with
  | none => simp [hr] at hrun
  | some p =>
  obtain ⟨kfin, ofin⟩ := p
  simp only [hr, Bool.and_eq_true, decide_eq_true_eq] at hrun
  obtain ⟨hroot, hk0⟩ := hrun
  subst hk0
  -- the last operator
  rcases List.eq_nil_or_concat ops with h0 | ⟨pre, on, hops⟩
  · exact absurd h0 hne
  rw [List.concat_eq_append] at hops
  subst hops
  rw [runOps_append] at hr
  cases hp : runOps H pre [s', k'] v with
  | none => simp [hp] at hr
  | some p1 =>
  obtain ⟨K1, a1⟩ := p1
  simp only [hp, Option.bind_some] at hr
  obtain ⟨hrn, hkn⟩ := runOps_single H on K1 a1 [] ofin hr
  have hroot' : ofin = root H (appLeaves H stores) := by rw [← hroot]; rfl
  have hm := (runOp_inclusion H L hL hlen on a1 ofin _ hrn hroot').resolve_right hno
  simp only [appLeaves, List.mem_map] at hm
  obtain ⟨sn, hsn, heq⟩ := hm
  obtain ⟨hsz, hkz⟩ := hwf sn hsn
  obtain ⟨hsne, hkne⟩ := hnem sn hsn
  -- `on` carries a key, and it is the only key left
  have honk : on.key ≠ [] ∧ K1 = [on.key] := by
    rcases hkn with ⟨he, hK⟩ | ⟨hne', hl, hd⟩
    · -- keyless last operator: its leaf would be a store with an empty name
      exfalso
      have hlen0 : on.key.length < 2 ^ 64 := by rw [he]; simp
      obtain ⟨e1, _⟩ := kvBytes_inj H L hL64 hlen _ _ _ _ hsz hlen0 heq
      exact hsne (by rw [e1, he])
    · refine ⟨hne', ?_⟩
      obtain ⟨ys, rfl⟩ := List.getLast?_eq_some_iff.mp hl
      simp at hd
      subst hd
      rfl
  obtain ⟨honne, hK1⟩ := honk
  subst hK1
  -- pre is not empty, peel its last operator
  rcases List.eq_nil_or_concat pre with h0 | ⟨pre2, om, hpre⟩
  · subst h0; simp [runOps] at hp
  rw [List.concat_eq_append] at hpre
  subst hpre
  rw [runOps_append] at hp
  cases hp2 : runOps H pre2 [s', k'] v with
  | none => simp [hp2] at hp
  | some p2 =>
  obtain ⟨K2, a2⟩ := p2
  simp only [hp2, Option.bind_some] at hp
  obtain ⟨hrm, hkm⟩ := runOps_single H om K2 a2 [on.key] a1 hp
  -- keys are consumed from the end: what is left is a prefix of the key path
  have hsuf : ∀ (xs : List ProofOp) (keys : List Bytes) (arg : Bytes) (keys' : List Bytes) (out : Bytes),
      runOps H xs keys arg = some (keys', out) → ∃ c, keys = keys' ++ c := by
    intro xs
    induction xs with
    | nil => intro keys arg keys' out h; simp [runOps] at h; exact ⟨[], by rw [h.1]; simp⟩
    | cons o rest ih =>
      intro keys arg keys' out h
      have happ := runOps_append H [o] rest keys arg
      simp only [List.singleton_append] at happ
      rw [happ] at h
      cases h1 : runOps H [o] keys arg with
      | none => simp [h1] at h
      | some q =>
        obtain ⟨kq, oq⟩ := q
        simp only [h1, Option.bind_some] at h
        obtain ⟨c, hc⟩ := ih kq oq keys' out h
        obtain ⟨_, hk⟩ := runOps_single H o keys arg kq oq h1
        rcases hk with ⟨_, e⟩ | ⟨_, hl, e⟩
        · exact ⟨c, by rw [← e, hc]⟩
        · obtain ⟨ys, rfl⟩ := List.getLast?_eq_some_iff.mp hl
          simp at e
          exact ⟨c ++ [o.key], by subst e; rw [hc]; simp⟩
  obtain ⟨c2, hc2⟩ := hsuf pre2 [s', k'] v K2 a2 hp2
  have hons : on.key = s' := by
    rcases hkm with ⟨_, hK⟩ | ⟨_, hml, hmd⟩
    · rw [← hK] at hc2; simp at hc2; exact hc2.1.symm
    · obtain ⟨ys, rfl⟩ := List.getLast?_eq_some_iff.mp hml
      simp at hmd
      subst hmd
      simp at hc2
      exact hc2.1.symm
  have hs'eq : sn.1 = on.key ∧ H (storeRoot H sn.2) = H a1 :=
    kvBytes_inj H L hL64 hlen _ _ _ _ hsz (by rw [hons]; exact hsl) heq
  have hx : storeRoot H sn.2 = a1 := by
    by_cases hx : storeRoot H sn.2 = a1
    · exact hx
    · exact absurd ⟨⟨_, _, hx, hs'eq.2⟩⟩ hno
  have hm1 := (runOp_inclusion H L hL hlen om a2 a1 (storeLeaves H sn.2) hrm hx.symm).resolve_right hno
  simp only [storeLeaves, List.mem_map] at hm1
  obtain ⟨kv, hkv, heq1⟩ := hm1
  -- `om` carries a key as well (an empty key is in no store)
  rcases hkm with ⟨hmk, _⟩ | ⟨hmne, hml, hmd⟩
  · exfalso
    have hl0 : om.key.length < 2 ^ 64 := by rw [hmk]; simp
    obtain ⟨e3, _⟩ := kvBytes_inj H L hL64 hlen _ _ _ _ (hkz kv hkv) hl0 heq1
    exact hkne kv hkv (by rw [e3, hmk])
  have hK2 : K2 = [on.key, om.key] := by
    obtain ⟨ys, rfl⟩ := List.getLast?_eq_some_iff.mp hml
    simp at hmd
    subst hmd
    rfl
  have ek : om.key = k' := by
    rw [hK2] at hc2
    cases c2 with
    | nil => simp at hc2; exact hc2.2.symm
    | cons a b => simp at hc2
  obtain ⟨e3, e4⟩ := kvBytes_inj H L hL64 hlen _ _ _ _ (hkz kv hkv) (by rw [ek]; exact hkl) heq1
  have hy : kv.2 = a2 := by
    by_cases hy : kv.2 = a2
    · exact hy
    · exact absurd ⟨⟨_, _, hy, e4⟩⟩ hno
  have hsn' : sn = (s', sn.2) := Prod.ext (by simp [hs'eq.1, hons]) rfl
  refine ⟨sn.2, by rw [← hsn']; exact hsn, ?_⟩
  -- the operators before `om` consumed no key: none ⇒ a2 = v, some ⇒ keyless operators
  cases pre2 with
  | nil =>
    have hva : a2 = v := by
      simp [runOps] at hp2
      first | exact hp2.2.symm | exact hp2.2
    left
    have : kv = (k', v) := Prod.ext (by simp [e3, ek]) (by simp [hy, hva])
    rw [← this]; exact hkv
  | cons o1 rest1 =>
    right
    have hl2 : a2.length = L := by
      rcases List.eq_nil_or_concat (o1 :: rest1) with h0 | ⟨q, ol, hq⟩
      · cases h0
      · rw [List.concat_eq_append] at hq
        rw [hq, runOps_append] at hp2
        cases h5 : runOps H q [s', k'] v with
        | none => simp [h5] at hp2
        | some p5 =>
          simp only [h5, Option.bind_some] at hp2
          exact runOp_len H L hlen ol _ _ (runOps_single H ol _ _ _ _ hp2).1
    have hkeyless : ∃ o ∈ (o1 :: rest1) ++ [om] ++ [on], o.key = [] := by
      by_cases h1 : o1.key = []
      · exact ⟨o1, by simp, h1⟩
      · exfalso
        have happ := runOps_append H [o1] rest1 [s', k'] v
        simp only [List.singleton_append] at happ
        rw [happ] at hp2
        cases h6 : runOps H [o1] [s', k'] v with
        | none => simp [h6] at hp2
        | some p6 =>
          obtain ⟨k6, o6⟩ := p6
          simp only [h6, Option.bind_some] at hp2
          obtain ⟨_, hk6⟩ := runOps_single H o1 _ _ _ _ h6
          rcases hk6 with ⟨he, _⟩ | ⟨_, _, hd6⟩
          · exact h1 he
          · obtain ⟨c6, hc6⟩ := hsuf rest1 k6 o6 K2 a2 hp2
            rw [hd6, hK2] at hc6
            have := congrArg List.length hc6
            simp at this
            all_goals omega
    refine ⟨kv.2, ?_, by rw [hy]; exact hl2, hkeyless⟩
    have : kv = (k', kv.2) := Prod.ext (by simp [e3, ek]) rfl
    rw [← this]; exact hkv

/-- what an accepted answer went through in `ABCIQueryWithOptions` -/
theorem verifyABCI_ok_inv (lc lc' : LC) (store : Option Bytes) (r : ABCIResp)
    (hacc : verifyABCI H lc store r = (.ok, lc')) :
    r.code = 0 ∧ r.key ≠ [] ∧ r.ops ≠ [] ∧ 0 < r.height ∧
    ∃ (t : LightBlock) (v st s' k' : Bytes), lc.at? (r.height + 1) = some t ∧ lc'.chain = lc.chain ∧
      r.value = some v ∧ store = some st ∧ keyRoundTrip st = some s' ∧ keyRoundTrip r.key = some k' ∧
      verifyValue H r.ops t.header.appHash [s', k'] v = true := by
  unfold verifyABCI at hacc
  split at hacc; · simp at hacc
  rename_i hcode
  split at hacc; · simp at hacc
  rename_i hkey
  split at hacc; · simp at hacc
  rename_i hops
  split at hacc; · simp at hacc
  rename_i hh
  split at hacc
  · simp at hacc
  · rename_i t lc1 hupd
    obtain ⟨hchain, _, hat⟩ := updateTo_ok lc lc1 _ t hupd
    cases hv : r.value with
    | none => simp [hv] at hacc
    | some v =>
    cases store with
    | none => simp [hv] at hacc
    | some st =>
    cases hs' : keyRoundTrip st with
    | none => simp [hv, hs'] at hacc
    | some s' =>
    cases hk' : keyRoundTrip r.key with
    | none => simp [hv, hs', hk'] at hacc
    | some k' =>
    simp only [hv, hs', hk'] at hacc
    by_cases hver : verifyValue H r.ops t.header.appHash [s', k'] v = true
    case neg => simp [hver] at hacc
    case pos =>
      have hlc : lc' = lc1 := by simp [hver] at hacc; exact hacc.symm
      have hops' : r.ops ≠ [] := by
        intro e; exact hops (Or.inr e)
      exact ⟨by simpa using hcode, hkey, hops', by omega, t, v, st, s', k', hat _ rfl,
        by rw [hlc]; exact hchain, rfl, rfl, hs', rfl, hver⟩

/-- **Soundness (ABCIQuery), any number of proof operators.** A relayed answer has code 0, a value, a
non-empty key, names a height whose successor the providers have, and — against any application
state (named stores of key/value pairs, names and keys non-empty) whose `AppHash` that successor
header carries — the store named in the path EXISTS and EITHER holds exactly the returned
(key, value) (path and key read through the key-path round trip), OR the answer contains a keyless
operator and the store holds under that key a value that has the length of a hash (the keyless
operators' computed root was passed off as that value: `abci_keyless_operator` finding), or a
collision is exhibited. Nothing else can happen, for any number and arrangement of operators. -/
theorem relay_sound_abci (L : Nat) (hL : 0 < L) (hL64 : L < 2 ^ 64) (hlen : ∀ x, (H x).length = L)
    (lc lc' : LC) (store : Option Bytes) (r : ABCIResp)
    (hacc : verifyABCI H lc store r = (.ok, lc')) :
    r.code = 0 ∧ ∃ t v st s' k', lc.at? (r.height + 1) = some t ∧ lc'.chain = lc.chain ∧
      r.value = some v ∧ store = some st ∧ keyRoundTrip st = some s' ∧ keyRoundTrip r.key = some k' ∧
      (∀ stores, t.header.appHash = appHashOf H stores → StoresWF stores → StoresNE stores →
        s'.length < 2 ^ 64 → k'.length < 2 ^ 64 →
        (∃ kvs, (s', kvs) ∈ stores ∧
          ((k', v) ∈ kvs ∨ ∃ v'', (k', v'') ∈ kvs ∧ v''.length = L ∧ ∃ o ∈ r.ops, o.key = []))
        ∨ Nonempty (Collision H)) := by
  obtain ⟨hc, _, hops, _, t, v, st, s', k', h1, h2, h3, h4, h5, h6, hver⟩ := verifyABCI_ok_inv H lc lc' store r hacc
  refine ⟨hc, t, v, st, s', k', h1, h2, h3, h4, h5, h6, ?_⟩
  intro stores happ hwf hnem hsl hkl
  rw [happ] at hver
  exact verifyValue_sound H L hL hL64 hlen r.ops hops stores s' k' v hwf hnem hsl hkl hver

/-- … in particular: if no value of the application has the length of a hash, or the answer has no
keyless operator, the returned pair IS in the named store. -/
theorem relay_sound_abci_no_hash_values (L : Nat) (hL : 0 < L) (hL64 : L < 2 ^ 64) (hlen : ∀ x, (H x).length = L)
    (lc lc' : LC) (store : Option Bytes) (r : ABCIResp)
    (hacc : verifyABCI H lc store r = (.ok, lc')) :
    ∃ t v s' k', lc.at? (r.height + 1) = some t ∧ r.value = some v ∧ keyRoundTrip r.key = some k' ∧
      (∀ stores, t.header.appHash = appHashOf H stores → StoresWF stores → StoresNE stores →
        s'.length < 2 ^ 64 → k'.length < 2 ^ 64 →
        ((∀ s ∈ stores, ∀ kv ∈ s.2, kv.2.length ≠ L) ∨ (∀ o ∈ r.ops, o.key ≠ [])) →
        (∃ kvs, (s', kvs) ∈ stores ∧ (k', v) ∈ kvs) ∨ Nonempty (Collision H)) := by
  obtain ⟨_, t, v, st, s', k', h1, _, h3, _, _, h6, hall⟩ := relay_sound_abci H L hL hL64 hlen lc lc' store r hacc
  refine ⟨t, v, s', k', h1, h3, h6, ?_⟩
  intro stores happ hwf hnem hsl hkl hex
  rcases hall stores happ hwf hnem hsl hkl with ⟨kvs, hmem, hor⟩ | hc
  · rcases hor with h | ⟨v'', hv'', hl, o, ho, hk⟩
    · left; exact ⟨kvs, hmem, h⟩
    · exfalso
      rcases hex with h | h
      · exact h (s', kvs) hmem (k', v'') hv'' hl
      · exact h o ho hk
  · right; exact hc

/-- the two operators an honest application returns for pair `i` of store `j` -/
def honestOps (stores : List (Bytes × Store)) (j i : Nat) : List ProofOp :=
  let st := stores.getD j ([], [])
  let kv := st.2.getD i ([], [])
  [ { typeOK := true, key := kv.1, dataOK := true, proof := proofOf H (storeLeaves H st.2) i },
    { typeOK := true, key := st.1, dataOK := true, proof := proofOf H (appLeaves H stores) j } ]

/-- **Known finding (keyless operators), witness in the model.** The second case of `relay_sound_abci`
is reachable: against a state whose store `s` holds `k ↦ (a 32-byte value)`, the answer
`k ↦ [9]` carrying a keyless one-leaf `ValueOp` in front of the genuine two operators is relayed,
although `(k, [9])` is not in the store. (Replayed on the real client with SHA-256, see
known-findings.json `lightrpc.ABCIQuery.accepts-value-not-in-state.keyless-operator`.) -/
theorem abci_keyless_operator_accepted :
    let stores : List (Bytes × Store) := [([115], [([107], Wit.z32)])]
    let evil : ProofOp := ProofOp.mk true [] true (Proof.mk 1 0 Wit.z32 [])
    (verifyABCI Wit.H0 { chain := [Wit.lb, Wit.lb], stored := [1] } (some [115])
      { code := 0, key := [107], value := some [9], height := 1, opsNil := false,
        ops := evil :: honestOps Wit.H0 stores 0 0 }).1 = .ok ∧
    Wit.lb.header.appHash = appHashOf Wit.H0 stores ∧
    ¬ ∃ kvs, ([115], kvs) ∈ stores ∧ (([107] : Bytes), ([9] : Bytes)) ∈ kvs := by
  refine ⟨by decide, ?_, ?_⟩
  · show Wit.z32 = root Wit.H0 _
    rw [Wit.root_H0]
  · rintro ⟨kvs, h1, h2⟩
    simp at h1
    subst h1
    simp at h2
    revert h2
    decide

/-- **Completeness (ABCIQuery).** The value proof an honest application builds for a pair of one of
its stores — at a height whose successor header (carrying that state's `AppHash`) the providers
have — is relayed, PROVIDED store name and key survive the key-path round trip
(`keyRoundTrip x = some x`: false exactly for texts starting with `x:`, see
`abci_x_colon_key_rejected`) and are non-empty, and the operators pass `ProofFromProto`'s
`ValidateBasic`. -/
theorem relay_complete_abci (lc : LC) (h : Int) (hpos : 0 < h) (t : LightBlock)
    (hat : lc.at? (h + 1) = some t) (stores : List (Bytes × Store))
    (happ : t.header.appHash = appHashOf H stores) (j i : Nat) (hj : j < stores.length)
    (hi : i < (stores[j]).2.length)
    (hkne : ((stores[j]).2[i]).1 ≠ []) (hsne : (stores[j]).1 ≠ [])
    (hkrt : keyRoundTrip ((stores[j]).2[i]).1 = some ((stores[j]).2[i]).1)
    (hsrt : keyRoundTrip (stores[j]).1 = some (stores[j]).1)
    (hdec : ∀ o ∈ honestOps H stores j i, o.decodes = true) :
    ∃ lc', verifyABCI H lc (some (stores[j]).1)
      { code := 0, key := ((stores[j]).2[i]).1, value := some ((stores[j]).2[i]).2, height := h,
        opsNil := false, ops := honestOps H stores j i } = (.ok, lc') := by
  obtain ⟨lc1, hupd⟩ := updateTo_some_complete lc (h + 1) t hat
  refine ⟨lc1, ?_⟩
  have hst : stores.getD j ([], []) = stores[j] := by simp [List.getD_eq_getElem?_getD, hj]
  have hkv : (stores[j]).2.getD i ([], []) = (stores[j]).2[i] := by simp [List.getD_eq_getElem?_getD, hi]
  generalize hS : stores[j] = S at *
  generalize hKV : S.2[i] = KV at *
  have hh : ¬ h ≤ 0 := by omega
  -- the two leaves
  have hl1 : (storeLeaves H S.2).getD i [] = kvBytes H KV.1 KV.2 := by
    simp [storeLeaves, List.getD_eq_getElem?_getD, hi, hKV]
  have hl2 : (appLeaves H stores).getD j [] = kvBytes H S.1 (storeRoot H S.2) := by
    simp [appLeaves, List.getD_eq_getElem?_getD, hj, hS]
  have hc1 := computeRoot_proofOf H (storeLeaves H S.2) i (by simpa [storeLeaves] using hi)
  have hc2 := computeRoot_proofOf H (appLeaves H stores) j (by simpa [appLeaves] using hj)
  have hr1 : runOp H { typeOK := true, key := KV.1, dataOK := true, proof := proofOf H (storeLeaves H S.2) i } KV.2
      = some (storeRoot H S.2) := by
    unfold runOp
    have : kvLeaf H KV.1 KV.2 = (proofOf H (storeLeaves H S.2) i).leafHash := by
      simp only [proofOf, hl1]; rfl
    simp only [this, ne_eq, not_true_eq_false, if_false, hc1]; rfl
  have hr2 : runOp H { typeOK := true, key := S.1, dataOK := true, proof := proofOf H (appLeaves H stores) j } (storeRoot H S.2)
      = some (appHashOf H stores) := by
    unfold runOp
    have : kvLeaf H S.1 (storeRoot H S.2) = (proofOf H (appLeaves H stores) j).leafHash := by
      simp only [proofOf, hl2]; rfl
    simp only [this, ne_eq, not_true_eq_false, if_false, hc2]; rfl
  have hall : (honestOps H stores j i).all ProofOp.decodes = true := by
    simp only [List.all_eq_true]; exact hdec
  have hops : honestOps H stores j i =
      [ { typeOK := true, key := KV.1, dataOK := true, proof := proofOf H (storeLeaves H S.2) i },
        { typeOK := true, key := S.1, dataOK := true, proof := proofOf H (appLeaves H stores) j } ] := by
    simp only [honestOps, hst, hkv]
  have hvv : verifyValue H (honestOps H stores j i) t.header.appHash [S.1, KV.1] KV.2 = true := by
    unfold verifyValue
    rw [hall, hops]
    simp only [runOps, hkne, hsne, ne_eq, not_false_eq_true, if_true, List.getLast?_cons_cons,
      List.getLast?_singleton, not_true_eq_false, if_false, hr1, List.dropLast, hr2, happ]
    simp
  unfold verifyABCI
  have hne : honestOps H stores j i ≠ [] := by rw [hops]; simp
  simp [hkne, hne, hh, hupd, hsrt, hkrt, hvv]

/-- **Known finding (glue).** A store name or key that does not survive the key-path round trip
(`KeyPath.String` URL-encodes, `KeyPathToKeys` reads parts starting with `x:` as hex) is never
relayed with a value — not even the honest answer. -/
theorem abci_x_colon_key_rejected (lc : LC) (st : Bytes) (r : ABCIResp) (v : Bytes)
    (hv : r.value = some v) (hbad : keyRoundTrip st = none ∨ keyRoundTrip r.key = none) :
    (verifyABCI H lc (some st) r).1 ≠ .ok := by
  unfold verifyABCI
  split; · simp
  split; · simp
  split; · simp
  split; · simp
  split
  · simp
  · simp only [hv]
    rcases hbad with h | h
    · simp [h]
    · cases hs : keyRoundTrip st <;> simp [h]

/-- e.g. the key `x:zz` (and `x:ab` is read back as the single byte 0xab) -/
example : keyRoundTrip [0x78, 0x3a, 0x7a, 0x7a] = none ∧
    keyRoundTrip [0x78, 0x3a, 0x61, 0x62] = some [0xab] := by decide

/-! ## Commit, Validators: answered from the light client alone -/

/-- **Soundness (Commit).** What `Commit` returns is a light block the providers serve, of the requested
height when one was requested; the backend is never consulted (the model has no backend input). -/
theorem relay_sound_commit (lc lc' : LC) (req : Option Int) (v : Verdict) (r : Option LightBlock)
    (h : commit lc req = ((v, r), lc')) :
    (v = .ok ↔ r.isSome) ∧
    ∀ l, r = some l → (∃ k, lc.at? k = some l) ∧ (∀ k, req = some k → lc.at? k = some l) := by
  unfold commit at h
  split at h
  · simp at h; obtain ⟨⟨h1, h2⟩, _⟩ := h; subst h1; subst h2; simp
  · rename_i l lc1 hupd
    simp at h; obtain ⟨⟨h1, h2⟩, _⟩ := h; subst h1; subst h2
    obtain ⟨_, hex, hat⟩ := updateTo_ok lc lc1 _ l hupd
    refine ⟨by simp, ?_⟩
    intro l' hl'
    simp at hl'; subst hl'
    exact ⟨hex, hat⟩

/-- **Completeness (Commit, Validators with a height).** A height the providers have is answered. -/
theorem relay_complete_commit (lc : LC) (k : Int) (l : LightBlock) (hat : lc.at? k = some l) :
    ∃ lc', commit lc (some k) = ((.ok, some l), lc') := by
  obtain ⟨lc1, hupd⟩ := updateTo_some_complete lc k l hat
  exact ⟨lc1, by unfold commit; rw [hupd]⟩

/-- **Soundness (Validators).** The relayed page is a contiguous slice of the validator set of a light
block the providers serve (of the requested height when one was requested), with that block's height
and the set's size as `Total`. -/
theorem relay_sound_validators (lc lc' : LC) (req page perPage : Option Int) (r : ResultValidators)
    (h : validators lc req page perPage = ((.ok, some r), lc')) :
    ∃ l, (∃ k, lc.at? k = some l) ∧ (∀ k, req = some k → lc.at? k = some l) ∧
      r.height = l.header.height ∧ r.total = l.vals.length ∧ r.count = r.vals.length ∧
      (∃ s n, r.vals = (l.vals.drop s).take n) ∧ ∀ v ∈ r.vals, v ∈ l.vals := by
  unfold validators at h
  split at h
  · simp at h
  · rename_i l lc1 hupd
    obtain ⟨_, hex, hat⟩ := updateTo_ok lc lc1 _ l hupd
    simp only at h
    split at h
    · simp at h
    · simp only [Prod.mk.injEq, Option.some.injEq, true_and] at h
      obtain ⟨hr, _⟩ := h
      subst hr
      refine ⟨l, hex, hat, rfl, rfl, rfl, ⟨_, _, rfl⟩, ?_⟩
      intro v hv
      exact List.mem_of_mem_drop (List.mem_of_mem_take hv)

/-- **Completeness (Validators).** For a height the providers have, the first page (no `page`
parameter, any `per_page`) is answered. -/
theorem relay_complete_validators (lc : LC) (k : Int) (l : LightBlock) (hat : lc.at? k = some l)
    (perPage : Option Int) :
    ∃ r lc', validators lc (some k) none perPage = ((.ok, some r), lc') := by
  obtain ⟨lc1, hupd⟩ := updateTo_some_complete lc k l hat
  unfold validators
  rw [hupd]
  simp [validatePage]

/-! ### a concrete one-block chain (used for the witnesses and the non-vacuity examples) -/
namespace Wit
theorem chainOK : ChainOK lc0 where
  vh := by intro k t h; rw [(at_inv k t h).2]; decide
  height := by intro k t h; obtain ⟨e1, e2⟩ := at_inv k t h; rw [e1, e2]; rfl

theorem honest : HonestBlock H0 lb blk where
  header := rfl
  data := by show z32 = root H0 _; rw [root_H0]
  commit := by show z32 = root H0 _; rw [root_H0]
  evidence := by show z32 = root H0 _; rw [root_H0]

/-- the honest answer with a falsified `PartSetHeader` (7 parts, no hash; the commit signs 1 part) -/
def badBid : BlockID := { hash := z32, total := 7, psHash := [] }

theorem bad_accepted : ∃ lc', verifyBlock H0 lc0 (.height (some 1)) { blockID := badBid, block := some blk } = (.ok, lc') :=
  relay_complete_block H0 lc0 chainOK 1 lb at_one blk honest (by decide) ⟨rfl, rfl, rfl⟩ badBid
    (by rw [show lb.header = hdr from rfl, hdr_hash]; rfl) (by decide) _ (Or.inr (Or.inl rfl))
end Wit

/-- the full statement one would want for `BlockID.PartSetHeader` (the trusted commit signs it) -/
def BlockBindsPartSetHeader : Prop :=
  ∀ (H : Bytes → Bytes) (lc lc' : LC) (req : BlockReq) (res : ResultBlock), ChainOK lc →
    verifyBlock H lc req res = (.ok, lc') →
    ∃ b t, res.block = some b ∧ lc.at? b.header.height = some t ∧
      res.blockID.total = t.commitBlockID.total ∧ res.blockID.psHash = t.commitBlockID.psHash

/-- **Known finding.** `Block`/`BlockByHash` never look at `BlockID.PartSetHeader`: an answer with any
part-set header is relayed. -/
theorem relay_sound_block_partSetHeader_fails : ¬ BlockBindsPartSetHeader := by
  intro hall
  obtain ⟨lc', hacc⟩ := Wit.bad_accepted
  obtain ⟨b, t, hb, hat, htot, _⟩ := hall Wit.H0 Wit.lc0 lc' _ _ Wit.chainOK hacc
  simp only [Option.some.injEq] at hb
  subst hb
  have := (Wit.at_inv _ _ hat).2
  subst this
  revert htot
  decide

/-- **Known finding.** `Tx` relays the `Index` label unchecked: the honest answer relabelled with any
index is relayed. (A Merkle proof does not pin the position by itself — C10
`total_not_bound_by_verify` — so comparing with `Proof.Proof.Index` would not be a full repair.) -/
theorem tx_index_not_bound : ¬ TxBindsIndex := by
  intro hall
  have hd : Wit.lb.header.dataHash = txsHash Wit.H0 [[1]] := by
    show Wit.z32 = root Wit.H0 _; rw [Wit.root_H0]
  obtain ⟨lc', hacc⟩ := relay_complete_tx Wit.H0 32 (by decide) Wit.H0_len Wit.lc0 1 (by decide)
    Wit.lb Wit.at_one [[1]] hd 0 (by decide) 5 0 []
  have := hall Wit.H0 Wit.lc0 lc' _ _ hacc
  simp [proofFor, proofOf] at this

/-- the full statement one would want for the part-set header of a relayed block meta -/
def MetaBindsPartSetHeader : Prop :=
  ∀ (H : Bytes → Bytes) (lc lc' : LC) (minH maxH : Int) (metas : List (Option BlockMeta)), ChainOK lc →
    verifyBlockchainInfo H lc minH maxH metas = (.ok, lc') →
    ∀ m, some m ∈ metas → ∃ t, lc.at? m.header.height = some t ∧
      m.blockID.total = t.commitBlockID.total ∧ m.blockID.psHash = t.commitBlockID.psHash

/-- **Known finding.** `BlockchainInfo` never looks at `BlockMeta.BlockID.PartSetHeader`. -/
theorem relay_sound_blockchainInfo_partSetHeader_fails : ¬ MetaBindsPartSetHeader := by
  intro hall
  let m : BlockMeta := { blockID := Wit.badBid, blockSize := 0, header := Wit.hdr, numTxs := 0 }
  have hm : ∀ x ∈ [some m], ∃ m' t, x = some m' ∧ Wit.lc0.at? m'.header.height = some t ∧
      m'.header = t.header ∧ m'.blockID.hash = t.header.hash Wit.H0 ∧ m'.blockID.validateBasic = true ∧
      InRange 0 0 m'.header.height := by
    intro x hx
    simp only [List.mem_singleton] at hx
    subst hx
    exact ⟨m, Wit.lb, rfl, Wit.at_one, rfl, by rw [show Wit.lb.header = Wit.hdr from rfl, Wit.hdr_hash]; rfl, by decide, by unfold InRange; omega⟩
  obtain ⟨lc', hacc⟩ := relay_complete_blockchainInfo Wit.H0 Wit.lc0 0 0 [some m] hm
  obtain ⟨t, hat, htot, _⟩ := hall Wit.H0 Wit.lc0 lc' 0 0 _ Wit.chainOK hacc m (by simp)
  have := (Wit.at_inv _ _ hat).2
  subst this
  revert htot
  decide

/-! ## Request binding: the relayed answer is the answer to what the caller asked -/

/-- **Block / BlockByHash answer the request**: a relayed block is of the requested height, resp. has
the requested hash (with no height given, "latest" is whatever the node says: nothing to bind). -/
theorem relay_binds_request_block (L : Nat) (hL : 0 < L) (hlen : ∀ x, (H x).length = L)
    (lc lc' : LC) (hok : ChainOK lc) (req : BlockReq) (res : ResultBlock)
    (hacc : verifyBlock H lc req res = (.ok, lc')) :
    ∃ b, res.block = some b ∧ (∀ h, req = .height (some h) → b.header.height = h) ∧
      (∀ x, req = .hash x → res.blockID.hash = x ∧ b.header.hash H = x) := by
  obtain ⟨b, t, hb, _, _, hid, hm, _⟩ := relay_sound_block H L hL hlen lc lc' hok req res hacc
  unfold verifyBlock at hacc
  rw [hb] at hacc
  simp only at hacc
  split at hacc; · simp at hacc
  split at hacc; · simp at hacc
  split at hacc; · simp at hacc
  rename_i hidm
  refine ⟨b, hb, ?_, ?_⟩
  · intro h hr; subst hr; simpa [BlockReq.matches] using hm
  · intro x hr; subst hr
    have e : res.blockID.hash = x := by simpa [BlockReq.matches] using hm
    have e2 : res.blockID.hash = b.header.hash H := by simpa using hidm
    exact ⟨e, by rw [← e2, e]⟩

/-- **ConsensusParams, BlockResults, Tx, BlockchainInfo, Commit answer the request** (collected from the
soundness theorems): the height label is the requested height; the transaction hashes to the requested
hash; every listed height lies in the requested range; the commit is of the requested height. -/
theorem relay_binds_request_others :
    (∀ (lc lc' : LC) (req : Option Int) (bh : Int) (p : Params),
        verifyParams H lc req bh p = (.ok, lc') → ∀ k, req = some k → bh = k) ∧
    (∀ (lc lc' : LC) (h rh : Int) (rs : List TxResult),
        verifyBlockResults H lc h rh rs = (.ok, lc') → rh = h) ∧
    (∀ (lc lc' : LC) (reqHash : Bytes) (res : ResultTx),
        verifyTx H lc reqHash res = (.ok, lc') → H res.tx = reqHash ∧ res.hash = reqHash) ∧
    (∀ (lc lc' : LC) (req : Option Int) (l : LightBlock) (v : Verdict),
        commit lc req = ((v, some l), lc') → ∀ k, req = some k → lc.at? k = some l) := by
  refine ⟨?_, ?_, ?_, ?_⟩
  · intro lc lc' req bh p h
    exact (relay_sound_params H lc lc' req bh p h).2.1
  · intro lc lc' h rh rs hacc
    unfold verifyBlockResults at hacc
    split at hacc; · simp at hacc
    split at hacc; · simp at hacc
    rename_i hl; simpa using hl
  · intro lc lc' reqHash res hacc
    unfold verifyTx at hacc
    split at hacc; · simp at hacc
    split at hacc
    · simp at hacc
    · split at hacc
      all_goals try (simp at hacc; done)
      split at hacc; · simp at hacc
      split at hacc; · simp at hacc
      rename_i hh
      constructor
      · rcases Decidable.em (H res.tx = reqHash) with h | h
        · exact h
        · exact absurd (Or.inl h) hh
      · rcases Decidable.em (res.hash = reqHash) with h | h
        · exact h
        · exact absurd (Or.inr h) hh
  · intro lc lc' req l v h
    exact ((relay_sound_commit lc lc' req v (some l) h).2 l rfl).2

/-- the full statement one would want for proven application queries: the relayed answer is for the
key (`data`) and, when one was given, the height the caller asked for -/
def ABCIBindsRequest : Prop :=
  ∀ (H : Bytes → Bytes) (lc lc' : LC) (store : Option Bytes) (data : Bytes) (qh : Int) (r : ABCIResp),
    verifyABCI H lc store r = (.ok, lc') → r.key = data ∧ (0 < qh → r.height = qh)

/-- **Known finding.** `ABCIQueryWithOptions` never compares the answer's `Key` / `Height` with the
request's `data` / `opts.Height` (the model's `verifyABCI` does not even take them): a genuine proven
answer for another key or height is relayed. Not repaired: what `data` means and which height an
application reports are application conventions, not something a header commits to; the relayed
answer carries `Key` and `Height`, so the caller can compare. -/
theorem relay_binds_request_abci_fails : ¬ ABCIBindsRequest := by
  intro hall
  have hat : LC.at? { chain := [Wit.lb, Wit.lb], stored := [1] } (1 + 1) = some Wit.lb := by
    simp [LC.at?]
  have happ : Wit.lb.header.appHash = appHashOf Wit.H0 [([115], [([107], [118])])] := by
    show Wit.z32 = root Wit.H0 _; rw [Wit.root_H0]
  have hdec : ∀ o ∈ honestOps Wit.H0 [([115], [([107], [118])])] 0 0, o.decodes = true := by
    intro o ho
    simp only [honestOps, List.getD_cons_zero, List.mem_cons, List.not_mem_nil, or_false] at ho
    rcases ho with rfl | rfl <;> decide
  obtain ⟨lc', hacc⟩ := relay_complete_abci Wit.H0 _ 1 (by decide) Wit.lb hat [([115], [([107], [118])])] happ 0 0
    (by decide) (by decide) (by decide) (by decide) (by decide) (by decide) hdec
  have := (hall Wit.H0 _ lc' _ [1, 2, 3] 7 _ hacc).1
  revert this
  decide

/-- every route the proxy registers is classified, and the verified / light-client ones are exactly
the response kinds the theorems above cover -/
theorem routes_classified :
    (∀ n ∈ routeNames, (routeClass n).isSome) ∧
    routeNames.filter (fun n => routeClass n = some .verified) =
      ["abci_query", "block", "block_by_hash", "block_results", "blockchain", "consensus_params", "tx",
       "tx_search"] ∧
    routeNames.filter (fun n => routeClass n = some .lightClient) = ["commit", "validators"] := by
  decide

/-! ## Latest-height requests (no height given) -/

/-- the light client's store after initialisation: non-empty, and every stored height is one the
providers serve -/
structure StoreOK (lc : LC) : Prop where
  nonempty : lc.stored ≠ []
  served : ∀ h ∈ lc.stored, ∃ b, lc.at? h = some b

/-- **Completeness (Commit / Validators without a height).** With the repaired
`updateLightClientIfNeededTo`, a latest-height request is always answered: by the providers' newest
block if it is newer than the latest trusted one, otherwise by the latest trusted block. -/
theorem relay_complete_latest (lc : LC) (hs : StoreOK lc) :
    ∃ l lc', commit lc none = ((.ok, some l), lc') ∧ ∃ k, lc.at? k = some l := by
  have key : ∃ l lc', updateTo lc none = .ok l lc' := by
    unfold updateTo
    simp only
    cases hu : lc.update with
    | some p => exact ⟨p.1, p.2, rfl⟩
    | none =>
      simp only
      -- nothing newer: the latest stored height is served
      have hmem : lc.latest ∈ lc.stored := by
        unfold LC.latest
        rcases foldl_max_mem lc.stored 0 with h | h
        · exfalso
          obtain ⟨x, hx⟩ := List.exists_mem_of_ne_nil _ hs.nonempty
          obtain ⟨b, hb⟩ := hs.served x hx
          have hx0 : 0 < x := by
            unfold LC.at? at hb
            split at hb
            · cases hb
            · omega
          have := foldl_max_ge_mem lc.stored 0 x hx
          omega
        · exact h
      obtain ⟨b, hb⟩ := hs.served _ hmem
      have hlat0 : 0 ≤ lc.latest := foldl_max_ge lc.stored 0
      have ht : lc.trusted? 0 = some b := by
        unfold LC.trusted?
        have h1 : ¬ (0 > lc.latest ∨ (0 : Int) < 0) := by omega
        simp only [h1, if_false, if_true]
        simp [hmem, hb]
      rw [ht]
      exact ⟨b, lc, rfl⟩
  obtain ⟨l, lc', hupd⟩ := key
  obtain ⟨_, hex, _⟩ := updateTo_ok lc lc' none l hupd
  exact ⟨l, lc', by unfold commit; rw [hupd], hex⟩

/-! ## Inclusion proofs served by a full node's RPC -/

/-- **served_proof_verifies.** What `rpc/core.Tx` attaches for transaction `i` of a block
(`block.Data.Txs.Proof(i)`) validates against that block's `DataHash` (`Data.Hash()`), for every
block and every position (from C10 completeness), and therefore the verifying client relays it
(`relay_complete_tx`). -/
theorem served_proof_verifies (L : Nat) (hL : 0 < L) (hlen : ∀ x, (H x).length = L)
    (txs : List Bytes) (i : Nat) (hi : i < txs.length) :
    validate H (txsHash H txs) (proofFor H txs i) = .ok () ∧ (proofFor H txs i).data = txs[i] := by
  refine ⟨proofFor_validates H txs i hi, ?_⟩
  simp [proofFor, List.getD_eq_getElem?_getD, hi]

/-- **Every proof `TxSearch` serves verifies against the data hash of the block it refers to**, for
every index result set, both orders, every page and page size: each result of the page is one of the
hits, and its proof is the one of the block AT THAT RESULT'S HEIGHT — it validates against that
block's `DataHash` and carries the transaction at (height, index). -/
theorem served_search_proofs_verify (L : Nat) (hL : 0 < L) (hlen : ∀ x, (H x).length = L)
    (txsAt : Int → List Bytes) (hits : List Hit) (order : String) (page perPage : Option Int)
    (total : Nat) (res : List (Hit × Option TxProof))
    (hidx : ∀ h ∈ hits, h.index < (txsAt h.height).length)
    (hres : txSearch H txsAt hits order true page perPage = .ok (total, res)) :
    ∀ r ∈ res, r.1 ∈ hits ∧ ∃ p, r.2 = some p ∧
      validate H (txsHash H (txsAt r.1.height)) p = .ok () ∧
      p.data = (txsAt r.1.height).getD r.1.index [] := by
  have hsorted : ∀ (desc : Bool) (l : List Hit) (x : Hit), x ∈ sortHits desc l → x ∈ l := by
    intro desc l
    have hins : ∀ (y : Hit) (m : List Hit) (x : Hit), x ∈ insertHit desc y m → x = y ∨ x ∈ m := by
      intro y m
      induction m with
      | nil => intro x hx; simp [insertHit] at hx; exact Or.inl hx
      | cons z zs ih =>
        intro x hx
        simp only [insertHit] at hx
        split at hx
        · simp only [List.mem_cons] at hx
          rcases hx with h | h | h
          · exact Or.inl h
          · right; simp [h]
          · right; simp [h]
        · simp only [List.mem_cons] at hx
          rcases hx with h | h
          · right; simp [h]
          · rcases ih x h with h' | h'
            · exact Or.inl h'
            · right; simp [h']
    induction l with
    | nil => intro x hx; simp [sortHits] at hx
    | cons y ys ih =>
      intro x hx
      simp only [sortHits, List.foldr_cons] at hx
      rcases hins y _ x hx with h | h
      · simp [h]
      · have := ih x (by simpa [sortHits] using h); simp [this]
  unfold txSearch at hres
  split at hres; · cases hres
  simp only at hres
  split at hres; · cases hres
  rename_i p hp
  simp only [Except.ok.injEq, Prod.mk.injEq] at hres
  obtain ⟨_, hmap⟩ := hres
  simp only [if_true] at hmap
  intro r hr
  rw [← hmap, List.mem_map] at hr
  obtain ⟨h, hmem, hr⟩ := hr
  have hin : h ∈ hits := hsorted _ _ _ (List.mem_of_mem_drop (List.mem_of_mem_take hmem))
  have hi := hidx h hin
  obtain ⟨hv, hd⟩ := served_proof_verifies H L hL hlen (txsAt h.height) h.index hi
  rw [← hr]
  refine ⟨hin, _, rfl, hv, ?_⟩
  rw [hd]; simp [List.getD_eq_getElem?_getD, hi]

/-! ## Non-vacuity: the hypotheses of the theorems above are satisfiable by a concrete chain -/

example : ChainOK Wit.lc0 ∧ StoreOK Wit.lc0 ∧ HonestBlock Wit.H0 Wit.lb Wit.blk ∧
    (∀ x, (Wit.H0 x).length = 32) := by
  refine ⟨Wit.chainOK, ⟨by decide, ?_⟩, Wit.honest, Wit.H0_len⟩
  intro h hh
  have : h = 1 := by simpa [Wit.lc0] using hh
  subst this
  exact ⟨_, Wit.at_one⟩

/-- an accepted block answer exists (so `relay_sound_block` is not vacuous) … -/
example : ∃ req res lc', verifyBlock Wit.H0 Wit.lc0 req res = (.ok, lc') :=
  let ⟨lc', h⟩ := Wit.bad_accepted; ⟨_, _, lc', h⟩

/-- … and a refused one -/
example : (verifyBlock Wit.H0 Wit.lc0 (.height none) { blockID := Wit.badBid, block := none }).1 = .errBlock := by
  decide

/-- the hypotheses of `relay_complete_abci` are satisfiable (one store `s` holding `k ↦ v`), so an
accepted proven query exists and `relay_sound_abci` is not vacuous -/
example : ∃ lc', verifyABCI Wit.H0 { chain := [Wit.lb, Wit.lb], stored := [1] } (some [115])
    { code := 0, key := [107], value := some [118], height := 1, opsNil := false,
      ops := honestOps Wit.H0 [([115], [([107], [118])])] 0 0 } = (.ok, lc') := by
  have hat : LC.at? { chain := [Wit.lb, Wit.lb], stored := [1] } (1 + 1) = some Wit.lb := by
    simp [LC.at?]
  have happ : Wit.lb.header.appHash = appHashOf Wit.H0 [([115], [([107], [118])])] := by
    show Wit.z32 = root Wit.H0 _; rw [Wit.root_H0]
  have hdec : ∀ o ∈ honestOps Wit.H0 [([115], [([107], [118])])] 0 0, o.decodes = true := by
    intro o ho
    simp only [honestOps, List.getD_cons_zero, List.mem_cons, List.not_mem_nil, or_false] at ho
    rcases ho with rfl | rfl <;> decide
  exact relay_complete_abci Wit.H0 _ 1 (by decide) Wit.lb hat [([115], [([107], [118])])] happ 0 0
    (by decide) (by decide) (by decide) (by decide) (by decide) (by decide) hdec

/-- well-formed results / parameters exist -/
example : (TxResult.WF { code := 0, data := [1], gasWanted := 5, gasUsed := -1 }) ∧ I64 (-1) := by
  unfold TxResult.WF I64; simp

end Tmv.Props.C20
