import Tmv.Lemmas.PipelineInv
import Tmv.Lemmas.MempoolLock
/-! # C05 — The application sees each block exactly once, in order, even across crashes
Property theorems only. Quantification: every chain `c` (block contents opaque), every sequence
of node operations `ops` — (re)starts and `finalizeCommit`s, each optionally killed after an
arbitrary number `k` of persistent effects (so: crash at every write / application call / fail
point, crash again while recovering, any number of times). The model is
`Tmv/Model/Pipeline.lean` (pipeline + handshake) and `Tmv/Model/MempoolLock.lean` (lock discipline). -/
namespace Tmv.Props.C05
open Tmv.Pipeline

/-- system invariant: the disk is one a crash can leave; a vote of the height in progress is only
signed when the WAL can replay it; block 1 is stored only after the genesis state was saved; a node
that is up is fully synced, its WAL holds the marker of its height, and it is live -/
def SInv (c : Chain) (s : Sys) : Prop :=
  Inv c s.disk ∧ WInv s.disk ∧ GenOK s.disk ∧
    (s.up = true → (∃ n, Good c s.disk n) ∧ s.disk.walEnd = s.disk.stateH ∧ s.live = true ∧
      s.disk.genesisSaved = true)

theorem genesis_inv (c : Chain) : SInv c genesis :=
  ⟨⟨0, .inl ⟨rfl, rfl, rfl, ⟨rfl, rfl, rfl, rfl⟩⟩⟩, ⟨by simp [genesis], by simp [genesis]⟩,
    by simp [genesis, GenOK], by simp [genesis]⟩

theorem winv_crash {d : Disk} (h : WInv d) : WInv (crash d) := h
theorem genOK_crash {d : Disk} (h : GenOK d) : GenOK (crash d) := h

theorem step_inv (c : Chain) (s : Sys) (op : Op) (h : SInv c s) : SInv c (stepSys c s op) := by
  obtain ⟨hinv, hwinv, hgen, hupc⟩ := h
  cases op with
  | start k =>
    obtain ⟨hok, hpre, ⟨m, hgood⟩, hwal, hwi, hlive, hgs⟩ := start_run hinv hwinv hgen
    have hq := (handshake_run hinv hgen).2.2.2.1
    have hgp := PrefAll.genOK hgen (startEffs_no_saveBlock hq)
    cases k with
    | none =>
      simp only [stepSys, runProg, hok]
      exact ⟨⟨m, .inl hgood⟩, hwi, fun _ => hgs, fun _ => ⟨⟨m, hgood⟩, hwal, hlive, hgs⟩⟩
    | some k =>
      simp only [stepSys, runProg]
      have := hpre.take k
      exact ⟨this.1, winv_crash this.2, genOK_crash (hgp.take k), by simp⟩
  | commit k =>
    simp only [stepSys]
    by_cases hu : s.up = true ∧ s.live = true
    · obtain ⟨⟨n, hg⟩, hw, _, hgs⟩ := hupc hu.1
      obtain ⟨es, hes, hpre, hgood, hwal, hwi⟩ := finalize_run hg (by rw [hw, hg.stateH]) hwinv hgs
      have hgp : PrefAll GenOK s.disk es := PrefAll.gs hgs
      simp only [hu, and_self, if_true, hes]
      cases k with
      | none =>
        have hws : (applyEffs s.disk es).walEnd = (applyEffs s.disk es).stateH := by rw [hwal, hgood.stateH]
        have hgs' : (applyEffs s.disk es).genesisSaved = true := applyEffs_gs hgs
        exact ⟨⟨n + 1, .inl hgood⟩, hwi, fun _ => hgs', fun _ => ⟨⟨n + 1, hgood⟩, hws, rfl, hgs'⟩⟩
      | some k =>
        have := hpre.take k
        exact ⟨this.1, winv_crash this.2, genOK_crash (hgp.take k), by simp [runProg]⟩
    · simp only [hu, if_false]
      exact ⟨hinv, hwinv, hgen, hupc⟩

theorem run_inv (c : Chain) (s : Sys) (ops : List Op) (h : SInv c s) : SInv c (runSys c s ops) := by
  induction ops generalizing s with
  | nil => exact h
  | cons op ops ih => exact ih _ (step_inv c s op h)

/-- every disk reachable from the fresh node by starts, commits and crashes at arbitrary points -/
theorem reachable_inv (c : Chain) (ops : List Op) : SInv c (runSys c genesis ops) :=
  run_inv c genesis ops (genesis_inv c)

/-! ## the journal -/

/-- **journal_wellformed.** After any history of commits, crashes at any effect and recoveries
(themselves crashing at any effect), the application's call journal is accepted by the grammar
`jrun`: InitChain only while nothing is committed; then for consecutive heights Begin, the block's
transactions in block order, End, Commit; an execution may be abandoned only by a process death;
Begin is only ever issued for `committed + 1` (no committed block executed again, none skipped).
The automaton ends with exactly as many committed heights as the application reports. -/
theorem journal_wellformed (c : Chain) (ops : List Op) :
    let s := runSys c genesis ops
    journalWF c s.disk.app.journal = true ∧
      jrun c ⟨0, none⟩ s.disk.app.journal = some ⟨s.disk.app.height, none⟩ := by
  obtain ⟨n, h | h | ⟨h, _⟩⟩ := (reachable_inv c ops).1 <;>
    exact ⟨by simp [journalWF, h.app.run], by rw [h.app.run, h.app.height]⟩

/-- grammar states reachable from the start: the open execution is for `committed + 1` -/
def JI (c : Chain) (s : JState) : Prop :=
  ∀ p, s.opn = some p → p.h = s.committed + 1 ∧ (p.ended = true → p.txs = c p.h)

theorem jstep_count {c : Chain} {s s' : JState} {k : Call} (hj : JI c s) (h : jstep c s k = some s') :
    JI c s' ∧ s'.committed = s.committed + (if k = .commit then 1 else 0) := by
  cases k with
  | initChain =>
    simp only [jstep] at h; split at h <;> cases h; exact ⟨hj, by simp⟩
  | begin hh =>
    simp only [jstep] at h; split at h
    · rename_i hc; cases h
      exact ⟨by intro p hp; simp at hp; subst hp; exact ⟨hc.1, by simp⟩, by simp⟩
    · cases h
  | deliver tx =>
    simp only [jstep] at h
    split at h
    · rename_i p hp
      split at h
      · rename_i hg
        cases h
        exact ⟨by intro q hq; simp at hq; subst hq; exact ⟨(hj p hp).1, by simp [hg.1]⟩, by simp⟩
      · cases h
    · cases h
  | endBlock hh =>
    simp only [jstep] at h
    split at h
    · rename_i p hp
      split at h
      · rename_i hg
        cases h
        exact ⟨by intro q hq; simp at hq; subst hq; exact ⟨(hj p hp).1, fun _ => hg.2.2⟩, by simp⟩
      · cases h
    · cases h
  | commit =>
    simp only [jstep] at h
    split at h
    · rename_i p hp
      split at h
      · cases h
        exact ⟨by intro q hq; simp at hq, by simp [(hj p hp).1]⟩
      · cases h
    · cases h
  | restart =>
    simp only [jstep] at h; cases h
    exact ⟨by intro q hq; simp at hq, by simp⟩

theorem jrun_count {c : Chain} {s s' : JState} {l : List Call} (hj : JI c s) (h : jrun c s l = some s') :
    JI c s' ∧ s'.committed = s.committed + l.count .commit := by
  induction l generalizing s with
  | nil => simp [jrun] at h; subst h; exact ⟨hj, by simp⟩
  | cons k ks ih =>
    simp only [jrun] at h
    cases hk : jstep c s k with
    | none => simp [hk] at h
    | some s1 =>
      rw [hk] at h
      obtain ⟨h1, h2⟩ := jstep_count hj hk
      obtain ⟨h3, h4⟩ := ih h1 h
      refine ⟨h3, ?_⟩
      rw [h4, h2, List.count_cons]
      by_cases hc : k = .commit
      · subst hc; simp; omega
      · have : (k == Call.commit) = false := by simpa using hc
        simp [hc, this]

theorem jrun_split {c : Chain} {pre post : List Call} {k : Call} {s : JState}
    (h : jrun c ⟨0, none⟩ (pre ++ k :: post) = some s) :
    ∃ s1 s2, jrun c ⟨0, none⟩ pre = some s1 ∧ jstep c s1 k = some s2 ∧
      s1.committed = pre.count .commit := by
  rw [jrun_append] at h
  cases h1 : jrun c ⟨0, none⟩ pre with
  | none => simp [h1] at h
  | some s1 =>
    simp only [h1, Option.bind_some, jrun] at h
    cases h2 : jstep c s1 k with
    | none => simp [h2] at h
    | some s2 =>
      have := (jrun_count (s := ⟨0, none⟩) (by intro p hp; simp at hp) h1).2
      exact ⟨s1, s2, rfl, h2, by simpa using this⟩

/-- **initchain_only_at_zero.** Whenever InitChain appears in the journal, the application had
committed no block before it (no Commit call precedes it) — for every history of crashes. -/
theorem initchain_only_at_zero (c : Chain) (ops : List Op) (pre post : List Call)
    (h : (runSys c genesis ops).disk.app.journal = pre ++ .initChain :: post) :
    pre.count .commit = 0 := by
  have hw := (journal_wellformed c ops).2
  rw [h] at hw
  obtain ⟨s1, s2, _, h2, h3⟩ := jrun_split hw
  simp only [jstep] at h2
  split at h2
  · rename_i hc; rw [← h3]; exact hc.1
  · cases h2

/-- **exactly once, in order.** Every BeginBlock in the journal is for the height right after the
number of Commits that precede it: a committed block is never executed again and no height is
skipped — for every history of crashes and recoveries. -/
theorem begin_is_next_height (c : Chain) (ops : List Op) (pre post : List Call) (h : Nat)
    (hj : (runSys c genesis ops).disk.app.journal = pre ++ .begin h :: post) :
    h = pre.count .commit + 1 := by
  have hw := (journal_wellformed c ops).2
  rw [hj] at hw
  obtain ⟨s1, s2, _, h2, h3⟩ := jrun_split hw
  simp only [jstep] at h2
  split at h2
  · rename_i hc; rw [← h3]; exact hc.1
  · cases h2

/-- every Commit in the journal closes a complete execution of the next block: the calls since
the matching Begin are exactly Begin h, the block's txs in order, End h (read off the automaton
state before the Commit). -/
theorem commit_closes_full_block (c : Chain) (ops : List Op) (pre post : List Call)
    (hj : (runSys c genesis ops).disk.app.journal = pre ++ .commit :: post) :
    ∃ s1, jrun c ⟨0, none⟩ pre = some s1 ∧
      s1.opn = some ⟨pre.count .commit + 1, c (pre.count .commit + 1), true⟩ := by
  have hw := (journal_wellformed c ops).2
  rw [hj] at hw
  rw [jrun_append] at hw
  cases h1 : jrun c ⟨0, none⟩ pre with
  | none => simp [h1] at hw
  | some s1 =>
    have hc := jrun_count (s := ⟨0, none⟩) (by intro p hp; simp at hp) h1
    simp only [h1, Option.bind_some, jrun] at hw
    cases h2 : jstep c s1 .commit with
    | none => simp [h2] at hw
    | some s2 =>
      simp only [jstep] at h2
      split at h2
      · rename_i p hp
        split at h2
        · rename_i he
          obtain ⟨hh, ht⟩ := hc.1 p hp
          have hcnt : s1.committed = pre.count .commit := by simpa using hc.2
          refine ⟨s1, rfl, ?_⟩
          rw [hp]
          obtain ⟨ph, ptxs, pe⟩ := p
          simp only at hh ht he
          subst he
          rw [hcnt] at hh
          subst hh
          simp [ht rfl]
        · cases h2
      · cases h2

/-! ## recovery -/

/-- **handshake_total.** On every disk reachable by crashes the case analysis of `ReplayBlocks`
ends in a non-error, non-panic branch. -/
theorem handshake_total (c : Chain) (ops : List Op) :
    (handshake c (runSys c genesis ops).disk).outcome = .ok :=
  (handshake_run (reachable_inv c ops).1 (reachable_inv c ops).2.2.1).1

/-- **recovery_agrees.** After any history, a restart that runs to completion leaves the node up
with application height = block store height = state height, the application's hash equal to the
state's app hash, and the node live (it can decide the next height: what it may have signed there
is replayable). -/
theorem recovery_agrees (c : Chain) (ops : List Op) :
    let s' := stepSys c (runSys c genesis ops) (.start none)
    s'.up = true ∧ s'.live = true ∧ s'.disk.app.height = s'.disk.storeH ∧
      s'.disk.storeH = s'.disk.stateH ∧ s'.disk.app.hash = s'.disk.stateHash := by
  have hi := reachable_inv c ops
  obtain ⟨hok, _, ⟨m, hg⟩, _, _, hlive, _⟩ := start_run hi.1 hi.2.1 hi.2.2.1
  simp only [stepSys, runProg, hok]
  refine ⟨by simp, by simpa using hlive, ?_, ?_, ?_⟩
  · simp [hg.app.height, hg.storeH]
  · simp [hg.storeH, hg.stateH]
  · simp [hg.app.hash, hg.stateHash]

/-- **recovery_progress.** A node that is up (after any history) is live and can decide the next
height: `finalizeCommit` is enabled (the block validates against the saved state), and run to
completion it leaves the node up, live, synced, one height further. -/
theorem recovery_progress (c : Chain) (ops : List Op) (hup : (runSys c genesis ops).up = true) :
    let s := runSys c genesis ops
    let s' := stepSys c s (.commit none)
    s.live = true ∧ (finalizeEffs c s.disk (s.disk.stateH + 1)).isSome ∧ s'.up = true ∧ s'.live = true ∧
      s'.disk.stateH = s.disk.stateH + 1 ∧ s'.disk.app.height = s'.disk.stateH ∧
      s'.disk.storeH = s'.disk.stateH ∧ s'.disk.app.hash = s'.disk.stateHash := by
  have hi := reachable_inv c ops
  obtain ⟨⟨n, hg⟩, hw, hl, hgs⟩ := hi.2.2.2 hup
  obtain ⟨es, hes, _, hgood, _, _⟩ := finalize_run hg (by rw [hw, hg.stateH]) hi.2.1 hgs
  simp only [stepSys, hup, hl, and_self, if_true, hes, runProg]
  refine ⟨trivial, by simp, trivial, trivial, ?_, ?_, ?_, ?_⟩
  · simp [hgood.stateH, hg.stateH]
  · simp [hgood.app.height, hgood.stateH]
  · simp [hgood.storeH, hgood.stateH]
  · simp [hgood.app.hash, hgood.stateHash]

/-- the WAL side of progress: whenever this validator has signed a vote in the height it has not
yet stored (store + 1), the WAL holds the #ENDHEIGHT marker that makes that vote replayable —
after any history of crashes (this is what the repaired `catchupReplay` maintains). -/
theorem signed_vote_is_replayable (c : Chain) (ops : List Op) :
    let d := (runSys c genesis ops).disk
    d.pvH = d.storeH + 1 → d.walEnd = d.storeH :=
  (reachable_inv c ops).2.1.2

/-- the three persisted cursors after any history: state ≤ app ≤ store ≤ state + 1 -/
theorem cursors_within_one (c : Chain) (ops : List Op) :
    let d := (runSys c genesis ops).disk
    d.stateH ≤ d.app.height ∧ d.app.height ≤ d.storeH ∧ d.storeH ≤ d.stateH + 1 := by
  obtain ⟨n, h | h | ⟨h, _⟩⟩ := (reachable_inv c ops).1 <;>
    (simp only [h.stateH, h.storeH, h.app.height]; omega)

/-! ## non-vacuity: a concrete history with crashes before the first commit (three InitChains),
a crash inside block 2's commit after the application committed (mock replay), a crash at the
very start of a recovery, and a node that is up at the end -/

def exChain : Chain := fun h => if h = 1 then [1, 2] else [3]
def exOps : List Op :=
  [.start (some 1), .start none, .commit (some 3), .start none, .commit (some 8), .start (some 0), .start none]

example : (runSys exChain genesis exOps).up = true := by decide
example : (runSys exChain genesis exOps).disk.app.journal =
    [.initChain, .restart, .initChain, .restart] ++ .initChain ::
      [.begin 1, .deliver 1, .deliver 2, .endBlock 1, .commit, .begin 2, .deliver 3, .endBlock 2, .commit,
       .restart, .restart] := by decide
example : (runSys exChain genesis exOps).disk.app.journal =
    [.initChain, .restart, .initChain, .restart, .initChain, .begin 1, .deliver 1, .deliver 2, .endBlock 1, .commit]
      ++ .begin 2 :: [.deliver 3, .endBlock 2, .commit, .restart, .restart] := by decide
example : (handshake exChain (runSys exChain genesis (exOps.take 5)).disk).branch = .lastMock := by decide
example : (handshake exChain (runSys exChain genesis (exOps.take 3)).disk).branch = .lastReal := by decide

/-! ## mempool: no new-transaction check in the commit window -/
section Mempool
open Tmv.MempoolLock

/-- **no_check_in_commit_window_v0.** Mempool v0 with `BlockExecutor.Commit`: for every pool size and
every interleaving of checker and committer steps, from the moment the commit request is on the
consensus connection until the last recheck of that block has been forwarded, no `CheckTx` of a new
transaction is on the mempool connection and none can start. -/
theorem no_check_in_commit_window_v0 (p : Nat) (evs : List Ev) (s : MS)
    (h : run .v0 { pool := p } evs = some s) : windowClean .v0 s := by
  have hi : I0 s := (I0.init p).run h
  intro hw
  have hc : holds s.cpc = true := by
    simp only [inWindow, hi.re, List.isEmpty_nil, Bool.not_true, Bool.or_false] at hw
    revert hw
    cases s.cpc <;> simp [holds]
  have hwr := hi.cw hc
  have hr := hi.wr hwr
  refine ⟨checkInFlight_of_count s (by rw [← hi.cnt, hr]), ?_⟩
  intro i
  simp [MempoolLock.step, hwr]

/-- **no_check_in_commit_window_v0_async.** Mempool v0 over an asynchronous ABCI connection
(`CheckTxAsync` returns when the request is queued; answers come later, in order; `FlushSync`
returns when everything queued before it is answered): for every pool size — the empty pool
included — and every interleaving, while app Commit is requested no `CheckTx` of a new transaction
is unanswered on the connection and none can start; and at all times no new check is queued in
front of a recheck (the connection being FIFO, the rechecks of a block are answered before any
check started after its commit). This is what `FlushAppConn` under the mempool lock buys. -/
theorem no_check_in_commit_window_v0_async (p : Nat) (evs : List Ev) (s : MS)
    (h : run .v0a { pool := p } evs = some s) :
    windowClean .v0a s ∧ noCheckBeforeRecheck s.queue = true := by
  have hi : IA s := (IA.init p).run h
  refine ⟨?_, hi.ord⟩
  intro hw
  have hc : s.cpc = .commitGate := by
    simp only [inWindow, hi.re, List.isEmpty_nil, Bool.not_true, Bool.or_false] at hw
    revert hw
    have := hi.nrg
    cases hcp : s.cpc <;> simp_all
  have hwr := hi.cw (by simp [hc, holds])
  have hq := hi.cq hc
  refine ⟨?_, ?_⟩
  · simp only [checkInFlight, List.any_eq_false]
    intro x hx hg
    have := hi.fl x hx (by simpa using hg)
    simp [hq] at this
  · intro i
    simp [MempoolLock.step, hwr]

/-- the window is reachable on the asynchronous connection with an EMPTY pool after a rejected
check was answered (so the flush cannot be skipped on `Size() == 0`): here the commit is
requested on a drained connection -/
example : ∃ s, run .v0a {} [.spawnCheck 9, .prelude 9, .spawnCommit, .lockCommit, .relCheck 9, .relFlush] = some s
    ∧ s.cpc = .commitGate ∧ s.pool = 0 ∧ s.queue = [] := ⟨_, rfl, by decide, by decide, by decide⟩

/-- and the flush really waits: with the check unanswered the commit request is not enabled -/
example : ∃ s, run .v0a {} [.spawnCheck 9, .prelude 9, .spawnCommit, .lockCommit] = some s
    ∧ step .v0a s .relFlush = none ∧ checkInFlight s = true := ⟨_, rfl, by decide, by decide⟩

/-- v1 violates the same statement: a `CheckTx` that has passed its read-locked prelude is on the
connection (in flight, holding no lock) when the committer requests app Commit. -/
theorem check_in_commit_window_v1 :
    ∃ evs s, run .v1 {} evs = some s ∧ ¬ windowClean .v1 s := by
  refine ⟨[.spawnCheck 1, .prelude 1, .spawnCommit, .lockCommit, .relFlush, .relockCommit], _, rfl, ?_⟩
  intro h
  have := (h (by decide)).1
  revert this
  decide

/-- v1, second way: `Update` only spawns the rechecks; after the committer has unlocked, a new
`CheckTx` starts while the rechecks of the committed block are still outstanding. -/
theorem check_before_recheck_done_v1 :
    ∃ evs s i, run .v1 { pool := 1 } evs = some s ∧ inWindow s = true ∧ (step .v1 s (.prelude i)).isSome := by
  refine ⟨[.spawnCommit, .lockCommit, .relFlush, .relockCommit, .relCommit, .spawnCheck 1], _, 1, rfl, ?_, ?_⟩ <;> decide

/-- what v1 does guarantee (`no_check_in_commit_window_v1_partial`): while the commit request is
outstanding the committer holds the exclusive lock, so no new `CheckTx` can *pass its prelude*;
checks already past the prelude, and checks started after the unlock but before the rechecks are
done, are not excluded (the two witnesses above). -/
theorem no_check_in_commit_window_v1_partial (p : Nat) (evs : List Ev) (s : MS)
    (h : run .v1 { pool := p } evs = some s) (hc : s.cpc = .commitGate) :
    ∀ i, (step .v1 s (.prelude i)).isNone := by
  have hi : I1 s := I1.run (s := { pool := p }) ⟨by simp⟩ h
  intro i
  simp [MempoolLock.step, hi.cw hc]

/-- the hypothesis of the partial statement is reachable with a check in flight -/
example : ∃ s, run .v1 {} [.spawnCheck 1, .prelude 1, .spawnCommit, .lockCommit, .relFlush, .relockCommit] = some s
    ∧ s.cpc = .commitGate ∧ checkInFlight s = true := ⟨_, rfl, by decide, by decide⟩

/-- the v0 window is reachable and non-trivial: a checker is blocked while rechecks are issued -/
example : ∃ s, run .v0 { pool := 2 } [.spawnCheck 1, .spawnCommit, .lockCommit, .relFlush, .relCommit] = some s
    ∧ inWindow s = true ∧ kpc s 1 = some .wantR := ⟨_, rfl, by decide, by decide⟩

end Mempool

end Tmv.Props.C05
