import Tmv.Lemmas.PipelineInv
import Tmv.Lemmas.PipelinePlan
import Tmv.Lemmas.MempoolLock
/-! # C05 — The application sees each block exactly once, in order, even across crashes
Property theorems only. Quantification: every chain `c` (block contents opaque), every sequence
of node operations `ops` — (re)starts and `finalizeCommit`s, each optionally killed after an
arbitrary number `k` of persistent effects (so: crash at every write / application call / fail
point, crash again while recovering, any number of times). The model is
`Tmv/Model/Pipeline.lean` (pipeline + handshake) and `Tmv/Model/MempoolLock.lean` (lock discipline). -/
namespace Tmv.Props.C05
open Tmv.Pipeline

/-- system invariant: the disk is one that crashes and snapshot restores of the application can
leave; a vote of the height in progress is only signed when the WAL can replay it; the first
block is stored only after the genesis state was saved; a node that is up is fully synced, its WAL
holds the marker of its height, and it is live -/
def SInv (c : Chain) (s : Sys) : Prop :=
  Inv c s.disk ∧ WInv c s.disk ∧ GenOK s.disk ∧
    (s.up = true → (∃ n, Good c s.disk n) ∧ s.disk.walEnd = s.disk.stateH ∧ s.live = true ∧
      s.disk.genesisSaved = true)

theorem genesis_inv (c : Chain) : SInv c genesis :=
  ⟨⟨0, .inl ⟨0, Nat.le_refl 0, .inl ⟨rfl, rfl, rfl, ⟨rfl, rfl, rfl, rfl⟩,
      ⟨Nat.zero_le _, Nat.le_refl 0, Nat.le_refl 0⟩⟩⟩⟩,
    ⟨.inl (Nat.le_refl 0), fun _ => rfl⟩, by simp [genesis, GenOK], by simp [genesis]⟩

theorem winv_crash {c : Chain} {d : Disk} (h : WInv c d) : WInv c (crash d) := h
theorem genOK_crash {d : Disk} (h : GenOK d) : GenOK (crash d) := h

theorem inv_restore {c : Chain} {d : Disk} (h : Inv c d) (j : Nat)
    (hb : d.storeBase ≤ nxt c (d.app.restore j).height) (hs : d.statesBase ≤ (d.app.restore j).height) :
    Inv c { d with app := d.app.restore j } := by
  obtain ⟨k, ⟨a, hak, h | h⟩ | ⟨h, hr⟩⟩ := h
  · have hh := (h.app.restore j).height
    rw [hh] at hs; rw [hh, nxt_ht] at hb
    exact ⟨k, .inl ⟨a - j, by omega, .inl ⟨h.stateH, h.stateHash, h.storeH, h.app.restore j, hb, hs, h.pr.2.2⟩⟩⟩
  · have hh := (h.app.restore j).height
    rw [hh] at hs; rw [hh, nxt_ht] at hb
    exact ⟨k, .inl ⟨a - j, by omega, .inr ⟨h.stateH, h.stateHash, h.storeH, h.app.restore j, hb, hs, h.pr.2.2⟩⟩⟩
  · have hh := (h.app.restore j).height
    rw [hh] at hs; rw [hh, nxt_ht] at hb
    by_cases hj : j = 0
    · subst hj
      exact ⟨k, .inr ⟨⟨h.stateH, h.stateHash, h.storeH, h.app.restore 0, h.pr⟩, hr⟩⟩
    · exact ⟨k, .inl ⟨k + 1 - j, by omega, .inr ⟨h.stateH, h.stateHash, h.storeH, h.app.restore j, hb, hs, h.pr.2.2⟩⟩⟩

theorem step_inv (c : Chain) (s : Sys) (op : Op) (h : SInv c s) : SInv c (stepSys c s op) := by
  obtain ⟨hinv, hwinv, hgen, hupc⟩ := h
  cases op with
  | start k =>
    obtain ⟨hok, hpre, ⟨m, hgood⟩, hwal, hwi, hlive, hgs⟩ := start_run hinv hwinv hgen
    have hq := (handshake_run hinv hgen).2.2.2.1
    have hgp := PrefAll.genOK hgen (startEffs_no_saveBlock hq)
    cases k with
    | none =>
      simp only [stepSys, runProg, hok]
      exact ⟨⟨m, .inl ⟨m, Nat.le_refl m, .inl hgood⟩⟩, hwi, fun _ => hgs, fun _ => ⟨⟨m, hgood⟩, hwal, hlive, hgs⟩⟩
    | some k =>
      simp only [stepSys, runProg]
      have := hpre.take k
      exact ⟨this.1, winv_crash this.2, genOK_crash (hgp.take k), by simp⟩
  | commit k =>
    simp only [stepSys]
    by_cases hu : s.up = true ∧ s.live = true
    · obtain ⟨⟨n, hg⟩, hw, _, hgs⟩ := hupc hu.1
      obtain ⟨es, hes, hpre, hgood, hwal, hwi⟩ := finalize_run hg (by rw [hw, hg.stateH]) hwinv hgs
      have hgp : PrefAll GenOK s.disk es := PrefAll.gs hgs
      simp only [hu, and_self, if_true, hes]
      cases k with
      | none =>
        have hws : (applyEffs s.disk es).walEnd = (applyEffs s.disk es).stateH := by rw [hwal, hgood.stateH]
        have hgs' : (applyEffs s.disk es).genesisSaved = true := applyEffs_gs hgs
        exact ⟨⟨n + 1, .inl ⟨n + 1, Nat.le_refl _, .inl hgood⟩⟩, hwi, fun _ => hgs',
          fun _ => ⟨⟨n + 1, hgood⟩, hws, rfl, hgs'⟩⟩
      | some k =>
        have := hpre.take k
        exact ⟨this.1, winv_crash this.2, genOK_crash (hgp.take k), by simp [runProg]⟩
    · simp only [hu, if_false]
      exact ⟨hinv, hwinv, hgen, hupc⟩
  | rollback j =>
    simp only [stepSys]
    split
    · rename_i hg
      exact ⟨inv_restore hinv j hg.1 hg.2, hwinv, hgen, by simp⟩
    · exact ⟨hinv, hwinv, hgen, by simp⟩

theorem run_inv (c : Chain) (s : Sys) (ops : List Op) (h : SInv c s) : SInv c (runSys c s ops) := by
  induction ops generalizing s with
  | nil => exact h
  | cons op ops ih => exact ih _ (step_inv c s op h)

/-- every disk reachable from the fresh node by starts, commits, crashes at arbitrary points and
restores of the application from older snapshots of itself -/
theorem reachable_inv (c : Chain) (ops : List Op) : SInv c (runSys c genesis ops) :=
  run_inv c genesis ops (genesis_inv c)

/-! ## the journal -/

/-- **journal_wellformed.** After any history of commits, crashes at any effect, recoveries
(themselves crashing at any effect) and restores of the application from older snapshots (any
number of blocks behind), the application's call journal is accepted by the grammar `jrun`:
InitChain only while the application reports height 0; then for consecutive heights (the first one
being the genesis InitialHeight) Begin, the block's transactions in block order, End, Commit; an
execution may be abandoned only by a process death; Begin is only ever issued for the height after
the one the application reports (no committed block executed again, none skipped). The automaton
ends at exactly the height the application reports. -/
theorem journal_wellformed (c : Chain) (ops : List Op) :
    let s := runSys c genesis ops
    journalWF c s.disk.app.journal = true ∧
      jrun c ⟨0, none⟩ s.disk.app.journal = some ⟨s.disk.app.height, none⟩ := by
  obtain ⟨k, ⟨a, _, h | h⟩ | ⟨h, _⟩⟩ := (reachable_inv c ops).1 <;>
    exact ⟨by simp [journalWF, h.app.run], by rw [h.app.run, h.app.height]⟩

/-- what the application reports, read off a journal without the grammar: the header height of
the last committed execution, or the snapshot it was last restored from; second component: the
header height of the last Begin -/
def repStep (r : Nat × Nat) : Call → Nat × Nat
  | .begin h => (r.1, h)
  | .commit => (r.2, r.2)
  | .restored h => (h, r.2)
  | _ => r

def reportedAfter (l : List Call) : Nat := (l.foldl repStep (0, 0)).1

/-- grammar states against the journal read-off -/
def JI (c : Chain) (s : JState) (r : Nat × Nat) : Prop :=
  s.committed = r.1 ∧ ∀ p, s.opn = some p → p.h = r.2 ∧ (p.ended = true → p.txs = c p.h)

theorem jstep_rep {c : Chain} {s s' : JState} {r : Nat × Nat} {k : Call} (hj : JI c s r)
    (h : jstep c s k = some s') : JI c s' (repStep r k) := by
  cases k with
  | initChain =>
    simp only [jstep] at h; split at h <;> cases h; exact hj
  | begin hh =>
    simp only [jstep] at h; split at h
    · cases h
      exact ⟨hj.1, by intro p hp; simp at hp; subst hp; exact ⟨rfl, by simp⟩⟩
    · cases h
  | deliver tx =>
    simp only [jstep] at h
    split at h
    · rename_i p hp
      split at h
      · rename_i hg
        cases h
        exact ⟨hj.1, by intro q hq; simp at hq; subst hq; exact ⟨(hj.2 p hp).1, by simp [hg.1]⟩⟩
      · cases h
    · cases h
  | endBlock hh =>
    simp only [jstep] at h
    split at h
    · rename_i p hp
      split at h
      · rename_i hg
        cases h
        exact ⟨hj.1, by intro q hq; simp at hq; subst hq; exact ⟨(hj.2 p hp).1, fun _ => hg.2.2⟩⟩
      · cases h
    · cases h
  | commit =>
    simp only [jstep] at h
    split at h
    · rename_i p hp
      split at h
      · cases h
        exact ⟨(hj.2 p hp).1, by intro q hq; simp at hq⟩
      · cases h
    · cases h
  | restart =>
    simp only [jstep] at h; cases h
    exact ⟨hj.1, by intro q hq; simp at hq⟩
  | restored hh =>
    simp only [jstep] at h; cases h
    exact ⟨rfl, by intro q hq; simp at hq⟩

theorem jrun_rep {c : Chain} {s s' : JState} {r : Nat × Nat} {l : List Call} (hj : JI c s r)
    (h : jrun c s l = some s') : JI c s' (l.foldl repStep r) := by
  induction l generalizing s r with
  | nil => simp [jrun] at h; subst h; exact hj
  | cons k ks ih =>
    simp only [jrun] at h
    cases hk : jstep c s k with
    | none => simp [hk] at h
    | some s1 =>
      rw [hk] at h
      exact ih (jstep_rep hj hk) h

theorem jrun_split {c : Chain} {pre post : List Call} {k : Call} {s : JState}
    (h : jrun c ⟨0, none⟩ (pre ++ k :: post) = some s) :
    ∃ s1 s2, jrun c ⟨0, none⟩ pre = some s1 ∧ jstep c s1 k = some s2 ∧
      JI c s1 (pre.foldl repStep (0, 0)) := by
  rw [jrun_append] at h
  cases h1 : jrun c ⟨0, none⟩ pre with
  | none => simp [h1] at h
  | some s1 =>
    simp only [h1, Option.bind_some, jrun] at h
    cases h2 : jstep c s1 k with
    | none => simp [h2] at h
    | some s2 =>
      exact ⟨s1, s2, rfl, h2, jrun_rep (s := ⟨0, none⟩) ⟨rfl, by intro p hp; simp at hp⟩ h1⟩

/-- **initchain_only_at_zero.** Whenever InitChain appears in the journal, the application was
reporting height 0 at that point (it had committed nothing, or had been restored to an empty
snapshot) — for every history. -/
theorem initchain_only_at_zero (c : Chain) (ops : List Op) (pre post : List Call)
    (h : (runSys c genesis ops).disk.app.journal = pre ++ .initChain :: post) :
    reportedAfter pre = 0 := by
  have hw := (journal_wellformed c ops).2
  rw [h] at hw
  obtain ⟨s1, s2, _, h2, h3⟩ := jrun_split hw
  simp only [jstep] at h2
  split at h2
  · rename_i hc; unfold reportedAfter; rw [← h3.1]; exact hc.1
  · cases h2

/-- **exactly once, in order.** Every BeginBlock in the journal is for the height right after the
one the application was reporting (its last commit or the snapshot it was restored from; the
genesis InitialHeight when it reported 0): a committed block is never executed again on top of
itself and no height is skipped — for every history. -/
theorem begin_is_next_height (c : Chain) (ops : List Op) (pre post : List Call) (h : Nat)
    (hj : (runSys c genesis ops).disk.app.journal = pre ++ .begin h :: post) :
    h = nxt c (reportedAfter pre) := by
  have hw := (journal_wellformed c ops).2
  rw [hj] at hw
  obtain ⟨s1, s2, _, h2, h3⟩ := jrun_split hw
  simp only [jstep] at h2
  split at h2
  · rename_i hc; unfold reportedAfter; rw [← h3.1]; exact hc.1
  · cases h2

/-- every Commit in the journal closes a complete execution: the open execution at that point is
Begin h, all of block h's txs in block order, End h. -/
theorem commit_closes_full_block (c : Chain) (ops : List Op) (pre post : List Call)
    (hj : (runSys c genesis ops).disk.app.journal = pre ++ .commit :: post) :
    ∃ s1 h, jrun c ⟨0, none⟩ pre = some s1 ∧ s1.opn = some ⟨h, c h, true⟩ := by
  have hw := (journal_wellformed c ops).2
  rw [hj] at hw
  obtain ⟨s1, s2, h1, h2, h3⟩ := jrun_split hw
  simp only [jstep] at h2
  split at h2
  · rename_i p hp
    split at h2
    · rename_i he
      obtain ⟨_, ht⟩ := h3.2 p hp
      refine ⟨s1, p.h, h1, ?_⟩
      rw [hp]
      obtain ⟨ph, ptxs, pe⟩ := p
      simp only at ht he
      subst he
      simp [ht rfl]
    · cases h2
  · cases h2

/-! ## recovery -/

/-- **handshake_total.** On every reachable disk — after crashes anywhere and with the
application restored arbitrarily far behind — the case analysis of `ReplayBlocks` ends in a
non-error, non-panic branch. -/
theorem handshake_total (c : Chain) (ops : List Op) :
    (handshake c (runSys c genesis ops).disk).outcome = .ok :=
  (handshake_run (reachable_inv c ops).1 (reachable_inv c ops).2.2.1).1

/-- **recovery_agrees.** After any history, a restart that runs to completion leaves the node up
with application height = block store height = state height, the application's hash equal to the
state's app hash, and the node live (it can decide the next height: what it may have signed there
is replayable). -/
theorem recovery_agrees (c : Chain) (ops : List Op) :
    let s' := stepSys c (runSys c genesis ops) (.start none)
    s'.up = true ∧ s'.live = true ∧ s'.disk.app.height = s'.disk.storeH ∧
      s'.disk.storeH = s'.disk.stateH ∧ s'.disk.app.hash = s'.disk.stateHash := by
  have hi := reachable_inv c ops
  obtain ⟨hok, _, ⟨m, hg⟩, _, _, hlive, _⟩ := start_run hi.1 hi.2.1 hi.2.2.1
  simp only [stepSys, runProg, hok]
  refine ⟨by simp, by simpa using hlive, ?_, ?_, ?_⟩
  · simp [hg.app.height, hg.storeH]
  · simp [hg.storeH, hg.stateH]
  · simp [hg.app.hash, hg.stateHash]

/-- **recovery_progress.** A node that is up (after any history) is live and can decide the next
height: `finalizeCommit` is enabled (the block validates against the saved state), and run to
completion it leaves the node up, live, synced, one block further. -/
theorem recovery_progress (c : Chain) (ops : List Op) (hup : (runSys c genesis ops).up = true) :
    let s := runSys c genesis ops
    let s' := stepSys c s (.commit none)
    s.live = true ∧ (finalizeEffs c s.disk (nxt c s.disk.stateH)).isSome ∧ s'.up = true ∧ s'.live = true ∧
      s'.disk.stateH = nxt c s.disk.stateH ∧ s'.disk.app.height = s'.disk.stateH ∧
      s'.disk.storeH = s'.disk.stateH ∧ s'.disk.app.hash = s'.disk.stateHash := by
  have hi := reachable_inv c ops
  obtain ⟨⟨n, hg⟩, hw, hl, hgs⟩ := hi.2.2.2 hup
  obtain ⟨es, hes, _, hgood, _, _⟩ := finalize_run hg (by rw [hw, hg.stateH]) hi.2.1 hgs
  simp only [stepSys, hup, hl, and_self, if_true, hes, runProg]
  refine ⟨trivial, by simp, trivial, trivial, ?_, ?_, ?_, ?_⟩
  · simp [hgood.stateH, hg.stateH, nxt_ht]
  · simp [hgood.app.height, hgood.stateH]
  · simp [hgood.storeH, hgood.stateH]
  · simp [hgood.app.hash, hgood.stateHash]

/-- the WAL side of progress: whenever this validator has signed a vote in the height after the
store, the WAL holds the #ENDHEIGHT marker that makes that vote replayable — after any history
(this is what the repaired `catchupReplay` maintains). -/
theorem signed_vote_is_replayable (c : Chain) (ops : List Op) :
    let d := (runSys c genesis ops).disk
    d.pvH = nxt c d.storeH → d.walEnd = d.storeH :=
  (reachable_inv c ops).2.1.2

/-- the three persisted cursors after any history: the store is at the state or exactly one block
ahead (the genesis InitialHeight counts as the block after 0), the application never ahead of the
store -/
theorem cursors_within_one (c : Chain) (ops : List Op) :
    let d := (runSys c genesis ops).disk
    (d.storeH = d.stateH ∨ d.storeH = nxt c d.stateH) ∧ d.app.height ≤ d.storeH := by
  obtain ⟨k, ⟨a, hak, h | h⟩ | ⟨h, _⟩⟩ := (reachable_inv c ops).1
  · exact ⟨.inl (by rw [h.storeH, h.stateH]), by rw [h.app.height, h.storeH]; exact ht_le c hak⟩
  · exact ⟨.inr (by rw [h.storeH, h.stateH, nxt_ht]), by
      rw [h.app.height, h.storeH]; exact ht_le c (by omega)⟩
  · exact ⟨.inr (by rw [h.storeH, h.stateH, nxt_ht]), by rw [h.app.height, h.storeH]; exact Nat.le_refl _⟩

/-! ## non-vacuity: a chain with InitialHeight 5; crashes before the first commit (three
InitChains), a crash on the FIRST block after it was saved, a crash inside the second block's commit
after the application committed (mock replay), a crash at the very start of a recovery, the
application restored two blocks back (both replayed by the handshake), a node that is up at the end -/

def exChain : Chain := { ihPred := 4, txs := fun h => if h = 5 then [1, 2] else [3] }
def exOps : List Op :=
  [.start (some 1), .start none, .commit (some 3), .start none, .commit (some 9), .start (some 0), .start none,
   .rollback 2, .start none]

example : (runSys exChain genesis exOps).up = true := by decide
example : (runSys exChain genesis exOps).disk.app.journal =
    [.initChain, .restart, .initChain, .restart] ++ .initChain ::
      [.begin 5, .deliver 1, .deliver 2, .endBlock 5, .commit, .begin 6, .deliver 3, .endBlock 6, .commit,
       .restart, .restart, .restored 0, .initChain, .begin 5, .deliver 1, .deliver 2, .endBlock 5, .commit,
       .begin 6, .deliver 3, .endBlock 6, .commit] := by decide
example : (runSys exChain genesis exOps).disk.app.journal =
    [.initChain, .restart, .initChain, .restart, .initChain, .begin 5, .deliver 1, .deliver 2, .endBlock 5, .commit,
     .begin 6, .deliver 3, .endBlock 6, .commit, .restart, .restart, .restored 0, .initChain]
      ++ .begin 5 :: [.deliver 1, .deliver 2, .endBlock 5, .commit, .begin 6, .deliver 3, .endBlock 6, .commit] := by decide
example : (handshake exChain (runSys exChain genesis (exOps.take 5)).disk).branch = .lastMock := by decide
example : (handshake exChain (runSys exChain genesis (exOps.take 3)).disk).branch = .lastReal := by decide
example : (handshake exChain (runSys exChain genesis (exOps.take 8)).disk).branch = .replayNoMutate := by decide
example : (runSys exChain genesis (exOps.take 3)).disk.storeH = 5 ∧ (runSys exChain genesis (exOps.take 3)).disk.stateH = 0 := by decide

/-! ## the node stream's model is this model: the incarnation plan is sound -/

/-- **plan_sound.** For every chain, every target, and EVERY sequence of fail indices (`none` = an
incarnation without FAIL_TEST_INDEX), the disk the incarnation plan predicts after all
incarnations — fail points at the code's call sites, own votes replayed / refused / stale, the
clean stop at the target — is one the pipeline invariant covers: its journal is accepted by the
grammar and ends at the height the application reports, and a further restart completes with the
three cursors and the app hash in agreement. The per-incarnation predictions the node stream
compares with the real node are therefore consequences of the proved pipeline model. -/
theorem plan_sound (c : Chain) (exitH mh : Nat) (fs : List (Option Nat)) :
    let d := runIncs c exitH mh fs genesis.disk
    journalWF c d.app.journal = true ∧
      jrun c ⟨0, none⟩ d.app.journal = some ⟨d.app.height, none⟩ ∧
      (handshake c d).outcome = .ok ∧
      (let s' := stepSys c ⟨d, false, false⟩ (.start none)
       s'.up = true ∧ s'.disk.app.height = s'.disk.storeH ∧ s'.disk.storeH = s'.disk.stateH ∧
         s'.disk.app.hash = s'.disk.stateHash) := by
  have hi := runIncs_sound (c := c) exitH mh fs genesis.disk (genesis_inv c).1 (genesis_inv c).2.2.1
  obtain ⟨hok, _, ⟨m, hg⟩, _, _⟩ := handshake_run hi.1 hi.2
  obtain ⟨_, ⟨m', hg'⟩, _⟩ := start_run' hi.1 hi.2
  refine ⟨?_, ?_, hok, ?_⟩
  · obtain ⟨k, ⟨a, _, h | h⟩ | ⟨h, _⟩⟩ := hi.1 <;> simp [journalWF, h.app.run]
  · obtain ⟨k, ⟨a, _, h | h⟩ | ⟨h, _⟩⟩ := hi.1 <;> rw [h.app.run, h.app.height]
  · simp only [stepSys, runProg, hok]
    refine ⟨by simp, ?_, ?_, ?_⟩
    · simp [hg'.app.height, hg'.storeH]
    · simp [hg'.storeH, hg'.stateH]
    · simp [hg'.app.hash, hg'.stateHash]

/-- each incarnation's reported post-handshake disk is synced (what the node stream compares as
`post`), whatever state the previous incarnations left -/
theorem plan_post_synced (c : Chain) (exitH mh : Nat) (fs : List (Option Nat)) (f : Option Nat) (post : Disk)
    (hp : (incarnation c (runIncs c exitH mh fs genesis.disk) f exitH mh).2.1 = some post) :
    post.app.height = post.storeH ∧ post.storeH = post.stateH ∧ post.app.hash = post.stateHash := by
  have hi := runIncs_sound (c := c) exitH mh fs genesis.disk (genesis_inv c).1 (genesis_inv c).2.2.1
  obtain ⟨m, hg⟩ := (incarnation_sound hi.1 hi.2 f exitH mh).2.2 post hp
  exact ⟨by rw [hg.app.height, hg.storeH], by rw [hg.storeH, hg.stateH], by rw [hg.app.hash, hg.stateHash]⟩

/-- the plan is exercised: three kills (first block's commit, a vote fail point, during recovery) then a clean run to the target -/
example : (runIncs exChain 8 4 [some 7, some 0, some 2, none] genesis.disk).app.height = 7 := by decide

/-! ## pruning (the application's RetainHeight): the theorems above range over chains with any
`retain` function — `finalizeCommit` prunes the block store and then the state store, a crash may
fall between the two. What they assume about restores is the guard of `Op.rollback`. -/

/-- an application that asks to retain only the block just committed -/
def prChain : Chain := { txs := fun h => [h], retain := fun h => h }
def prOps : List Op := [.start none, .commit none, .commit none, .commit none]

/-- pruned to the last block: base = state-store horizon = 3 -/
example : (runSys prChain genesis prOps).disk.storeBase = 3 ∧ (runSys prChain genesis prOps).disk.statesBase = 3 := by decide
/-- a crash between PruneBlocks and PruneStates (block store pruned, state store not yet), then recovery and progress -/
example : let s := runSys prChain genesis [.start none, .commit none, .commit none, .commit (some 11), .start none]
    s.up = true ∧ s.disk.stateH = 3 ∧ s.disk.storeBase = 3 ∧ s.disk.statesBase = 2 := by decide
example : let s := runSys prChain genesis [.start none, .commit none, .commit none, .commit (some 11), .start none, .commit none]
    s.up = true ∧ s.disk.stateH = 4 ∧ s.disk.storeBase = 4 ∧ s.disk.statesBase = 4 := by decide

/-- **too_old_snapshot_refused** (instance): an application restored from a snapshot below the
block store's base - 1 is refused with ErrAppBlockHeightTooLow; nothing is sent to it. -/
theorem too_old_snapshot_refused :
    let d := (runSys prChain genesis prOps).disk
    let r := handshake prChain { d with app := d.app.restore 2 }
    r.outcome = .errAppTooLow ∧ r.effs = [] := by decide

/-- **replay_at_base_panics** (`handshake_total` fails without the second half of the rollback
guard): `ReplayBlocks` accepts an application exactly one block below the block store's base
("can be 1 behind since we replay the next") but replaying the block at the base needs the
validator set of base - 1, which `PruneStates(base, retainHeight)` has removed: the node panics
"could not find validator set" on every start. Known finding. -/
theorem replay_at_base_panics :
    let d := (runSys prChain genesis prOps).disk
    let d' := { d with app := d.app.restore 1 }
    ¬ (0 < d'.app.height ∧ d'.app.height < d'.storeBase - 1) ∧ d'.storeBase ≤ nxt prChain d'.app.height ∧
      (handshake prChain d').outcome = .panicValsPruned := by decide

/-- `handshake_total_partial` is `handshake_total` itself: it holds for every history whose
restores keep the application at or above the state store's pruning horizon (the guard in
`stepSys`); the unguarded statement is refuted by `replay_at_base_panics`. -/
theorem handshake_total_partial (c : Chain) (ops : List Op) :
    (handshake c (runSys c genesis ops).disk).outcome = .ok := handshake_total c ops

/-! ## mempool: no new-transaction check in the commit window -/
section Mempool
open Tmv.MempoolLock

/-- **no_check_in_commit_window** (main statement, general ABCI connection). Mempool v0 with
`BlockExecutor.Commit` over a connection on which a `CheckTxAsync` call may block for any time
(holding the read lock) and is then answered while blocking (local client) or returns with the
request queued and is answered at any later time (socket / gRPC clients; the recheck requests of
`Update` likewise): for every pool size and every interleaving, from the moment the commit
request is on the consensus connection until the last recheck request of that block has been
issued, no `CheckTx` of a new transaction is in flight — neither blocking nor queued-unanswered —
and none can start. -/
theorem no_check_in_commit_window (p : Nat) (evs : List Ev) (s : MS)
    (h : run .v0g { pool := p } evs = some s) (hw : inCommitWindow s = true) :
    checkInFlightG s = false ∧ ∀ i, (step .v0g s (.prelude i)).isNone := by
  have hi : IG s := (IG.init p).run h
  have hwr := hi.cw (window_holds hw)
  have hr := hi.wr hwr
  have hcnt : gateCount s.chk = 0 := by rw [← hi.cnt, hr]
  refine ⟨?_, ?_⟩
  · simp only [checkInFlightG, List.any_eq_false]
    intro x hx
    have h1 := any_gate_of_count s.chk hcnt
    simp only [List.any_eq_false] at h1
    have h2 := hi.cq hw x hx
    have h3 := h1 x hx
    simp only [Bool.or_eq_true, not_or]
    exact ⟨h3, by simpa using h2⟩
  · intro i
    simp [MempoolLock.step, hwr]

/-- the local-client discipline is one schedule of the general one: every `v0` run is a `v0g` run,
so the main statement specialises to it (corollary; `no_check_in_commit_window_v0` below is the
same fact proved directly, with the window extended to outstanding rechecks, of which the local
client has none). -/
theorem no_check_in_commit_window_local (p : Nat) (evs : List Ev) (s : MS)
    (h : run .v0 { pool := p } evs = some s) (hw : inCommitWindow s = true) :
    checkInFlightG s = false ∧ ∀ i, (step .v0 s (.prelude i)).isNone := by
  have hg := v0_run_in_v0g (s := { pool := p }) ⟨by simp, rfl⟩ h
  obtain ⟨h1, h2⟩ := no_check_in_commit_window p evs s hg hw
  refine ⟨h1, fun i => ?_⟩
  have := h2 i
  simpa [MempoolLock.step] using this

/-- the general window is reachable with a check that returned unanswered before the commit
started: the flush waits for it -/
example : ∃ s, run .v0g {} [.spawnCheck 1, .prelude 1, .retCheck 1, .spawnCommit, .lockCommit] = some s
    ∧ step .v0g s .relFlush = none ∧ checkInFlightG s = true := ⟨_, rfl, by decide, by decide⟩
example : ∃ s, run .v0g { pool := 2 }
    [.spawnCheck 1, .prelude 1, .retCheck 1, .spawnCommit, .lockCommit, .relCheck 1, .relFlush, .relCommit, .retRecheck] = some s
    ∧ inCommitWindow s = true ∧ s.rechecks = [0] := ⟨_, rfl, by decide, by decide⟩

/-- **no_check_in_commit_window_v0.** Mempool v0 with `BlockExecutor.Commit`: for every pool size and
every interleaving of checker and committer steps, from the moment the commit request is on the
consensus connection until the last recheck of that block has been forwarded, no `CheckTx` of a new
transaction is on the mempool connection and none can start. -/
theorem no_check_in_commit_window_v0 (p : Nat) (evs : List Ev) (s : MS)
    (h : run .v0 { pool := p } evs = some s) : windowClean .v0 s := by
  have hi : I0 s := (I0.init p).run h
  intro hw
  have hc : holds s.cpc = true := by
    simp only [inWindow, hi.re, List.isEmpty_nil, Bool.not_true, Bool.or_false] at hw
    revert hw
    cases s.cpc <;> simp [holds]
  have hwr := hi.cw hc
  have hr := hi.wr hwr
  refine ⟨checkInFlight_of_count s (by rw [← hi.cnt, hr]), ?_⟩
  intro i
  simp [MempoolLock.step, hwr]

/-- **no_check_in_commit_window_v0_async.** Mempool v0 over an asynchronous ABCI connection
(`CheckTxAsync` returns when the request is queued; answers come later, in order; `FlushSync`
returns when everything queued before it is answered): for every pool size — the empty pool
included — and every interleaving, while app Commit is requested no `CheckTx` of a new transaction
is unanswered on the connection and none can start; and at all times no new check is queued in
front of a recheck (the connection being FIFO, the rechecks of a block are answered before any
check started after its commit). This is what `FlushAppConn` under the mempool lock buys. -/
theorem no_check_in_commit_window_v0_async (p : Nat) (evs : List Ev) (s : MS)
    (h : run .v0a { pool := p } evs = some s) :
    windowClean .v0a s ∧ noCheckBeforeRecheck s.queue = true := by
  have hi : IA s := (IA.init p).run h
  refine ⟨?_, hi.ord⟩
  intro hw
  have hc : s.cpc = .commitGate := by
    simp only [inWindow, hi.re, List.isEmpty_nil, Bool.not_true, Bool.or_false] at hw
    revert hw
    have := hi.nrg
    cases hcp : s.cpc <;> simp_all
  have hwr := hi.cw (by simp [hc, holds])
  have hq := hi.cq hc
  refine ⟨?_, ?_⟩
  · simp only [checkInFlight, List.any_eq_false]
    intro x hx hg
    have := hi.fl x hx (by simpa using hg)
    simp [hq] at this
  · intro i
    simp [MempoolLock.step, hwr]

/-- the window is reachable on the asynchronous connection with an EMPTY pool after a rejected
check was answered (so the flush cannot be skipped on `Size() == 0`): here the commit is
requested on a drained connection -/
example : ∃ s, run .v0a {} [.spawnCheck 9, .prelude 9, .spawnCommit, .lockCommit, .relCheck 9, .relFlush] = some s
    ∧ s.cpc = .commitGate ∧ s.pool = 0 ∧ s.queue = [] := ⟨_, rfl, by decide, by decide, by decide⟩

/-- and the flush really waits: with the check unanswered the commit request is not enabled -/
example : ∃ s, run .v0a {} [.spawnCheck 9, .prelude 9, .spawnCommit, .lockCommit] = some s
    ∧ step .v0a s .relFlush = none ∧ checkInFlight s = true := ⟨_, rfl, by decide, by decide⟩

/-- v1 violates the same statement: a `CheckTx` that has passed its read-locked prelude is on the
connection (in flight, holding no lock) when the committer requests app Commit. -/
theorem check_in_commit_window_v1 :
    ∃ evs s, run .v1 {} evs = some s ∧ ¬ windowClean .v1 s := by
  refine ⟨[.spawnCheck 1, .prelude 1, .spawnCommit, .lockCommit, .relFlush, .relockCommit], _, rfl, ?_⟩
  intro h
  have := (h (by decide)).1
  revert this
  decide

/-- v1, second way: `Update` only spawns the rechecks; after the committer has unlocked, a new
`CheckTx` starts while the rechecks of the committed block are still outstanding. -/
theorem check_before_recheck_done_v1 :
    ∃ evs s i, run .v1 { pool := 1 } evs = some s ∧ inWindow s = true ∧ (step .v1 s (.prelude i)).isSome := by
  refine ⟨[.spawnCommit, .lockCommit, .relFlush, .relockCommit, .relCommit, .spawnCheck 1], _, 1, rfl, ?_, ?_⟩ <;> decide

/-- what v1 does guarantee (`no_check_in_commit_window_v1_partial`): while the commit request is
outstanding the committer holds the exclusive lock, so no new `CheckTx` can *pass its prelude*;
checks already past the prelude, and checks started after the unlock but before the rechecks are
done, are not excluded (the two witnesses above). -/
theorem no_check_in_commit_window_v1_partial (p : Nat) (evs : List Ev) (s : MS)
    (h : run .v1 { pool := p } evs = some s) (hc : s.cpc = .commitGate) :
    ∀ i, (step .v1 s (.prelude i)).isNone := by
  have hi : I1 s := I1.run (s := { pool := p }) ⟨by simp⟩ h
  intro i
  simp [MempoolLock.step, hi.cw hc]

/-- **v1 over the asynchronous FIFO connection** — what holds: while the commit request is
outstanding no new `CheckTx` can pass its prelude, and a pending `FlushSync` is not answered while a
request queued before it is unanswered (so checks queued BEFORE the flush are answered before the
commit is requested). -/
theorem no_check_in_commit_window_v1_async_partial (p : Nat) (evs : List Ev) (s : MS)
    (h : run .v1a { pool := p } evs = some s) :
    (s.cpc = .commitGate → ∀ i, (step .v1a s (.prelude i)).isNone) ∧
      (s.cpc = .flushGate → 0 < s.flushAfter → step .v1a s .relFlush = none) := by
  have hi : I1A s := I1A.run (s := { pool := p }) ⟨by simp, by simp⟩ h
  refine ⟨fun hc i => ?_, fun hc hf => ?_⟩
  · simp [MempoolLock.step, hi.cw hc]
  · have : s.flushAfter ≠ 0 := by omega
    simp [MempoolLock.step, hc, this]

/-- … and what does not (known finding, same root as for the local client): `FlushAppConn` gives
the lock up while it waits, a `CheckTx` that passes its prelude then is queued behind the flush and
is in flight when the commit is requested. -/
theorem check_in_commit_window_v1_async :
    ∃ evs s, run .v1a {} evs = some s ∧ s.cpc = .commitGate ∧ checkInFlight s = true := by
  refine ⟨[.spawnCheck 1, .prelude 1, .spawnCommit, .lockCommit, .spawnCheck 2, .prelude 2, .relCheck 1, .relFlush,
    .relockCommit], _, rfl, ?_, ?_⟩ <;> decide

/-- the hypothesis of the partial statement is reachable with a check in flight -/
example : ∃ s, run .v1 {} [.spawnCheck 1, .prelude 1, .spawnCommit, .lockCommit, .relFlush, .relockCommit] = some s
    ∧ s.cpc = .commitGate ∧ checkInFlight s = true := ⟨_, rfl, by decide, by decide⟩

/-- the v0 window is reachable and non-trivial: a checker is blocked while rechecks are issued -/
example : ∃ s, run .v0 { pool := 2 } [.spawnCheck 1, .spawnCommit, .lockCommit, .relFlush, .relCommit] = some s
    ∧ inWindow s = true ∧ kpc s 1 = some .wantR := ⟨_, rfl, by decide, by decide⟩

end Mempool

end Tmv.Props.C05
