import Tmv.Model.StateProvider
import Tmv.Model.StatesyncReactor
import Tmv.Lemmas.StateSyncQueue
import Tmv.Lemmas.StateSyncPool
import Tmv.Lemmas.StateSyncTrace
import Tmv.Lemmas.StateSyncLight
/-! # C14 — State sync bootstraps only to light-verified state that the app reproduces
Property theorems only (helper lemmas: `Tmv/Lemmas/StateSync*.lean`). Quantification: every
theorem about the syncer holds for every state-provider `env`, every application script (verdict
sequences for Offer / Apply / Info, of any length), every arrival schedule (`pre` lists of the
verdicts, the gap oracle `Script.gap : Nat → List Msg` consulted between any two atomic steps, the
`late` feed while `Next` blocks), every fuel, and every tie-break `choose` of `Best`. -/
namespace Tmv.Props.C14
open Tmv Tmv.StateSync Tmv.StateSync.Queue Tmv.StateSync.Pool Tmv.StateSync.Thm

/-! ## chunk queue -/

/-- **chunks_in_index_order** (queue): `Next` hands out the lowest index that is not currently
returned (below the snapshot's chunk count), marks exactly that index returned, and the chunk it
hands out carries the bytes and the sender recorded for that index. -/
theorem chunks_in_index_order {q q' : Queue} {c : Chunk} (h : q.next = .chunk c q') :
    ∃ s body, q.snap = some s ∧ c.index < s.chunks ∧ q.returned c.index = false ∧
      (∀ j, j < c.index → q.returned j = true) ∧
      q.files c.index = some body ∧ c.body = some body ∧ c.sender = (q.senders c.index).getD "" ∧
      c.height = s.height ∧ c.format = s.format ∧
      q' = { q with returned := upd q.returned c.index true } := next_chunk_spec h

/-- `Next` blocks only on the lowest unreturned index and only because nothing is recorded for it -/
theorem next_waits_for_lowest_missing {q : Queue} {i : Nat} (h : q.next = .wait i) :
    ∃ s, q.snap = some s ∧ i < s.chunks ∧ q.returned i = false ∧ (∀ j, j < i → q.returned j = true) ∧
      q.files i = none := next_wait_spec h

/-- `Next` reports completion only when every chunk has been returned (or the queue is closed) -/
theorem next_done_only_when_all_returned {q : Queue} (h : q.next = .done) :
    q.snap = none ∨ ∃ s, q.snap = some s ∧ ∀ j, j < s.chunks → q.returned j = true := next_done_spec h

/-- **bytes_sender_as_recorded**: once an arrival for index `i` has been accepted, whatever else
arrives or is retried, allocated, returned (any operation sequence that does not discard `i` or
the sender), every later hand-out of index `i` carries exactly the bytes and the sender of that
accepted arrival; a later arrival for the same index never replaces it. -/
theorem handed_as_recorded {q q1 q3 : Queue} {c c' : Chunk} (ops : List QOp)
    (hadd : q.add c = (q1, .added))
    (hops : ∀ op ∈ ops, removes c.index c.sender op = false)
    (hnext : (qrun q1 ops).next = .chunk c' q3) (hidx : c'.index = c.index) :
    c'.body = c.body ∧ c'.sender = c.sender := by
  obtain ⟨s, body, hb, _, _, _, _, _, rfl⟩ := add_added_spec hadd
  have h := record_stable (i := c.index) (b := body) (p := c.sender) ops
    { q with files := upd q.files c.index (some body), senders := upd q.senders c.index (some c.sender) }
    (upd_same _ _ _) (upd_same _ _ _) hops
  obtain ⟨_, body', _, _, _, _, hf', hb', hs', _⟩ := next_chunk_spec hnext
  rw [hidx] at hf' hs'
  rw [h.1] at hf'
  rw [h.2] at hs'
  injection hf' with hf'
  subst hf'
  exact ⟨by rw [hb', hb], by simpa using hs'⟩

/-- **refetch honoured** (queue): discarding a recorded chunk removes its bytes, un-returns and
un-allocates it: `Next` cannot hand it out again before a new arrival is accepted, and the
fetchers are given the index again. -/
theorem discard_spec {q : Queue} {s : Snapshot} {i : Nat} (hs : q.snap = some s) :
    (q.discard i).files i = none ∧
    ((q.files i).isSome → (q.discard i).returned i = false ∧ (q.discard i).allocated i = false) ∧
    (∀ j, j ≠ i → (q.discard i).files j = q.files j ∧ (q.discard i).returned j = q.returned j ∧
      (q.discard i).senders j = q.senders j) := by
  unfold Queue.discard
  rw [hs]
  cases hf : q.files i with
  | none => simp [hf]
  | some b =>
    refine ⟨by simp [upd], fun _ => by simp [upd], ?_⟩
    intro j hj
    simp [upd, hj]

theorem no_handout_without_bytes {q q' : Queue} {c : Chunk} {i : Nat} (hf : q.files i = none)
    (h : q.next = .chunk c q') : c.index ≠ i := by
  obtain ⟨_, _, _, _, _, _, hf', _⟩ := next_chunk_spec h
  intro hi
  rw [hi, hf] at hf'
  cases hf'

/-- `Allocate` hands out the lowest unallocated index -/
theorem allocate_spec {q q' : Queue} {i : Nat} (h : q.allocate = (q', some i)) :
    ∃ s, q.snap = some s ∧ i < s.chunks ∧ q.allocated i = false ∧ (∀ j, j < i → q.allocated j = true) ∧
      q' = { q with allocated := upd q.allocated i true } := by
  unfold Queue.allocate at h
  split at h
  · cases h
  · rename_i s hs
    split at h
    · cases h
    · split at h
      · rename_i i' hi
        injection h with hq hi2
        injection hi2 with hi2
        subst hi2
        obtain ⟨h1, h2, h3⟩ := find_range_min hi
        exact ⟨s, hs, h1, by simpa using h2, fun j hj => by simpa using h3 j hj, hq.symm⟩
      · cases h

/-- an unallocated index (e.g. one just discarded for refetching) is always handed to a fetcher:
the length check of `Allocate` never hides it -/
theorem allocate_some_of_unallocated {q : Queue} {s : Snapshot} {j : Nat} (hs : q.snap = some s)
    (hj : j < s.chunks) (hna : q.allocated j = false) : ∃ q' i, q.allocate = (q', some i) := by
  unfold Queue.allocate
  rw [hs]
  simp only
  have hlt : allocCount q s.chunks < s.chunks := by
    unfold allocCount
    have hlen : ((List.range s.chunks).filter q.allocated).length < (List.range s.chunks).length := by
      apply List.length_filter_lt_length_iff_exists.mpr
      exact ⟨j, List.mem_range.mpr hj, by simp [hna]⟩
    simpa using hlen
  have : ¬ allocCount q s.chunks ≥ s.chunks := by omega
  simp only [this, if_false]
  cases hfind : (List.range s.chunks).find? (fun i => !q.allocated i) with
  | some i => exact ⟨_, i, rfl⟩
  | none =>
    rw [List.find?_eq_none] at hfind
    have := hfind j (List.mem_range.mpr hj)
    simp [hna] at this

/-- **retry honoured** (queue): after `Retry(i)` of the chunk just handed out, `Next` hands out
the same index again with the same recorded bytes and sender (no refetch). -/
theorem retry_spec {q q' : Queue} {c : Chunk} (h : q.next = .chunk c q') :
    ∃ q'', (q'.retry c.index).next = .chunk c q'' := by
  obtain ⟨s, body, hs, hlt, hret, hmin, hf, hb, hsd, hh, hfm, rfl⟩ := next_chunk_spec h
  have hq : ({ q with returned := upd q.returned c.index true } : Queue).retry c.index = q := by
    cases q with
    | mk snap files senders allocated returned =>
      simp only [Queue.retry]
      congr
      funext j
      by_cases hj : j = c.index
      · subst hj; simp [upd]; simpa using hret
      · simp [upd, hj]
  rw [hq]
  exact ⟨_, h⟩

/-- `RetryAll` un-returns everything: the next hand-out is index 0 again -/
theorem retryAll_spec (q : Queue) (j : Nat) : (q.retryAll).returned j = false ∧
    (q.retryAll).files = q.files ∧ (q.retryAll).senders = q.senders := by
  simp [Queue.retryAll]

/-- `DiscardSender p` leaves of `p`'s chunks only those already handed to the application -/
theorem discardSender_spec (q : Queue) (p : String) (i : Nat)
    (h : (q.discardSender p).senders i = some p) : q.returned i = true := by
  unfold Queue.discardSender at h
  split at h
  all_goals
    simp only at h
    split at h
    · cases h
    · rename_i hh
      cases hr : q.returned i with
      | true => rfl
      | false => simp [h, hr] at hh


/-! ## snapshot pool -/

inductive POp
  | add (peer : String) (s : Snapshot) | reject (s : Snapshot) | rejectFormat (f : Nat)
  | rejectPeer (p : String) | removePeer (p : String)

def pstep (recent : Nat) (p : Pool) : POp → Pool
  | .add peer s => (p.add recent peer s).1
  | .reject s => p.reject s
  | .rejectFormat f => p.rejectFormat f
  | .rejectPeer x => p.rejectPeer x
  | .removePeer x => p.removePeer x

/-- **rejected_never_reused** (pool invariant): after any history of pool operations nothing the
pool lists — snapshot key, format, advertising peer — is blacklisted. -/
theorem pool_never_lists_rejected (recent : Nat) (ops : List POp) :
    Clean (ops.foldl (pstep recent) Pool.empty) := by
  suffices h : ∀ (p : Pool), Clean p → Clean (ops.foldl (pstep recent) p) from h _ clean_empty
  induction ops with
  | nil => intro p h; exact h
  | cons op rest ih =>
    intro p h
    apply ih
    cases op with
    | add peer s => exact (clean_add h recent peer s).1
    | reject s => exact (clean_reject h s).1
    | rejectFormat f => exact (clean_rejectFormat h f).1
    | rejectPeer x => exact (clean_rejectPeer h x).1
    | removePeer x => exact clean_removePeer h x

/-- a rejection is recorded (and an earlier one is never forgotten by a later operation) -/
theorem rejection_recorded {p : Pool} (hc : Clean p) :
    (∀ s, keyOf s ∈ (p.reject s).blSnap) ∧ (∀ f, f ∈ (p.rejectFormat f).blFormat) ∧
    (∀ x, x ≠ "" → x ∈ (p.rejectPeer x).blPeer) :=
  ⟨fun s => (clean_reject hc s).2.1, fun f => (clean_rejectFormat hc f).2.1,
   fun x hx => (clean_rejectPeer hc x).2.1 hx⟩

theorem blacklists_only_grow (recent : Nat) {p : Pool} (hc : Clean p) (op : POp) :
    (∀ k ∈ p.blSnap, k ∈ (pstep recent p op).blSnap) ∧ (∀ f ∈ p.blFormat, f ∈ (pstep recent p op).blFormat) ∧
    (∀ x ∈ p.blPeer, x ∈ (pstep recent p op).blPeer) := by
  cases op with
  | add peer s =>
    obtain ⟨_, a, b, c⟩ := clean_add hc recent peer s
    simp only [pstep]; rw [a, b, c]; exact ⟨fun _ h => h, fun _ h => h, fun _ h => h⟩
  | reject s =>
    obtain ⟨_, _, m, b, c⟩ := clean_reject hc s
    simp only [pstep]; rw [b, c]; exact ⟨m, fun _ h => h, fun _ h => h⟩
  | rejectFormat f =>
    obtain ⟨_, _, m, b, c⟩ := clean_rejectFormat hc f
    simp only [pstep]; rw [b, c]; exact ⟨fun _ h => h, m, fun _ h => h⟩
  | rejectPeer x =>
    obtain ⟨_, _, m, b, c⟩ := clean_rejectPeer hc x
    simp only [pstep]; rw [b, c]; exact ⟨fun _ h => h, fun _ h => h, m⟩
  | removePeer x =>
    obtain ⟨_, a, b, c, _⟩ := removePeer_spec p x
    simp only [pstep]; rw [a, b, c]; exact ⟨fun _ h => h, fun _ h => h, fun _ h => h⟩

/-- `Best` (under any tie-break: any listed snapshot) never returns a rejected snapshot or format,
and `GetPeers` never returns a rejected peer -/
theorem best_and_peers_never_rejected {p : Pool} (hc : Clean p) :
    (∀ s, s ∈ p.snaps → keyOf s ∉ p.blSnap ∧ s.format ∉ p.blFormat) ∧
    (∀ s, p.best = some s → s ∈ p.snaps) ∧ (∀ s, s ∈ p.ranked ↔ s ∈ p.snaps) ∧
    (∀ s x, x ∈ p.getPeers s → x ∉ p.blPeer) :=
  ⟨fun s h => ⟨hc.snapKey s h, hc.snapFormat s h⟩, fun _ h => best_mem h, mem_ranked p,
   fun _ _ h => hc.peer _ (getPeers_mem h)⟩

/-- `Add` refuses whatever a rejected peer advertises, a rejected format, a rejected snapshot -/
theorem add_refuses_what_was_rejected (recent : Nat) (p : Pool) (peer : String) (s : Snapshot)
    (h : peer ∈ p.blPeer ∨ s.format ∈ p.blFormat ∨ keyOf s ∈ p.blSnap) :
    p.add recent peer s = (p, false) := add_refuses_rejected recent p peer s h

/-! ## syncer -/

variable (recent : Nat)

/-- what `verifyApp` accepts -/
def InfoMatches (iv : InfoV) (appVersion : Nat) (hash : Bytes) (height : Nat) : Prop :=
  ∃ h : Int, iv = .info appVersion hash h ∧ toU64 h = height

theorem verifyApp_ok {snap : Snapshot} {trusted : Bytes} {ver : Nat} {v : InfoV} (hne : v ≠ .echo)
    (h : verifyApp snap trusted ver v = .ok ()) : InfoMatches v ver trusted snap.height := by
  unfold verifyApp at h
  split at h
  · cases h
  · exact absurd rfl hne
  · rename_i ver' hash height
    split at h
    · cases h
    · split at h
      · cases h
      · split at h
        · cases h
        · rename_i h1 h2 h3
          have e1 : ver' = ver := by simpa using h1
          have e2 : hash = trusted := by simpa using h2
          have e3 : toU64 height = snap.height := by simpa using h3
          exact ⟨height, by rw [e1, e2], e3⟩
  · cases h

/-- **state_only_from_provider / returned_only_if_app_matches** for one `Sync`: a successful
restore returns exactly the state and commit the state provider gave for the snapshot's height,
and only after the application's `Info` (the last journalled event) reported exactly the
provider's app hash for that height, the snapshot height and the state's app version. -/
theorem syncBody_ok {env : Env} {snap : Snapshot} {fuel : Nat} {sy sy' : Sy} {sc sc' : Script}
    {st : PState} {cm : PCommit}
    (h : syncBody recent env snap fuel sy sc = (.ok (st, cm), sy', sc')) :
    env.state snap.height = .ok st ∧ env.commit snap.height = .ok cm ∧
    ∃ hash iv, env.appHash snap.height = .ok hash ∧ sy'.journal.getLast? = some (.info iv) ∧
      InfoMatches iv st.appVersion hash snap.height := by
  unfold syncBody at h
  simp only at h
  split at h
  · rename_i appHash hah
    split at h
    all_goals try (cases h; done)
    rename_i hov
    split at h
    · rename_i st0 hst
      split at h
      · rename_i cm0 hcm
        split at h
        · cases h
        · rename_i syA scA happ
          split at h
          · cases h
          · rename_i hv
            injection h with h1 h2
            injection h1 with h1
            injection h1 with e1 e2
            injection h2 with e3 e4
            subst e1 e2 e3
            refine ⟨hst, hcm, appHash, resolveInfo (popInfo scA).1 st0.appVersion appHash snap.height, hah,
              by simp [log], ?_⟩
            apply verifyApp_ok _ hv
            unfold resolveInfo
            split <;> simp_all
      · cases h
    · cases h
  · cases h


/-- the conclusion of a successful restore -/
def Verified (env : Env) (snap : Snapshot) (st : PState) (cm : PCommit) (journal : List Ev) : Prop :=
  env.state snap.height = .ok st ∧ env.commit snap.height = .ok cm ∧
  ∃ hash iv, env.appHash snap.height = .ok hash ∧ journal.getLast? = some (.info iv) ∧
    InfoMatches iv st.appVersion hash snap.height

theorem sync_ok {env : Env} {snap : Snapshot} {fuel : Nat} {sy sy' : Sy} {sc sc' : Script}
    {st : PState} {cm : PCommit}
    (h : sync recent env snap fuel sy sc = (.ok (st, cm), sy', sc')) :
    Verified env snap st cm sy'.journal := by
  unfold sync at h
  split at h
  · cases h
  · cases hb : syncBody recent env snap fuel { sy with active := true } sc with
    | mk r rest =>
      cases rest with
      | mk sy1 sc1 =>
        rw [hb] at h
        simp only at h
        injection h with h1 h2
        injection h2 with h2 h3
        subst h1 h2
        exact syncBody_ok (sy' := sy1) recent hb

/-- **state_only_from_provider / returned_only_if_app_matches**, end to end: whatever the peers
send, whatever the application answers, whichever snapshots are in the pool and however `Best`
breaks ties, `SyncAny` returns a state only if that state and commit are the state provider's for
the restored snapshot's height and the application's last `Info` reported the provider's app hash,
that height and the state's app version. -/
theorem syncAny_ok (choose : Pool → Option Snapshot) (env : Env) (fuel : Nat) :
    ∀ (n : Nat) (cur : Option Snapshot) (sy : Sy) (sc : Script) (snap : Snapshot) (st : PState)
      (cm : PCommit) (sy' : Sy) (sc' : Script),
      syncAny recent choose env fuel n cur sy sc = (.ok snap st cm, sy', sc') →
      Verified env snap st cm sy'.journal := by
  intro n
  induction n with
  | zero => intro cur sy sc snap st cm sy' sc' h; simp [syncAny] at h
  | succ n ih =>
    intro cur sy sc snap st cm sy' sc' h
    unfold syncAny at h
    simp only at h
    split at h
    · cases h
    · rename_i snap0 sy0 hpick
      split at h
      · cases h
      · rename_i sy1 hmk
        split at h
        · rename_i st0 cm0 sy2 sc2 hsync
          injection h with h1 h2
          injection h1 with e1 e2 e3
          injection h2 with e4 e5
          subst e1 e2 e3 e4
          exact sync_ok (sy' := sy2) recent hsync
        · rename_i e sy2 sc2 hsync
          split at h
          all_goals first
            | (cases h; done)
            | exact ih _ _ _ _ _ _ _ _ h


/-- **rejected_never_reused**, end to end. Let `R` be any set of snapshot keys, formats and
senders that are blacklisted in a syncer whose pool lists nothing blacklisted, and let `Best`
be any function that returns a listed snapshot. Then whatever the peers send and the application
answers, everything `SyncAny` journals from there on is `Good`: every offer carries the state
provider's app hash and is never for a snapshot or format in `R`; no chunk sent by a sender in `R`
is queued; nothing advertised by a peer in `R` (and no snapshot/format in `R`) enters the pool;
and at the end `R` is still blacklisted and the pool still lists nothing blacklisted. -/
theorem syncAny_ext (choose : Pool → Option Snapshot)
    (hchoose : ∀ p s, choose p = some s → s ∈ p.snaps) (env : Env) (R : Rej) (fuel : Nat) :
    ∀ (n : Nat) (cur : Option Snapshot) (sy : Sy) (sc : Script), Inv R sy →
      (∀ s, cur = some s → keyOf s ∉ sy.pool.blSnap ∧ s.format ∉ sy.pool.blFormat) →
      ExtA env R sy (syncAny recent choose env fuel n cur sy sc).2.1 := by
  intro n
  induction n with
  | zero => intro cur sy sc h _; exact (Ext.refl h).toA
  | succ n ih =>
    intro cur sy sc h hcur
    unfold syncAny
    simp only
    have g0 := gapStep_ext (env := env) recent h sc
    split
    · exact g0.toA
    · rename_i snap sy0 hpick
      -- the picked snapshot is not blacklisted, and sy0 extends the state after the gap
      have hp : Ext env R (gapStep recent sy sc).1 sy0 ∧
          keyOf snap ∉ sy0.pool.blSnap ∧ snap.format ∉ sy0.pool.blFormat := by
        cases cur with
        | some s =>
          simp only at hpick
          injection hpick with hpick
          injection hpick with e1 e2
          subst e1 e2
          obtain ⟨k1, k2⟩ := hcur s rfl
          exact ⟨Ext.refl g0.1, by rw [g0.2.1]; exact k1, by rw [g0.2.2.1]; exact k2⟩
        | none =>
          simp only at hpick
          cases hc : choose (gapStep recent sy sc).1.pool with
          | none => rw [hc] at hpick; cases hpick
          | some s =>
            rw [hc] at hpick
            simp only [Option.map_some] at hpick
            injection hpick with hpick
            injection hpick with e1 e2
            subst e1 e2
            have hm := hchoose _ _ hc
            exact ⟨⟨g0.1, rfl, rfl, [], by simp, by simp⟩, g0.1.1.snapKey s hm, g0.1.1.snapFormat s hm⟩
      obtain ⟨e0, hk0, hf0⟩ := hp
      have c0 := g0.trans e0
      split
      · exact c0.toA
      · rename_i sy1 hmk
        have e1 : Ext env R sy0 sy1 ∧ keyOf snap ∉ sy1.pool.blSnap ∧ snap.format ∉ sy1.pool.blFormat := by
          cases hq : sy0.queue with
          | some q =>
            rw [hq] at hmk
            simp only at hmk
            injection hmk with hmk
            subst hmk
            exact ⟨Ext.refl e0.1, hk0, hf0⟩
          | none =>
            rw [hq] at hmk
            simp only at hmk
            cases hn : Queue.new snap with
            | none => rw [hn] at hmk; cases hmk
            | some q =>
              rw [hn] at hmk
              simp only [Option.map_some] at hmk
              injection hmk with hmk
              subst hmk
              exact ⟨⟨e0.1, rfl, rfl, [], by simp, by simp⟩, hk0, hf0⟩
        obtain ⟨e1, hk1, hf1⟩ := e1
        have c1 := c0.trans e1
        have hkR : keyOf snap ∉ R.keys := fun hin => hk1 (e1.1.2.1 _ hin)
        have hfR : snap.format ∉ R.formats := fun hin => hf1 (e1.1.2.2.1 _ hin)
        have s1 := sync_ext (env := env) recent snap fuel (gapStep recent sy sc).2 e1.1 hkR hfR
        have c2 := c1.trans s1
        split
        · rename_i st cm sy2 sc2 hs
          rw [hs] at c2 s1
          simp only at c2
          exact c2.toA.trans (ExtA.pool (env := env) sy2.pool _ (by exact c2.1))
        · rename_i e sy2 sc2 hs
          rw [hs] at c2 s1
          simp only at c2 s1
          obtain ⟨hc2, hK2, hF2, hP2⟩ := c2.1
          have hk2 : keyOf snap ∉ sy2.pool.blSnap := by rw [s1.2.1]; exact hk1
          have hf2 : snap.format ∉ sy2.pool.blFormat := by rw [s1.2.2.1]; exact hf1
          have hrej : Inv R { sy2 with pool := sy2.pool.reject snap, queue := none } := by
            obtain ⟨c, _, mono, b1, b2⟩ := clean_reject hc2 snap
            exact ⟨c, fun k hk => mono k (hK2 k hk), by simpa [b1] using hF2, by simpa [b2] using hP2⟩
          split
          · exact c2.toA.trans (ExtA.pool (env := env) sy2.pool _ (by exact c2.1))
          · refine c2.toA.trans ?_
            apply ih
            · exact c2.1
            · intro s hs'; injection hs' with hs'; subst hs'; exact ⟨hk2, hf2⟩
          · exact c2.toA.trans ((ExtA.pool (env := env) _ none hrej).trans (ih _ _ _ hrej (by intro s hs'; cases hs')))
          · exact c2.toA.trans ((ExtA.pool (env := env) _ none hrej).trans (ih _ _ _ hrej (by intro s hs'; cases hs')))
          · have hrf : Inv R { sy2 with pool := sy2.pool.rejectFormat snap.format, queue := none } := by
              obtain ⟨c, _, mono, b1, b2⟩ := clean_rejectFormat hc2 snap.format
              exact ⟨c, by simpa [b1] using hK2, fun f hf => mono f (hF2 f hf), by simpa [b2] using hP2⟩
            exact c2.toA.trans ((ExtA.pool (env := env) _ none hrf).trans (ih _ _ _ hrf (by intro s hs'; cases hs')))
          · have hrp : Inv R { sy2 with pool := (sy2.pool.getPeers snap).foldl Pool.rejectPeer sy2.pool, queue := none } := by
              obtain ⟨c, _, mono, b1, b2⟩ := foldl_rejectPeer (ps := sy2.pool.getPeers snap) hc2
              exact ⟨c, by simpa [b1] using hK2, by simpa [b2] using hF2, fun p hp => mono p (hP2 p hp)⟩
            exact c2.toA.trans ((ExtA.pool (env := env) _ none hrp).trans (ih _ _ _ hrp (by intro s hs'; cases hs')))
          · exact c2.toA.trans ((ExtA.pool (env := env) _ none hrej).trans (ih _ _ _ hrej (by intro s hs'; cases hs')))
          all_goals exact c2.toA.trans (ExtA.pool (env := env) sy2.pool _ (by exact c2.1))


/-- the same inside one restore: once `R` is rejected, the rest of the `applyChunks` loop queues
no chunk of a sender in `R` and accepts nothing a peer in `R` advertises (the fix in /repo:
`AddChunk` consults the peer blacklist; rejection and discard are one atomic step). -/
theorem applyChunks_respects_rejections (env : Env) (R : Rej) (snap : Snapshot) (fuel : Nat) (sy : Sy)
    (sc : Script) (h : Inv R sy) : Ext env R sy (applyChunks recent snap fuel sy sc).2.1 :=
  applyChunks_ext recent snap fuel sc h

/-- the rejecting steps themselves establish the hypothesis `Inv` of the two theorems above:
rejecting a snapshot / a format / a sender in a clean pool leaves a clean pool that blacklists it -/
theorem rejection_establishes_inv {sy : Sy} (hc : Clean sy.pool) (snap : Snapshot) (p : String) (hp : p ≠ "")
    (q : Option Queue) :
    Inv ⟨[keyOf snap], [], []⟩ { sy with pool := sy.pool.reject snap, queue := q } ∧
    Inv ⟨[], [snap.format], []⟩ { sy with pool := sy.pool.rejectFormat snap.format, queue := q } ∧
    Inv ⟨[], [], [p]⟩ { sy with pool := sy.pool.rejectPeer p, queue := q } := by
  obtain ⟨c1, m1, _⟩ := clean_reject hc snap
  obtain ⟨c2, m2, _⟩ := clean_rejectFormat hc snap.format
  obtain ⟨c3, m3, _⟩ := clean_rejectPeer hc p
  exact ⟨⟨c1, by simpa using m1, by simp, by simp⟩, ⟨c2, by simp, by simpa using m2, by simp⟩,
    ⟨c3, by simp, by simp, by simpa using m3 hp⟩⟩

/-- of a rejected sender's chunks, `DiscardSender` leaves only those already handed to the
application (which the application can have refetched explicitly) -/
theorem rejected_sender_keeps_only_returned (q : Queue) (p : String) (i : Nat)
    (h : (q.discardSender p).senders i = some p) : q.returned i = true := discardSender_spec q p i h

/-- a chunk whose `AddChunk` races with the rejection of its sender (both are critical sections
of `s.mtx`): whether it is queued first and then discarded with the sender's other unreturned
chunks, or refused afterwards because the sender is blacklisted, the queue ends up with the same
recorded bytes and the same returned set — the chunk is never "queued after the rejection". -/
theorem racing_chunk_linearisations_agree (q : Queue) (c : Chunk) (hr : q.returned c.index = false) :
    ((q.add c).1.discardSender c.sender).files = (q.discardSender c.sender).files ∧
    ((q.add c).1.discardSender c.sender).returned = (q.discardSender c.sender).returned ∧
    ∀ (sy : Sy), c.sender ∈ sy.pool.blPeer → addChunk sy c = (sy, .rejectedSender) ∨ addChunk sy c = (sy, .noSync) := by
  refine ⟨?_, ?_, ?_⟩
  · cases hadd : q.add c with
    | mk q1 r =>
      by_cases hra : r = .added
      · subst hra
        obtain ⟨s, body, _, hs, _, _, _, hnone, rfl⟩ := add_added_spec hadd
        funext j
        simp only [Queue.discardSender, hs]
        by_cases hj : j = c.index
        · subst hj; simp [upd, hr, hnone]
        · simp [upd, hj]
      · rw [add_other_unchanged hadd hra]
  · cases hadd : q.add c with
    | mk q1 r =>
      by_cases hra : r = .added
      · subst hra
        obtain ⟨s, body, _, hs, _, _, _, hnone, rfl⟩ := add_added_spec hadd
        funext j
        simp only [Queue.discardSender, hs]
        by_cases hj : j = c.index
        · subst hj; simp [upd, hr, hnone]
        · simp [upd, hj]
      · rw [add_other_unchanged hadd hra]
  · intro sy hin
    unfold addChunk
    split
    · left; simp [hin]
    · right; rfl

/-- **chunks_in_index_order / bytes_sender_as_recorded** (syncer): the chunk the loop body hands
to the application is exactly the one `Next` returned — lowest unreturned index, recorded bytes,
recorded sender — and it is the first thing journalled. -/
theorem applied_chunk_is_next (env : Env) {sy : Sy} (sc : Script) (hc : Clean sy.pool)
    {q q' : Queue} {c : Chunk} (hn : q.next = .chunk c q') :
    ∃ s body rest, q.snap = some s ∧ c.index < s.chunks ∧ q.returned c.index = false ∧
      (∀ j, j < c.index → q.returned j = true) ∧ q.files c.index = some body ∧
      c.sender = (q.senders c.index).getD "" ∧
      (applyOne recent c { sy with queue := some q' } sc).2.1.journal =
        sy.journal ++ .apply c.index body c.sender (popApply sc).1.result (popApply sc).1.refetch
          (popApply sc).1.rejectSenders :: rest := by
  obtain ⟨s, body, hs, hlt, hr, hmin, hf, hb, hsd, _⟩ := next_chunk_spec hn
  have hinv : Inv ⟨[], [], []⟩ { sy with queue := some q' } := ⟨hc, by simp, by simp, by simp⟩
  unfold applyOne
  cases hv : popApply sc with
  | mk v sc1 =>
    simp only
    have a1 := Ext.log (env := env) hinv
      (.apply c.index (c.body.getD []) c.sender v.result v.refetch v.rejectSenders) trivial
    have a2 := deliverAll_ext (env := env) recent v.pre a1.1
    have hbody : c.body.getD [] = body := by rw [hb]; rfl
    split
    · obtain ⟨_, _, _, l, hl, _⟩ := a2
      exact ⟨s, body, l, hs, hlt, hr, hmin, hf, hsd, by rw [hl]; simp [log, hbody]⟩
    · have ar := Ext.logAll (env := env) a2.1 ((racing v).map .raceChunk) (good_race env ⟨[], [], []⟩ _)
      have a3 := doRefetch_ext (env := env) recent v.refetch sc1 ar.1
      have a4 := doRejectSenders_ext (env := env) recent v.rejectSenders
        (doRefetch recent v.refetch (logAll (deliverAll recent (log { sy with queue := some q' }
          (.apply c.index (c.body.getD []) c.sender v.result v.refetch v.rejectSenders)) v.pre)
          ((racing v).map .raceChunk)) sc1).2 a3.1
      obtain ⟨_, _, _, l, hl, _⟩ := ((a2.trans ar).trans a3).trans a4
      exact ⟨s, body, l, hs, hlt, hr, hmin, hf, hsd, by rw [hl]; simp [log, hbody]⟩

/-! ## the reactor's Receive -/

/-- **what reaches the syncer through `Receive` is well-formed**: a snapshot handed to
`AddSnapshot` comes from the peer that sent it, on the snapshot channel, while a sync is attached,
and has height > 0, a non-empty hash and at least one chunk (so `newChunkQueue` cannot fail for
it); a chunk handed to `AddChunk` carries the sending peer as its sender, came on the chunk
channel, has height > 0 and — unless the peer flagged it missing — non-empty bytes. -/
theorem receive_to_syncer_wellformed (recent : Nat) (app : ServeApp) (syncing : Bool) (chan : Nat)
    (peer : String) (m : WireMsg) :
    (∀ p s, receive recent app syncing chan peer m = .addSnapshot p s →
      p = peer ∧ syncing = true ∧ chan = snapshotChannel ∧ m = .snapshotsResponse s ∧
      0 < s.height ∧ s.hash ≠ [] ∧ 0 < s.chunks ∧ (Queue.new s).isSome = true) ∧
    (∀ c, receive recent app syncing chan peer m = .addChunk c →
      c.sender = peer ∧ syncing = true ∧ chan = chunkChannel ∧ 0 < c.height ∧
      ∃ missing, m = .chunkResponse c.height c.format c.index c.body missing ∧
        (missing = false → ∃ b, c.body = some b)) := by
  constructor
  · intro p s h
    unfold receive at h
    split at h; · cases h
    rename_i hv
    split at h
    · rename_i hc
      split at h
      · cases h
      · split at h
        · rename_i hs
          injection h with h1 h2
          subst h1 h2
          simp only [validateMsg, Bool.not_eq_true, Bool.not_eq_false] at hv
          simp at hv
          obtain ⟨⟨h1, h2⟩, h3⟩ := hv
          refine ⟨rfl, hs, hc, rfl, by omega, ?_, by omega, ?_⟩
          · intro he; rw [he] at h2; simp at h2
          · simp [Queue.new]; omega
        · cases h
      · cases h
    · split at h
      · split at h
        · cases h
        · split at h <;> cases h
        · cases h
      · cases h
  · intro c h
    unfold receive at h
    split at h; · cases h
    rename_i hv
    split at h
    · split at h
      · cases h
      · split at h <;> cases h
      · cases h
    · split at h
      · rename_i hc
        split at h
        · cases h
        · rename_i hh f i cb mi
          split at h
          · rename_i hs
            injection h with h
            subst h
            simp [validateMsg] at hv
            obtain ⟨⟨h1, _⟩, h3⟩ := hv
            refine ⟨rfl, hs, hc, by simp; omega, mi, rfl, ?_⟩
            intro hm
            subst hm
            simp at h3
            cases cb with
            | none => simp at h3
            | some b => exact ⟨b, rfl⟩
          · cases h
        · cases h
      · cases h

/-- an invalid message only ever stops the peer; without an attached syncer nothing reaches one;
at most `recent` snapshots are advertised, all of them the application's -/
theorem receive_decisions (recent : Nat) (app : ServeApp) (syncing : Bool) (chan : Nat) (peer : String) (m : WireMsg) :
    (validateMsg m = false → receive recent app syncing chan peer m = .stopPeer) ∧
    (syncing = false → (∀ p s, receive recent app syncing chan peer m ≠ .addSnapshot p s) ∧
      (∀ c, receive recent app syncing chan peer m ≠ .addChunk c)) ∧
    (recentSnapshots recent app).length ≤ recent := by
  refine ⟨?_, ?_, ?_⟩
  · intro h; simp [receive, h]
  · intro hs
    have h1 := receive_to_syncer_wellformed recent app syncing chan peer m
    constructor
    · intro p s he; have := (h1.1 p s he).2.1; rw [hs] at this; cases this
    · intro c he; have := (h1.2 c he).2.1; rw [hs] at this; cases this
  · simp [recentSnapshots, List.length_take]; omega

/-- KNOWN FINDING (`syncer.SyncAny.reject-sender-misses-peer-removed-before-verdict`): the senders
rejected for an offer answered REJECT_SENDER are the peers the pool lists when the verdict is
processed; a peer removed in between (stopped for an invalid message, or disconnected) escapes the
blacklist. Model witness: the only advertiser is stopped during the offer, the verdict rejects
nobody, and the pool accepts the same peer's next advertisement. -/
theorem reject_sender_misses_removed_peer :
    let s : Snapshot := { height := 4, format := 2, chunks := 3, hash := [0xaa], metadata := [] }
    let p0 := (Pool.empty.add 10 "p3" s).1
    let p1 := p0.removePeer "p3"                                   -- `stop:p3` while the app handles the offer
    let p2 := (p1.getPeers s).foldl Pool.rejectPeer p1             -- SyncAny on errRejectSender
    p2.blPeer = [] ∧ (p2.add 10 "p3" s).2 = true := by
  decide

/-! ## light-client state provider -/

theorem reErr_ne_ok {α β : Type} (e : ProvRes α) (x : β) : (reErr e : ProvRes β) ≠ .ok x := by
  cases e <;> simp [reErr]

/-- what the verifying RPC client lets through: valid parameters, for the requested height, whose
HASHED part (`Block.MaxBytes`, `Block.MaxGas`) is what the verified header commits to -/
theorem checkParams_ok {maxBlock : Int} {want : Nat} {trusted : Int × Int} {r : ProvRes ParamsResp} {p : Params}
    (h : checkParams maxBlock want trusted r = .ok p) :
    ∃ resp, r = .ok resp ∧ resp.params = p ∧ resp.height = (want : Int) ∧ p.hashed = trusted ∧
      p.valid maxBlock = true := by
  unfold checkParams at h
  split at h
  · rename_i resp
    split at h; · cases h
    split at h; · cases h
    split at h; · cases h
    split at h; · cases h
    rename_i h1 _ h3 h4
    injection h with h
    subst h
    exact ⟨resp, rfl, rfl, by simpa using h3, by simpa using h4, by simpa using h1⟩
  · exact absurd h (reErr_ne_ok _ _)

/-- **the returned state is assembled from light-verified blocks**: the app hash is the one in
the verified header at snapshot height + 1 (and height + 2 must verify); the commit is the one of
the verified block at the snapshot height; `LastValidators / Validators / NextValidators` are the
validator sets of the verified blocks at h, h+1, h+2; `LastBlockID`, app version, results hash
come from those blocks; of the consensus parameters exactly the hashed part is bound. -/
theorem provider_answers_from_verified_blocks (lc : Nat → ProvRes LightBlock) (maxBlock : Int)
    (rpc : Nat → ProvRes ParamsResp) (ih h : Nat) :
    (∀ x, lcAppHash lc h = .ok x → ∃ b b2, lc (h + 1) = .ok b ∧ lc (h + 2) = .ok b2 ∧ x = b.appHash) ∧
    (∀ c, lcCommit lc h = .ok c → ∃ b, lc h = .ok b ∧ c = ⟨b.height, b.hash⟩) ∧
    (∀ st, lcState lc maxBlock rpc ih h = .ok st → ∃ b0 b1 b2, lc h = .ok b0 ∧ lc (h + 1) = .ok b1 ∧
      lc (h + 2) = .ok b2 ∧
      st.lastBlockHeight = b0.height ∧ st.lastBlockID = b0.hash ∧ st.lastValidators = b0.vals ∧
      st.appHash = b1.appHash ∧ st.appVersion = b1.appVersion ∧ st.validators = b1.vals ∧
      st.lastResults = b1.lastResults ∧ st.nextValidators = b2.vals ∧
      st.lastHeightValidatorsChanged = b2.height ∧ st.lastHeightParamsChanged = b1.height ∧
      st.params.hashed = b1.consHashed ∧ st.params.valid maxBlock = true ∧
      ∃ resp, rpc b1.height = .ok resp ∧ resp.params = st.params) := by
  refine ⟨?_, ?_, ?_⟩
  · intro x hx
    unfold lcAppHash assembleAppHash at hx
    split at hx
    · rename_i b hb
      split at hx
      · rename_i b2 hb2
        injection hx with hx
        exact ⟨b, b2, hb, hb2, hx.symm⟩
      · exact absurd hx (reErr_ne_ok _ _)
    · exact absurd hx (reErr_ne_ok _ _)
  · intro c hc
    unfold lcCommit assembleCommit at hc
    split at hc
    · rename_i b hb; injection hc with hc; exact ⟨b, hb, hc.symm⟩
    · exact absurd hc (reErr_ne_ok _ _)
  · intro st hst
    unfold lcState assembleState at hst
    split at hst
    · rename_i b0 h0
      split at hst
      · rename_i b1 h1
        split at hst
        · rename_i b2 h2
          split at hst
          · rename_i p hp
            obtain ⟨resp, hr, hrp, _, hh, hv⟩ := checkParams_ok hp
            injection hst with hst
            subst hst
            exact ⟨b0, b1, b2, h0, h1, h2, rfl, rfl, rfl, rfl, rfl, rfl, rfl, rfl, rfl, rfl, hh, hv, resp, hr, hrp⟩
          · exact absurd hst (reErr_ne_ok _ _)
        · exact absurd hst (reErr_ne_ok _ _)
      · exact absurd hst (reErr_ne_ok _ _)
    · exact absurd hst (reErr_ne_ok _ _)

/-- KNOWN FINDING (`stateprovider.State.consensus-params-unhashed-fields-not-verified`): the header's
`ConsensusHash` covers only `Block.MaxBytes/MaxGas`, so the rest of the consensus parameters of
the returned state (evidence age and size, `TimeIotaMs`, pubkey types, app version) is whatever
the primary RPC server says: two answers that differ in an unhashed field are both accepted
against the same verified header. The full-strength claim "the state's consensus parameters are
the chain's" is therefore false of the code; `provider_answers_from_verified_blocks` proves the
partial one (hashed part bound, parameters valid). -/
theorem consensus_params_determined_by_header_fails :
    ¬ (∀ (maxBlock : Int) (want : Nat) (trusted : Int × Int) (r r' : ParamsResp) (p p' : Params),
        checkParams maxBlock want trusted (.ok r) = .ok p →
        checkParams maxBlock want trusted (.ok r') = .ok p' → p = p') := by
  intro hall
  let p : Params := { maxBytes := 100, maxGas := -1, timeIota := 1000, evAgeBlocks := 100000, evAgeDur := 1
                      evMaxBytes := 10, pubKeyTypes := ["ed25519"], appVersion := 0 }
  let p' : Params := { p with evAgeBlocks := 1, appVersion := 7 }
  have h := hall 104857600 5 (100, -1) ⟨5, p⟩ ⟨5, p'⟩ p p' rfl rfl
  exact absurd h (by decide)

/-! ## the provider over C09's light client -/

/-- **bootstrapped_state_is_light_verified**: with `VerifyLightBlockAtHeight` instantiated by C09's
light-client model (C07's commit verification composed in), on ANY client state satisfying C09's
invariant — in particular the state after `NewClient` with trust root `root` and any sequence of
calls (`Props.C09.stored_reachable_session`) — for every behaviour of the primary, the witnesses
and the RPC server, every arrival order of witness replies and every clock:
if `AppHash`, `State` and `Commit` (the calls of `Sync`, in its order, on the one light client)
all succeed, then the app hash offered to the application, the state's `LastBlockID`, its three
validator sets, its app hash and results hash, the hashed part of its consensus parameters, and
the commit are those of light blocks REACHABLE from the trust root by steps the verifier accepted
(C09's `Reach`), and the client still satisfies the invariant. -/
theorem bootstrapped_state_is_light_verified (v : LightView) (maxBlock : Int) (rpc : Nat → ProvRes ParamsResp)
    (ih : Nat) (eA eS eC : CallEnv) {cfg : Light.Config} {root : Light.Hash → Prop} {c c1 c2 c3 : Light.Client}
    (hinv : Light.Inv cfg root c) (h : Nat) {ah : Bytes} {st : LcState} {cm : LcCommit}
    (hA : lightAppHash v eA c h = (c1, .ok ah))
    (hS : lightState v maxBlock rpc ih eS c1 h = (c2, .ok st))
    (hC : lightCommit v eC c2 h = (c3, .ok cm)) :
    (∃ b1, Light.Reach cfg root b1 ∧ ah = v.enc b1.hdr.appHash) ∧
    (∃ b0 b1 b2, Light.Reach cfg root b0 ∧ Light.Reach cfg root b1 ∧ Light.Reach cfg root b2 ∧
      st.lastBlockID = v.enc b0.hash ∧ st.lastValidators = v.enc b0.vals.hash ∧
      st.appHash = v.enc b1.hdr.appHash ∧ st.validators = v.enc b1.vals.hash ∧
      st.lastResults = v.enc b1.hdr.resHash ∧ st.appVersion = v.hdrApp b1.hash ∧
      st.params.hashed = v.hdrCons b1.hash ∧ st.nextValidators = v.enc b2.vals.hash) ∧
    (∃ b, Light.Reach cfg root b ∧ cm.blockHash = v.enc b.hash) ∧
    Light.Inv cfg root c3 := by
  -- AppHash
  have hA1 := vlb_spec (cfg := cfg) (root := root) (eA.sched 0) (h + 1) (eA.now 0) hinv
  have partA : (∃ b1, Light.Reach cfg root b1 ∧ ah = v.enc b1.hdr.appHash) ∧ Light.Inv cfg root c1 := by
    unfold lightAppHash at hA
    cases hv1 : vlb c (eA.sched 0) (h + 1) (eA.now 0) with
    | mk ca r1 =>
      rw [hv1] at hA hA1
      cases r1 with
      | ok b1 =>
        simp only at hA
        have hA2 := vlb_spec (cfg := cfg) (root := root) (eA.sched 1) (h + 2) (eA.now 1) hA1.1
        cases hv2 : vlb ca (eA.sched 1) (h + 2) (eA.now 1) with
        | mk cb r2 =>
          rw [hv2] at hA hA2
          simp only at hA
          obtain ⟨e1, e2⟩ := Prod.mk.inj hA
          subst e1
          refine ⟨⟨b1, hA1.2 b1 rfl, ?_⟩, hA2.1⟩
          unfold assembleAppHash at e2
          simp only at e2
          split at e2
          · injection e2 with e2; exact e2.symm
          · exact absurd e2 (reErr_ne_ok _ _)
      | error er =>
        simp only at hA
        obtain ⟨_, e2⟩ := Prod.mk.inj hA
        unfold assembleAppHash at e2
        split at e2
        · rename_i hb; cases er <;> simp [LightView.res] at hb
        · exact absurd e2 (reErr_ne_ok _ _)
  obtain ⟨pa, hi1⟩ := partA
  -- State
  have partS : (∃ b0 b1 b2, Light.Reach cfg root b0 ∧ Light.Reach cfg root b1 ∧ Light.Reach cfg root b2 ∧
      st.lastBlockID = v.enc b0.hash ∧ st.lastValidators = v.enc b0.vals.hash ∧
      st.appHash = v.enc b1.hdr.appHash ∧ st.validators = v.enc b1.vals.hash ∧
      st.lastResults = v.enc b1.hdr.resHash ∧ st.appVersion = v.hdrApp b1.hash ∧
      st.params.hashed = v.hdrCons b1.hash ∧ st.nextValidators = v.enc b2.vals.hash) ∧ Light.Inv cfg root c2 := by
    unfold lightState at hS
    have s0 := vlb_spec (cfg := cfg) (root := root) (eS.sched 0) h (eS.now 0) hi1
    cases hv0 : vlb c1 (eS.sched 0) h (eS.now 0) with
    | mk ca r0 =>
      rw [hv0] at hS s0
      cases r0 with
      | error er =>
        simp only at hS
        obtain ⟨_, e2⟩ := Prod.mk.inj hS
        unfold assembleState at e2
        split at e2
        · rename_i hb; cases er <;> simp [LightView.res] at hb
        · exact absurd e2 (reErr_ne_ok _ _)
      | ok b0 =>
        simp only at hS
        have s1 := vlb_spec (cfg := cfg) (root := root) (eS.sched 1) (h + 1) (eS.now 1) s0.1
        cases hv1 : vlb ca (eS.sched 1) (h + 1) (eS.now 1) with
        | mk cb r1 =>
          rw [hv1] at hS s1
          cases r1 with
          | error er =>
            simp only at hS
            obtain ⟨_, e2⟩ := Prod.mk.inj hS
            unfold assembleState at e2
            simp only at e2
            split at e2
            · rename_i hb; cases er <;> simp [LightView.res] at hb
            · exact absurd e2 (reErr_ne_ok _ _)
          | ok b1 =>
            simp only at hS
            have s2 := vlb_spec (cfg := cfg) (root := root) (eS.sched 2) (h + 2) (eS.now 2) s1.1
            cases hv2 : vlb cb (eS.sched 2) (h + 2) (eS.now 2) with
            | mk cc r2 =>
              rw [hv2] at hS s2
              simp only at hS
              obtain ⟨e1, e2⟩ := Prod.mk.inj hS
              subst e1
              refine ⟨?_, s2.1⟩
              unfold assembleState at e2
              simp only at e2
              split at e2
              · rename_i nb hnb
                obtain ⟨b2, hr2, rfl⟩ := res_ok hnb
                split at e2
                · rename_i p hp
                  obtain ⟨_, _, _, _, hh, _⟩ := checkParams_ok hp
                  injection e2 with e2
                  subst e2
                  exact ⟨b0, b1, b2, s0.2 b0 rfl, s1.2 b1 rfl, s2.2 b2 hr2, rfl, rfl, rfl, rfl, rfl, rfl, hh, rfl⟩
                · exact absurd e2 (reErr_ne_ok _ _)
              · exact absurd e2 (reErr_ne_ok _ _)
  obtain ⟨ps, hi2⟩ := partS
  -- Commit
  unfold lightCommit at hC
  have k0 := vlb_spec (cfg := cfg) (root := root) (eC.sched 0) h (eC.now 0) hi2
  cases hvc : vlb c2 (eC.sched 0) h (eC.now 0) with
  | mk ca r0 =>
    rw [hvc] at hC k0
    simp only at hC
    obtain ⟨e1, e2⟩ := Prod.mk.inj hC
    subst e1
    refine ⟨pa, ps, ?_, k0.1⟩
    unfold assembleCommit at e2
    split at e2
    · rename_i b hb
      obtain ⟨l, hl, rfl⟩ := res_ok hb
      injection e2 with e2
      subst e2
      exact ⟨l, k0.2 l hl, rfl⟩
    · exact absurd e2 (reErr_ne_ok _ _)

/-- the hypothesis `Light.Inv` of the theorem above is what C09 establishes for a freshly created
client (trust root given by hash) -/
theorem light_inv_after_newClient {cfg : Light.Config} {primary : Light.Prov} {witnesses : List Light.Prov}
    {sched : List Light.Prov → List Nat} {period height : Int} {root : Light.Hash} {c0 : Light.Client}
    (hnew : Light.newClient cfg primary witnesses sched period height root = .ok c0) :
    Light.Inv cfg (· = root) c0 := Light.newClient_inv hnew

/-! ## what the node does with the answers (`startStateSync`: `SaveSeenCommit`, `Bootstrap`) -/

/-- the answers of one provider for one height, given that the light client returns the block
of the height it was asked for -/
structure Restored (lc : Nat → ProvRes LightBlock) (maxBlock : Int) (rpc : Nat → ProvRes ParamsResp)
    (ih h : Nat) (st : LcState) (c : LcCommit) : Prop where
  atHeight : ∀ k b, lc k = .ok b → b.height = k
  state : lcState lc maxBlock rpc ih h = .ok st
  commit : lcCommit lc h = .ok c

theorem restored_facts {lc : Nat → ProvRes LightBlock} {maxBlock : Int} {rpc : Nat → ProvRes ParamsResp}
    {ih h : Nat} {st : LcState} {c : LcCommit} (r : Restored lc maxBlock rpc ih h st c) :
    st.lastBlockHeight = h ∧ c.height = h ∧ c.blockHash = st.lastBlockID ∧ st.lastHeightParamsChanged = h + 1 := by
  obtain ⟨_, hc, hs⟩ := provider_answers_from_verified_blocks lc maxBlock rpc ih h
  obtain ⟨b0, b1, b2, h0, h1, _, e1, e2, _, _, _, _, _, _, _, e3, _⟩ := hs st r.state
  obtain ⟨b, hb, rfl⟩ := hc c r.commit
  rw [h0] at hb
  injection hb with hb
  subst hb
  have := r.atHeight h b0 h0
  have := r.atHeight (h + 1) b1 h1
  exact ⟨by omega, by simpa using r.atHeight h b0 h0, e2.symm, by omega⟩

/-- **the bootstrapped node can start**: after both writes (in either order) the state store
holds exactly the restored state, `LoadValidators` at h, h+1, h+2 returns the light-verified
sets, `LoadConsensusParams(h+1)` the restored parameters, the seen commit is the verified
block's, and consensus reconstructs its `LastCommit` (`startNode = ok`). -/
theorem bootstrapped_node_starts {lc : Nat → ProvRes LightBlock} {maxBlock : Int}
    {rpc : Nat → ProvRes ParamsResp} {ih h : Nat} {st : LcState} {c : LcCommit}
    (r : Restored lc maxBlock rpc ih h st c) (hpos : 0 < h) (hv : st.lastValidators ≠ []) (commitFirst : Bool) :
    let s := startWrites commitFirst .none st c
    startNode s = .ok ∧ s.state = some st ∧ s.vals h = some st.lastValidators ∧
    s.vals (h + 1) = some st.validators ∧ s.vals (h + 2) = some st.nextValidators ∧
    loadParams s (h + 1) = some st.params ∧ s.seen h = some c := by
  obtain ⟨e1, e2, e3, e4⟩ := restored_facts r
  have hz : ¬ h = 0 := by omega
  have a1 : ¬ h = h + 1 + 1 := by omega
  have a2 : ¬ h = h + 1 := by omega
  have a3 : h + 1 - 1 = h := by omega
  have a4 : ¬ h + 1 = h + 1 + 1 := by omega
  have a5 : ¬ h + 2 = h + 1 := by omega
  have a6 : 1 < h + 1 := by omega
  cases commitFirst <;>
    simp [startWrites, startNode, bootstrap, saveSeenCommit, loadParams, Stores.empty, upd, e1, e2, e3, e4, hz, hv,
      a1, a2, a3, a4, a5, a6]

/-- **no crash leaves a node that can neither start nor state-sync again** (order of /repo after
the fix: synced seen commit first, then the state): whatever the crash point, a restarting node
either finds an empty state (and runs state sync again) or starts consensus. -/
theorem crash_safe_commit_first {lc : Nat → ProvRes LightBlock} {maxBlock : Int}
    {rpc : Nat → ProvRes ParamsResp} {ih h : Nat} {st : LcState} {c : LcCommit}
    (r : Restored lc maxBlock rpc ih h st c) (crash : Crash) :
    startNode (startWrites true crash st c) = .ok ∨ startNode (startWrites true crash st c) = .stateSyncAgain := by
  obtain ⟨e1, e2, e3, e4⟩ := restored_facts r
  cases crash
  · left
    simp [startWrites, startNode, bootstrap, saveSeenCommit, Stores.empty, upd, e1, e2, e3]
  · right; simp [startWrites, startNode, saveSeenCommit, Stores.empty]
  · right; simp [startWrites, startNode, Stores.empty]

/-- the order before the fix (state first, unsynced seen commit second): a crash between the
two writes leaves the restored state without its seen commit — consensus panics in
`reconstructLastCommit`, and the node does not state-sync again (replayed on the real
`consensus.NewState`: replays/C14-witness-crash-between-bootstrap-and-seen-commit-before-fix.json) -/
theorem crash_between_state_first_unstartable {lc : Nat → ProvRes LightBlock} {maxBlock : Int}
    {rpc : Nat → ProvRes ParamsResp} {ih h : Nat} {st : LcState} {c : LcCommit}
    (r : Restored lc maxBlock rpc ih h st c) (hpos : 0 < h) :
    startNode (startWrites false .between st c) = .panicNoSeenCommit := by
  obtain ⟨e1, _, _, _⟩ := restored_facts r
  have : ¬ h = 0 := by omega
  simp [startWrites, startNode, bootstrap, Stores.empty, e1, this]

/-! ## non-vacuity: the hypotheses of the theorems above are satisfiable by concrete, non-trivial
states (a queue that hands out a recorded chunk / blocks on a missing one; a pool with a listed
snapshot and non-empty blacklists satisfying `Inv`; `Best` satisfying `hchoose`; a complete
`SyncAny` run with a RETRY verdict and late chunk arrivals that ends in `.ok`). -/

def exSnap : Snapshot := { height := 2, format := 1, chunks := 2, hash := [0xaa], metadata := [] }
def exQ0 : Queue :=
  { snap := some exSnap
    files := fun _ => none
    senders := fun _ => none
    allocated := fun _ => false
    returned := fun _ => false }
def exC (i : Nat) (b : UInt8) (p : String) : Chunk := { height := 2, format := 1, index := i, body := some [b], sender := p }

/-- non-vacuity: a queue holding chunk 0 from p1 hands it out -/
example : ∃ c q', ((exQ0.add (exC 0 7 "p1")).1).next = .chunk c q' ∧ c.index = 0 ∧ c.sender = "p1" :=
  ⟨_, _, rfl, rfl, rfl⟩

example : (exQ0.add (exC 1 7 "p1")).2 = .added := rfl
example : (exQ0.add (exC 1 7 "p1")).1.next = .wait 0 := rfl

def exPool : Pool := { snaps := [exSnap], peers := [(keyOf exSnap, "p2")], blFormat := [7], blPeer := ["p1"], blSnap := [[1]] }
theorem exPool_clean : Clean exPool := ⟨by decide, by decide, by decide⟩
def exSy : Sy := { pool := exPool, queue := none, active := false, journal := [] }
example : Inv ⟨[[1]], [7], ["p1"]⟩ exSy := ⟨exPool_clean, by decide, by decide, by decide⟩
example : ∀ p s, Pool.best p = some s → s ∈ p.snaps := fun _ _ h => best_mem h

def exEnv : Env := { appHash := fun _ => .ok [0xa1], state := fun h => .ok ⟨h, 1⟩, commit := fun h => .ok ⟨h⟩ }
def exScript : Script :=
  { offers := []
    applies := [{ result := .retry, refetch := [], rejectSenders := [], pre := [] }]
    infos := []
    late := [.chunk (exC 0 7 "p2"), .chunk (exC 1 8 "p2")]
    fallback := none
    gap := fun _ => []
    tick := 0 }
example : (syncAny 10 Pool.best exEnv 50 10 none exSy exScript).1 = .ok exSnap ⟨2, 1⟩ ⟨2⟩   := by rfl

def exLc (k : Nat) : ProvRes LightBlock :=
  if 1 ≤ k ∧ k ≤ 9 then .ok { height := k, hash := [UInt8.ofNat k], appHash := [UInt8.ofNat (k + 100)], appVersion := 0
                              vals := [UInt8.ofNat (k / 3 + 1)], lastResults := [], consHashed := (100, -1) }
  else .err
def exParams : Params := { maxBytes := 100, maxGas := -1, timeIota := 1000, evAgeBlocks := 5, evAgeDur := 1
                           evMaxBytes := 10, pubKeyTypes := ["ed25519"], appVersion := 0 }
def exRpc (k : Nat) : ProvRes ParamsResp := .ok ⟨k, exParams⟩

/-- non-vacuity of `Restored` (snapshot height 2 on a 9-block chain with validator changes) -/
example : ∃ st c, Restored exLc 104857600 exRpc 1 2 st c ∧ st.validators ≠ st.lastValidators := by
  refine ⟨_, _, ⟨?_, rfl, rfl⟩, by decide⟩
  intro k b hk
  unfold exLc at hk
  split at hk
  · injection hk with hk; subst hk; rfl
  · cases hk

/-! ## the hand-over with failing steps -/

theorem bootWrites_prefix (st : LcState) (s : Stores) (n : Nat) :
    let r := ((bootWrites st).take n).foldl (fun s w => w s) s
    r.seen = s.seen ∧ (n < (bootWrites st).length → r.state = s.state) ∧
    ((bootWrites st).length ≤ n → r.state = some st) := by
  unfold bootWrites
  simp only
  generalize (if st.lastBlockHeight + 1 = 1 then st.initialHeight else st.lastBlockHeight + 1) = height
  by_cases hc : height > 1 ∧ st.lastValidators ≠ []
  · rw [if_pos hc]
    match n with
    | 0 | 1 | 2 | 3 | 4 => simp
    | n + 5 => simp; omega
  · rw [if_neg hc]
    match n with
    | 0 | 1 | 2 | 3 => simp
    | n + 4 => simp; omega

theorem bootstrapFailing_spec (s : Stores) (st : LcState) (k : Nat) :
    (bootstrapFailing s st k).1.seen = s.seen ∧
    ((bootstrapFailing s st k).2 = true → (bootstrapFailing s st k).1.state = some st) ∧
    ((bootstrapFailing s st k).2 = false → (bootstrapFailing s st k).1.state = s.state) := by
  unfold bootstrapFailing
  simp only
  split
  · have h := bootWrites_prefix st s (bootWrites st).length
    simp only [List.take_length] at h
    exact ⟨h.1, fun _ => h.2.2 (Nat.le_refl _), fun h' => by cases h'⟩
  · rename_i hk
    have hlt : k - 1 < (bootWrites st).length := by omega
    have h := bootWrites_prefix st s (k - 1)
    exact ⟨h.1, fun h' => by simp at h', fun _ => h.2.1 hlt⟩


/-- `Bootstrap` without a failing write is `bootstrap` -/
theorem bootstrapFailing_none (st : LcState) :
    (bootstrapFailing Stores.empty st 0).2 = true ∧
    (bootstrapFailing Stores.empty st 0).1.state = (bootstrap Stores.empty st).state := by
  have h := bootstrapFailing_spec Stores.empty st 0
  have h2 : (bootstrapFailing Stores.empty st 0).2 = true := by simp [bootstrapFailing]
  exact ⟨h2, by rw [h.2.1 h2]; simp [bootstrap]⟩

/-- the order and error handling of node/node.go `startStateSync` (anchored by the facts
`c14_startStateSync_order`, `c14_handover_seen_err_returns`, `c14_handover_boot_err_returns`) -/
def repoHandCode : HandCode := { commitFirst := true, seenErrReturns := true, bootErrReturns := true }

/-- **the node starts from the restored state only if state AND seen commit are stored**, for
every failure pattern of the hand-over (`SaveSeenCommit` failing, any write of `Bootstrap`
failing, `SwitchToFastSync` failing): if afterwards the state store is not empty — so that a
(re)starting node goes on from the restored state instead of state syncing again — or the node
switched to block sync, then the seen commit of the restored height is stored; and if it switched,
the state store holds exactly the restored state. -/
theorem handover_starts_only_if_both_stored (f : Faults) (st : LcState) (c : LcCommit) :
    let r := handOver repoHandCode f st c
    (r.2 = true ∨ r.1.state ≠ none) →
      r.1.seen st.lastBlockHeight = some c ∧ (r.2 = true → r.1.state = some st) := by
  unfold handOver repoHandCode
  simp only [if_true]
  cases hs : f.seenFails with
  | true => simp [Stores.empty]
  | false =>
    simp only [Bool.false_eq_true, if_false, Bool.not_true, Bool.false_and]
    have hb := bootstrapFailing_spec (saveSeenCommit Stores.empty st.lastBlockHeight c) st f.bootFailAt
    cases hr : bootstrapFailing (saveSeenCommit Stores.empty st.lastBlockHeight c) st f.bootFailAt with
    | mk s2 ok2 =>
      rw [hr] at hb
      simp only at hb
      have hseen : s2.seen st.lastBlockHeight = some c := by rw [hb.1]; simp [saveSeenCommit, upd]
      cases ok2 with
      | true => simp [hseen, hb.2.1 rfl]
      | false =>
        have : s2.state = none := by rw [hb.2.2 rfl]; rfl
        simp [hseen, this]

/-- with both error paths returning, the node switches to block sync only after both writes
succeeded — in either order of the writes -/
theorem handover_switches_only_after_both (commitFirst : Bool) (f : Faults) (st : LcState) (c : LcCommit) :
    let r := handOver { commitFirst := commitFirst, seenErrReturns := true, bootErrReturns := true } f st c
    r.2 = true → r.1.seen st.lastBlockHeight = some c ∧ r.1.state = some st := by
  unfold handOver
  cases commitFirst
  · -- state first
    simp only [Bool.false_eq_true, if_false]
    have hb := bootstrapFailing_spec Stores.empty st f.bootFailAt
    cases hr : bootstrapFailing Stores.empty st f.bootFailAt with
    | mk s1 ok1 =>
      rw [hr] at hb
      simp only at hb
      cases ok1 with
      | false => simp
      | true =>
        cases hs : f.seenFails with
        | true => simp
        | false => simp [saveSeenCommit, upd, hb.2.1 rfl]
  · simp only [if_true]
    cases hs : f.seenFails with
    | true => simp
    | false =>
      simp only [Bool.false_eq_true, if_false, Bool.not_true, Bool.false_and]
      have hb := bootstrapFailing_spec (saveSeenCommit Stores.empty st.lastBlockHeight c) st f.bootFailAt
      cases hr : bootstrapFailing (saveSeenCommit Stores.empty st.lastBlockHeight c) st f.bootFailAt with
      | mk s2 ok2 =>
        rw [hr] at hb
        simp only at hb
        cases ok2 with
        | false => simp
        | true =>
          intro _
          simp only [Bool.not_true, Bool.false_and, Bool.false_eq_true, if_false]
          exact ⟨by rw [hb.1]; simp [saveSeenCommit, upd], hb.2.1 rfl⟩

/-- an error of `SaveSeenCommit` that is only logged (the hand-over goes on) breaks it: the node
switches to block sync from the restored state without the commit of its last block -/
theorem handover_ignoring_seen_error_fails (st : LcState) (c : LcCommit) :
    let r := handOver { commitFirst := true, seenErrReturns := false, bootErrReturns := true }
      { seenFails := true, bootFailAt := 0, switchFails := false } st c
    r.2 = true ∧ r.1.state = some st ∧ r.1.seen st.lastBlockHeight = none := by
  have hb := bootstrapFailing_spec Stores.empty st 0
  have hok : (bootstrapFailing Stores.empty st 0).2 = true := by simp [bootstrapFailing]
  unfold handOver
  simp only [if_true]
  cases hr : bootstrapFailing Stores.empty st 0 with
  | mk s2 ok2 =>
    rw [hr] at hb hok
    simp only at hb hok
    subst hok
    simp [hb.2.1 rfl, hb.1, Stores.empty]

/-! non-vacuity of `bootstrapped_state_is_light_verified`: a concrete chain and honest providers
(the example chain of Props/C09.lean, copied), snapshot height 1, trust root = block 1 -/
namespace ExLight
open Tmv.Light

def V : ValSet := { vals := [(0, 1), (1, 1), (2, 1)], hash := 1 }
def hdr (h t : Int) (app hash last : Nat) : Header := {
  chain := 0, height := h, time := t, valsHash := 1, nextValsHash := 1
  lastBlockHash := last, appHash := app, consHash := 0, resHash := 0, basicOK := true, hash := hash }
/-- signature tokens: 1 = valid for the slot's validator over this commit, anything else invalid -/
def sigOK : SigOK := fun _ _ s => s == 1
def bid (hash : Nat) : CommitVerify.BlockID :=
  { hash := List.replicate 32 (UInt8.ofNat hash), total := 1, psHash := List.replicate 32 1 }
/-- a commit in which exactly the validators `signers` (ids 0..2, in set order) signed for the block -/
def mkCommit (h : Int) (hash : Nat) (signers : List Nat) : CommitVerify.Commit Nat :=
  { height := h, round := 0, blockID := bid hash,
    sigs := [0, 1, 2].map fun id =>
      if signers.contains id then { flag := 2, addr := [UInt8.ofNat id], ts := 7, sig := 1 }
      else { flag := 1, addr := [], ts := 0, sig := 0 } }
def blk (h t : Int) (app hash last : Nat) (signers : List Nat) : Light.LightBlock :=
  { hdr := hdr h t app hash last, commitOK := true, commit := mkCommit h hash signers, vals := V }
def b1 := blk 1 10 0 1 0 [0, 1, 2]
def b2 := blk 2 20 0 2 1 [0, 1, 2]
def b3 := blk 3 30 0 3 2 [0, 1, 2]
def b4 := blk 4 40 0 4 3 [0, 1]        -- signed by 2/3 only: not enough
def f3 := blk 3 30 1 5 2 [0, 1, 2]     -- equivocation at height 3
def table (l : List Light.LightBlock) : Nat → Int → Resp := fun _ h =>
  match l.find? (fun b => b.height == (if h = 0 then 3 else h)) with
  | some b => .ok b
  | none => .err .notFound
def honest (id : Nat) : Prov := { id := id, chain := 0, script := table [b1, b2, b3] }
def liar (id : Nat) : Prov := { id := id, chain := 0, script := table [b1, b2, f3] }
def silent (id : Nat) : Prov := { id := id, chain := 0, script := fun _ _ => .err .noResponse }
def cfg : Config := {
  chain := 0, period := 1000, sequential := false, level := ⟨1, 3⟩, drift := 1
  pruning := 0, fuel := 30, sigOK := sigOK }
def fifo : List Prov → List Nat := fun ws => List.range ws.length

instance : Inhabited Client := ⟨{
  cfg := cfg, primary := default, witnesses := [], calls := (fun _ => 0)
  store := default, latest := none, evidence := [], sched := fifo }⟩

def start (primary : Prov) (ws : List Prov) : Client :=
  match newClient cfg primary ws fifo 1000 1 1 with
  | .ok c => c
  | .error _ => default

def errOf {α : Type} : Except Err α → Option Err
  | .error e => some e
  | .ok _ => none

end ExLight
open ExLight in
def exView : LightView := { enc := fun n => [UInt8.ofNat n], hdrApp := fun _ => 0, hdrCons := fun _ => (100, -1) }
open ExLight in
def exCall : CallEnv := { now := fun _ => 35, sched := fun _ => fifo }

def okOf {α : Type} : ProvRes α → Option α
  | .ok a => some a
  | _ => none

open ExLight in
/-- the three provider calls succeed on a concrete client, with non-trivial answers -/
example :
    let c := start (honest 1) [honest 2]
    let a := lightAppHash exView exCall c 1
    let s := lightState exView 104857600 exRpc 1 exCall a.1 1
    let k := lightCommit exView exCall s.1 1
    okOf a.2 = some [0] ∧ (okOf s.2).map (fun st => (st.lastBlockID, st.lastBlockHeight)) = some ([1], 1) ∧
    (okOf k.2).map (·.blockHash) = some [1] := by
  decide
end Tmv.Props.C14
