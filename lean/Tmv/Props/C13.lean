import Tmv.Lemmas.BlockSync
import Tmv.Lemmas.BlockSyncHandover
import Tmv.Model.BlockSyncV2
import Tmv.Model.BlockSyncV1
import Tmv.Model.BlockSyncV2Sched
import Tmv.Lemmas.BlockSyncWF
import Tmv.Lemmas.BlockSyncPend
/-! # C13 — Block sync applies only the canonical chain, whatever peers send
Property theorems about the model `Tmv.BlockSync` of blockchain/v0 (pool.go, reactor.go
`poolRoutine`), `VerifyCommitLight`/`VerifyCommit`, `validateBlock` and the hand-over
(`reconstructLastCommit` → `CommitToVoteSet`). `sigOK` is an arbitrary signature predicate;
voting powers are natural numbers (as in every `ValidatorSet`), validator sets change along the
chain as `updateState` prescribes (updates of block `h` are in force at `h + 2`). Runs are arbitrary lists of
`Op` (what peers send, in any order, and every scheduling of the requester transitions). -/
namespace Tmv.Props.C13
open Tmv Tmv.BlockSync
variable (sigOK : Nat → SignBytes → Nat → Bool)

/-- a genesis state with two validators (powers 7 and 3) for the concrete witnesses -/
def witnessSt0 : St := ⟨1, 0, BlockId.zero, [⟨1, 0, 7⟩, ⟨2, 1, 3⟩], [⟨1, 0, 7⟩, ⟨2, 1, 3⟩], []⟩

/-- the store is a chain grown from `st0`: every saved block came with a commit carrying valid
signatures of more than 2/3 of the validator set the state prescribed for its height, for exactly
its id (hash + part-set header), and passed `validateBlock` on the state it was applied to -/
inductive StoreOK (st0 : St) : List (Block × Commit) → St → Prop
  | nil : StoreOK st0 [] st0
  | cons {rest : List (Block × Commit)} {st : St} {b : Block} {c : Commit} :
      StoreOK st0 rest st → Quorum sigOK st.vals b.id b.height c → validate sigOK st b = .ok () →
      StoreOK st0 ((b, c) :: rest) (applyBlock st b)

/-- one iteration of the processing branch keeps the invariant -/
theorem processStep_storeOK (st0 : St) (n : Node)
    (h : StoreOK sigOK st0 n.store n.st) :
    StoreOK sigOK st0 (n.processStep sigOK).1.store (n.processStep sigOK).1.st := by
  unfold Node.processStep
  split
  · rename_i first second _
    split
    · -- verification failed: nothing is saved
      have := redoBoth_st n first.height second.height
      simp only [this.1, this.2]
      exact h
    · rename_i hc
      split
      · -- saved
        unfold checkPair at hc
        split at hc; · cases hc
        rename_i hv
        split at hc; · cases hc
        rename_i hval
        have hq := verifyCommitLight_quorum sigOK n.st.vals first.id first.height second.lastCommit
          (by cases ‹Unit›; exact hv)
        exact StoreOK.cons h hq (by cases ‹Unit›; exact hval)
      · exact h
  · exact h

/-- every operation other than processing leaves state and store alone -/
theorem apply_storeOK (st0 : St) (n : Node) (op : Op)
    (h : StoreOK sigOK st0 n.store n.st) :
    StoreOK sigOK st0 (n.apply sigOK op).store (n.apply sigOK op).st := by
  cases op with
  | process => exact processStep_storeOK sigOK st0 n h
  | restart =>
    simp only [Node.apply, Node.restart]
    split <;> split <;> first | exact h | (simpa [Node.new] using h)
  | connect id => simp only [Node.apply, Node.connect]; split <;> exact h
  | disconnect id => simp only [Node.apply, Node.disconnect]; split <;> exact h
  | status id b hh =>
    simp only [Node.apply, Node.recvStatus]
    split; · exact h
    split
    · rw [(stopPeer_st n id).1, (stopPeer_st n id).2]; exact h
    · exact h
  | block id b =>
    simp only [Node.apply, Node.recvBlock]
    split; · exact h
    split
    · rw [(stopPeer_st n id).1, (stopPeer_st n id).2]; exact h
    · split <;> first | exact h | (rw [(stopPeer_st _ id).1, (stopPeer_st _ id).2]; exact h)
  | mkreq => exact h
  | pick hh w => exact h
  | rstep hh => exact h
  | rtimeout hh => exact h
  | peerTimeout id =>
    simp only [Node.apply, Node.peerTimeout]
    split
    · rw [(stopPeer_st _ id).1, (stopPeer_st _ id).2]; exact h
    · exact h

/-- **saved_is_canonical.** Whatever peers send and in whatever order things happen, every block
the syncing node has saved and executed was covered — hash and part-set header — by a commit with
valid signatures of more than two thirds of the validator set its own state prescribed for that
height, and passed `validateBlock`; the seen commit stored with it is that commit. -/
theorem saved_is_canonical (st0 : St) (ops : List Op) :
    StoreOK sigOK st0 ((Node.new st0).run sigOK ops).store ((Node.new st0).run sigOK ops).st := by
  suffices ∀ (n : Node), StoreOK sigOK st0 n.store n.st →
      StoreOK sigOK st0 (n.run sigOK ops).store (n.run sigOK ops).st from
    this (Node.new st0) (by simpa [Node.new] using StoreOK.nil)
  induction ops with
  | nil => intro n h; exact h
  | cons op rest ih =>
    intro n h
    simp only [Node.run, List.foldl_cons]
    exact ih _ (apply_storeOK sigOK st0 n op h)

/-- each stored entry, spelled out -/
theorem stored_entry_justified {st0 : St} {l : List (Block × Commit)} {st : St}
    (h : StoreOK sigOK st0 l st) (b : Block) (c : Commit) (hm : (b, c) ∈ l) :
    ∃ st', Quorum sigOK st'.vals b.id b.height c ∧ validate sigOK st' b = .ok () := by
  induction h with
  | nil => cases hm
  | cons hprev hq hv ih =>
    rcases List.mem_cons.mp hm with heq | hin
    · cases heq
      exact ⟨_, hq, hv⟩
    · exact ih hin

/-- **liar_dropped_and_retried (dropping).** When the check of the pair (first, second) fails,
each peer that had delivered one of the two blocks is afterwards in neither the pool nor the
switch's peer set, and if it was connected it has been stopped for error. -/
theorem liar_dropped (n n' : Node) (e : PErr) (p1 p2 : Option Nat)
    (h : n.processStep sigOK = (n', .failed e p1 p2)) (id : Nat)
    (hid : p1 = some id ∨ p2 = some id) :
    n'.pool.peer? id = none ∧ id ∉ n'.connected ∧ (id ∈ n.connected → id ∈ n'.stopped) := by
  unfold Node.processStep at h
  split at h
  · rename_i first second _
    split at h
    · rw [redoBoth_eq] at h
      simp only [Prod.mk.injEq, StepRes.failed.injEq] at h
      obtain ⟨rfl, _, rfl, rfl⟩ := h
      have s1 := redoStop_spec n first.height
      have s2 := redoStop_spec (n.redoStop first.height).1 second.height
      rcases hid with h1 | h2
      · obtain ⟨a, b, c⟩ := s1.2 id h1
        have m := s2.1 id
        exact ⟨m.1 a, m.2.1 b, fun hc => m.2.2.1 (c hc)⟩
      · obtain ⟨a, b, c⟩ := s2.2 id h2
        refine ⟨a, b, fun hc => ?_⟩
        by_cases hmid : id ∈ (n.redoStop first.height).1.connected
        · exact c hmid
        · exact (s2.1 id).2.2.1 ((s1.1 id).2.2.2 hc hmid)
    · split at h
      · simp at h
      · simp at h
  · simp at h

/-- **liar_dropped_and_retried (retrying).** After a failed check the requester of the first block
still names the dropped peer and has a redo signal pending; the retry timer returns it to the
picking state (where the dropped peer, being out of the pool, cannot be picked), and so does the
redo signal itself whenever the one-slot redo channel was free before. -/
theorem liar_retried (n n' : Node) (e : PErr) (p1 p2 : Option Nat) (first second : Block)
    (hpk : n.pool.peekTwo = (some first, some second))
    (h : n.processStep sigOK = (n', .failed e p1 p2))
    (r : Requester) (hr : n.pool.req? first.height = some r) (id : Nat) (hp : r.peer = some id) :
    p1 = some id ∧
    ∃ r', n'.pool.req? first.height = some r' ∧ r'.peer = some id ∧ r'.redo.isSome ∧
      (n'.pool.rtimeout first.height).1.req? first.height = some { r' with peer := none, block := none } ∧
      (r.redo = none → (n'.pool.rstep first.height).1.req? first.height = some ⟨none, none, none⟩) := by
  unfold Node.processStep at h
  rw [hpk] at h
  simp only at h
  split at h
  · rw [redoBoth_eq] at h
    simp only [Prod.mk.injEq, StepRes.failed.injEq] at h
    obtain ⟨rfl, _, rfl, rfl⟩ := h
    obtain ⟨r1, a1, k1, d1⟩ := redoStop_keeps n first.height first.height r hr
    obtain ⟨e1, s1, x1⟩ := d1 rfl
    obtain ⟨r2, a2, k2, _⟩ := redoStop_keeps (n.redoStop first.height).1 second.height first.height r1 a1
    have hpeer : r2.peer = some id := by rw [k2.1, k1.1, hp]
    have hredo : r2.redo.isSome := by
      have := s1 (by simp [hp])
      cases hx : r1.redo with
      | none => simp [hx] at this
      | some x => simp [k2.2.2 x hx]
    refine ⟨by rw [e1, hp], r2, a2, hpeer, hredo, ?_, ?_⟩
    · exact rtimeout_resets _ _ r2 a2 (by simp [hpeer])
    · intro hnone
      exact rstep_resets _ _ r2 id a2 hpeer (k2.2.2 id (x1 id hp hnone))
  · split at h <;> simp at h

/-- the redo signal CAN be lost (one-slot channel written without blocking, stale entries are
not drained by the retry timer): after this run the requester for height 1 waits for peer 2, which
is gone, until its 30 s timer fires -/
theorem redo_signal_can_be_lost :
    let n := (Node.new witnessSt0).run (fun _ _ _ => true)
      [.connect 1, .connect 2, .status 1 1 3, .status 2 1 3, .mkreq, .pick 1 1, .disconnect 1,
       .rtimeout 1, .pick 1 2, .disconnect 2, .rstep 1]
    n.pool.req? 1 = some ⟨some 2, none, none⟩ ∧ n.pool.peer? 2 = none := by decide

/-- The progress step (composed into `reaches_tip_with_one_honest` below). Earlier formulation:
"with one honest peer and fair retry the node stores the canonical blocks up to tip-1, from any
reachable state and under any interleaving with lying peers". Proved here: the progress step — once the two
blocks in front are the honest ones (they pass the check on the node's state) the iteration saves
the first with the second's commit as seen commit, executes it and moves on by one height — for an
arbitrary node state. Proved elsewhere in this file: whatever a liar left in a requester is undone
by the retry timer (`liar_retried`, `rtimeout_resets`), the liar is out of the pool (`liar_dropped`)
and nothing but justified blocks is ever stored (`saved_is_canonical`). Missing: the composition
over a fair schedule (re-pick of the honest peer and delivery, for arbitrary pool contents); the
scripted fair-retry runs of the correspondence stream check it on the real code with the
`v0.sync.tip-not-reached` oracle. -/
theorem honest_pair_progress (n : Node) (first second : Block)
    (hpk : n.pool.peekTwo = (some first, some second))
    (hok : checkPair sigOK n.st first second = .ok ()) :
    ∃ n', n.processStep sigOK = (n', .saved) ∧ n'.store = (first, second.lastCommit) :: n.store ∧
      n'.st = applyBlock n.st first ∧ n'.pool.height = n.pool.height + 1 := by
  unfold Node.processStep
  rw [hpk]
  simp only [hok]
  have hne : n.pool.requesters ≠ [] := by
    intro he
    unfold Pool.peekTwo Pool.req? Pool.idx? at hpk
    simp [he] at hpk
  unfold Pool.pop
  cases hq : n.pool.requesters with
  | nil => exact absurd hq hne
  | cons a l => exact ⟨_, rfl, rfl, rfl, rfl⟩

/-! ### resource counters -/

/-- **numPending_is_waiting_requesters.** Over every history — any operations, any length — the
pool's `numPending` (which gates `makeRequestersRoutine` at `maxPendingRequests`) equals the number
of requesters that have no block yet; in particular it never exceeds the number of requesters, so
the gate can only close when 600 requesters exist. A drifting counter would stop the creation of
requesters for good. -/
theorem numPending_is_waiting_requesters (st0 : St) (ops : List Op) :
    ((Node.new st0).run sigOK ops).pool.numPending =
        waiting ((Node.new st0).run sigOK ops).pool.requesters ∧
      ((Node.new st0).run sigOK ops).pool.numPending ≤
        ((Node.new st0).run sigOK ops).pool.requesters.length := by
  have h := pend_run sigOK (Node.new st0) ops (by simp [PendOK, Node.new, Pool.new, waiting])
  exact ⟨h, by rw [h]; exact waiting_le _⟩

/-! ### reaching the tip -/

theorem fairRun_is_run (w : Nat) (base tip : Int) (chain : Int → Block) :
    ∀ (segs : List (List Op)) (n : Node), ∃ ops, fairRun sigOK w base tip chain segs n = n.run sigOK ops := by
  intro segs
  induction segs with
  | nil => intro n; exact ⟨[], rfl⟩
  | cons A rest ih =>
    intro n
    simp only [fairRun]
    split
    · obtain ⟨ops, h⟩ := ih ((n.run sigOK A).run sigOK (fairRound (n.run sigOK A).pool.height w base tip
        (chain (n.run sigOK A).pool.height) (chain ((n.run sigOK A).pool.height + 1))))
      exact ⟨A ++ (fairRound (n.run sigOK A).pool.height w base tip (chain (n.run sigOK A).pool.height)
        (chain ((n.run sigOK A).pool.height + 1)) ++ ops), by rw [h, run_append, run_append]⟩
    · obtain ⟨ops, h⟩ := ih (n.run sigOK A)
      exact ⟨A ++ ops, by rw [h, run_append]⟩

/-- **reaches_tip_with_one_honest.** Fair-retry hypothesis, stated as the shape of the schedule
(`fairRun`): the run is ANY sequence of segments of arbitrary operations — whatever lying peers
send (wrong blocks, forged/padded commits, wrong heights, stale status, silence → timeouts), in
any order and with any scheduling of the requester transitions, restarts included — and after each
segment, while the tip is not reached, one fair-retry round for the two heights in front happens
uninterrupted: the honest peer `w` (re)connects and reports its range, the two requesters exist,
their retry timers fire (so whatever peer they were assigned to, removed or silent, is given up),
both are re-assigned to `w`, which has the heights, `w` answers both requests, and the processing
loop runs. Hypotheses on the world (`HonestChain`): the chain `w` serves passes the node's check
pair by pair, its blocks decode, and validators never gave +2/3 to two different blocks of one
height (`noFork`). Then, from a fresh node, after `tip - initial height` such rounds (fewer if the
liars happen to help) the node is on the canonical chain at height ≥ `tip`: every block below the
tip is saved and executed. Measure of the induction: remaining height; bad peers need no measure
because each round gives up the previous assignments wholesale. -/
theorem reaches_tip_with_one_honest (st0 : St) (h0 : st0.lastHeight = 0) (hih : 0 < st0.initialHeight)
    (chain : Int → Block) (tip : Int) (w : Nat) (base : Int)
    (hc : HonestChain sigOK st0 chain st0.initialHeight tip) (hb0 : 0 ≤ base)
    (hbs : base ≤ st0.initialHeight) (segs : List (List Op))
    (hlen : tip - st0.initialHeight ≤ segs.length) :
    ∃ k : Nat, tip ≤ st0.initialHeight + k ∧
      (fairRun sigOK w base tip chain segs (Node.new st0)).st = canonSt st0 chain st0.initialHeight k ∧
      (fairRun sigOK w base tip chain segs (Node.new st0)).pool.height = st0.initialHeight + k ∧
      ∃ ops, fairRun sigOK w base tip chain segs (Node.new st0) = (Node.new st0).run sigOK ops := by
  have hstart : startHeight st0 = st0.initialHeight := by unfold startHeight; simp [h0]
  have hwf : WF (Node.new st0) :=
    ⟨rfl, ⟨hih, by simp [Node.new, h0]⟩, by intro i r b hr; simp [Node.new, Pool.new] at hr,
      by intro q hq; simp [Node.new, Pool.new] at hq⟩
  have hcan : Canon st0 chain st0.initialHeight 0 (Node.new st0) :=
    ⟨rfl, by simp [Node.new, Pool.new, hstart]⟩
  obtain ⟨k, hk, htip, _⟩ := fairRun_reaches sigOK st0 chain st0.initialHeight tip w base hc hb0 hbs
    segs (Node.new st0) 0 hwf (by simp [PendOK, Node.new, Pool.new, waiting]) hcan (by simpa using hlen)
  exact ⟨k, htip, hk.1, hk.2, fairRun_is_run sigOK w base tip chain segs (Node.new st0)⟩

/-! ### blockchain/v2 processor -/

/-- what the v2 processor maintains: the store is a justified chain ending in the context's
state, or the processor has panicked in `applyBlock` right after saving a block that has the
quorum but fails `validateBlock` (v2 saves before it validates) -/
def V2Inv (st0 : St) (p : V2.Pc) : Prop :=
  StoreOK sigOK st0 p.store p.st ∨
    (p.dead = true ∧ ∃ b c rest, p.store = (b, c) :: rest ∧ StoreOK sigOK st0 rest p.st ∧
      Quorum sigOK p.st.vals b.id b.height c ∧ validate sigOK p.st b ≠ .ok ())

theorem v2_handle_inv (st0 : St) (p : V2.Pc) (e : V2.Ev) (hd : p.dead = false)
    (h : StoreOK sigOK st0 p.store p.st) : V2Inv sigOK st0 (p.handle sigOK e).1 := by
  cases e with
  | scFinished => simp only [V2.Pc.handle]; split <;> exact Or.inl h
  | peerError id => exact Or.inl h
  | blockReceived id b =>
    cases b with
    | none => exact Or.inl h
    | some b =>
      simp only [V2.Pc.handle]
      split
      · split <;> exact Or.inl h
      · exact Or.inl h
  | processBlock =>
    simp only [V2.Pc.handle]
    cases h1 : p.get? (p.st.lastHeight + 1) with
    | none => simp only; split <;> exact Or.inl h
    | some fi =>
      cases h2 : p.get? (p.st.lastHeight + 2) with
      | none => simp only; split <;> exact Or.inl h
      | some se =>
        simp only
        cases hv : verifyCommitLight sigOK p.st.vals fi.block.id fi.block.height se.block.lastCommit with
        | error e =>
          simp only [V2.Pc.purge]
          split <;> exact Or.inl h
        | ok u =>
          have hq := verifyCommitLight_quorum sigOK p.st.vals fi.block.id fi.block.height
            se.block.lastCommit (by cases u; exact hv)
          simp only
          cases hval : validate sigOK p.st fi.block with
          | error e =>
            refine Or.inr ⟨rfl, _, _, _, rfl, h, hq, ?_⟩
            rw [hval]; simp
          | ok u2 =>
            exact Or.inl (StoreOK.cons h hq (by cases u2; exact hval))

/-- **saved_is_canonical for blockchain/v2.** Whatever events the scheduler feeds the processor
(any blocks from any peers, peer errors, in any order): every block in the store came with a
commit carrying valid signatures of more than 2/3 of the validator set the processor's state
prescribed for its height, for exactly its id; every block that was EXECUTED passed
`validateBlock`. The only stored-but-not-validated block is the last one of a processor that
has panicked on it (see `v2_saves_before_validating`). -/
theorem v2_saved_is_canonical (st0 : St) (es : List V2.Ev) :
    V2Inv sigOK st0 ((V2.Pc.new st0).run sigOK es) := by
  suffices ∀ (p : V2.Pc), V2Inv sigOK st0 p → V2Inv sigOK st0 (p.run sigOK es) from
    this (V2.Pc.new st0) (Or.inl (by simpa [V2.Pc.new] using StoreOK.nil))
  induction es with
  | nil => intro p h; exact h
  | cons e rest ih =>
    intro p h
    simp only [V2.Pc.run, List.foldl_cons]
    apply ih
    unfold V2.Pc.step
    by_cases hd : p.dead = true
    · simp only [hd, if_true]; exact h
    · have hd' : p.dead = false := by simpa using hd
      simp only [hd', Bool.false_eq_true, if_false]
      rcases h with h | ⟨hdead, _⟩
      · exact v2_handle_inv sigOK st0 p e hd' h
      · rw [hd'] at hdead; cases hdead

/-! ### blockchain/v1 reactor (FSM + processBlock) -/

/-- what v1 maintains: the store is a justified chain ending in the reactor's state, or the
reactor has panicked in `ApplyBlock` right after saving a block that has the quorum but fails
`validateBlock` (v1, like v2, saves before it validates) -/
def V1Inv (st0 : St) (n : V1.Node) : Prop :=
  StoreOK sigOK st0 n.store n.st ∨
    (n.fsm.dead = true ∧ ∃ b c rest, n.store = (b, c) :: rest ∧ StoreOK sigOK st0 rest n.st ∧
      Quorum sigOK n.st.vals b.id b.height c ∧ validate sigOK n.st b ≠ .ok ())

theorem v1_process_inv (st0 : St) (n : V1.Node) (h : StoreOK sigOK st0 n.store n.st) :
    V1Inv sigOK st0 (n.processOnce sigOK).1 := by
  unfold V1.Node.processOnce
  split; · exact Or.inl h
  cases h1 : n.fsm.pool.blockAt n.fsm.pool.height with
  | none => exact Or.inl h
  | some f1 =>
    cases h2 : n.fsm.pool.blockAt (n.fsm.pool.height + 1) with
    | none => exact Or.inl h
    | some f2 =>
      obtain ⟨first, p1⟩ := f1
      obtain ⟨second, p2⟩ := f2
      simp only
      cases hv : verifyCommitLight sigOK n.st.vals first.id first.height second.lastCommit with
      | error e => exact Or.inl h
      | ok u =>
        have hq := verifyCommitLight_quorum sigOK n.st.vals first.id first.height second.lastCommit
          (by cases u; exact hv)
        simp only
        cases hval : validate sigOK n.st first with
        | error e =>
          refine Or.inr ⟨rfl, _, _, _, rfl, h, hq, ?_⟩
          rw [hval]; simp
        | ok u2 => exact Or.inl (StoreOK.cons h hq (by cases u2; exact hval))

/-- **saved_is_canonical for blockchain/v1.** Whatever events reach the FSM (status and block
responses from any peers, removals, timeouts, request batches with any assignment of peers) and
whenever the processing loop runs: every stored block came with a commit carrying valid
signatures of more than 2/3 of the validator set the reactor's state prescribed for its height,
for exactly its id; every EXECUTED block passed `validateBlock`. The only stored-but-not-validated
block is the last one of a reactor that has panicked on it (`v1_saves_before_validating`). -/
theorem v1_saved_is_canonical (st0 : St) (ops : List V1.Op) :
    V1Inv sigOK st0 ((V1.Node.new st0).run sigOK ops) := by
  suffices ∀ (n : V1.Node), V1Inv sigOK st0 n → V1Inv sigOK st0 (n.run sigOK ops) from
    this (V1.Node.new st0) (Or.inl (by simpa [V1.Node.new] using StoreOK.nil))
  induction ops with
  | nil => intro n h; exact h
  | cons op rest ih =>
    intro n h
    simp only [V1.Node.run, List.foldl_cons]
    apply ih
    cases op with
    | ev e =>
      simp only [V1.Node.apply, V1.Node.event]
      split
      · exact h
      · rename_i hd
        rcases h with h | ⟨hdead, hrest⟩
        · exact Or.inl h
        · exact absurd hdead hd
    | process =>
      simp only [V1.Node.apply]
      rcases h with h | ⟨hdead, hrest⟩
      · exact v1_process_inv sigOK st0 n h
      · unfold V1.Node.processOnce
        simp only [hdead, if_true]
        exact Or.inr ⟨hdead, hrest⟩

/-! ### blockchain/v2 scheduler -/

/-- `removePeer` leaves no request assigned to the peer: everything it had pending or delivered is
no longer pending/received (those heights are New again, to be scheduled elsewhere, unless no
Ready peer reaches them any more), and a known peer ends up Removed -/
theorem sched_removePeer_clears (s : V2S.Sched) (id : Nat) (q : V2S.Peer)
    (hq : s.peer? id = some q) (hr : q.state ≠ .removed) :
    (∀ e ∈ (s.removePeer id).pending, e.2.1 ≠ id) ∧ (∀ e ∈ (s.removePeer id).received, e.2 ≠ id) := by
  unfold V2S.Sched.removePeer
  simp only [hq, hr, if_false]
  constructor
  · intro e he
    simp only [V2S.Sched.setPeer] at he
    have : e ∈ List.filter (fun x => decide (x.2.1 ≠ id))
        ((List.foldl (fun acc h => acc.setState h V2S.BState.new) s
          ((s.pending.filter (·.2.1 = id)).map (·.1) ++ (s.received.filter (·.2 = id)).map (·.1))).pending) := he
    simpa using (List.mem_filter.mp this).2
  · intro e he
    simp only [V2S.Sched.setPeer] at he
    have : e ∈ List.filter (fun x => decide (x.2 ≠ id))
        ((List.foldl (fun acc h => acc.setState h V2S.BState.new) s
          ((s.pending.filter (·.2.1 = id)).map (·.1) ++ (s.received.filter (·.2 = id)).map (·.1))).received) := he
    simpa using (List.mem_filter.mp this).2

/-- v2 scheduler run of the known findings: honest peer 1 and liar 2 serve heights 1..3, the
processor reports a verification failure naming both -/
def schedWitness : List V2S.Ev :=
  [.addNewPeer 1, .statusResponse 1 1 3, .addNewPeer 2, .statusResponse 2 1 3,
   .trySchedule (-900), .trySchedule (-899)]

/-- both are Removed, nothing is pending, and the scheduler says FINISHED (known finding
`v2.scheduler.finished-when-no-ready-peer-remains`) -/
theorem sched_finishes_without_ready_peer :
    (((V2S.Sched.new 1).run schedWitness).handle (.processError 1 2)).2 = .finished ∧
    (((V2S.Sched.new 1).run schedWitness).handle (.processError 1 2)).1.pending = [] := by decide

/-- the honest peer reconnects and reports again: it stays Removed and nothing can be scheduled
(known finding `v2.scheduler.removed-peer-never-readmitted`) -/
theorem sched_removed_peer_never_readmitted :
    let s := (((V2S.Sched.new 1).run schedWitness).handle (.processError 1 2)).1.run
      [.addNewPeer 1, .statusResponse 1 1 3]
    (s.peer? 1).map (·.state) = some .removed ∧ (s.handle (.trySchedule (-800))).2 = .noOp ∧
      s.height = 1 := by decide

/-- non-vacuity: without the failure the two requests went to peers 1 and 2 -/
example : ((V2S.Sched.new 1).run schedWitness).pending = [(1, 1, -900), (2, 2, -899)] := by decide

/-! ### hand-over -/

/-- the newest stored block is the state's last block and its seen commit has the quorum of the
state's `LastValidators` -/
theorem tip_quorum {st0 : St} (h0 : st0.lastHeight = 0) {l : List (Block × Commit)} {st : St}
    (h : StoreOK sigOK st0 l st) (hpos : st.lastHeight > 0) :
    ∃ b c rest, l = (b, c) :: rest ∧ b.height = st.lastHeight ∧
      Quorum sigOK st.lastVals b.id b.height c := by
  cases h with
  | nil => omega
  | cons hprev hq hv => exact ⟨_, _, _, rfl, rfl, hq⟩

/-- **handover_clean_partial.** If every non-absent entry of the seen commit stored for the last
synced block is a verifying signature with the right validator address — which block sync does
NOT check beyond the first +2/3, see `handover_clean_fails` — then switching to consensus does not
panic: the seen commit is found, `CommitToVoteSet` accepts every vote and the vote set has +2/3.
(The seen commit being present and carrying the quorum is proved, not assumed.) -/
theorem handover_clean_partial (st0 : St) (h0 : st0.lastHeight = 0)
    (ops : List Op)
    (hfull : ∀ b c rest, ((Node.new st0).run sigOK ops).store = (b, c) :: rest →
      FullyChecked sigOK c ((Node.new st0).run sigOK ops).st.lastVals c.sigs) :
    ((Node.new st0).run sigOK ops).handover sigOK = .notCaughtUp ∨
      ((Node.new st0).run sigOK ops).handover sigOK = .ok := by
  have hs := saved_is_canonical sigOK st0 ops
  generalize (Node.new st0).run sigOK ops = n at *
  unfold Node.handover
  split
  · exact Or.inl rfl
  · right
    split
    · rename_i hpos
      obtain ⟨b, c, rest, hl, hh, hq⟩ := tip_quorum sigOK h0 hs hpos
      have hf := hfull b c rest hl
      obtain ⟨ns', e⟩ := toVoteSet_ok sigOK c n.st.lastVals c.sigs 0 0 hf
      unfold reconstruct
      rw [hl]
      simp only [List.find?_cons, hh, decide_true, e]
      obtain ⟨_, _, _, hq4⟩ := hq
      have : signedPower sigOK c n.st.lastVals c.sigs ≥ needed n.st.lastVals + 1 := by
        unfold needed; omega
      simp only [Int.zero_add, ge_iff_le]
      rw [if_pos (Or.inl this)]
    · rfl

/-- **handover_clean_iff.** Exact delimitation of the known finding. For every reachable node that
is caught up with at least one block synced, the hand-over (`SwitchToConsensus` →
`reconstructLastCommit`) returns without panic IF AND ONLY IF the seen commit stored for the last
synced block — the `LastCommit` of the block a peer served one height above — passes the FULL
`VerifyCommit` against the state's `LastValidators` and every non-absent entry carries the
address of the validator at its index. Block sync has established the light quorum only; the
rest is what a lying peer controls. The same holds for a restart (`consensus.NewState`). -/
theorem handover_clean_iff (st0 : St) (h0 : st0.lastHeight = 0) (ops : List Op)
    (hpos : ((Node.new st0).run sigOK ops).st.lastHeight > 0) :
    ∃ b c rest, ((Node.new st0).run sigOK ops).store = (b, c) :: rest ∧
      b.height = ((Node.new st0).run sigOK ops).st.lastHeight ∧
      (let n := (Node.new st0).run sigOK ops
       let clean := verifyCommit sigOK n.st.lastVals b.id b.height c = .ok () ∧
          AddrMatch n.st.lastVals c.sigs
       (n.pool.isCaughtUp = true → (n.handover sigOK = .ok ↔ clean)) ∧
       ((n.restart sigOK).2 = .ok ↔ clean)) := by
  have hs := saved_is_canonical sigOK st0 ops
  generalize (Node.new st0).run sigOK ops = n at *
  obtain ⟨b, c, rest, hl, hh, hq⟩ := tip_quorum sigOK h0 hs hpos
  refine ⟨b, c, rest, hl, hh, ?_⟩
  have key : reconstruct sigOK n.st n.store = .ok ↔
      (verifyCommit sigOK n.st.lastVals b.id b.height c = .ok () ∧ AddrMatch n.st.lastVals c.sigs) := by
    rw [hl, reconstruct_ok_iff sigOK n.st b c rest hh hq, fullyChecked_iff sigOK c _ _ hq.1,
      verifyCommit_iff_of_quorum sigOK _ _ _ _ hq]
  refine ⟨fun hcu => ?_, ?_⟩
  · unfold Node.handover
    simp only [hcu, Bool.not_true, Bool.false_eq_true, if_false, hpos, if_true]
    exact key
  · unfold Node.restart
    simp only [hpos, if_true]
    constructor
    · intro h
      by_cases hr : reconstruct sigOK n.st n.store = .ok
      · exact key.mp hr
      · simp only [hr, if_false] at h
    · intro hc
      have hr := key.mpr hc
      simp [hr]

/-- concrete run: validators of power 7 and 3; the peer serves block 1 and a block 2 whose
LastCommit has validator 0's valid signature (7 > 2/3 of 10) followed by a garbage signature -/
def witnessSigOK : Nat → SignBytes → Nat → Bool := fun _ _ s => s == 1
def witnessSt : St := witnessSt0
def witnessB1 : Block := ⟨1, ⟨11, 12⟩, BlockId.zero, ⟨0, 0, BlockId.zero, []⟩, false, none, false⟩
def witnessB2 (tail : CSig) : Block :=
  ⟨2, ⟨21, 22⟩, ⟨11, 12⟩, ⟨1, 0, ⟨11, 12⟩, [⟨.commit, 1, 0, 1⟩, tail]⟩, false, none, false⟩
def witnessOps (tail : CSig) : List Op :=
  [.connect 5, .status 5 1 2, .mkreq, .mkreq, .pick 1 5, .pick 2 5,
   .block 5 witnessB1, .block 5 (witnessB2 tail), .process]

/-- **handover_clean_fails.** The full-strength clause "everything stored on the way (including the
last seen commit) lets consensus start without error" is false of the model (and of the code:
replays/C13-oracle-94590220ae7d651a.json, C13-oracle-2d72e2d48f382e25.json): after a run in which
every step was accepted, `reconstructLastCommit` panics on a garbage signature, resp. on a valid
signature with a foreign validator address, placed after the first +2/3 of the tip's commit. -/
theorem handover_clean_fails :
    ¬ ∀ (sigOK : Nat → SignBytes → Nat → Bool) (st0 : St) (ops : List Op),
        st0.lastHeight = 0 →
        ((Node.new st0).run sigOK ops).handover sigOK = .notCaughtUp ∨
          ((Node.new st0).run sigOK ops).handover sigOK = .ok := by
  intro h
  have := h witnessSigOK witnessSt (witnessOps ⟨.commit, 2, 0, 0⟩) rfl
  revert this
  decide

theorem handover_panics_on_garbage_signature :
    ((Node.new witnessSt).run witnessSigOK (witnessOps ⟨.commit, 2, 0, 0⟩)).handover witnessSigOK
      = .panicSig := by decide

theorem handover_panics_on_foreign_address :
    ((Node.new witnessSt).run witnessSigOK (witnessOps ⟨.commit, 99, 0, 1⟩)).handover witnessSigOK
      = .panicAddr := by decide

/-- non-vacuity of `honest_pair_progress`: a reachable node in which two delivered
blocks pass the check -/
def witnessNode : Node :=
  (Node.new witnessSt).run witnessSigOK ((witnessOps ⟨.commit, 2, 0, 1⟩).dropLast)
example :
    witnessNode.pool.peekTwo = (some witnessB1, some (witnessB2 ⟨.commit, 2, 0, 1⟩)) ∧
      checkPair witnessSigOK witnessNode.st witnessB1 (witnessB2 ⟨.commit, 2, 0, 1⟩) = .ok () :=
  ⟨by decide, rfl⟩

/-- non-vacuity of `liar_dropped` / `liar_retried`: a run whose last step fails and drops peer 5 -/
example :
    let n := (Node.new witnessSt).run witnessSigOK
      [.connect 5, .status 5 1 2, .mkreq, .mkreq, .pick 1 5, .pick 2 5, .block 5 witnessB1,
       .block 5 (witnessB2 ⟨.commit, 2, 0, 1⟩ |> fun b => { b with lastCommit := { b.lastCommit with blockId := ⟨7, 7⟩ } })]
    (n.processStep witnessSigOK).2 = .failed (.verify .blockId) (some 5) (some 5) := by decide

/-- v2 saves before it validates: validators 0 (power 7 of 10) signed block 1 although its AppHash
is wrong; the processor stores it, `applyBlock` fails, the processor panics — the store is one
block ahead of the state (known finding `v2.saved.block-fails-validation`) -/
theorem v2_saves_before_validating :
    let bad : Block := { witnessB1 with flawed := true }
    let p := (V2.Pc.new witnessSt).run witnessSigOK
      [.blockReceived 5 (some bad), .blockReceived 5 (some (witnessB2 ⟨.absent, 0, 0, 0⟩)), .processBlock]
    p.dead = true ∧ p.store = [(bad, (witnessB2 ⟨.absent, 0, 0, 0⟩).lastCommit)] ∧ p.st = witnessSt := by
  decide

/-- the same two blocks without the flaw are processed (non-vacuity of `v2_saved_is_canonical`) -/
example :
    ((V2.Pc.new witnessSt).run witnessSigOK
      [.blockReceived 5 (some witnessB1), .blockReceived 5 (some (witnessB2 ⟨.absent, 0, 0, 0⟩)),
       .processBlock]).st.lastHeight = 1 := by decide

/-! v1 witnesses (validators of power 7 and 3, one peer `5` serving heights 1..3) -/

def v1Tries : Int → Nat := fun _ => 5
def v1Serve (b1 b2 : Block) : List V1.Op :=
  [.ev .start, .ev (.statusResponse 5 1 3), .ev (.makeRequests 64 v1Tries),
   .ev (.blockResponse 5 b1), .ev (.blockResponse 5 b2), .process]

/-- v1 saves before it validates (known finding `v1.saved.block-fails-validation`) -/
theorem v1_saves_before_validating :
    ((V1.Node.new witnessSt).run witnessSigOK
        (v1Serve { witnessB1 with flawed := true } (witnessB2 ⟨.absent, 0, 0, 0⟩))).fsm.dead = true ∧
    ((V1.Node.new witnessSt).run witnessSigOK
        (v1Serve { witnessB1 with flawed := true } (witnessB2 ⟨.absent, 0, 0, 0⟩))).store.length = 1 ∧
    ((V1.Node.new witnessSt).run witnessSigOK
        (v1Serve { witnessB1 with flawed := true } (witnessB2 ⟨.absent, 0, 0, 0⟩))).st = witnessSt := by
  decide

/-- non-vacuity: the honest pair is processed and the pool moves on -/
example : ((V1.Node.new witnessSt).run witnessSigOK
    (v1Serve witnessB1 (witnessB2 ⟨.absent, 0, 0, 0⟩))).fsm.pool.height = 2 := by decide

/-- when the last peer is removed `nextRequestHeight` falls to 1, below the pool's height (known
finding `v1.pool.nextRequestHeight-falls-below-pool-height`) -/
theorem v1_next_request_height_reset :
    let n := (V1.Node.new witnessSt).run witnessSigOK
      (v1Serve witnessB1 (witnessB2 ⟨.absent, 0, 0, 0⟩) ++ [.ev (.peerRemove 5)])
    n.fsm.pool.height = 2 ∧ n.fsm.pool.nextRequestHeight = 1 ∧ n.fsm.state = .waitForPeer := by
  decide

/-- a failed verification whose two peers were the only ones makes the FSM finish and switch to
consensus with nothing synced (known finding
`v1.fsm.switches-to-consensus-when-failed-verification-removes-last-peers`) -/
theorem v1_finishes_after_failed_verification :
    let bad : Block := { witnessB2 ⟨.absent, 0, 0, 0⟩ with
      lastCommit := ⟨1, 0, ⟨7, 7⟩, [⟨.commit, 1, 0, 1⟩, ⟨.absent, 0, 0, 0⟩]⟩ }
    let n := (V1.Node.new witnessSt).run witnessSigOK (v1Serve witnessB1 bad)
    n.fsm.state = .finished ∧ n.fsm.switched = true ∧ n.store = [] ∧ n.fsm.peerErrors = [5, 5] := by
  decide

def witnessSt10 : St := { witnessSt with initialHeight := 10 }
def witnessB10 : Block := { witnessB1 with height := 10 }
def witnessB11 : Block :=
  { (witnessB2 ⟨.absent, 0, 0, 0⟩) with
    height := 11, lastCommit := ⟨10, 0, ⟨11, 12⟩, [⟨.commit, 1, 0, 1⟩, ⟨.absent, 0, 0, 0⟩]⟩ }

/-- v2 with genesis `initial_height` 10: the chain's first two blocks (valid, with quorum) are
queued and `processBlock` does nothing, because `height()` is `LastBlockHeight = 0` (known finding
`v2.processor.stalls-when-initial-height-above-1`) -/
theorem v2_stalls_above_initial_height_1 :
    (validate witnessSigOK witnessSt10 witnessB10 = Except.ok () ∧
      verifyCommitLight witnessSigOK witnessSt10.vals witnessB10.id witnessB10.height
        witnessB11.lastCommit = Except.ok ()) ∧
    ((((V2.Pc.new witnessSt10).handle witnessSigOK (.blockReceived 5 (some witnessB10))).1.handle
        witnessSigOK (.blockReceived 5 (some witnessB11))).1.handle witnessSigOK .processBlock).2
      = V2.Out.noOp :=
  ⟨⟨rfl, rfl⟩, by decide⟩

/-- non-vacuity of `handover_clean_partial`: the same run with an honest tail hands over -/
example : ((Node.new witnessSt).run witnessSigOK (witnessOps ⟨.commit, 2, 0, 1⟩)).handover witnessSigOK
    = .ok := by decide

end Tmv.Props.C13
