import Tmv.Model.Net
import Tmv.Lemmas.Agreement
/-! # C01 — agreement (work in progress: theorems are being added) -/
namespace Tmv.Props.C01
open Tmv.VoteLog

/-- two vote sets each holding more than two thirds of the power share a validator outside any set
holding less than one third -/
theorem quorum_intersection (P : Powers) (p q f : Nat → Bool)
    (hp : 3 * P.wt p > 2 * P.total) (hq : 3 * P.wt q > 2 * P.total)
    (hf : 3 * P.wt f < P.total) :
    ∃ v, v < P.n ∧ p v = true ∧ q v = true ∧ f v = false :=
  Tmv.VoteLog.quorum_intersection P p q f hp hq hf

end Tmv.Props.C01
