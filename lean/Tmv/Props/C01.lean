import Tmv.Lemmas.NetLift
import Tmv.Lemmas.ChainLift
import Tmv.Lemmas.ChainRun
import Tmv.Lemmas.NetCommit
import Tmv.Model.Validate
/-! # C01 — agreement: correct nodes never commit different blocks at one height

Theorems about the network model `Tmv.Net` (Tmv/Model/Net.lean): every correct validator runs the
node model `Tmv.Cons.step` (Tmv/Model/Cons.lean — `consensus/state.go`, `types/vote_set.go`,
`consensus/types/height_vote_set.go`, the signer; tied to the real `consensus.State` statement by
statement by the C02 stream and, composed, by the c01 stream); the network is the log of every
signed message ever sent. `Reachable nc s` is the inductive closure of `NetStep` from the initial
state: deliver ANY logged message to ANY correct node through any peer (so duplication, reordering,
delay, loss and partitions are all free), hand any block body / any majority claim to any node, fire
any timeout a node has scheduled, and let a faulty validator append ANY message carrying its own
sender id, and anybody append messages whose signature does not verify. A verifying message of a
correct validator enters the log only as an output of that validator's `step` (ideal signatures).

All statements are for every number of validators, every power assignment, every faulty set, every
proposer table, every validity predicate and every reachable state — i.e. every schedule and every
behaviour of the faulty validators. `agreement` alone assumes that the faulty set holds less than
one third of the power.

Limits (stated, not hidden): one height; block validity is the parameter `valid` (C06); signatures
ideal; the reactor's gossip is replaced by the log (safety does not depend on what is gossiped).
NOT assumed: an order in which a node hears its own messages — `NetStep.own` hands a node ANY of its
queued own messages at any later time (the C02 node theorems are stated for the FIFO schedule
`Tmv.Cons.step`; here the per-item invariants behind them are re-used item by item). -/
namespace Tmv.Props.C01
open Tmv.Cons Tmv.Net Tmv.VoteLog

/-- **quorum_intersection**: two vote sets each holding more than two thirds of the power share a
validator outside any set holding less than one third. -/
theorem quorum_intersection (P : Powers) (p q f : Nat → Bool)
    (hp : 3 * P.wt p > 2 * P.total) (hq : 3 * P.wt q > 2 * P.total)
    (hf : 3 * P.wt f < P.total) :
    ∃ v, v < P.n ∧ p v = true ∧ q v = true ∧ f v = false :=
  Tmv.VoteLog.quorum_intersection P p q f hp hq hf

/-- **the lift**: in every reachable state the verified votes of the log satisfy the four
per-correct-validator log invariants of `Tmv.VoteLog.Behaved` (votes in round order; one precommit
per round; a block precommit is preceded in the log by a polka for it; a prevote against an earlier
block precommit is preceded in the log by a polka for something else in a round in between) —
whatever the faulty validators (any set, any power) put into the log. -/
theorem log_behaved (nc : NetCfg) (s : Net) (hr : Reachable nc s) :
    Behaved nc.powers nc.faulty (voteLog s.log) :=
  (Inv.reachable hr).good.behaved

/-- a verifying vote of a correct validator in the log was signed by that validator's node
(nothing else puts it there) -/
theorem correct_votes_are_signed (nc : NetCfg) (s : Net) (hr : Reachable nc s) (p : Nat) (hp : nc.correct p)
    (m : VoteMsg) (hm : m ∈ voteLog s.log) (hs : m.sender = p) :
    ∃ t, (t == VType.precommit) = m.isPrecommit ∧ Output.signVote t m.round m.value ∈ (s.nodes p).out :=
  (Inv.reachable hr).mine p hp m hm hs

/-- a correct validator never equivocates on the wire: two verifying votes of one type and round
under its id carry the same value (C02's `one_per_step`, lifted to the log) -/
theorem correct_never_equivocates (nc : NetCfg) (s : Net) (hr : Reachable nc s) (p : Nat) (hp : nc.correct p)
    (m m' : VoteMsg) (hm : m ∈ voteLog s.log) (hm' : m' ∈ voteLog s.log) (hs : m.sender = p) (hs' : m'.sender = p)
    (ht : m.isPrecommit = m'.isPrecommit) (hround : m.round = m'.round) : m.value = m'.value := by
  have inv := Inv.reachable hr
  obtain ⟨t, e, h1⟩ := inv.mine p hp m hm hs
  obtain ⟨t', e', h2⟩ := inv.mine p hp m' hm' hs'
  have htt : t = t' := by
    rw [← e, ← e'] at ht
    cases t <;> cases t' <;> simp_all
  subst htt
  have hg := (inv.node p hp).g
  cases t with
  | prevote =>
    have := hg.uniq _ h1 _ h2 4 rfl rfl (by simpa [sigRound] using hround)
    injection this
  | precommit =>
    have := hg.uniq _ h1 _ h2 6 rfl rfl (by simpa [sigRound] using hround)
    injection this

/-- inside the network the hypothesis of the C02 theorems holds: every timeout a correct node has
scheduled (the only ones that can fire) is for a round the node has reached -/
theorem scheduled_timeouts_reached (nc : NetCfg) (s : Net) (hr : Reachable nc s) (p : Nat) (hp : nc.correct p)
    (r : Nat) (st : Step) (h : Output.schedule r st ∈ (s.nodes p).out) : r ≤ (s.nodes p).round :=
  ((Inv.reachable hr).node p hp).n.sched r st h

/-- **decision_backed**: every block a correct node has decided passed `ValidateBlock` at that node
and is backed by precommits for exactly that block, in one round, that are in the log and come from
validators holding more than two thirds of the voting power. (No hypothesis on the faulty set.) -/
theorem decision_backed (nc : NetCfg) (s : Net) (hr : Reachable nc s) (p : Nat) (hp : nc.correct p) (b : Nat)
    (hd : s.decided p = some b) :
    nc.valid b = true ∧ ∃ r, decidable nc.powers (voteLog s.log) r b := by
  have hw := ((Inv.reachable hr).node p hp).w
  unfold Net.decided at hd
  cases hdec : (s.nodes p).decided with
  | none => rw [hdec] at hd; cases hd
  | some br =>
    obtain ⟨b', r⟩ := br
    rw [hdec] at hd
    simp at hd
    subst hd
    obtain ⟨hv, hq⟩ := hw.d b' r hdec
    refine ⟨hv, ?_⟩
    by_cases hneg : r < 0
    · exfalso
      have hz : wtUpTo (nc.node p).power (EL (voteLog s.log) VType.precommit r (some b')) (nc.node p).n = 0 := by
        have : ∀ n, wtUpTo (nc.node p).power (EL (voteLog s.log) VType.precommit r (some b')) n = 0 := by
          intro n
          induction n with
          | zero => rfl
          | succ k ih =>
            have : EL (voteLog s.log) VType.precommit r (some b') k = false := by
              unfold EL
              have : decide (0 ≤ r) = false := by simp; omega
              rw [this]; rfl
            simp [wtUpTo, ih, this]
        exact this _
      rw [hz] at hq
      omega
    · refine ⟨r.toNat, ?_⟩
      have e : r = ((r.toNat : Nat) : Int) := by omega
      rw [e] at hq
      have e2 : EL (voteLog s.log) VType.precommit ((r.toNat : Nat) : Int) (some b') =
          voted (voteLog s.log) true r.toNat (some b') := by
        funext v; rw [EL_nat]; rfl
      rw [e2] at hq
      unfold decidable Powers.total Powers.wt
      have ht := total_eq_wt (nc.node p)
      show 3 * wtUpTo nc.power _ nc.n > 2 * wtUpTo nc.power (fun _ => true) nc.n
      have ht' : (nc.node p).total = wtUpTo nc.power (fun _ => true) nc.n := ht
      have hq' : 2 * (nc.node p).total < 3 * wtUpTo nc.power (voted (voteLog s.log) true r.toNat (some b')) nc.n := hq
      omega

/-- every node state in a reachable network state is reached from the initial node state by items -/
theorem nodes_reach (nc : NetCfg) (s : Net) (hr : Reachable nc s) (p : Nat) : NodeReach (nc.node p) (s.nodes p) := by
  induction hr with
  | init => exact NodeReach.init
  | step _ hs ih =>
    have feed : ∀ (s0 : Net) (q : Nat) (it : Item), NodeReach (nc.node p) (s0.nodes p) →
        NodeReach (nc.node p) ((s0.feed nc q it).nodes p) := by
      intro s0 q it h0
      show NodeReach _ (upd s0.nodes q _ p)
      unfold upd
      by_cases e : p = q
      · subst e; simp only [if_true]; exact NodeReach.item it h0
      · simp only [e, if_false]; exact h0
    cases hs with
    | deliver q k peer hp hk => exact feed _ q _ ih
    | block q b hp => exact feed _ q _ ih
    | claim q r t peer bid hp => exact feed _ q _ ih
    | fire q r st hp hsch => exact feed _ q _ ih
    | txs q hp => exact feed _ q _ ih
    | own q k hp => exact feed _ q _ ih
    | byz m hm => exact ih

/-- **the stored commit verifies**: the commit a node that has decided STORES — `VoteSet.MakeCommit`
of the precommits of its commit round: a validator is flagged "commit" iff the vote in its canonical
slot is for the majority block (`Tmv.Net.seenCommit`) — flags validators holding more than two thirds
of the power, i.e. the tally of `ValidatorSet.VerifyCommit` accepts it. Holds for every reachable
state and needs nothing of the faulty set: equivocators whose first stored vote was for another value
are moved to the majority block when the quorum is first reached (the copy loop of
`addVerifiedVote`), or recorded under it afterwards. -/
theorem stored_commit_verifies (nc : NetCfg) (s : Net) (hr : Reachable nc s) (p : Nat) (b : Nat) (r : Int)
    (hd : (s.nodes p).decided = some (b, r)) :
    ∃ flags, seenCommit (nc.node p) (s.nodes p) = some flags ∧ commitVerifies (nc.node p) flags = true :=
  Tmv.Net.stored_commit_verifies (nc.node p) (s.nodes p) (nodes_reach nc s hr p) b r hd

/-! ### block validity instantiated with the C06 model of `ValidateBlock` -/

/-- the validity predicate of the consensus model instantiated with the model of
`BlockExecutor.ValidateBlock` (state/validation.go, Tmv/Model/Validate.lean — the C06 model, whose
`validate_iff_spec` says exactly which blocks pass) against the state `st` the nodes hold at this
height; `blk` decodes a block id (hash + part-set header) into the block -/
def validFrom (env : Validate.Env) (st : Validate.State) (blk : Nat → ProtoSize.Block) : Nat → Bool :=
  fun b => match Validate.validateBlock env st (blk b) with
    | .ok _ => true
    | .error _ => false

/-- **decision_backed, literally**: when block validity is `validateBlock` against the node's state,
every block a correct node decides PASSED FULL VALIDATION AGAINST THAT STATE (`validateBlock env st
(blk b) = ok`) and is backed by precommits for exactly it, in one round, in the log, from more than two
thirds of the power. -/
theorem decision_passed_validation (nc : NetCfg) (env : Validate.Env) (st : Validate.State)
    (blk : Nat → ProtoSize.Block) (hv : nc.valid = validFrom env st blk)
    (s : Net) (hr : Reachable nc s) (p : Nat) (hp : nc.correct p) (b : Nat) (hd : s.decided p = some b) :
    Validate.validateBlock env st (blk b) = .ok () ∧ ∃ r, decidable nc.powers (voteLog s.log) r b := by
  obtain ⟨h1, h2⟩ := decision_backed nc s hr p hp b hd
  refine ⟨?_, h2⟩
  rw [hv] at h1
  unfold validFrom at h1
  cases hvb : Validate.validateBlock env st (blk b) with
  | ok u => cases u; rfl
  | error e => rw [hvb] at h1; cases h1

/-- **agreement**: while the faulty validators hold less than one third of the voting power, no two
correct nodes ever decide different blocks — in every reachable state, i.e. for every delivery
order, delay, duplication, loss, partition and every behaviour of the faulty validators. -/
theorem agreement (nc : NetCfg) (hf : 3 * nc.powers.wt nc.faulty < nc.powers.total)
    (s : Net) (hr : Reachable nc s) (p q : Nat) (hp : nc.correct p) (hq : nc.correct q) (b b' : Nat)
    (h1 : s.decided p = some b) (h2 : s.decided q = some b') : b = b' := by
  obtain ⟨_, r, d1⟩ := decision_backed nc s hr p hp b h1
  obtain ⟨_, r', d2⟩ := decision_backed nc s hr q hq b' h2
  have hb := log_behaved nc s hr
  rcases Nat.le_total r r' with hle | hle
  · exact agreement_le nc.powers nc.faulty _ hb hf r b r' b' hle d1 d2
  · exact (agreement_le nc.powers nc.faulty _ hb hf r' b' r b hle d2 d1).symm

/-! ### All heights (the composition; model `Tmv.Chain`, Tmv/Model/Chain.lean)

One network per height. A node makes moves at height `h` only after it has committed at every height
below, and runs height `h` under the configuration `C.net S` of the state `S` IT holds — genesis with
its own committed blocks applied by the (deterministic, C06) transition `C.apply`; nothing in the
model makes two nodes hold the same state. The faulty validators of every height are given per
height. `Bounded C W` is the per-height hypothesis made explicit: at every height a correct node has
entered, the faulty validators of THAT height hold less than one third of the power of the validator
set of THAT height (as determined by the state the node holds there). -/

theorem agree1 : Chain.Agree1 :=
  fun nc hf s hr p q hp hq b b' h1 h2 => agreement nc hf s hr p q hp hq b b' h1 h2

/-- correct nodes hold the same replicated state at every height they have entered (so the same
validator set, proposer table and validity predicate: the hypothesis "all correct nodes enter height h
with the same state" of the one-height theorems is a consequence, not an assumption) -/
theorem same_state_all_heights {σ : Type} (C : Chain.ChainCfg σ) (W : Chain.World) (hr : Chain.WReachable C W)
    (hb : Chain.Bounded C W) (h p q : Nat) (hp : W.good C p h) (hq : W.good C q h)
    (ep : W.entered p h) (eq : W.entered q h) : W.st C p h = W.st C q h :=
  Chain.same_state agree1 C W hr hb h p q hp hq ep eq

/-- **agreement_all_heights**: provided less than one third of the power OF EACH HEIGHT'S validator
set is faulty (`Bounded`), no two correct nodes ever decide different blocks at ANY height — in every
reachable world, i.e. every schedule within and across heights (nodes may be at different heights)
and every behaviour of each height's faulty validators. -/
theorem agreement_all_heights {σ : Type} (C : Chain.ChainCfg σ) (W : Chain.World) (hr : Chain.WReachable C W)
    (hb : Chain.Bounded C W) (h p q : Nat) (hp : W.good C p h) (hq : W.good C q h) (b b' : Nat)
    (h1 : W.decided p h = some b) (h2 : W.decided q h = some b') : b = b' :=
  Chain.agreement_all_heights agree1 C W hr hb h p q hp hq b b' h1 h2

/-- every height's network is a reachable state of the one-height model under the common
configuration — so `log_behaved`, `decision_backed`, `decision_passed_validation` apply to every height -/
theorem every_height_reachable {σ : Type} (C : Chain.ChainCfg σ) (W : Chain.World) (hr : Chain.WReachable C W)
    (hb : Chain.Bounded C W) (h p : Nat) (hp : W.good C p h) (ep : W.entered p h) :
    Reachable (C.netAt (W.st C p h) h) (W.nets h) :=
  Chain.height_reachable agree1 C W hr hb h p hp ep

/-! ### The composition instantiated with the C06 models of `ValidateBlock` / `ApplyBlock` -/

/-- what the application answers for a block on a state (validator updates, parameter updates,
results, app hash) — a function: the application is deterministic -/
structure AppModel where
  changed : Validate.State → ProtoSize.Block → Bool
  nvals : Validate.State → ProtoSize.Block → Option Validate.ValSet
  params : Validate.State → ProtoSize.Block → Option Validate.ParamUpdate
  results : Validate.State → ProtoSize.Block → List Validate.TxResult
  appHash : Validate.State → ProtoSize.Block → Bytes

/-- the chain whose replicated state is the C06 `State`: block validity at a height is
`validateBlock` against the state the node holds; the next state is `applyBlock` (= `validateBlock`,
`updateState` on the application's answers, app hash) of the committed block; the validator set and the
powers of a height are `State.vals`; the proposer table and the node's own block come from the state
through `prop` / `own` (C08 / `CreateProposalBlock`) -/
def c06Chain (env : Validate.Env) (incr : Validate.ValSet → Validate.ValSet) (app : AppModel)
    (blk : Nat → ProtoSize.Block) (bid : Nat → ProtoSize.BlockID)
    (prop : Validate.State → Nat → Nat) (own : Validate.State → Nat → Nat)
    (genesis : Validate.State) (faulty : Nat → Nat → Bool) (checkHRS : Bool) : Chain.ChainCfg Validate.State where
  genesis := genesis
  apply := fun S b =>
    match Validate.applyBlock env incr S (blk b) (bid b) (app.changed S (blk b)) (app.nvals S (blk b))
        (app.params S (blk b)) (app.results S (blk b)) (app.appHash S (blk b)) with
    | .ok S' => S'
    | .error _ => S
  net := fun S =>
    { n := S.vals.length, power := fun v => ((S.vals.map (fun (x : Validate.Validator) => x.power))[v]?.getD 0).toNat,
      faulty := fun _ => false, proposer := prop S, valid := validFrom env S blk, ownBlock := own S,
      waitForTxs := false, needProofBlock := true, emptyInterval := false, checkHRS := checkHRS }
  faulty := faulty

/-- **all heights, with the C06 state machine**: every block a correct node commits at any height
passed `validateBlock` against the state that node holds at that height — which is the same state at
every correct node —, and no two correct nodes commit different blocks at any height. -/
theorem agreement_all_heights_c06 (env : Validate.Env) (incr : Validate.ValSet → Validate.ValSet) (app : AppModel)
    (blk : Nat → ProtoSize.Block) (bid : Nat → ProtoSize.BlockID)
    (prop own : Validate.State → Nat → Nat) (genesis : Validate.State) (faulty : Nat → Nat → Bool) (hrs : Bool)
    (W : Chain.World)
    (hr : Chain.WReachable (c06Chain env incr app blk bid prop own genesis faulty hrs) W)
    (hb : Chain.Bounded (c06Chain env incr app blk bid prop own genesis faulty hrs) W)
    (h p q : Nat) (hp : W.good (c06Chain env incr app blk bid prop own genesis faulty hrs) p h)
    (hq : W.good (c06Chain env incr app blk bid prop own genesis faulty hrs) q h) (b b' : Nat)
    (h1 : W.decided p h = some b) (h2 : W.decided q h = some b') :
    b = b' ∧
    W.st (c06Chain env incr app blk bid prop own genesis faulty hrs) p h =
      W.st (c06Chain env incr app blk bid prop own genesis faulty hrs) q h ∧
    Validate.validateBlock env (W.st (c06Chain env incr app blk bid prop own genesis faulty hrs) p h) (blk b) = .ok () := by
  have hJ := Chain.J.of_reachable agree1 _ W hr hb
  have ep : W.entered p h := (hJ.j3 h p (Chain.nodes_ne_init_of_decided (by rw [show (W.nets h).decided p = W.decided p h from rfl, h1]; simp))).2
  have eq : W.entered q h := (hJ.j3 h q (Chain.nodes_ne_init_of_decided (by rw [show (W.nets h).decided q = W.decided q h from rfl, h2]; simp))).2
  refine ⟨agreement_all_heights _ W hr hb h p q hp hq b b' h1 h2,
    same_state_all_heights _ W hr hb h p q hp hq ep eq, ?_⟩
  have hreach := every_height_reachable _ W hr hb h p hp ep
  exact (decision_passed_validation _ env _ blk rfl _ hreach p (hp h (Nat.le_refl _)) b h1).1

/-! ### Non-vacuity: explicit traces of the network model -/

/-- running a list of ops through `Net.apply` with the FIFO schedule for own messages (an op that is
not a transition is skipped) -/
def runOps (nc : NetCfg) (s : Net) (ops : List Op) : Net :=
  ops.foldl (fun s op => (s.apply nc true op).getD s) s

theorem drainOwn_reachable (nc : NetCfg) (p : Nat) (hp : nc.correct p) (fuel : Nat) (s : Net)
    (hr : Reachable nc s) : Reachable nc (s.drainOwn nc p fuel) := by
  induction fuel generalizing s with
  | zero => exact hr
  | succ f ih =>
    unfold Net.drainOwn
    split
    · exact hr
    · exact ih _ (Reachable.step hr (NetStep.own s p 0 hp))

theorem feedD_reachable (nc : NetCfg) (s : Net) (p : Nat) (i : Input) (d : Bool) (hp : nc.correct p)
    (hr : Reachable nc s) (hs : NetStep nc s (s.feed nc p (.ext i))) : Reachable nc (s.feedD nc p i d) := by
  unfold Net.feedD
  simp only []
  split
  · exact drainOwn_reachable nc p hp _ _ (Reachable.step hr hs)
  · exact Reachable.step hr hs

/-- every applied op is a `NetStep`, or a `NetStep` followed by `own` steps -/
theorem apply_reachable (nc : NetCfg) (s s' : Net) (d : Bool) (op : Op) (hr : Reachable nc s)
    (h : s.apply nc d op = some s') : Reachable nc s' := by
  unfold Net.apply at h
  cases op with
  | deliver p k peer =>
    simp only at h
    split at h
    · rename_i hp
      split at h
      · rename_i m hm
        cases h
        have hk : k < s.log.length := (List.getElem?_eq_some_iff.1 hm).1
        have e : s.log[k] = m := (List.getElem?_eq_some_iff.1 hm).2
        rw [← e]
        exact feedD_reachable nc s p _ d hp hr (NetStep.deliver s p k peer hp hk)
      · cases h
    · cases h
  | block p b =>
    simp only at h; split at h <;> cases h
    exact feedD_reachable nc s p _ d ‹_› hr (NetStep.block s p b ‹_›)
  | claim p r t peer bid =>
    simp only at h; split at h <;> cases h
    exact feedD_reachable nc s p _ false ‹_› hr (NetStep.claim s p r t peer bid ‹_›)
  | fire p r st =>
    simp only at h; split at h <;> cases h
    rename_i hc
    exact feedD_reachable nc s p _ d hc.1 hr (NetStep.fire s p r st hc.1 hc.2)
  | txs p =>
    simp only at h; split at h <;> cases h
    exact feedD_reachable nc s p _ d ‹_› hr (NetStep.txs s p ‹_›)
  | own p k =>
    simp only at h; split at h <;> cases h
    exact Reachable.step hr (NetStep.own s p k ‹_›)
  | byz m =>
    simp only at h; split at h <;> cases h
    exact Reachable.step hr (NetStep.byz s m ‹_›)
  | restart p =>
    simp only at h; split at h <;> cases h
    exact hr

theorem runOps_reachable (nc : NetCfg) (ops : List Op) (s : Net) (hr : Reachable nc s) :
    Reachable nc (runOps nc s ops) := by
  induction ops generalizing s with
  | nil => exact hr
  | cons op ops ih =>
    unfold runOps
    simp only [List.foldl]
    apply ih
    cases h : s.apply nc true op with
    | none => simpa using hr
    | some s' => simpa using apply_reachable nc s s' true op hr h

/-- 4 validators of power 1, validator 3 faulty, proposer of round k is validator k mod 4 -/
def exCfg (faulty : List Nat) : NetCfg where
  n := 4
  power := fun _ => 1
  faulty := fun v => faulty.contains v
  proposer := fun k => k % 4
  valid := fun _ => true
  ownBlock := fun p => p
  waitForTxs := false
  needProofBlock := true
  emptyInterval := false
  checkHRS := true

/-- round 0: validator 0 proposes its block 0; validators 0,1,2 receive proposal and block, prevote
and precommit it, and each receives the three prevotes and precommits: all three decide block 0.
(log: 0 = proposal, 1 = prevote of 0, 2 = prevote of 1, 3 = prevote of 2, 4.. = precommits) -/
def exHappy : List Op :=
  [.fire 0 0 .newHeight, .fire 1 0 .newHeight, .fire 2 0 .newHeight,
   .deliver 1 0 1, .block 1 0, .deliver 2 0 1, .block 2 0,
   .deliver 0 2 1, .deliver 0 3 1, .deliver 1 1 1, .deliver 1 3 1, .deliver 2 1 1, .deliver 2 2 1,
   .deliver 0 5 1, .deliver 0 6 1, .deliver 1 4 1, .deliver 1 6 1, .deliver 2 4 1, .deliver 2 5 1]

/-- the hypotheses of `agreement` hold of a real run: `exCfg [3]` has less than one third faulty
power, the state after `exHappy` is reachable, validators 0, 1, 2 are correct and all decided -/
example : 3 * (exCfg [3]).powers.wt (exCfg [3]).faulty < (exCfg [3]).powers.total ∧
    (exCfg [3]).correct 0 ∧ (exCfg [3]).correct 1 ∧ (exCfg [3]).correct 2 ∧
    (runOps (exCfg [3]) Net.init exHappy).decided 0 = some 0 ∧
    (runOps (exCfg [3]) Net.init exHappy).decided 1 = some 0 ∧
    (runOps (exCfg [3]) Net.init exHappy).decided 2 = some 0 := by decide

example : Reachable (exCfg [3]) (runOps (exCfg [3]) Net.init exHappy) :=
  runOps_reachable _ _ _ Reachable.init

/-- the dangerous schedule of the property text: validator 0 alone sees the round-0 polka for block 0
(the faulty validator 3 sends its prevote to 0 only) and locks it; 0 is then cut off while 1, 2 and
the faulty validator produce a polka and +2/3 precommits for the competing block 1 in round 1 and
decide it; after the partition heals, 0 prevotes its locked block, sees the round-1 polka, unlocks,
locks block 1 and decides block 1 as well. -/
def exLock : List Op :=
  [.fire 0 0 .newHeight, .fire 1 0 .newHeight, .fire 2 0 .newHeight, .deliver 1 0 1, .block 1 0,
   .fire 2 0 .propose, .byz ⟨3, .vote .prevote 0 (some 0), true⟩, .deliver 0 2 1, .deliver 0 4 3,
   .deliver 1 1 1, .deliver 1 3 2, .fire 1 0 .prevoteWait, .deliver 2 1 1, .deliver 2 2 1,
   .fire 2 0 .prevoteWait, .byz ⟨3, .vote .precommit 0 none, true⟩, .deliver 0 6 1, .deliver 0 7 2,
   .fire 0 0 .precommitWait, .deliver 1 7 2, .deliver 1 8 3, .fire 1 0 .precommitWait,
   .deliver 2 6 1, .deliver 2 8 3, .fire 2 0 .precommitWait, .deliver 2 9 1, .block 2 1,
   .byz ⟨3, .vote .prevote 1 (some 1), true⟩, .deliver 1 11 2, .deliver 1 12 3, .deliver 2 10 1,
   .deliver 2 12 3, .byz ⟨3, .vote .precommit 1 (some 1), true⟩, .deliver 1 14 2, .deliver 1 15 3,
   .deliver 2 13 1, .deliver 2 15 3]

def exHeal : List Op :=
  [.deliver 0 9 1, .block 0 1, .deliver 0 10 1, .deliver 0 11 2,
   .deliver 0 12 3, .deliver 0 13 1, .deliver 0 14 2]

set_option maxRecDepth 8000 in
/-- … during the partition two correct validators hold different locks (0 on block 0, 1 on block 1)
while 1 and 2 have decided block 1 … -/
example :
    let s := runOps (exCfg [3]) Net.init exLock
    (s.nodes 0).lockedBlock = some 0 ∧ (s.nodes 1).lockedBlock = some 1 ∧
    s.decided 0 = none ∧ s.decided 1 = some 1 ∧ s.decided 2 = some 1 := by decide

set_option maxRecDepth 8000 in
/-- … and after healing validator 0 has signed prevote(1, block 0) — its lock —, precommit(1, block 1),
and decided block 1 -/
example :
    let s := runOps (exCfg [3]) Net.init (exLock ++ exHeal)
    Output.signVote .precommit 0 (some 0) ∈ (s.nodes 0).out ∧
    Output.signVote .prevote 1 (some 0) ∈ (s.nodes 0).out ∧
    Output.signVote .precommit 1 (some 1) ∈ (s.nodes 0).out ∧
    s.decided 0 = some 1 ∧ s.decided 1 = some 1 ∧ s.decided 2 = some 1 := by decide

/-- validators 2 and 3 (half of the power) faulty: they show block 0 to validator 0 and, after nil
rounds, block 1 to validator 1 -/
def exSplit : List Op :=
  [.fire 0 0 .newHeight, .byz ⟨2, .vote .prevote 0 (some 0), true⟩,
   .byz ⟨3, .vote .prevote 0 (some 0), true⟩, .deliver 0 2 1, .deliver 0 3 1,
   .byz ⟨2, .vote .precommit 0 (some 0), true⟩, .byz ⟨3, .vote .precommit 0 (some 0), true⟩,
   .deliver 0 5 1, .deliver 0 6 1, .fire 1 0 .newHeight, .fire 1 0 .propose,
   .byz ⟨2, .vote .prevote 0 none, true⟩, .byz ⟨3, .vote .prevote 0 none, true⟩, .deliver 1 8 1,
   .deliver 1 9 1, .byz ⟨2, .vote .precommit 0 none, true⟩,
   .byz ⟨3, .vote .precommit 0 none, true⟩, .deliver 1 11 1, .deliver 1 12 1,
   .fire 1 0 .precommitWait, .byz ⟨2, .vote .prevote 1 (some 1), true⟩,
   .byz ⟨3, .vote .prevote 1 (some 1), true⟩, .deliver 1 15 1, .deliver 1 16 1,
   .byz ⟨2, .vote .precommit 1 (some 1), true⟩, .byz ⟨3, .vote .precommit 1 (some 1), true⟩,
   .deliver 1 18 1, .deliver 1 19 1]

/-- **the bound on the faulty power cannot be dropped** (and the model is not trivially safe): with
validators 2 and 3 of four equal validators faulty, a reachable state has the correct validators 0
and 1 decide different blocks. -/
theorem agreement_needs_less_than_one_third :
    ∃ s, Reachable (exCfg [2, 3]) s ∧ (exCfg [2, 3]).correct 0 ∧ (exCfg [2, 3]).correct 1 ∧
      s.decided 0 = some 0 ∧ s.decided 1 = some 1 :=
  ⟨runOps (exCfg [2, 3]) Net.init exSplit, runOps_reachable _ _ _ Reachable.init, by decide⟩

/-- ops with an explicit schedule for the node's own messages: `false` = the node handles the input
only, its own messages stay queued until `Op.own` ops hand them over -/
def runOpsD (nc : NetCfg) (s : Net) (ops : List (Op × Bool)) : Net :=
  ops.foldl (fun s od => (s.apply nc od.2 od.1).getD s) s

theorem runOpsD_reachable (nc : NetCfg) (ops : List (Op × Bool)) (s : Net) (hr : Reachable nc s) :
    Reachable nc (runOpsD nc s ops) := by
  induction ops generalizing s with
  | nil => exact hr
  | cons od ops ih =>
    unfold runOpsD
    simp only [List.foldl]
    apply ih
    cases h : s.apply nc od.2 od.1 with
    | none => simpa using hr
    | some s' => simpa using apply_reachable nc s s' od.2 od.1 hr h

/-- validator 0 proposes but hears its OWN proposal and block part only after the others' prevotes,
and its own prevote only after the others' precommits (its internal queue is served late) -/
def exOwnLate : List (Op × Bool) :=
  [(.fire 0 0 .newHeight, false), (.fire 1 0 .newHeight, true), (.fire 2 0 .newHeight, true),
   (.deliver 1 0 1, true), (.block 1 0, true), (.deliver 2 0 1, true), (.block 2 0, true),
   (.deliver 0 1 1, false), (.deliver 0 2 1, false), (.own 0 0, true), (.own 0 0, true),
   (.deliver 1 2 1, true), (.deliver 2 1 1, true), (.deliver 1 3 1, true), (.deliver 2 3 1, true),
   (.deliver 0 4 1, false), (.deliver 0 5 1, false), (.own 0 0, true), (.own 0 0, true),
   (.deliver 1 5 1, true), (.deliver 1 6 1, true), (.deliver 2 4 1, true), (.deliver 2 6 1, true)]

/-- … and all three correct validators still decide block 0 (the model's schedule for own messages is
free: `agreement` does not rest on a FIFO internal queue) -/
example :
    let s := runOpsD (exCfg [3]) Net.init exOwnLate
    s.decided 0 = some 0 ∧ s.decided 1 = some 0 ∧ s.decided 2 = some 0 := by decide

/-! ### Non-vacuity of the composition: a two-height run with a changing validator set -/

/-- state = the list of committed block ids; validator powers (1,1,1,1 then 2,1,1,1), proposer rotation
and the nodes' own blocks depend on the height through the state; validator 3 is faulty at every height -/
def exChain : Chain.ChainCfg (List Nat) where
  genesis := []
  apply := fun S b => S ++ [b]
  net := fun S =>
    { n := 4, power := fun v => if S.length = 0 then 1 else if v = 0 then 2 else 1,
      faulty := fun _ => false, proposer := fun k => (k + S.length) % 4, valid := fun _ => true,
      ownBlock := fun p => 10 * S.length + p, waitForTxs := false, needProofBlock := true,
      emptyInterval := false, checkHRS := true }
  faulty := fun _ v => v == 3

/-- height 0: validator 0 proposes block 0; 0 and 1 decide it and move on to height 1 (proposer 1,
block 11) while 2 has not yet heard the height-0 precommits — its height-1 start is refused; then 2
finishes height 0, joins height 1, and all three decide block 11 -/
def exTwoHeights : List (Nat × Op) :=
  [(0, .fire 0 0 .newHeight), (0, .fire 1 0 .newHeight), (0, .fire 2 0 .newHeight),
   (0, .deliver 1 0 1), (0, .block 1 0), (0, .deliver 2 0 1), (0, .block 2 0),
   (0, .deliver 0 2 1), (0, .deliver 0 3 1), (0, .deliver 1 1 1), (0, .deliver 1 3 1),
   (0, .deliver 2 1 1), (0, .deliver 2 2 1),
   (0, .deliver 0 5 1), (0, .deliver 0 6 1), (0, .deliver 1 4 1), (0, .deliver 1 6 1),
   (1, .fire 1 0 .newHeight), (1, .fire 0 0 .newHeight), (1, .fire 2 0 .newHeight),
   (1, .deliver 0 0 1), (1, .block 0 11),
   (0, .deliver 2 4 1), (0, .deliver 2 5 1),
   (1, .fire 2 0 .newHeight), (1, .deliver 2 0 1), (1, .block 2 11),
   (1, .deliver 0 1 1), (1, .deliver 0 3 1), (1, .deliver 1 2 1), (1, .deliver 1 3 1),
   (1, .deliver 2 1 1), (1, .deliver 2 2 1),
   (1, .deliver 0 5 1), (1, .deliver 0 6 1), (1, .deliver 1 4 1), (1, .deliver 1 6 1),
   (1, .deliver 2 4 1), (1, .deliver 2 5 1)]

example : Chain.WReachable exChain (Chain.World.init.run exChain exTwoHeights) :=
  Chain.run_reachable _ _ _ Chain.WReachable.init

set_option maxRecDepth 16000 in
/-- the hypotheses of `agreement_all_heights` hold of this run at both heights (correct, entered,
per-height bound: 1 of 4 at height 0, 1 of 5 at height 1) and all three validators committed block 0
and then block 11, holding the same state `[0, 11]` -/
example :
    let W := Chain.World.init.run exChain exTwoHeights
    (∀ p, p < 3 → W.good exChain p 1 ∧ W.entered p 2 ∧ W.decided p 0 = some 0 ∧ W.decided p 1 = some 11 ∧
      W.st exChain p 2 = [0, 11] ∧ exChain.bound (W.st exChain p 0) 0 ∧ exChain.bound (W.st exChain p 1) 1) := by
  decide

set_option maxRecDepth 16000 in
/-- a node cannot move at a height before it has committed the one below: after the first 19 ops
validator 2 is still at height 0 and its height-1 start is not a transition -/
example :
    let W := Chain.World.init.run exChain (exTwoHeights.take 19)
    W.decided 2 0 = none ∧ W.applyOp exChain 1 true (.fire 2 0 .newHeight) = none ∧
    (W.applyOp exChain 1 true (.fire 0 0 .newHeight)).isSome = true := by decide

end Tmv.Props.C01
