import Tmv.Lemmas.NetLift
/-! # C01 — agreement: correct nodes never commit different blocks at one height

Theorems about the network model `Tmv.Net` (Tmv/Model/Net.lean): every correct validator runs the
node model `Tmv.Cons.step` (Tmv/Model/Cons.lean — `consensus/state.go`, `types/vote_set.go`,
`consensus/types/height_vote_set.go`, the signer; tied to the real `consensus.State` statement by
statement by the C02 stream and, composed, by the c01 stream); the network is the log of every
signed message ever sent. `Reachable nc s` is the inductive closure of `NetStep` from the initial
state: deliver ANY logged message to ANY correct node through any peer (so duplication, reordering,
delay, loss and partitions are all free), hand any block body / any majority claim to any node, fire
any timeout a node has scheduled, and let a faulty validator append ANY message carrying its own
sender id, and anybody append messages whose signature does not verify. A verifying message of a
correct validator enters the log only as an output of that validator's `step` (ideal signatures).

All statements are for every number of validators, every power assignment, every faulty set, every
proposer table, every validity predicate and every reachable state — i.e. every schedule and every
behaviour of the faulty validators. `agreement` alone assumes that the faulty set holds less than
one third of the power.

Limits (stated, not hidden): one height; block validity is the parameter `valid` (C06); signatures
ideal; the reactor's gossip is replaced by the log (safety does not depend on what is gossiped);
the internal queue of a node is FIFO and never overflows (as in C02). -/
namespace Tmv.Props.C01
open Tmv.Cons Tmv.Net Tmv.VoteLog

/-- **quorum_intersection**: two vote sets each holding more than two thirds of the power share a
validator outside any set holding less than one third. -/
theorem quorum_intersection (P : Powers) (p q f : Nat → Bool)
    (hp : 3 * P.wt p > 2 * P.total) (hq : 3 * P.wt q > 2 * P.total)
    (hf : 3 * P.wt f < P.total) :
    ∃ v, v < P.n ∧ p v = true ∧ q v = true ∧ f v = false :=
  Tmv.VoteLog.quorum_intersection P p q f hp hq hf

/-- **the lift**: in every reachable state the verified votes of the log satisfy the four
per-correct-validator log invariants of `Tmv.VoteLog.Behaved` (votes in round order; one precommit
per round; a block precommit is preceded in the log by a polka for it; a prevote against an earlier
block precommit is preceded in the log by a polka for something else in a round in between) —
whatever the faulty validators (any set, any power) put into the log. -/
theorem log_behaved (nc : NetCfg) (s : Net) (hr : Reachable nc s) :
    Behaved nc.powers nc.faulty (voteLog s.log) :=
  (Inv.reachable hr).good.behaved

/-- a verifying vote of a correct validator in the log was signed by that validator's node
(nothing else puts it there) -/
theorem correct_votes_are_signed (nc : NetCfg) (s : Net) (hr : Reachable nc s) (p : Nat) (hp : nc.correct p)
    (m : VoteMsg) (hm : m ∈ voteLog s.log) (hs : m.sender = p) :
    ∃ t, (t == VType.precommit) = m.isPrecommit ∧ Output.signVote t m.round m.value ∈ (s.nodes p).out :=
  (Inv.reachable hr).mine p hp m hm hs

/-- a correct validator never equivocates on the wire: two verifying votes of one type and round
under its id carry the same value (C02's `one_per_step`, lifted to the log) -/
theorem correct_never_equivocates (nc : NetCfg) (s : Net) (hr : Reachable nc s) (p : Nat) (hp : nc.correct p)
    (m m' : VoteMsg) (hm : m ∈ voteLog s.log) (hm' : m' ∈ voteLog s.log) (hs : m.sender = p) (hs' : m'.sender = p)
    (ht : m.isPrecommit = m'.isPrecommit) (hround : m.round = m'.round) : m.value = m'.value := by
  have inv := Inv.reachable hr
  obtain ⟨t, e, h1⟩ := inv.mine p hp m hm hs
  obtain ⟨t', e', h2⟩ := inv.mine p hp m' hm' hs'
  have htt : t = t' := by
    rw [← e, ← e'] at ht
    cases t <;> cases t' <;> simp_all
  subst htt
  have hg := (inv.node p hp).g
  cases t with
  | prevote =>
    have := hg.uniq _ h1 _ h2 4 rfl rfl (by simpa [sigRound] using hround)
    injection this
  | precommit =>
    have := hg.uniq _ h1 _ h2 6 rfl rfl (by simpa [sigRound] using hround)
    injection this

/-- inside the network the hypothesis of the C02 theorems holds: every timeout a correct node has
scheduled (the only ones that can fire) is for a round the node has reached -/
theorem scheduled_timeouts_reached (nc : NetCfg) (s : Net) (hr : Reachable nc s) (p : Nat) (hp : nc.correct p)
    (r : Nat) (st : Step) (h : Output.schedule r st ∈ (s.nodes p).out) : r ≤ (s.nodes p).round :=
  ((Inv.reachable hr).node p hp).n.sched r st h

/-- **decision_backed**: every block a correct node has decided passed `ValidateBlock` at that node
and is backed by precommits for exactly that block, in one round, that are in the log and come from
validators holding more than two thirds of the voting power. (No hypothesis on the faulty set.) -/
theorem decision_backed (nc : NetCfg) (s : Net) (hr : Reachable nc s) (p : Nat) (hp : nc.correct p) (b : Nat)
    (hd : s.decided p = some b) :
    nc.valid b = true ∧ ∃ r, decidable nc.powers (voteLog s.log) r b := by
  have hw := ((Inv.reachable hr).node p hp).w
  unfold Net.decided at hd
  cases hdec : (s.nodes p).decided with
  | none => rw [hdec] at hd; cases hd
  | some br =>
    obtain ⟨b', r⟩ := br
    rw [hdec] at hd
    simp at hd
    subst hd
    obtain ⟨hv, hq⟩ := hw.d b' r hdec
    refine ⟨hv, ?_⟩
    by_cases hneg : r < 0
    · exfalso
      have hz : wtUpTo (nc.node p).power (EL (voteLog s.log) VType.precommit r (some b')) (nc.node p).n = 0 := by
        have : ∀ n, wtUpTo (nc.node p).power (EL (voteLog s.log) VType.precommit r (some b')) n = 0 := by
          intro n
          induction n with
          | zero => rfl
          | succ k ih =>
            have : EL (voteLog s.log) VType.precommit r (some b') k = false := by
              unfold EL
              have : decide (0 ≤ r) = false := by simp; omega
              rw [this]; rfl
            simp [wtUpTo, ih, this]
        exact this _
      rw [hz] at hq
      omega
    · refine ⟨r.toNat, ?_⟩
      have e : r = ((r.toNat : Nat) : Int) := by omega
      rw [e] at hq
      have e2 : EL (voteLog s.log) VType.precommit ((r.toNat : Nat) : Int) (some b') =
          voted (voteLog s.log) true r.toNat (some b') := by
        funext v; rw [EL_nat]; rfl
      rw [e2] at hq
      unfold decidable Powers.total Powers.wt
      have ht := total_eq_wt (nc.node p)
      show 3 * wtUpTo nc.power _ nc.n > 2 * wtUpTo nc.power (fun _ => true) nc.n
      have ht' : (nc.node p).total = wtUpTo nc.power (fun _ => true) nc.n := ht
      have hq' : 2 * (nc.node p).total < 3 * wtUpTo nc.power (voted (voteLog s.log) true r.toNat (some b')) nc.n := hq
      omega

/-- **agreement**: while the faulty validators hold less than one third of the voting power, no two
correct nodes ever decide different blocks — in every reachable state, i.e. for every delivery
order, delay, duplication, loss, partition and every behaviour of the faulty validators. -/
theorem agreement (nc : NetCfg) (hf : 3 * nc.powers.wt nc.faulty < nc.powers.total)
    (s : Net) (hr : Reachable nc s) (p q : Nat) (hp : nc.correct p) (hq : nc.correct q) (b b' : Nat)
    (h1 : s.decided p = some b) (h2 : s.decided q = some b') : b = b' := by
  obtain ⟨_, r, d1⟩ := decision_backed nc s hr p hp b h1
  obtain ⟨_, r', d2⟩ := decision_backed nc s hr q hq b' h2
  have hb := log_behaved nc s hr
  rcases Nat.le_total r r' with hle | hle
  · exact agreement_le nc.powers nc.faulty _ hb hf r b r' b' hle d1 d2
  · exact (agreement_le nc.powers nc.faulty _ hb hf r' b' r b hle d2 d1).symm

/-! ### Non-vacuity: explicit traces of the network model -/

/-- running a list of ops through `Net.apply` (an op that is not a transition is skipped) -/
def runOps (nc : NetCfg) (s : Net) (ops : List Op) : Net :=
  ops.foldl (fun s op => (s.apply nc op).getD s) s

theorem apply_step (nc : NetCfg) (s s' : Net) (op : Op) (h : s.apply nc op = some s') : NetStep nc s s' := by
  unfold Net.apply at h
  cases op with
  | deliver p k peer =>
    simp only at h
    split at h
    · rename_i hp
      split at h
      · rename_i m hm
        cases h
        have hk : k < s.log.length := by
          have := List.getElem?_eq_some_iff.1 hm; exact this.1
        have e : s.log[k] = m := (List.getElem?_eq_some_iff.1 hm).2
        rw [← e]
        exact NetStep.deliver s p k peer hp hk
      · cases h
    · cases h
  | block p b => simp only at h; split at h <;> cases h; exact NetStep.block s p b ‹_›
  | claim p r t peer bid => simp only at h; split at h <;> cases h; exact NetStep.claim s p r t peer bid ‹_›
  | fire p r st =>
    simp only at h; split at h <;> cases h
    rename_i hc
    exact NetStep.fire s p r st hc.1 hc.2
  | txs p => simp only at h; split at h <;> cases h; exact NetStep.txs s p ‹_›
  | byz m => simp only at h; split at h <;> cases h; exact NetStep.byz s m ‹_›

theorem runOps_reachable (nc : NetCfg) (ops : List Op) (s : Net) (hr : Reachable nc s) :
    Reachable nc (runOps nc s ops) := by
  induction ops generalizing s with
  | nil => exact hr
  | cons op ops ih =>
    unfold runOps
    simp only [List.foldl]
    apply ih
    cases h : s.apply nc op with
    | none => simpa using hr
    | some s' => simpa using Reachable.step hr (apply_step nc s s' op h)

/-- 4 validators of power 1, validator 3 faulty, proposer of round k is validator k mod 4 -/
def exCfg (faulty : List Nat) : NetCfg where
  n := 4
  power := fun _ => 1
  faulty := fun v => faulty.contains v
  proposer := fun k => k % 4
  valid := fun _ => true
  ownBlock := fun p => p
  waitForTxs := false
  needProofBlock := true
  emptyInterval := false
  checkHRS := true

/-- round 0: validator 0 proposes its block 0; validators 0,1,2 receive proposal and block, prevote
and precommit it, and each receives the three prevotes and precommits: all three decide block 0.
(log: 0 = proposal, 1 = prevote of 0, 2 = prevote of 1, 3 = prevote of 2, 4.. = precommits) -/
def exHappy : List Op :=
  [.fire 0 0 .newHeight, .fire 1 0 .newHeight, .fire 2 0 .newHeight,
   .deliver 1 0 1, .block 1 0, .deliver 2 0 1, .block 2 0,
   .deliver 0 2 1, .deliver 0 3 1, .deliver 1 1 1, .deliver 1 3 1, .deliver 2 1 1, .deliver 2 2 1,
   .deliver 0 5 1, .deliver 0 6 1, .deliver 1 4 1, .deliver 1 6 1, .deliver 2 4 1, .deliver 2 5 1]

/-- the hypotheses of `agreement` hold of a real run: `exCfg [3]` has less than one third faulty
power, the state after `exHappy` is reachable, validators 0, 1, 2 are correct and all decided -/
example : 3 * (exCfg [3]).powers.wt (exCfg [3]).faulty < (exCfg [3]).powers.total ∧
    (exCfg [3]).correct 0 ∧ (exCfg [3]).correct 1 ∧ (exCfg [3]).correct 2 ∧
    (runOps (exCfg [3]) Net.init exHappy).decided 0 = some 0 ∧
    (runOps (exCfg [3]) Net.init exHappy).decided 1 = some 0 ∧
    (runOps (exCfg [3]) Net.init exHappy).decided 2 = some 0 := by decide

example : Reachable (exCfg [3]) (runOps (exCfg [3]) Net.init exHappy) :=
  runOps_reachable _ _ _ Reachable.init

/-- the dangerous schedule of the property text: validator 0 alone sees the round-0 polka for block 0
(the faulty validator 3 sends its prevote to 0 only) and locks it; 0 is then cut off while 1, 2 and
the faulty validator produce a polka and +2/3 precommits for the competing block 1 in round 1 and
decide it; after the partition heals, 0 prevotes its locked block, sees the round-1 polka, unlocks,
locks block 1 and decides block 1 as well. -/
def exLock : List Op :=
  [.fire 0 0 .newHeight, .fire 1 0 .newHeight, .fire 2 0 .newHeight, .deliver 1 0 1, .block 1 0,
   .fire 2 0 .propose, .byz ⟨3, .vote .prevote 0 (some 0), true⟩, .deliver 0 2 1, .deliver 0 4 3,
   .deliver 1 1 1, .deliver 1 3 2, .fire 1 0 .prevoteWait, .deliver 2 1 1, .deliver 2 2 1,
   .fire 2 0 .prevoteWait, .byz ⟨3, .vote .precommit 0 none, true⟩, .deliver 0 6 1, .deliver 0 7 2,
   .fire 0 0 .precommitWait, .deliver 1 7 2, .deliver 1 8 3, .fire 1 0 .precommitWait,
   .deliver 2 6 1, .deliver 2 8 3, .fire 2 0 .precommitWait, .deliver 2 9 1, .block 2 1,
   .byz ⟨3, .vote .prevote 1 (some 1), true⟩, .deliver 1 11 2, .deliver 1 12 3, .deliver 2 10 1,
   .deliver 2 12 3, .byz ⟨3, .vote .precommit 1 (some 1), true⟩, .deliver 1 14 2, .deliver 1 15 3,
   .deliver 2 13 1, .deliver 2 15 3]

def exHeal : List Op :=
  [.deliver 0 9 1, .block 0 1, .deliver 0 10 1, .deliver 0 11 2,
   .deliver 0 12 3, .deliver 0 13 1, .deliver 0 14 2]

set_option maxRecDepth 8000 in
/-- … during the partition two correct validators hold different locks (0 on block 0, 1 on block 1)
while 1 and 2 have decided block 1 … -/
example :
    let s := runOps (exCfg [3]) Net.init exLock
    (s.nodes 0).lockedBlock = some 0 ∧ (s.nodes 1).lockedBlock = some 1 ∧
    s.decided 0 = none ∧ s.decided 1 = some 1 ∧ s.decided 2 = some 1 := by decide

set_option maxRecDepth 8000 in
/-- … and after healing validator 0 has signed prevote(1, block 0) — its lock —, precommit(1, block 1),
and decided block 1 -/
example :
    let s := runOps (exCfg [3]) Net.init (exLock ++ exHeal)
    Output.signVote .precommit 0 (some 0) ∈ (s.nodes 0).out ∧
    Output.signVote .prevote 1 (some 0) ∈ (s.nodes 0).out ∧
    Output.signVote .precommit 1 (some 1) ∈ (s.nodes 0).out ∧
    s.decided 0 = some 1 ∧ s.decided 1 = some 1 ∧ s.decided 2 = some 1 := by decide

/-- validators 2 and 3 (half of the power) faulty: they show block 0 to validator 0 and, after nil
rounds, block 1 to validator 1 -/
def exSplit : List Op :=
  [.fire 0 0 .newHeight, .byz ⟨2, .vote .prevote 0 (some 0), true⟩,
   .byz ⟨3, .vote .prevote 0 (some 0), true⟩, .deliver 0 2 1, .deliver 0 3 1,
   .byz ⟨2, .vote .precommit 0 (some 0), true⟩, .byz ⟨3, .vote .precommit 0 (some 0), true⟩,
   .deliver 0 5 1, .deliver 0 6 1, .fire 1 0 .newHeight, .fire 1 0 .propose,
   .byz ⟨2, .vote .prevote 0 none, true⟩, .byz ⟨3, .vote .prevote 0 none, true⟩, .deliver 1 8 1,
   .deliver 1 9 1, .byz ⟨2, .vote .precommit 0 none, true⟩,
   .byz ⟨3, .vote .precommit 0 none, true⟩, .deliver 1 11 1, .deliver 1 12 1,
   .fire 1 0 .precommitWait, .byz ⟨2, .vote .prevote 1 (some 1), true⟩,
   .byz ⟨3, .vote .prevote 1 (some 1), true⟩, .deliver 1 15 1, .deliver 1 16 1,
   .byz ⟨2, .vote .precommit 1 (some 1), true⟩, .byz ⟨3, .vote .precommit 1 (some 1), true⟩,
   .deliver 1 18 1, .deliver 1 19 1]

/-- **the bound on the faulty power cannot be dropped** (and the model is not trivially safe): with
validators 2 and 3 of four equal validators faulty, a reachable state has the correct validators 0
and 1 decide different blocks. -/
theorem agreement_needs_less_than_one_third :
    ∃ s, Reachable (exCfg [2, 3]) s ∧ (exCfg [2, 3]).correct 0 ∧ (exCfg [2, 3]).correct 1 ∧
      s.decided 0 = some 0 ∧ s.decided 1 = some 1 :=
  ⟨runOps (exCfg [2, 3]) Net.init exSplit, runOps_reachable _ _ _ Reachable.init, by decide⟩

end Tmv.Props.C01
