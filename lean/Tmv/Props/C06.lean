import Tmv.Lemmas.Validate
import Tmv.Lemmas.MerkleRootInj
import Tmv.Lemmas.MerkleRootInjTraced
import Tmv.Model.ValidateCommit
import Tmv.Props.C07
import Tmv.Model.ValidateFull
import Tmv.Props.C08
import Tmv.Props.C11
/-! # C06 — Block validation is exact and the state transition is a deterministic function
Property theorems only. Hash functions, `VerifyCommit` (C07) and evidence admissibility (C11) are
the fields of an arbitrary `Env`; nothing is assumed about them. -/
namespace Tmv.Props.C06
open Tmv Tmv.ProtoSize Tmv.Validate

/-- `Header.ValidateBasic` passes (well-formedness that is not an equality with the state) -/
def HeaderBasic (h : Header) : Prop :=
  h.versionBlock = blockProtocol ∧ h.chainID.length ≤ maxChainIDLen ∧ 0 < h.height ∧
  badBlockID h.lastBlockID = false ∧ badHash h.lastCommitHash = false ∧ badHash h.dataHash = false ∧
  badHash h.evidenceHash = false ∧ h.proposer.length = addressSize ∧ badHash h.valsHash = false ∧
  badHash h.nextValsHash = false ∧ badHash h.consensusHash = false ∧ badHash h.lastResultsHash = false

/-- the height the state expects -/
def HeightOK (st : State) (h : Int) : Prop :=
  (st.lastBlockHeight = 0 → h = st.initialHeight) ∧
  (st.lastBlockHeight > 0 → h = st.lastBlockHeight + 1) ∧ st.initialHeight ≤ h

/-- the last commit is the empty one for the first block, else a valid +2/3 commit of the
previous validator set for the previous block (C07's predicate) -/
def CommitOK (env : Env) (st : State) (h : Int) (c : Commit) : Prop :=
  if h = st.initialHeight then c.sigs = []
  else env.verifyCommit st.lastVals st.chainID st.lastBlockID (h - 1) c = none

/-- The reference predicate: the block is what a correct proposer builds from this state
(`makeHeader`: chain, version, previous block, validator / parameter / application / results
hashes, median or genesis time, content hashes) for SOME choice of the free inputs (height as the
state dictates, transactions, evidence, last commit, proposer), and those inputs are admissible. -/
def Spec (env : Env) (st : State) (b : Block) : Prop :=
  ∃ c, b.lastCommit = some c ∧
    b.header = makeHeader env st b.header.height b.txs c b.evidence b.header.proposer ∧
    HeaderBasic b.header ∧ badCommit c = false ∧ (∀ e ∈ b.evidence, e.basic = true) ∧
    HeightOK st b.header.height ∧ CommitOK env st b.header.height c ∧
    hasAddress st.vals b.header.proposer = true ∧
    (st.initialHeight < b.header.height → st.lastBlockTime < b.header.time) ∧
    evByteSize b.evidence ≤ st.params.evMaxBytes ∧ env.evAdmissible st b.evidence = true

/-- **Validation is exact**: a block is accepted for execution exactly when it equals the block
derived from the node's own state, up to the free inputs. -/
theorem validate_iff_spec (env : Env) (st : State) (b : Block) :
    validateBlock env st b = .ok () ↔ Spec env st b := by
  rw [validateBlock_ok_iff]
  unfold Spec HeaderBasic HeightOK CommitOK
  rcases b with ⟨⟨vb, va, ch, h, t, lbid, lch, dh, vh, nvh, csh, ah, lrh, eh, pr⟩, txs, evs, lc⟩
  simp only [headerGuards, stateGuards, List.cons_append, List.nil_append, List.mem_cons,
    List.not_mem_nil, or_false, forall_eq_or_imp, forall_eq, makeHeader, Header.mk.injEq]
  simp only [bne_eq_false_iff_eq, Bool.or_eq_false_iff, Bool.and_eq_false_imp,
    decide_eq_false_iff_not, decide_eq_true_eq, Bool.not_eq_eq_eq_not, Bool.not_true,
    Bool.not_false, beq_iff_eq, Nat.not_lt, Int.not_lt, List.any_eq_false]
  constructor
  · rintro ⟨⟨b1, b2, b3, b4, b5, b6, b7, b8, b9, b10, b11, b12⟩, c, hc, g1, g2, g3, g4, g5,
      s1, s2, s3, s4, s5, s6, s7, s8, s9, s10, s11, s12, s13, s14, s15, s16, s17, s18, s19, a1⟩
    refine ⟨c, hc, ⟨s1.2, s1.1, s2, trivial, ?_, s5, g2, g3, s9, s10, s7, s6, s8, g5, trivial⟩,
      ⟨b1, b2, ?_, b4, b5, b6, b7, b8, b9, b10, b11, b12⟩, g1, ?_, ⟨s3, s4, s18⟩, ?_, s14,
      s15, s19, a1⟩
    · by_cases he : h = st.initialHeight
      · simp [he, s17 he]
      · have : h > st.initialHeight := by omega
        simp [he, s16 this]
    · have := b3.2; simp at this; omega
    · intro e he; have := g4 e he; simpa using this
    · by_cases he : h = st.initialHeight
      · simp [he] at s11 ⊢; exact s11
      · simp [he] at s12 ⊢; exact s12
  · rintro ⟨c, hc, ⟨e1, e2, e3, _, e5, e6, e7, e8, e9, e10, e11, e12, e13, e14, _⟩,
      ⟨b1, b2, b3, b4, b5, b6, b7, b8, b9, b10, b11, b12⟩, g1, hev, ⟨h1, h2, h3⟩, hC, hP, hT, hS, hA⟩
    refine ⟨⟨b1, b2, ⟨by omega, by simp; omega⟩, b4, b5, b6, b7, b8, b9, b10, b11, b12⟩, c, hc, g1,
      e7, e8, ?_, e14, ⟨e2, e1⟩, e3, h1, h2, e6, e12, e11, e13, e9, e10, ?_, ?_, b8, hP, hT, ?_, ?_, h3,
      hS, hA⟩
    · intro e he; simp [hev e he]
    · by_cases he : h = st.initialHeight
      · simp [he] at hC ⊢; exact hC
      · simp [he]
    · by_cases he : h = st.initialHeight
      · simp [he]
      · simp [he] at hC ⊢; exact hC
    · intro hgt
      have he : ¬ h = st.initialHeight := by omega
      simpa [he] using e5
    · intro he
      simpa [he] using e5

/-- What a correct proposer holds when it builds the block for height `h`: a well-formed state
(block protocol, chain id length, hashes of `tmhash.Size`), the height its state dictates, a last
commit that passes `ValidateBasic` and is the empty one (first block) or verifies against the
previous validator set (C07), its own address among the validators, evidence that passes
`ValidateBasic`, fits `Evidence.MaxBytes` and is admissible (C11). Transactions are arbitrary. -/
structure ProposerInput (env : Env) (st : State) (h : Int) (txs : List Bytes) (c : Commit)
    (evs : List Ev) (prop : Bytes) : Prop where
  vb : st.versionBlock = blockProtocol
  chain : st.chainID.length ≤ maxChainIDLen
  lbid : badBlockID st.lastBlockID = false
  hv : badHash (env.hVals st.vals) = false
  hnv : badHash (env.hVals st.nextVals) = false
  hp : badHash (env.hParams st.params) = false
  lrh : badHash st.lastResultsHash = false
  hc : badHash (env.hCommit c) = false
  hd : badHash (env.hData txs) = false
  he : badHash (env.hEv evs) = false
  hpos : 0 < h
  height : HeightOK st h
  commitBasic : badCommit c = false
  commit : CommitOK env st h c
  propLen : prop.length = addressSize
  propVal : hasAddress st.vals prop = true
  evBasic : ∀ e ∈ evs, e.basic = true
  evSize : evByteSize evs ≤ st.params.evMaxBytes
  evAdm : env.evAdmissible st evs = true

/-- voting power of a validator set -/
def totalPower (vs : ValSet) : Int := (vs.map (·.power)).sum

/-- The timestamps of the last commit as the property assumes them: the included votes stamped
at or before the last block time (they can only come from faulty validators) carry less than a
third of the previous set's power `P`, and the commit carries more than two thirds of it. -/
def TimesHonest (st : State) (c : Commit) : Prop :=
  let wt := weightedTimes c.sigs st.lastVals
  (∀ y ∈ wt, 0 ≤ y.2) ∧ 3 * lowWeight st.lastBlockTime wt < totalPower st.lastVals ∧
    2 * totalPower st.lastVals < 3 * totalWeight wt

/-- what the assumption gives in terms of the commit's own weight `T` and the early weight `F` -/
theorem timesHonest_half (st : State) (c : Commit) (h : TimesHonest st c) :
    2 * lowWeight st.lastBlockTime (weightedTimes c.sigs st.lastVals) + 1
      ≤ totalWeight (weightedTimes c.sigs st.lastVals) := by
  obtain ⟨_, h1, h2⟩ := h
  omega

/-- **A correct proposer's block is valid** — proved under `2F + 2 ≤ T` (early-stamped weight
`F`, commit weight `T`). The property's own assumption (`TimesHonest`) only yields `2F + 1 ≤ T`;
the gap `T = 2F + 1` is real, see `makeBlock_valid_fails`. -/
theorem makeBlock_valid_partial (env : Env) (st : State) (h : Int) (txs : List Bytes) (c : Commit)
    (evs : List Ev) (prop : Bytes) (hin : ProposerInput env st h txs c evs prop)
    (htime : st.initialHeight < h →
      (∀ y ∈ weightedTimes c.sigs st.lastVals, 0 ≤ y.2) ∧
      2 * lowWeight st.lastBlockTime (weightedTimes c.sigs st.lastVals) + 2
        ≤ totalWeight (weightedTimes c.sigs st.lastVals)) :
    validateBlock env st (makeBlock env st h txs c evs prop) = .ok () := by
  rw [validate_iff_spec]
  refine ⟨c, rfl, rfl, ?_, hin.commitBasic, hin.evBasic, hin.height, hin.commit, hin.propVal, ?_,
    hin.evSize, hin.evAdm⟩
  · exact ⟨hin.vb, hin.chain, hin.hpos, hin.lbid, hin.hc, hin.hd, hin.he, hin.propLen, hin.hv,
      hin.hnv, hin.hp, hin.lrh⟩
  · intro hlt
    have hlt : st.initialHeight < h := hlt
    have hne : ¬ h = st.initialHeight := by omega
    obtain ⟨hw, hlow⟩ := htime hlt
    show st.lastBlockTime < (if (h == st.initialHeight) = true then st.lastBlockTime else medianTime c st.lastVals)
    simp only [beq_iff_eq, hne, if_false]
    exact weightedMedian_gt _ _ hw hlow

/-! ### the witness: 4 validators of power 1, a commit of 3, one early stamp -/

def wHash : Bytes := List.replicate 32 0
def wEnv : Env :=
  { hCommit := fun _ => wHash, hData := fun _ => wHash, hEv := fun _ => wHash, hVals := fun _ => wHash,
    hParams := fun _ => wHash, hResults := fun _ => wHash, verifyCommit := fun _ _ _ _ _ => none,
    evAdmissible := fun _ _ => true }
def wAddr (i : UInt8) : Bytes := List.replicate 20 i
def wVals : ValSet := [⟨wAddr 1, [1], 1, 0⟩, ⟨wAddr 2, [2], 1, 0⟩, ⟨wAddr 3, [3], 1, 0⟩, ⟨wAddr 4, [4], 1, 0⟩]
def wParams : Params :=
  { blockMaxBytes := 22020096, blockMaxGas := -1, timeIotaMs := 1000, evMaxAgeBlocks := 100000,
    evMaxAgeDur := 172800000000000, evMaxBytes := 1048576, pubKeyTypes := ["ed25519"], appVersion := 0 }
def wState : State :=
  { versionBlock := 11, versionApp := 0, chainID := [99], initialHeight := 1, lastBlockHeight := 1,
    lastBlockID := ⟨wHash, 1, wHash⟩, lastBlockTime := 1000, nextVals := wVals, vals := wVals,
    lastVals := wVals, lastHeightValsChanged := 1, params := wParams, lastHeightParamsChanged := 1,
    lastResultsHash := wHash, appHash := [] }
/-- validator 1 (a quarter of the power) stamps 995 < 1000; validators 2, 3 stamp later; 4 absent -/
def wCommit : Commit :=
  { height := 1, round := 0, blockID := ⟨wHash, 1, wHash⟩,
    sigs := [⟨2, wAddr 1, 995, [1]⟩, ⟨2, wAddr 2, 1010, [1]⟩, ⟨2, wAddr 3, 1011, [1]⟩, ⟨1, [], zeroTime, []⟩] }

theorem wInput : ProposerInput wEnv wState 2 [] wCommit [] (wAddr 2) := by
  constructor <;> first | decide | (intro e he; cases he) | (unfold CommitOK; decide) | (unfold HeightOK; decide)

theorem wTimes : TimesHonest wState wCommit := by
  refine ⟨?_, by decide, by decide⟩
  intro y hy
  have : y ∈ [((995 : Int), (1 : Int)), (1010, 1), (1011, 1)] := hy
  simp at this
  rcases this with rfl | rfl | rfl <;> decide

/-- **The full-strength clause is false of the code.** With the assumption exactly as the
property states it (less than a third of the power stamps early, the commit has more than two
thirds) a correct proposer's `MakeBlock` output is rejected by `validateBlock`:
`WeightedMedian` starts at `floor(T/2)` and stops at the first entry with `median <= weight`,
so for `T = 2F + 1` the early entries alone reach the threshold. -/
theorem makeBlock_valid_fails :
    ¬ (∀ (env : Env) (st : State) (h : Int) (txs : List Bytes) (c : Commit) (evs : List Ev)
        (prop : Bytes), ProposerInput env st h txs c evs prop →
        (st.initialHeight < h → TimesHonest st c) →
        validateBlock env st (makeBlock env st h txs c evs prop) = .ok ()) := by
  intro H
  have h1 := H wEnv wState 2 [] wCommit [] (wAddr 2) wInput (fun _ => wTimes)
  have h2 : validateBlock wEnv wState (makeBlock wEnv wState 2 [] wCommit [] (wAddr 2))
      = .error .timeNotAfter := by rfl
  rw [h2] at h1
  cases h1


theorem weightedTimes_pos (sigs : List CommitSig) (vs : ValSet) (hp : ∀ v ∈ vs, 0 < v.power) :
    ∀ y ∈ weightedTimes sigs vs, 0 < y.2 := by
  intro y hy
  unfold weightedTimes at hy
  rw [List.mem_filterMap] at hy
  obtain ⟨s, _, hs⟩ := hy
  split at hs
  · cases hs
  · split at hs
    · rename_i v hv
      simp only [Option.some.injEq] at hs
      subst hs
      exact hp v (List.mem_of_find?_eq_some hv)
    · cases hs

/-- **Exactly when a correct proposer's block validates.** For proposer inputs admissible in
every other respect (`ProposerInput`) and a previous validator set with positive powers, the block
`MakeBlock` builds is accepted IF AND ONLY IF (above the initial height) the last commit's included
votes satisfy: `2F + 2 ≤ T`, where `F` is the voting power of the included votes stamped at or
before the last block time and `T` the power of all included votes — or nobody stamped that early
(`F = 0`; the degenerate third disjunct is a commit without any counted vote and a last block time
before year 1). Sufficient and necessary: `makeBlock_valid_partial` is the `⇐` half,
`makeBlock_valid_fails` an instance of `⇒` at `T = 2F + 1`. -/
theorem makeBlock_valid_iff (env : Env) (st : State) (h : Int) (txs : List Bytes) (c : Commit)
    (evs : List Ev) (prop : Bytes) (hin : ProposerInput env st h txs c evs prop)
    (hp : ∀ v ∈ st.lastVals, 0 < v.power) :
    validateBlock env st (makeBlock env st h txs c evs prop) = .ok () ↔
      (st.initialHeight < h →
        let wt := weightedTimes c.sigs st.lastVals
        2 * lowWeight st.lastBlockTime wt + 2 ≤ totalWeight wt ∨
        (lowWeight st.lastBlockTime wt = 0 ∧ wt ≠ []) ∨ (wt = [] ∧ st.lastBlockTime < zeroTime)) := by
  have hpos := weightedTimes_pos c.sigs st.lastVals hp
  have htime : ∀ (hlt : st.initialHeight < h),
      (makeBlock env st h txs c evs prop).header.time = medianTime c st.lastVals := by
    intro hlt
    have hne : ¬ h = st.initialHeight := by omega
    show (if (h == st.initialHeight) = true then st.lastBlockTime else medianTime c st.lastVals) = _
    simp only [beq_iff_eq, hne, if_false]
  constructor
  · intro hv hlt
    rw [validate_iff_spec] at hv
    obtain ⟨_, _, _, _, _, _, _, _, _, hT, _⟩ := hv
    have := hT hlt
    rw [htime hlt] at this
    exact (weightedMedian_gt_iff _ _ hpos).mp this
  · intro hcond
    rw [validate_iff_spec]
    refine ⟨c, rfl, rfl, ?_, hin.commitBasic, hin.evBasic, hin.height, hin.commit, hin.propVal, ?_,
      hin.evSize, hin.evAdm⟩
    · exact ⟨hin.vb, hin.chain, hin.hpos, hin.lbid, hin.hc, hin.hd, hin.he, hin.propLen, hin.hv,
        hin.hnv, hin.hp, hin.lrh⟩
    · intro hlt
      have hlt : st.initialHeight < h := hlt
      rw [htime hlt]
      exact (weightedMedian_gt_iff _ _ hpos).mpr (hcond hlt)

/-- the block time a correct proposer computes lies between the earliest and latest correct
vote (`Lemmas.median_between_correct` on the commit's weighted times) -/
theorem blockTime_between_correct (c : Commit) (vs : ValSet) (lo hi : Time)
    (hp : ∀ v ∈ vs, 0 < v.power)
    (hcorrect : ∃ y ∈ weightedTimes c.sigs vs, lo ≤ y.1 ∧ y.1 ≤ hi)
    (hearly : 2 * lowWeight (lo - 1) (weightedTimes c.sigs vs) + 2 ≤ totalWeight (weightedTimes c.sigs vs)
      ∨ lowWeight (lo - 1) (weightedTimes c.sigs vs) = 0)
    (hlate : 2 * (totalWeight (weightedTimes c.sigs vs) - lowWeight hi (weightedTimes c.sigs vs))
      ≤ totalWeight (weightedTimes c.sigs vs) + 1) :
    lo ≤ medianTime c vs ∧ medianTime c vs ≤ hi :=
  median_between_correct _ lo hi (weightedTimes_pos c.sigs vs hp) hcorrect hearly hlate

/-- With the contents and the proposer fixed, the state determines the whole header: two
accepted blocks cannot differ in any other header field. -/
theorem header_determined (env : Env) (st : State) (b b' : Block) (hlbh : 0 ≤ st.lastBlockHeight)
    (hv : validateBlock env st b = .ok ()) (hv' : validateBlock env st b' = .ok ())
    (htx : b'.txs = b.txs) (hev : b'.evidence = b.evidence) (hlc : b'.lastCommit = b.lastCommit)
    (hp : b'.header.proposer = b.header.proposer) : b'.header = b.header := by
  rw [validate_iff_spec] at hv hv'
  obtain ⟨c, hc, hh, _, _, _, hH, _⟩ := hv
  obtain ⟨c', hc', hh', _, _, _, hH', _⟩ := hv'
  have hcc : c' = c := by rw [hlc, hc] at hc'; exact (Option.some.inj hc').symm
  have hheight : b'.header.height = b.header.height := by
    obtain ⟨a1, a2, _⟩ := hH
    obtain ⟨a1', a2', _⟩ := hH'
    by_cases h0 : st.lastBlockHeight = 0
    · rw [a1 h0, a1' h0]
    · have : st.lastBlockHeight > 0 := by omega
      rw [a2 this, a2' this]
  rw [hh', hh, htx, hev, hp, hcc, hheight]

/-- **Every single-field perturbation of the header is rejected**: change any header field other
than the (free) proposer of an accepted block, keep the contents, and the block is refused — no
hash assumption is needed, the node recomputes every field. -/
theorem single_field_rejected (env : Env) (st : State) (b b' : Block) (hlbh : 0 ≤ st.lastBlockHeight)
    (hv : validateBlock env st b = .ok ())
    (htx : b'.txs = b.txs) (hev : b'.evidence = b.evidence) (hlc : b'.lastCommit = b.lastCommit)
    (hp : b'.header.proposer = b.header.proposer) (hne : b'.header ≠ b.header) :
    validateBlock env st b' ≠ .ok () := by
  intro hv'
  exact hne (header_determined env st b b' hlbh hv hv' htx hev hlc hp)

/-- **Every change of a content item under an unchanged header is rejected, or exhibits a
collision** of the hash that binds that item (distinct inputs, equal outputs). For the last commit
the binding hash is `Commit.Hash`, which covers the signatures only; round / height / block id of
a non-first commit are bound through `VerifyCommit` (C07). -/
theorem single_content_rejected (env : Env) (st : State) (b b' : Block)
    (hv : validateBlock env st b = .ok ()) (hh : b'.header = b.header) (hne : b' ≠ b) :
    validateBlock env st b' ≠ .ok () ∨
    (b'.txs ≠ b.txs ∧ env.hData b'.txs = env.hData b.txs) ∨
    (b'.evidence ≠ b.evidence ∧ env.hEv b'.evidence = env.hEv b.evidence) ∨
    (∃ c c', b.lastCommit = some c ∧ b'.lastCommit = some c' ∧ c' ≠ c ∧ env.hCommit c' = env.hCommit c) := by
  by_cases hv' : validateBlock env st b' = .ok ()
  · right
    rw [validate_iff_spec] at hv hv'
    obtain ⟨c, hc, hhd, _⟩ := hv
    obtain ⟨c', hc', hhd', _⟩ := hv'
    have e1 : env.hData b'.txs = env.hData b.txs := by
      have h1 := congrArg Header.dataHash hhd
      have h2 := congrArg Header.dataHash hhd'
      simp only [makeHeader] at h1 h2
      rw [← h1, ← h2, hh]
    have e2 : env.hEv b'.evidence = env.hEv b.evidence := by
      have h1 := congrArg Header.evidenceHash hhd
      have h2 := congrArg Header.evidenceHash hhd'
      simp only [makeHeader] at h1 h2
      rw [← h1, ← h2, hh]
    have e3 : env.hCommit c' = env.hCommit c := by
      have h1 := congrArg Header.lastCommitHash hhd
      have h2 := congrArg Header.lastCommitHash hhd'
      simp only [makeHeader] at h1 h2
      rw [← h1, ← h2, hh]
    by_cases t : b'.txs = b.txs
    · by_cases e : b'.evidence = b.evidence
      · right; right
        refine ⟨c, c', hc, hc', ?_, e3⟩
        intro hcc
        apply hne
        rcases b with ⟨h0, t0, e0, l0⟩
        rcases b' with ⟨h1, t1, e1', l1⟩
        simp only at hh t e hc hc'
        subst hh t e hcc
        rw [hc, hc']
      · right; left; exact ⟨e, e2⟩
    · left; exact ⟨t, e1⟩
  · left; exact hv'

/-- the ranges Go's types impose on a commit (int64 height, int32 round, uint32 part count,
hashes of at most `tmhash.Size`) -/
def CommitRanges (c : Commit) : Prop :=
  (0 ≤ c.height ∧ c.height < 9223372036854775808) ∧ (0 ≤ c.round ∧ c.round < 2147483648) ∧
  (c.blockID.hash.length ≤ 32 ∧ c.blockID.psHash.length ≤ 32 ∧ c.blockID.total < 4294967296)

/-- **A correct proposer's block fits `Block.MaxBytes`, for every validator count**: whenever
`MaxDataBytes(MaxBytes, evidence size, |LastValidators|)` did not panic and the mempool returned
transactions within that budget, the marshalled block (all length prefixes included) is within
`MaxBytes`. Hypotheses: `MaxBytes ≤ MaxBlockSizeBytes` (`ValidateConsensusParams`); the commit has
at most one signature slot per previous validator, each passing `CommitSig.ValidateBasic`; the
header's fields are within `HeaderBounds` — application hash up to 182 bytes (header ≤ 619), far
beyond the `tmhash.Size` for which `MaxHeaderBytes` was computed. For 183..189 bytes the header is
still within `MaxHeaderBytes` but the claim is false: `size_fits_at_header_budget_fails`. -/
theorem size_fits (env : Env) (st : State) (h : Int) (txs : List Bytes) (c : Commit)
    (evs : List Ev) (prop : Bytes) (d : Int)
    (hM : st.params.blockMaxBytes ≤ maxBlockSizeBytes)
    (hbud : proposalDataBudget st (evByteSize evs) = some d)
    (hreap : (dataSize txs : Int) ≤ d)
    (hsigs : ∀ s ∈ c.sigs, badCommitSig s = false) (hn : c.sigs.length ≤ st.lastVals.length)
    (hr : CommitRanges c) (hb : HeaderBounds (makeHeader env st h txs c evs prop)) :
    (blockSize (makeBlock env st h txs c evs prop) : Int) ≤ st.params.blockMaxBytes := by
  apply blockSize_le (makeBlock env st h txs c evs prop) c rfl _ hM (headerSize_le _ hb)
    st.lastVals.length (commitSize_le c _ hsigs hn hr.1 hr.2.1 hr.2.2) d
  · exact hbud
  · exact hreap

/-- `Block.Size()` spelled out: four tags, four length prefixes, four payloads -/
theorem blockSize_eq (b : Block) (c : Commit) (hc : b.lastCommit = some c) :
    blockSize b = 4 + sov (headerSize b.header) + sov (dataSize b.txs) + sov (evListSize b.evidence)
      + sov (commitSize c) + headerSize b.header + dataSize b.txs + evListSize b.evidence
      + commitSize c := by
  unfold blockSize fMsg
  rw [hc]
  simp only
  omega

/-- **Exactly when the proposer's block fits**, with the mempool filling the data budget to the
last byte (`dataSize txs = d`): the block is within `MaxBytes` iff header + commit + the four
length prefixes stay within what `MaxDataBytes` set aside for them:
`MaxHeaderBytes + MaxCommitBytes(n) + MaxOverheadForBlock − 4`. The four prefixes take 5..14
bytes, `MaxOverheadForBlock − 4` allows 7. -/
theorem size_fits_exact (env : Env) (st : State) (h : Int) (txs : List Bytes) (c : Commit)
    (evs : List Ev) (prop : Bytes) (d : Int)
    (hbud : proposalDataBudget st (evByteSize evs) = some d) (hfull : (dataSize txs : Int) = d) :
    (blockSize (makeBlock env st h txs c evs prop) : Int) ≤ st.params.blockMaxBytes ↔
      ((sov (headerSize (makeHeader env st h txs c evs prop)) + sov (dataSize txs) + sov (evListSize evs)
        + sov (commitSize c) + headerSize (makeHeader env st h txs c evs prop) + commitSize c : Nat) : Int)
        ≤ 626 + (94 + 111 * (st.lastVals.length : Int)) + 7 := by
  rw [blockSize_eq (makeBlock env st h txs c evs prop) c rfl]
  obtain ⟨hd1, _⟩ := maxDataBytes_some hbud
  show ((4 + sov (headerSize (makeHeader env st h txs c evs prop)) + sov (dataSize txs) + sov (evListSize evs)
      + sov (commitSize c) + headerSize (makeHeader env st h txs c evs prop) + dataSize txs + evListSize evs
      + commitSize c : Nat) : Int) ≤ _ ↔ _
  unfold evByteSize at hd1
  omega

/-! ### the witness: every field at its maximum, header exactly `MaxHeaderBytes` -/

def xLBT : Time := -315619199000000100          -- 1960, nanoseconds 999999900
def xVals : ValSet := [⟨wAddr 1, [1], 1, 0⟩]
def xBID : BlockID := ⟨wHash, 268435456, wHash⟩
def xState : State :=
  { versionBlock := 11, versionApp := 9223372036854775808, chainID := List.replicate 50 122,
    initialHeight := 4611686018427387904, lastBlockHeight := 4611686018427387904, lastBlockID := xBID,
    lastBlockTime := xLBT, nextVals := xVals, vals := xVals, lastVals := xVals,
    lastHeightValsChanged := 4611686018427387904,
    params := { wParams with blockMaxBytes := 17226, evMaxBytes := 0 },
    lastHeightParamsChanged := 4611686018427387904, lastResultsHash := wHash,
    appHash := List.replicate 189 7 }
def xCommit : Commit :=
  { height := 4611686018427387904, round := 268435456, blockID := xBID,
    sigs := [⟨2, wAddr 1, xLBT + 50, List.replicate 64 1⟩] }
def xTxs : List Bytes := [List.replicate 16381 0]

theorem xHeader (txs : List Bytes) :
    headerSize (makeHeader wEnv xState 4611686018427387905 txs xCommit [] (wAddr 1)) = 626 := by
  set_option maxRecDepth 8192 in
  rfl

theorem xData : dataSize xTxs = 16384 := by
  simp only [xTxs, dataSize, List.length_replicate]
  decide

/-- **`size_fits` is false at the header budget.** With the header exactly `MaxHeaderBytes` = 626
bytes (a 189-byte application hash, every other field at the maximum its type allows) the block a
correct proposer builds from a mempool that fills `MaxDataBytes` exceeds `MaxBytes`: the four
length prefixes need 8 bytes here (up to 14 in general), `MaxOverheadForBlock` budgets 11 − 4 = 7. -/
theorem size_fits_at_header_budget_fails :
    ¬ (∀ (env : Env) (st : State) (h : Int) (txs : List Bytes) (c : Commit) (evs : List Ev)
        (prop : Bytes) (d : Int),
        st.params.blockMaxBytes ≤ maxBlockSizeBytes →
        proposalDataBudget st (evByteSize evs) = some d → (dataSize txs : Int) ≤ d →
        (∀ s ∈ c.sigs, badCommitSig s = false) → c.sigs.length ≤ st.lastVals.length →
        CommitRanges c → (headerSize (makeHeader env st h txs c evs prop) : Int) ≤ maxHeaderBytes →
        (blockSize (makeBlock env st h txs c evs prop) : Int) ≤ st.params.blockMaxBytes) := by
  intro H
  have hh := xHeader xTxs
  have hc : commitSize xCommit = 205 := by decide
  have h1 := H wEnv xState 4611686018427387905 xTxs xCommit [] (wAddr 1) 16384 (by decide) (by decide)
    (by rw [xData]; decide) (by decide) (by decide) (by unfold CommitRanges; decide)
    (by rw [hh]; decide)
  rw [blockSize_eq _ xCommit rfl] at h1
  have hd : dataSize (makeBlock wEnv xState 4611686018427387905 xTxs xCommit [] (wAddr 1)).txs = 16384 := xData
  have hhd : headerSize (makeBlock wEnv xState 4611686018427387905 xTxs xCommit [] (wAddr 1)).header = 626 := hh
  have he : evListSize (makeBlock wEnv xState 4611686018427387905 xTxs xCommit [] (wAddr 1)).evidence = 0 := rfl
  rw [hd, hhd, he, hc] at h1
  revert h1
  decide

/-- **The transition is a function of (state, block id, header, application results)**: two nodes
that feed equal inputs to `updateState` hold equal next states (so equal `State.Bytes()`); the
block hash is a function of the header alone. Trivial for a Lean function — the implementation's
determinism is what the replica comparison of the stream checks on every applied block. -/
theorem transition_deterministic (env : Env) (incr : ValSet → ValSet) (s1 s2 : State)
    (id1 id2 : BlockID) (h1 h2 : Int) (t1 t2 : Time) (ch1 ch2 : Bool) (nv1 nv2 : Option ValSet)
    (pu1 pu2 : Option ParamUpdate) (r1 r2 : List TxResult)
    (hs : s1 = s2) (hi : id1 = id2) (hh : h1 = h2) (ht : t1 = t2) (hc : ch1 = ch2) (hn : nv1 = nv2)
    (hp : pu1 = pu2) (hr : r1 = r2) :
    updateState env incr s1 id1 h1 t1 ch1 nv1 pu1 r1 = updateState env incr s2 id2 h2 t2 ch2 nv2 pu2 r2 := by
  subst hs hi hh ht hc hn hp hr; rfl


/-- what an accepted transition leaves in the state: the block just applied becomes the last
block, the validator sets shift by one, chain id and initial height never change -/
theorem updateState_shape (env : Env) (incr : ValSet → ValSet) (st st' : State) (bid : BlockID)
    (h : Int) (t : Time) (ch : Bool) (nv : Option ValSet) (pu : Option ParamUpdate)
    (rs : List TxResult) (hok : updateState env incr st bid h t ch nv pu rs = .ok st') :
    st'.lastBlockHeight = h ∧ st'.lastBlockID = bid ∧ st'.lastBlockTime = t ∧
    st'.vals = st.nextVals ∧ st'.lastVals = st.vals ∧ st'.chainID = st.chainID ∧
    st'.initialHeight = st.initialHeight ∧ st'.lastResultsHash = env.hResults rs := by
  unfold updateState at hok
  cases hnv : (if ch = true then nv else some st.nextVals) with
  | none => rw [hnv] at hok; cases hok
  | some v =>
    rw [hnv] at hok
    cases pu with
    | none =>
      simp only [Except.ok.injEq] at hok
      subst hok
      exact ⟨rfl, rfl, rfl, rfl, rfl, rfl, rfl, rfl⟩
    | some u =>
      simp only at hok
      by_cases hp : (!paramsValid (updateParams st.params u)) = true
      · rw [if_pos hp] at hok; cases hok
      · rw [if_neg hp] at hok
        simp only [Except.ok.injEq] at hok
        subst hok
        exact ⟨rfl, rfl, rfl, rfl, rfl, rfl, rfl, rfl⟩

section ConcreteHashes
open Tmv.Merkle

/-- an accepted block's content hashes are the hashes of its contents -/
theorem valid_hashes (env : Env) (st : State) (b : Block) (hv : validateBlock env st b = .ok ()) :
    ∃ c, b.lastCommit = some c ∧ b.header.dataHash = env.hData b.txs ∧
      b.header.evidenceHash = env.hEv b.evidence ∧ b.header.lastCommitHash = env.hCommit c := by
  rw [validate_iff_spec] at hv
  obtain ⟨c, hc, hhd, _⟩ := hv
  refine ⟨c, hc, ?_, ?_, ?_⟩
  · have h1 := congrArg Header.dataHash hhd; simpa only [makeHeader] using h1
  · have h1 := congrArg Header.evidenceHash hhd; simpa only [makeHeader] using h1
  · have h1 := congrArg Header.lastCommitHash hhd; simpa only [makeHeader] using h1

/-- **With the code's hash functions** (Merkle roots over a byte hash `H` of fixed output length,
nothing else assumed about `H`): two accepted blocks with the same header have the same
transactions, the same evidence bytes and the same marshalled commit signatures — or an explicit
collision of `H` is exhibited. So a changed transaction, evidence item or signature under an
unchanged header is rejected unless SHA-256 itself is broken. -/
theorem content_bound_by_header (H : Bytes → Bytes) (L : Nat) (hlen : ∀ x, (H x).length = L)
    (vc : ValSet → Bytes → BlockID → Int → Commit → Option String) (adm : State → List Ev → Bool)
    (st : State) (b b' : Block)
    (hv : validateBlock (concreteEnv H vc adm) st b = .ok ())
    (hv' : validateBlock (concreteEnv H vc adm) st b' = .ok ()) (hh : b'.header = b.header) :
    (b'.txs = b.txs ∧ b'.evidence.map (·.inner) = b.evidence.map (·.inner) ∧
      ∃ c c', b.lastCommit = some c ∧ b'.lastCommit = some c' ∧
        c'.sigs.map encCommitSig = c.sigs.map encCommitSig)
    ∨ Nonempty (Collision H) := by
  obtain ⟨c, hc, d1, e1, l1⟩ := valid_hashes _ st b hv
  obtain ⟨c', hc', d2, e2, l2⟩ := valid_hashes _ st b' hv'
  rw [hh] at d2 e2 l2
  have hd : root H (b'.txs.map H) = root H (b.txs.map H) := by
    have := d2.symm.trans d1; simpa [concreteEnv, dataHash] using this
  have he : root H (b'.evidence.map (·.inner)) = root H (b.evidence.map (·.inner)) := by
    have := e2.symm.trans e1; simpa [concreteEnv, evHash] using this
  have hl : root H (c'.sigs.map encCommitSig) = root H (c.sigs.map encCommitSig) := by
    have := l2.symm.trans l1; simpa [concreteEnv, commitHash] using this
  rcases root_inj H L hlen _ _ hd with r1 | r1
  · rcases map_hash_inj H _ _ r1 with t | t
    · rcases root_inj H L hlen _ _ he with r2 | r2
      · rcases root_inj H L hlen _ _ hl with r3 | r3
        · left; exact ⟨t, r2, c, c', hc, hc', r3⟩
        · right; exact r3
      · right; exact r2
    · right; exact t
  · right; exact r1

end ConcreteHashes

section Traced
open Tmv.Merkle

/-- every byte string passed to `H` while computing the three content hashes of a block (the
transactions themselves, then the nodes of the three Merkle trees) -/
def contentPre (H : Bytes → Bytes) (b : Block) : List Bytes :=
  b.txs ++ rootPre H b.txs.length (b.txs.map H)
    ++ rootPre H b.evidence.length (b.evidence.map (·.inner))
    ++ (match b.lastCommit with
        | some c => rootPre H c.sigs.length (c.sigs.map encCommitSig)
        | none => [])

/-- `content_bound_by_header` with a *traced* collision: the alternative to "same contents" is a
collision between a string hashed while hashing the contents of `b'` and one hashed while hashing
the contents of `b` — linearly many explicitly listed inputs, so the disjunct is not true by a
counting argument. -/
theorem content_bound_by_header_traced (H : Bytes → Bytes) (L : Nat) (hlen : ∀ x, (H x).length = L)
    (vc : ValSet → Bytes → BlockID → Int → Commit → Option String) (adm : State → List Ev → Bool)
    (st : State) (b b' : Block)
    (hv : validateBlock (concreteEnv H vc adm) st b = .ok ())
    (hv' : validateBlock (concreteEnv H vc adm) st b' = .ok ()) (hh : b'.header = b.header) :
    (b'.txs = b.txs ∧ b'.evidence.map (·.inner) = b.evidence.map (·.inner) ∧
      ∃ c c', b.lastCommit = some c ∧ b'.lastCommit = some c' ∧
        c'.sigs.map encCommitSig = c.sigs.map encCommitSig)
    ∨ CollisionIn H (contentPre H b') (contentPre H b) := by
  obtain ⟨c, hc, d1, e1, l1⟩ := valid_hashes _ st b hv
  obtain ⟨c', hc', d2, e2, l2⟩ := valid_hashes _ st b' hv'
  rw [hh] at d2 e2 l2
  have hd : root H (b'.txs.map H) = root H (b.txs.map H) := by
    have := d2.symm.trans d1; simpa [concreteEnv, dataHash] using this
  have he : root H (b'.evidence.map (·.inner)) = root H (b.evidence.map (·.inner)) := by
    have := e2.symm.trans e1; simpa [concreteEnv, evHash] using this
  have hl : root H (c'.sigs.map encCommitSig) = root H (c.sigs.map encCommitSig) := by
    have := l2.symm.trans l1; simpa [concreteEnv, commitHash] using this
  unfold contentPre
  rw [hc, hc']
  simp only
  rcases root_inj_traced H L hlen _ _ hd with r1 | r1
  · rcases map_hash_inj_traced H _ _ r1 with t | t
    · rcases root_inj_traced H L hlen _ _ he with r2 | r2
      · rcases root_inj_traced H L hlen _ _ hl with r3 | r3
        · left; exact ⟨t, r2, c, c', rfl, rfl, r3⟩
        · right
          simp only [List.length_map] at r3
          exact r3.mono H (fun x hx => List.mem_append_right _ hx) (fun x hx => List.mem_append_right _ hx)
      · right
        simp only [List.length_map] at r2
        exact r2.mono H (fun x hx => List.mem_append_left _ (List.mem_append_right _ hx))
          (fun x hx => List.mem_append_left _ (List.mem_append_right _ hx))
    · right
      exact t.mono H
        (fun x hx => List.mem_append_left _ (List.mem_append_left _ (List.mem_append_left _ hx)))
        (fun x hx => List.mem_append_left _ (List.mem_append_left _ (List.mem_append_left _ hx)))
  · right
    simp only [List.length_map] at r1
    exact r1.mono H
      (fun x hx => List.mem_append_left _ (List.mem_append_left _ (List.mem_append_right _ hx)))
      (fun x hx => List.mem_append_left _ (List.mem_append_left _ (List.mem_append_right _ hx)))

end Traced

section WithC07
open Tmv.CommitVerify (GoodPick pickedPower sumPower NonNeg)

theorem toCVBlockID_inj {a b : BlockID} (h : toCVBlockID a = toCVBlockID b) : a = b := by
  cases a; cases b; simp [toCVBlockID] at h; simp [h]

/-- **Accepted ⇒ the last commit carries more than two thirds of valid signatures.** With the
last-commit clause of `validateBlock` being C07's model of `VerifyCommit` (`cvEnv`), a block above
the initial height is accepted only if its `LastCommit` is for the previous height and for the
node's `LastBlockID`, has one slot per member of `LastValidators`, and there are distinct positions
whose slots are flagged for-the-block and carry a signature that verifies under the key of the
validator AT THAT POSITION over exactly (chain id, height, round, block id, slot timestamp), with
`3 · power > 2 · total power` (C07 `verifyCommit_sound`). `sigOK` is an arbitrary predicate. -/
theorem accepted_commit_two_thirds (H : Bytes → Bytes)
    (sigOK : Nat → CommitVerify.SignBytes → Bytes → Bool) (adm : State → List Ev → Bool)
    (st : State) (b : Block) (hnn : ∀ v ∈ st.lastVals, 0 ≤ v.power)
    (hv : validateBlock (cvEnv H sigOK adm) st b = .ok ())
    (hne : b.header.height ≠ st.initialHeight) :
    ∃ c, b.lastCommit = some c ∧ c.height = b.header.height - 1 ∧ c.blockID = st.lastBlockID ∧
      st.lastVals.length = c.sigs.length ∧
      ∃ picks : List Nat, picks.Nodup ∧
        (∀ i ∈ picks, GoodPick sigOK (toCVVals st.lastVals) (chainStr st.chainID) (toCVCommit c) false (i, i)) ∧
        3 * pickedPower (toCVVals st.lastVals) picks > 2 * sumPower (toCVVals st.lastVals) := by
  rw [validate_iff_spec] at hv
  obtain ⟨c, hc, _, _, _, _, _, hC, _⟩ := hv
  unfold CommitOK at hC
  rw [if_neg hne] at hC
  have hok : CommitVerify.verifyCommit sigOK (toCVVals st.lastVals) (chainStr st.chainID)
      (toCVBlockID st.lastBlockID) (b.header.height - 1) (toCVCommit c) = .ok := by
    have : resClass (CommitVerify.verifyCommit sigOK (toCVVals st.lastVals) (chainStr st.chainID)
      (toCVBlockID st.lastBlockID) (b.header.height - 1) (toCVCommit c)) = none := hC
    revert this
    cases CommitVerify.verifyCommit sigOK (toCVVals st.lastVals) (chainStr st.chainID)
      (toCVBlockID st.lastBlockID) (b.header.height - 1) (toCVCommit c) <;> simp [resClass]
  have hnn' : NonNeg (toCVVals st.lastVals) := by
    intro v hv
    simp only [toCVVals, List.mem_map] at hv
    obtain ⟨w, hw, rfl⟩ := hv
    exact hnn w hw
  obtain ⟨h1, h2, h3, _, picks, hnd, hg, hp⟩ :=
    Tmv.Props.C07.verifyCommit_sound sigOK _ _ _ _ _ hnn' hok
  refine ⟨c, hc, h1, toCVBlockID_inj h2, ?_, picks, hnd, hg, hp⟩
  simpa [toCVVals, toCVCommit] using h3

end WithC07

/-- the hash functions produce `tmhash.Size` bytes (true of SHA-256 and of its Merkle roots) -/
def HashLen (env : Env) : Prop :=
  (∀ c, badHash (env.hCommit c) = false) ∧ (∀ t, badHash (env.hData t) = false) ∧
  (∀ e, badHash (env.hEv e) = false) ∧ (∀ v, badHash (env.hVals v) = false) ∧
  (∀ p, badHash (env.hParams p) = false) ∧ (∀ r, badHash (env.hResults r) = false)

/-- what every state of a chain satisfies -/
def StateInv (st : State) : Prop :=
  st.versionBlock = blockProtocol ∧ st.chainID.length ≤ maxChainIDLen ∧ 1 ≤ st.initialHeight ∧
  (st.lastBlockHeight = 0 ∨ st.initialHeight ≤ st.lastBlockHeight) ∧
  badBlockID st.lastBlockID = false ∧ badHash st.lastResultsHash = false

/-- states reachable from a genesis document by applying blocks: ARBITRARY blocks (whatever
passes validation), block ids (well-formed), validator updates, parameter updates, transaction
results and app hashes -/
inductive Reachable (env : Env) (incr : ValSet → ValSet) : State → Prop
  | genesis (chainID : Bytes) (ih : Int) (t : Time) (vals nvals : ValSet) (p : Params) (a : Bytes)
      (hc : chainID.length ≤ maxChainIDLen) (hi : 1 ≤ ih) :
      Reachable env incr (genesisState chainID ih t vals nvals p a)
  | step (st st' : State) (b : Block) (bid : BlockID) (ch : Bool) (nv : Option ValSet)
      (pu : Option ParamUpdate) (rs : List TxResult) (a : Bytes)
      (hr : Reachable env incr st) (hb : badBlockID bid = false)
      (ha : applyBlock env incr st b bid ch nv pu rs a = .ok st') : Reachable env incr st'

theorem updateState_version (env : Env) (incr : ValSet → ValSet) (st st' : State) (bid : BlockID)
    (h : Int) (t : Time) (ch : Bool) (nv : Option ValSet) (pu : Option ParamUpdate)
    (rs : List TxResult) (hok : updateState env incr st bid h t ch nv pu rs = .ok st') :
    st'.versionBlock = st.versionBlock := by
  unfold updateState at hok
  cases hnv : (if ch = true then nv else some st.nextVals) with
  | none => rw [hnv] at hok; cases hok
  | some v =>
    rw [hnv] at hok
    cases pu with
    | none =>
      simp only [Except.ok.injEq] at hok
      subst hok; rfl
    | some u =>
      simp only at hok
      by_cases hp : (!paramsValid (updateParams st.params u)) = true
      · rw [if_pos hp] at hok; cases hok
      · rw [if_neg hp] at hok
        simp only [Except.ok.injEq] at hok
        subst hok; rfl

theorem apply_inv (env : Env) (incr : ValSet → ValSet) (hl : HashLen env) (st st' : State) (b : Block)
    (bid : BlockID) (ch : Bool) (nv : Option ValSet) (pu : Option ParamUpdate) (rs : List TxResult)
    (a : Bytes) (hinv : StateInv st) (hb : badBlockID bid = false)
    (ha : applyBlock env incr st b bid ch nv pu rs a = .ok st') : StateInv st' := by
  unfold applyBlock at ha
  cases hv : validateBlock { env with evAdmissible := fun _ _ => true } st b with
  | error e => rw [hv] at ha; cases ha
  | ok u =>
    rw [hv] at ha
    simp only at ha
    cases hu : updateState env incr st bid b.header.height b.header.time ch nv pu rs with
    | error e => rw [hu] at ha; cases ha
    | ok s1 =>
      rw [hu] at ha
      simp only [Except.ok.injEq] at ha
      subst ha
      obtain ⟨e1, e2, _, _, _, e6, e7, e8⟩ := updateState_shape env incr st s1 bid _ _ ch nv pu rs hu
      have e0 := updateState_version env incr st s1 bid _ _ ch nv pu rs hu
      have hs := (validate_iff_spec _ st b).mp (by cases u; exact hv)
      obtain ⟨c, _, _, _, _, _, ⟨_, _, h3⟩, _⟩ := hs
      obtain ⟨i1, i2, i3, _, _, _⟩ := hinv
      refine ⟨?_, ?_, ?_, ?_, ?_, ?_⟩
      · show s1.versionBlock = blockProtocol; rw [e0]; exact i1
      · show s1.chainID.length ≤ maxChainIDLen; rw [e6]; exact i2
      · show 1 ≤ s1.initialHeight; rw [e7]; exact i3
      · show s1.lastBlockHeight = 0 ∨ s1.initialHeight ≤ s1.lastBlockHeight
        rw [e1, e7]; exact Or.inr h3
      · show badBlockID s1.lastBlockID = false; rw [e2]; exact hb
      · show badHash s1.lastResultsHash = false; rw [e8]; exact hl.2.2.2.2.2 rs

/-- **Every reachable state is one a proposer can build on** -/
theorem reachable_inv (env : Env) (incr : ValSet → ValSet) (hl : HashLen env) (st : State)
    (hr : Reachable env incr st) : StateInv st := by
  induction hr with
  | genesis chainID ih t vals nvals p a hc hi =>
    exact ⟨rfl, hc, hi, Or.inl rfl, by simp [genesisState, badBlockID, badHash], by simp [genesisState, badHash]⟩
  | step st st' b bid ch nv pu rs a _ hb ha ihs =>
    exact apply_inv env incr hl st st' b bid ch nv pu rs a ihs hb ha

/-- In every reachable state, for every transaction set, the block a correct proposer builds
(height as the state dictates, admissible evidence, a verified last commit, its own address)
validates — under the same `2F + 2 ≤ T` time hypothesis as `makeBlock_valid_partial`. -/
theorem makeBlock_valid_reachable_partial (env : Env) (incr : ValSet → ValSet) (hl : HashLen env)
    (st : State) (hr : Reachable env incr st) (txs : List Bytes) (c : Commit) (evs : List Ev)
    (prop : Bytes)
    (hcb : badCommit c = false)
    (hc : CommitOK env st (if st.lastBlockHeight = 0 then st.initialHeight else st.lastBlockHeight + 1) c)
    (hpl : prop.length = addressSize) (hpv : hasAddress st.vals prop = true)
    (heb : ∀ e ∈ evs, e.basic = true) (hes : evByteSize evs ≤ st.params.evMaxBytes)
    (hea : env.evAdmissible st evs = true)
    (htime : st.lastBlockHeight ≠ 0 →
      (∀ y ∈ weightedTimes c.sigs st.lastVals, 0 ≤ y.2) ∧
      2 * lowWeight st.lastBlockTime (weightedTimes c.sigs st.lastVals) + 2
        ≤ totalWeight (weightedTimes c.sigs st.lastVals)) :
    validateBlock env st (makeBlock env st
      (if st.lastBlockHeight = 0 then st.initialHeight else st.lastBlockHeight + 1) txs c evs prop) = .ok () := by
  obtain ⟨i1, i2, i3, i4, i5, i6⟩ := reachable_inv env incr hl st hr
  obtain ⟨l1, l2, l3, l4, l5, _⟩ := hl
  by_cases h0 : st.lastBlockHeight = 0
  · simp only [h0, if_true] at hc ⊢
    apply makeBlock_valid_partial env st _ txs c evs prop
    · exact { vb := i1, chain := i2, lbid := i5, hv := l4 _, hnv := l4 _, hp := l5 _, lrh := i6,
              hc := l1 _, hd := l2 _, he := l3 _, hpos := by omega,
              height := ⟨fun _ => rfl, fun h => by omega, by omega⟩,
              commitBasic := hcb, commit := hc, propLen := hpl, propVal := hpv, evBasic := heb,
              evSize := hes, evAdm := hea }
    · intro h; omega
  · simp only [h0, if_false] at hc ⊢
    have hge : st.initialHeight ≤ st.lastBlockHeight := by
      rcases i4 with h | h
      · exact absurd h h0
      · exact h
    apply makeBlock_valid_partial env st _ txs c evs prop
    · exact { vb := i1, chain := i2, lbid := i5, hv := l4 _, hnv := l4 _, hp := l5 _, lrh := i6,
              hc := l1 _, hd := l2 _, he := l3 _, hpos := by omega,
              height := ⟨fun h => absurd h h0, fun _ => rfl, by omega⟩,
              commitBasic := hcb, commit := hc, propLen := hpl, propVal := hpv, evBasic := heb,
              evSize := hes, evAdm := hea }
    · intro _; exact htime h0

/-! ### the transition with C08's validator arithmetic inside -/

theorem natOfBytes_append (l : Bytes) (x : UInt8) : natOfBytes (l ++ [x]) = natOfBytes l * 256 + x.toNat := by
  simp [natOfBytes, List.foldl_append]

theorem natOfBytes_bytesOfNatF : ∀ (f n : Nat), n < f → natOfBytes (bytesOfNatF f n) = n := by
  intro f
  induction f with
  | zero => intro n h; omega
  | succ f ih =>
    intro n h
    unfold bytesOfNatF
    split
    · rename_i hn
      simp [natOfBytes, Nat.mod_eq_of_lt hn]
    · rename_i hn
      rw [natOfBytes_append, ih (n / 256) (by omega)]
      simp
      omega

theorem natOfBytes_bytesOfNat (n : Nat) : natOfBytes (bytesOfNat n) = n :=
  natOfBytes_bytesOfNatF (n + 1) n (by omega)

/-- going to C08's record and back loses nothing C08 looks at -/
theorem toVal_back (dir : List Validator) (v : ValSet.Val) : toVal (back dir v) = v := by
  unfold back
  split
  · rename_i d hd
    have := List.find?_some hd
    simp only [beq_iff_eq] at this
    simp [toVal, this]
  · simp [toVal, natOfBytes_bytesOfNat]

theorem map_toVal_back (dir : List Validator) (l : List ValSet.Val) : (l.map (back dir)).map toVal = l := by
  induction l with
  | nil => rfl
  | cons v r ih => simp only [List.map_cons, toVal_back, ih]

open Tmv.ValSet (Reach PBound sumPower)

/-- the validator part of a state, read in C08's terms, is reachable there: unique addresses,
positive powers, canonical order, `0 < total ≤ MaxTotalVotingPower`, priorities within
`3·MaxTotalVotingPower` (no int64 clamp or wrap is ever taken on such sets) -/
def VReach (st : State) : Prop := Reach (st.vals.map toVal) ∧ Reach (st.nextVals.map toVal)

/-- one step of C08's arithmetic keeps a reachable set reachable, with the new priorities within
`3·total` -/
theorem nextVSet_reach (cur ch nv : List ValSet.Val) (hr : Reach cur) (h : nextVSet cur ch = some nv) :
    Reach nv ∧ (∃ mid : List ValSet.Val, Reach mid ∧ PBound (3 * sumPower mid) nv) := by
  unfold nextVSet at h
  by_cases hc : ch = []
  · subst hc
    simp only [ne_eq, not_true_eq_false, if_false] at h
    obtain ⟨s1, hs1, hr1, _, hb, _⟩ := Tmv.Props.C08.priorities_no_clip ⟨cur, none⟩ hr
    rw [hs1] at h
    simp only [Option.some.injEq] at h
    subst h
    exact ⟨hr1, cur, hr, hb⟩
  · simp only [ne_eq, hc, not_false_eq_true, if_true] at h
    split at h
    · cases h
    · rename_i hu
      have hupd : ValSet.updateWithChangeSet ⟨cur, none⟩ ch true =
          ((ValSet.updateWithChangeSet ⟨cur, none⟩ ch true).1, none) := by
        rw [← hu]
      obtain ⟨hr2, _⟩ := Tmv.Props.C08.update_reach _ _ ch true (Or.inl hr) hc hupd
      obtain ⟨s1, hs1, hr1, _, hb, _⟩ := Tmv.Props.C08.priorities_no_clip _ hr2
      rw [hs1] at h
      simp only [Option.some.injEq] at h
      subst h
      exact ⟨hr1, _, hr2, hb⟩

theorem updateStateV_nextVals (env : Env) (addrOf : Bytes → Bytes) (st st' : State) (bid : BlockID)
    (h : Int) (t : Time) (upd : List ValUpdate) (pu : Option ParamUpdate) (rs : List TxResult)
    (hok : updateStateV env addrOf st bid h t upd pu rs = .ok st') :
    ∃ nv, nextVals addrOf st.nextVals upd = some nv ∧ st'.nextVals = nv ∧ st'.vals = st.nextVals ∧
      st'.lastVals = st.vals := by
  unfold updateStateV at hok
  split at hok
  · cases hok
  · split at hok
    · cases hok
    · rename_i nv hnv
      refine ⟨nv, hnv, ?_, ?_, ?_⟩
      · unfold updateState at hok
        simp only [ite_self] at hok
        cases pu with
        | none => simp only [Except.ok.injEq] at hok; subst hok; rfl
        | some u =>
          simp only at hok
          split at hok
          · cases hok
          · simp only [Except.ok.injEq] at hok; subst hok; rfl
      · exact (updateState_shape _ _ _ _ _ _ _ _ _ _ _ hok).2.2.2.1
      · exact (updateState_shape _ _ _ _ _ _ _ _ _ _ _ hok).2.2.2.2.1

/-- **The transition with the validator arithmetic inside.** `applyBlockV` is a function of
(state, block, block id, application responses) — nothing else enters; and when it accepts,
the next state's validator sets are the current `NextValidators` (now `Validators`), the
current `Validators` (now `LastValidators`), and a `NextValidators` that C08's
`updateWithChangeSet` + one `IncrementProposerPriority` computed: well-formed (unique addresses,
positive powers, canonical order, total within `MaxTotalVotingPower`) with priorities within
`3·MaxTotalVotingPower`, i.e. computed without any int64 clamp or wrap. So two nodes applying the
same block with the same responses to the same state hold identical validator sets, priorities
included. -/
theorem applyBlockV_reach (env : Env) (addrOf : Bytes → Bytes) (st st' : State) (b : Block)
    (bid : BlockID) (upd : List ValUpdate) (pu : Option ParamUpdate) (rs : List TxResult) (a : Bytes)
    (hr : VReach st) (ha : applyBlockV env addrOf st b bid upd pu rs a = .ok st') :
    VReach st' ∧ st'.vals = st.nextVals ∧ st'.lastVals = st.vals ∧
      st'.lastBlockHeight = b.header.height ∧ st'.lastBlockID = bid := by
  unfold applyBlockV at ha
  split at ha
  · cases ha
  · split at ha
    · cases ha
    · rename_i s1 hu
      simp only [Except.ok.injEq] at ha
      subst ha
      obtain ⟨nv, hnv, e1, e2, e3⟩ := updateStateV_nextVals _ _ _ _ _ _ _ _ _ _ hu
      have hsh : s1.lastBlockHeight = b.header.height ∧ s1.lastBlockID = bid := by
        unfold updateStateV at hu
        split at hu
        · cases hu
        · split at hu
          · cases hu
          · have := updateState_shape _ _ _ _ _ _ _ _ _ _ _ hu
            exact ⟨this.1, this.2.1⟩
      unfold nextVals at hnv
      simp only [Option.map_eq_some_iff] at hnv
      obtain ⟨l, hl, hlm⟩ := hnv
      obtain ⟨hrl, _⟩ := nextVSet_reach _ _ _ hr.2 hl
      refine ⟨⟨?_, ?_⟩, e2, e3, hsh.1, hsh.2⟩
      · show Reach (s1.vals.map toVal); rw [e2]; exact hr.2
      · show Reach (s1.nextVals.map toVal); rw [e1, ← hlm, map_toVal_back]; exact hrl


/-! ### the evidence clause with C11's pool inside -/

theorem firstErr_append (l r : List (Bool × Err)) :
    firstErr (l ++ r) = match firstErr l with
      | .error e => .error e
      | .ok _ => firstErr r := by
  induction l with
  | nil => simp [firstErr]
  | cons p l ih =>
    obtain ⟨c, e⟩ := p
    cases c <;> simp [firstErr, ih]

/-- `ValidateBlock` = `validateBlock`, then (only if that passed) the pool's `CheckEvidence`:
the verdict of `validateWithPool` is the verdict of `validateBlock` in the full environment -/
theorem validateWithPool_verdict (H : Bytes → Bytes)
    (sigOK : Nat → CommitVerify.SignBytes → Bytes → Bool) (pe : PoolEnv) (st : State) (b : Block) :
    (validateWithPool H sigOK pe st b).1 = validateBlock (fullEnv H sigOK pe) st b := by
  unfold validateWithPool validateBlock
  cases firstErr (headerGuards b.header) with
  | error e => rfl
  | ok u =>
    cases b.lastCommit with
    | none => rfl
    | some c =>
      simp only [firstErr_append]
      have hsame : stateGuards { fullEnv H sigOK pe with evAdmissible := fun _ _ => true } st b c
          = stateGuards (fullEnv H sigOK pe) st b c := rfl
      rw [hsame]
      cases firstErr [(badCommit c, Err.lastCommitBasic),
          (b.header.lastCommitHash != (fullEnv H sigOK pe).hCommit c, .lastCommitHash),
          (b.header.dataHash != (fullEnv H sigOK pe).hData b.txs, .dataHash),
          (b.evidence.any (fun e => !e.basic), .evidenceBasic),
          (b.header.evidenceHash != (fullEnv H sigOK pe).hEv b.evidence, .evidenceHash)] with
      | error e => rfl
      | ok u1 =>
        cases firstErr (stateGuards (fullEnv H sigOK pe) st b c) with
        | error e => rfl
        | ok u2 =>
          show (if _ then _ else _ : Except Err Unit) = firstErr [(!poolAdmits pe b.evidence, Err.evidenceCheck)]
          unfold poolAdmits
          cases hq : ((Evidence.step pe.ctx pe.sys (.check (b.evidence.map pe.decode))).2 == .ok) <;>
            simp [firstErr]

/-- **Accepted ⇒ the evidence is admissible, item by item.** With the evidence pool being C11's
model (`fullEnv`), on a pool state reachable in C11's sense, a block accepted by `ValidateBlock`
carries evidence that passes `ValidateBasic`, fits `Evidence.MaxBytes`, and of which every item is
not committed and — unless another item has the same (height, hash) key, a hash collision — is
proven against the header time and validator set of its height and has not expired (C11
`check_admits_only`). -/
theorem accepted_evidence_admissible (H : Bytes → Bytes)
    (sigOK : Nat → CommitVerify.SignBytes → Bytes → Bool) (pe : PoolEnv) (st : State) (b : Block)
    (hm : Evidence.MonoTime pe.ctx) (hr : Evidence.Reach pe.ctx pe.sys) (hd : pe.sys.dead = false)
    (hsmall : pe.sys.pool.pending.length < 4294967296)
    (hv : validateBlock (fullEnv H sigOK pe) st b = .ok ()) :
    (∀ e ∈ b.evidence, e.basic = true) ∧ evByteSize b.evidence ≤ st.params.evMaxBytes ∧
    ∀ e ∈ b.evidence.map pe.decode,
      Evidence.isCommitted pe.ctx pe.sys.pool e = false ∧
      ((Evidence.Proves pe.ctx pe.sys.storeH e ∧
          Evidence.expired pe.sys.pool.state e.height e.time = false) ∨
        ∃ x, x ≠ e ∧ Evidence.key pe.ctx x = Evidence.key pe.ctx e) := by
  rw [validate_iff_spec] at hv
  obtain ⟨_, _, _, _, _, hb, _, _, _, _, hs, ha⟩ := hv
  refine ⟨hb, hs, ?_⟩
  have hok : (Evidence.step pe.ctx pe.sys (.check (b.evidence.map pe.decode))).2 = .ok := by
    have : poolAdmits pe b.evidence = true := ha
    unfold poolAdmits at this
    exact eq_of_beq this
  exact Tmv.Props.C11.check_admits_only pe.ctx hm hr hd hsmall _ hok


/-! ### vote timestamps (consensus `voteTime`) and the next block's time -/

/-- **A correct validator stamps its vote later than the block it is locked on** (with
`TimeIota > 0`), whatever the round's proposal and however far its clock is behind -/
theorem voteTime_after_locked (now l : Time) (p : Option Time) (iota : Int) (hi : 0 < iota) :
    l < voteTime now (some l) p iota := by
  have h0 : l < l + iota := Int.lt_add_of_pos_right l hi
  show l < if now > l + iota then now else l + iota
  by_cases h : now > l + iota
  · rw [if_pos h]; exact Int.lt_trans h0 h
  · rw [if_neg h]; exact h0

/-- without a lock the vote is later than the proposal it can be for -/
theorem voteTime_after_proposal (now pt : Time) (iota : Int) (hi : 0 < iota) :
    pt < voteTime now none (some pt) iota := by
  have h0 : pt < pt + iota := Int.lt_add_of_pos_right pt hi
  show pt < if now > pt + iota then now else pt + iota
  by_cases h : now > pt + iota
  · rw [if_pos h]; exact Int.lt_trans h0 h
  · rw [if_neg h]; exact h0

/-- the vote is never earlier than the local clock -/
theorem voteTime_ge_now (now : Time) (l p : Option Time) (iota : Int) : now ≤ voteTime now l p iota := by
  have key : ∀ m : Int, now ≤ if now > m then now else m := by
    intro m
    by_cases h : now > m
    · rw [if_pos h]; exact Int.le_refl _
    · rw [if_neg h]; exact Int.not_lt.mp h
  exact key _

theorem lowWeight_zero_of_all_gt (L : Time) (l : List (Time × Int)) (h : ∀ y ∈ l, L < y.1) :
    lowWeight L l = 0 := by
  induction l with
  | nil => simp [lowWeight]
  | cons x r ih =>
    rw [lowWeight_cons]
    have hx : ¬ x.1 ≤ L := Int.not_le.mpr (h x List.mem_cons_self)
    simp only [hx, if_false]
    have := ih (fun y hy => h y (List.mem_cons_of_mem _ hy))
    omega

/-- every counted vote stamped after the previous block ⇒ the median is after it -/
theorem medianTime_after_of_votes_after (c : Commit) (vs : ValSet) (L : Time)
    (hp : ∀ v ∈ vs, 0 < v.power) (hne : weightedTimes c.sigs vs ≠ [])
    (hall : ∀ y ∈ weightedTimes c.sigs vs, L < y.1) : L < medianTime c vs := by
  unfold medianTime
  exact (weightedMedian_gt_iff L _ (weightedTimes_pos c.sigs vs hp)).mpr
    (Or.inr (Or.inl ⟨lowWeight_zero_of_all_gt L _ hall, hne⟩))

/-- **BFT time, end to end.** The commit of block X (time `st.lastBlockTime`) is made of
precommits FOR X; a correct validator precommits X only while locked on X, so its timestamp is
`voteTime now (some X.time) proposal iota` for its clock `now` and whatever proposal it holds. If
every counted signature of the last commit is stamped that way (`TimeIota > 0`), the weighted
median is later than X's time and the block the next correct proposer builds passes validation —
in particular the "time later than the previous block" check. The rule that the LOCKED block
comes first in `voteTime` is what this rests on. -/
theorem next_block_valid_of_correct_votes (env : Env) (st : State) (h : Int) (txs : List Bytes)
    (c : Commit) (evs : List Ev) (prop : Bytes) (hin : ProposerInput env st h txs c evs prop)
    (hp : ∀ v ∈ st.lastVals, 0 < v.power) (iota : Int) (hi : 0 < iota)
    (hne : st.initialHeight < h → weightedTimes c.sigs st.lastVals ≠ [])
    (hvotes : ∀ y ∈ weightedTimes c.sigs st.lastVals,
      ∃ (now : Time) (proposal : Option Time), y.1 = voteTime now (some st.lastBlockTime) proposal iota) :
    validateBlock env st (makeBlock env st h txs c evs prop) = .ok () := by
  rw [makeBlock_valid_iff env st h txs c evs prop hin hp]
  intro hlt
  right; left
  refine ⟨lowWeight_zero_of_all_gt _ _ ?_, hne hlt⟩
  intro y hy
  obtain ⟨now, p, hy1⟩ := hvotes y hy
  rw [hy1]
  exact voteTime_after_locked now st.lastBlockTime p iota hi

/-- what goes wrong if the proposal were consulted first: locked on X (time 100), proposal Y
earlier (time 10), clock behind (now 0): the vote would be stamped 11 ≤ 100 -/
example : ¬ (100 : Int) < voteTime 0 none (some 10) 1 := by decide
example : (100 : Int) < voteTime 0 (some 100) (some 10) 1 := by decide


/-! ### the hypotheses are satisfiable (non-vacuity) -/

example : HashLen wEnv := by
  have h : badHash wHash = false := by decide
  exact ⟨fun _ => h, fun _ => h, fun _ => h, fun _ => h, fun _ => h, fun _ => h⟩

example : Reachable wEnv id (genesisState [99] 1 1000 wVals wVals wParams []) :=
  Reachable.genesis _ _ _ _ _ _ _ (by decide) (by decide)



/-- all three included votes stamped after the last block time -/
def gCommit : Commit :=
  { wCommit with sigs := [⟨2, wAddr 1, 1005, [1]⟩, ⟨2, wAddr 2, 1010, [1]⟩, ⟨2, wAddr 3, 1011, [1]⟩,
      ⟨1, [], zeroTime, []⟩] }

example : ProposerInput wEnv wState 2 [] gCommit [] (wAddr 2) := by
  constructor <;> first | decide | (intro e he; cases he) | (unfold CommitOK; decide) | (unfold HeightOK; decide)

example : (∀ y ∈ weightedTimes gCommit.sigs wState.lastVals, 0 ≤ y.2) ∧
    2 * lowWeight wState.lastBlockTime (weightedTimes gCommit.sigs wState.lastVals) + 2
      ≤ totalWeight (weightedTimes gCommit.sigs wState.lastVals) := by
  refine ⟨?_, by decide⟩
  intro y hy
  have : y ∈ [((1005 : Int), (1 : Int)), (1010, 1), (1011, 1)] := hy
  simp at this
  rcases this with rfl | rfl | rfl <;> decide

/-- an accepted block, and a header perturbation of it with the same contents and proposer -/
example : validateBlock wEnv wState (makeBlock wEnv wState 2 [] gCommit [] (wAddr 2)) = .ok () := by rfl

example : let b := makeBlock wEnv wState 2 [] gCommit [] (wAddr 2)
    let b' := { b with header := { b.header with time := b.header.time + 1 } }
    b'.header ≠ b.header ∧ b'.txs = b.txs ∧ b'.header.proposer = b.header.proposer := by
  refine ⟨by decide, rfl, rfl⟩

/-- the hypotheses of `size_fits` hold for the example state with the default 21 MB limit -/
example : proposalDataBudget wState (evByteSize []) = some 22018921 ∧
    (∀ s ∈ gCommit.sigs, badCommitSig s = false) ∧ gCommit.sigs.length ≤ wState.lastVals.length ∧
    CommitRanges gCommit ∧ wState.params.blockMaxBytes ≤ maxBlockSizeBytes := by
  refine ⟨by decide, by decide, by decide, by unfold CommitRanges; decide, by decide⟩

example : HeaderBounds (makeHeader wEnv wState 2 [] gCommit [] (wAddr 2)) := by
  constructor <;> decide

/-- `single_content_rejected`: an accepted block and a different block with the same header -/
example : let b := makeBlock wEnv wState 2 [] gCommit [] (wAddr 2)
    let b' := { b with txs := [[1]] }
    validateBlock wEnv wState b = .ok () ∧ b'.header = b.header ∧ b' ≠ b := by
  refine ⟨by rfl, rfl, by decide⟩

/-- `content_bound_by_header`: two accepted blocks under the code's hash functions (over a
constant `H`, which has fixed output length 32) -/
example : let env := concreteEnv (fun _ => wHash) (fun _ _ _ _ _ => none) (fun _ _ => true)
    let b := makeBlock env wState 2 [] gCommit [] (wAddr 2)
    (∀ x : Bytes, ((fun (_ : Bytes) => wHash) x).length = 32) ∧ validateBlock env wState b = .ok () := by
  refine ⟨fun _ => rfl, by rfl⟩

example : ∀ v ∈ wState.lastVals, 0 < v.power := by decide

/-- `accepted_commit_two_thirds`: a block accepted under C07's `VerifyCommit` model (every
signature verifies, constant `H`) above the initial height -/
example : validateBlock (cvEnv (fun _ => wHash) (fun _ _ _ => true) (fun _ _ => true)) wState
      (makeBlock (cvEnv (fun _ => wHash) (fun _ _ _ => true) (fun _ _ => true)) wState 2 [] gCommit [] (wAddr 2))
      = .ok () ∧ (2 : Int) ≠ wState.initialHeight := by
  refine ⟨by rfl, by decide⟩

/-- the example state's validator sets are reachable in C08's sense -/
example : VReach wState := by
  have h : ValSet.Reach (wVals.map toVal) := by
    refine ⟨⟨by decide, by decide, by decide, by decide, by decide, by decide⟩, ?_⟩
    intro v hv
    simp [wVals, toVal] at hv
    rcases hv with rfl | rfl | rfl | rfl <;> decide
  exact ⟨h, h⟩

def pCtx : Evidence.Ctx :=
  { blocks := [], maxAgeBlocks := 100000, maxAgeDur := 172800000000000, H := fun _ => 0, S := fun _ => 0,
    sigOK := fun _ _ => false }
def pPool : PoolEnv :=
  { ctx := pCtx, sys := Evidence.initSys pCtx 0,
    decode := fun _ => .dv ⟨⟨0, 0, 0, "", 0, 0, 0, ""⟩, ⟨0, 0, 0, "", 0, 0, 0, ""⟩, 0, 0, 0⟩ }

/-- `accepted_evidence_admissible`: a fresh pool (reachable, alive, empty) and a block accepted in
the full environment -/
example : Evidence.MonoTime pPool.ctx ∧ Evidence.Reach pPool.ctx pPool.sys ∧ pPool.sys.dead = false ∧
    pPool.sys.pool.pending.length < 4294967296 ∧
    validateBlock (fullEnv (fun _ => wHash) (fun _ _ _ => true) pPool) wState
      (makeBlock (fullEnv (fun _ => wHash) (fun _ _ _ => true) pPool) wState 2 [] gCommit [] (wAddr 2)) = .ok () := by
  refine ⟨?_, Evidence.Reach.init 0, rfl, by decide, by rfl⟩
  intro h1 h2 b1 b2 _ hb1
  simp [Evidence.blockAt, pPool, pCtx] at hb1

end Tmv.Props.C06
