import Tmv.Lemmas.MConn
import Tmv.Model.PeerMsgs
import Tmv.Lemmas.PeerState
import Tmv.Model.ReactorMsgs
import Tmv.Props.C16
/-! # C17 — channel messages arrive intact and in order; bad peer input only drops the peer

Model: `Tmv.Model.MConn` (p2p/conn/connection.go) and `Tmv.Model.PeerMsgs` (consensus message
validation and the peer-state handlers' index uses). Property theorems only; helper definitions
(`proj`, `delivered`, `reasm`, `fits`, `rest`, `runOps`, `SInv`, `bounded`, `idle`) live in
`Tmv.Lemmas.MConn`. -/
namespace Tmv.Props.C17
open Tmv Tmv.MConn

/-! ## clause 1: exactly once, unmodified, in per-channel order -/

/-- Receiver side, ANY interleaving and ANY message sizes (empty messages included): let `wire` be
any sequence of packets such that, for every channel of the connection, its sub-sequence on that
channel is the packetisation (`maxSize`-byte packets, EOF flag on the last) of the message list
`msgs id`, every message within the channel's receive capacity, every frame within the frame
limit. Then the receive loop never stops and its `onReceive` log, restricted to a channel, is
exactly `msgs id` — each message once, unmodified, in order — and the buffers are empty again. -/
theorem exactly_once_in_order (mx : Nat) (hmx : 0 < mx) (r : Receiver) (lens : PacketMsg → Nat)
    (msgs : Nat → List Bytes) (wire : List PacketMsg)
    (hup : r.stopped = none)
    (hknown : ∀ p ∈ wire, lens p ≤ r.maxPacket ∧ 0 ≤ p.chId ∧ p.chId ≤ 255 ∧
      (r.chans.find? (·.id = p.chId.toNat)).isSome)
    (hstreams : ∀ id c, r.chans.find? (·.id = id) = some c →
      c.recving = [] ∧ proj id wire = (msgs id).flatMap (packetize mx) ∧
      ∀ m ∈ msgs id, m.length ≤ c.cap) :
    (recvAll r (msgFrames lens wire)).1.stopped = none ∧
    ∀ id c, r.chans.find? (·.id = id) = some c →
      delivered id (recvAll r (msgFrames lens wire)).2 = msgs id ∧
      ∃ c', (recvAll r (msgFrames lens wire)).1.chans.find? (·.id = id) = some c' ∧ c'.recving = [] := by
  have hspec := recvAll_spec lens wire r hup hknown (by
    intro id c hc
    obtain ⟨h1, h2, h3⟩ := hstreams id c hc
    rw [h1, h2]
    exact fits_flatMap_packetize mx _ hmx _ h3)
  refine ⟨hspec.1, ?_⟩
  intro id c hc
  obtain ⟨h1, h2, _⟩ := hstreams id c hc
  obtain ⟨d, c', e1, e2, _⟩ := hspec.2 id c hc
  rw [h1, h2, reasm_flatMap_packetize mx hmx] at d e2
  exact ⟨d, c', e1, e2⟩

/-- non-vacuity: two channels, messages of sizes 0, 3 (= 1.5 packets) and 2 interleaved on the wire -/
example :
    let r := Receiver.new 2 [⟨1, 0, 8⟩, ⟨2, 0, 8⟩]
    let wire : List PacketMsg := [⟨1, false, [1, 2]⟩, ⟨2, true, []⟩, ⟨1, true, [3]⟩, ⟨2, true, [7, 7]⟩]
    (recvAll r (msgFrames (fun _ => 0) wire)).2 = [(2, []), (1, [1, 2, 3]), (2, [7, 7])] ∧
    proj 1 wire = ([[1, 2, 3]] : List Bytes).flatMap (packetize 2) ∧
    proj 2 wire = ([[], [7, 7]] : List Bytes).flatMap (packetize 2) := by decide

/-- Sender side, ANY interleaving of `TrySend` calls (on any channels, any sizes, accepted or
refused) and `sendPacketMsg` steps with ANY channel pick: per channel, the packets put on the wire
so far followed by what the channel still owes is exactly the packetisation of the messages
accepted on that channel, in acceptance order. -/
theorem sender_streams (mx : Nat) (hmx : 0 < mx) (ds : List Desc) (hnd : (ds.map (·.id)).Nodup)
    (ops : List SOp) :
    ∀ c ∈ (runOps (Sender.new mx ds) {} ops).1.chans,
      proj c.id (runOps (Sender.new mx ds) {} ops).2.wire ++ rest mx c =
        (delivered c.id (runOps (Sender.new mx ds) {} ops).2.acc).flatMap (packetize mx) := by
  obtain ⟨hs0, hw0⟩ := new_inv mx ds hnd
  obtain ⟨hS, _, hM⟩ := runOps_inv (ds.map (·.id)) ops (Sender.new mx ds) {} hmx hs0 hw0
  intro c hc
  have := hS.2 c hc
  rw [hM] at this
  exact this

/-- `sendPacketMsg` reports "nothing to send" only when no channel owes anything (so an accepted
message — the empty one included — cannot be forgotten by the send routine). -/
theorem nothing_to_send_only_when_idle (s : Sender) (pick : Nat) (hn : (s.chans.map (·.id)).Nodup)
    (h : (sendPacketMsg s pick).2 = none) : idle s :=
  none_imp_idle s pick hn h

/-- End to end: a connection with distinct byte channel ids; any interleaving of `TrySend`s and
send-routine steps with any picks; once the sender owes nothing, the receive loop fed with the
emitted packets (frame lengths = real encoded sizes) is still up and has delivered, per channel,
exactly the accepted messages in acceptance order — provided the accepted messages respect the
receiver's `RecvMessageCapacity` (otherwise the receiver is entitled to drop the connection). -/
theorem exactly_once_in_order_end_to_end (mx : Nat) (hmx : 0 < mx) (ds : List Desc)
    (hnd : (ds.map (·.id)).Nodup) (hbyte : ∀ d ∈ ds, d.id ≤ 255) (ops : List SOp)
    (hidle : idle (runOps (Sender.new mx ds) {} ops).1)
    (hcap : ∀ d ∈ ds, ∀ m ∈ delivered d.id (runOps (Sender.new mx ds) {} ops).2.acc,
      m.length ≤ d.fillDefaults.recvMessageCapacity) :
    (recvAll (Receiver.new mx ds) (msgFrames (fun p => packetSize p.chId.toNat p.eof p.data.length)
        (runOps (Sender.new mx ds) {} ops).2.wire)).1.stopped = none ∧
    ∀ d ∈ ds,
      delivered d.id (recvAll (Receiver.new mx ds) (msgFrames (fun p => packetSize p.chId.toNat p.eof p.data.length)
        (runOps (Sender.new mx ds) {} ops).2.wire)).2 =
      delivered d.id (runOps (Sender.new mx ds) {} ops).2.acc :=
  end_to_end mx hmx ds hnd hbyte ops hidle hcap

/-- non-vacuity: the empty message on channel 200 is accepted first, channel 1 is served first
(the schedule that lost the message before the repair), the run ends idle -/
example :
    let ops := [SOp.send 200 [], .send 1 [5, 6, 7], .step 1, .step 1, .step 200, .step 0]
    let st := runOps (Sender.new 2 [⟨1, 2, 8⟩, ⟨200, 2, 8⟩]) {} ops
    st.2.acc = [(200, []), (1, [5, 6, 7])] ∧
    st.2.wire = [⟨1, false, [5, 6]⟩, ⟨1, true, [7]⟩, ⟨200, true, []⟩] ∧
    (∀ c ∈ st.1.chans, rest 2 c = []) := by decide

/-! ## clause 2: the receive buffers never exceed the configured capacity -/

/-- For ANY frame sequence (hostile ones included) every channel buffers at most its
`RecvMessageCapacity`, after every frame (the statement holds for every prefix, a prefix being a
frame sequence itself). -/
theorem recv_buffer_bounded (mx : Nat) (ds : List Desc) (frames : List Frame) :
    ∀ c ∈ (recvAll (Receiver.new mx ds) frames).1.chans, c.recving.length ≤ c.cap :=
  recvAll_bounded frames _ (new_bounded mx ds)

example : (recvAll (Receiver.new 4 [⟨1, 0, 3⟩])
    [⟨0, .msg ⟨1, false, [1, 2]⟩⟩, ⟨0, .msg ⟨1, false, [3, 4]⟩⟩]).1.stopped = some .overCapacity := by decide

/-! ## clause 3: oversized / unknown / undecodable input stops the connection, nothing delivered -/

/-- the hostile frame classes -/
def Hostile (r : Receiver) (f : Frame) : Prop :=
  f.len > r.maxPacket ∨ f.pkt = .bad ∨ f.pkt = .nosum ∨
  ∃ p, f.pkt = .msg p ∧
    (p.chId < 0 ∨ p.chId > 255 ∨ r.chans.find? (·.id = p.chId.toNat) = none ∨
      ∃ c, r.chans.find? (·.id = p.chId.toNat) = some c ∧ c.cap < c.recving.length + p.data.length)

/-- A frame that is oversized, undecodable, without a packet kind, for an unknown channel or over
the channel's capacity makes the loop stop with an error: nothing is delivered from it, no buffer
changes, and no later frame is ever processed or delivered. -/
theorem oversize_or_unknown_stops (r : Receiver) (f : Frame) (hup : r.stopped = none)
    (h : Hostile r f) :
    ∃ e, recvFrame r f = ({ r with stopped := some e }, .error e) ∧
      ∀ later, recvAll (recvFrame r f).1 later = ((recvFrame r f).1, []) := by
  have key : ∀ e, recvFrame r f = ({ r with stopped := some e }, .error e) →
      ∃ e, recvFrame r f = ({ r with stopped := some e }, .error e) ∧
        ∀ later, recvAll (recvFrame r f).1 later = ((recvFrame r f).1, []) := by
    intro e he
    refine ⟨e, he, ?_⟩
    intro later
    rw [he]
    exact recvAll_stopped later _ rfl
  by_cases hlen : f.len > r.maxPacket
  · exact key .tooBig (by simp [recvFrame, hup, hlen, Receiver.fail])
  · rcases h with h | h | h | ⟨p, hp, h⟩
    · exact absurd h hlen
    · exact key .undecodable (by simp [recvFrame, hup, hlen, h, Receiver.fail])
    · exact key .unknownType (by simp [recvFrame, hup, hlen, h, Receiver.fail])
    · by_cases hr : p.chId < 0 ∨ p.chId > 255
      · exact key .unknownChannel (by simp [recvFrame, hup, hlen, hp, hr, Receiver.fail])
      · rcases h with h | h | h | ⟨c, hc, hcap⟩
        · exact absurd (Or.inl h) hr
        · exact absurd (Or.inr h) hr
        · exact key .unknownChannel (by simp [recvFrame, hup, hlen, hp, hr, h, Receiver.fail])
        · exact key .overCapacity (by simp [recvFrame, hup, hlen, hp, hr, hc, recvPacketMsg, hcap, Receiver.fail])

/-- non-vacuity: channel id 257 (which a byte cast would alias to the known channel 1) is hostile -/
example : Hostile (Receiver.new 4 [⟨1, 0, 3⟩]) ⟨0, .msg ⟨257, true, [1]⟩⟩ :=
  Or.inr (Or.inr (Or.inr ⟨_, rfl, Or.inr (Or.inl (by decide))⟩))

/-- the raw length prefix: an overflowing varint, a length of 2^63-1 or more, or a length above the
frame limit stops the loop before any payload byte is interpreted -/
theorem bad_length_prefix_stops (r : Receiver) (bytes : Bytes) (pkt : Packet) (hup : r.stopped = none)
    (h : readUvarint bytes = .overflow ∨
      ∃ v rest, readUvarint bytes = .ok v rest ∧ v > r.maxPacket) :
    ∃ e r', recvRaw r bytes pkt = some (r', .error e) ∧ r'.chans = r.chans ∧ r'.stopped = some e := by
  unfold recvRaw
  rcases h with h | ⟨v, rest, h, hv⟩
  · exact ⟨.badVarint, { r with stopped := some .badVarint }, by simp [hup, h, Receiver.fail], rfl, rfl⟩
  · by_cases hb : v ≥ 2 ^ 63 - 1
    · exact ⟨.badLength, { r with stopped := some .badLength }, by simp [hup, h, hb, Receiver.fail], rfl, rfl⟩
    · exact ⟨.tooBig, { r with stopped := some .tooBig }, by simp [hup, h, hb, hv, Receiver.fail], rfl, rfl⟩

example : readUvarint (List.replicate 11 0xff) = .overflow := by decide

/-! ## clause 4 (partial): validated messages keep the handlers' index uses in range -/

open Tmv.PeerMsgs in
/-- A bit array that passed `BitArray.ValidateBasic` can be indexed (`SetIndex`/`GetIndex`) at ANY
non-negative index without leaving `Elems`. -/
theorem validated_setIndex_in_bounds (b : BitArr) (hv : BitArr.validateBasic (some b) = true)
    (i : Int) (hi : 0 ≤ i) : indexPanics (some b) i = false := by
  simp only [BitArr.validateBasic, Bool.and_eq_true, decide_eq_true_eq] at hv
  obtain ⟨h0, he⟩ := hv
  unfold indexPanics
  simp only
  split
  · rfl
  · rename_i hlt
    have h1 : ¬ (Int.tdiv i 64 < 0) := by
      have := Int.tdiv_nonneg hi (by decide : (0:Int) ≤ 64); omega
    have h2 : ¬ (Int.tdiv i 64 ≥ (b.elems : Int)) := by
      rw [he, Int.tdiv_eq_ediv_of_nonneg hi]; omega
    simp [h1, h2]

open Tmv.PeerMsgs in
/-- bit arrays the node allocates itself (`bits.NewBitArray`) are consistent -/
theorem newBitArray_valid (n : Int) : BitArr.validateBasic (newBitArray n) = true := by
  unfold newBitArray
  split
  · rfl
  · simp only [BitArr.validateBasic, Bool.and_eq_true, decide_eq_true_eq]
    omega

open Tmv.PeerMsgs in
/-- message level (the peer-state level theorem is `validated_handlers_in_bounds` below): every bit array that a message passing
`ValidateBasic` installs in the peer state (NewValidBlock.BlockParts → ProposalBlockParts,
ProposalPOL.ProposalPOL, VoteSetBits.Votes via Update) is consistent, hence the handlers' and the
gossip routines' `SetIndex` calls on it — with the non-negative indices they use: a validated
`HasVote.Index`, a uint32 part index, a validator index of one of the node's own votes — stay in
range. What is NOT modelled (and why this is `_partial`): the full `PeerRoundState` transition
functions, `Sub`/`Or`/`Update`/`PickRandom` loops (they bound their loops by `len(Elems)` of
both operands), and the other reactors (stream (b) exercises them). -/
theorem validated_message_arrays_indexable :
    (∀ m : NewValidBlock, m.valid = true → ∀ i : Int, 0 ≤ i → indexPanics m.parts i = false) ∧
    (∀ m : ProposalPOL, m.valid = true → ∀ i : Int, 0 ≤ i → indexPanics m.pol i = false) ∧
    (∀ m : VoteSetBits, m.valid = true → ∀ i : Int, 0 ≤ i → indexPanics m.votes i = false) ∧
    (∀ m : HasVote, m.valid = true → 0 ≤ m.index) := by
  have key : ∀ (b : Option BitArr), BitArr.validateBasic b = true → ∀ i : Int, 0 ≤ i →
      indexPanics b i = false := by
    intro b hb i hi
    cases b with
    | none => rfl
    | some a => exact validated_setIndex_in_bounds a hb i hi
  refine ⟨?_, ?_, ?_, ?_⟩
  · intro m hm
    apply key
    unfold NewValidBlock.valid at hm
    by_cases h : BitArr.validateBasic m.parts = true
    · exact h
    · simp [h] at hm
  · intro m hm
    apply key
    unfold ProposalPOL.valid at hm
    by_cases h : BitArr.validateBasic m.pol = true
    · exact h
    · simp [h] at hm
  · intro m hm
    apply key
    unfold VoteSetBits.valid at hm
    by_cases h : BitArr.validateBasic m.votes = true
    · exact h
    · simp [h] at hm
  · intro m hm
    unfold HasVote.valid at hm
    by_cases h : m.index < 0
    · simp [h] at hm
    · omega

open Tmv.PeerMsgs in
/-- why the `Elems` check is needed: without it a NewValidBlock with `Bits = Total = 81` and one
element passes every other guard and index 70 leaves `Elems` (the pre-repair crash) -/
theorem short_elems_would_panic :
    indexPanics (some { bits := 81, elems := 1 }) 70 = true ∧
    BitArr.validateBasic (some { bits := 81, elems := 1 }) = false := by decide

open Tmv.PeerMsgs in
example : (NewValidBlock.valid ⟨1, 0, 81, 32, newBitArray 81⟩) = true := by decide

/-! ## clause 4: the consensus peer state under ANY sequence of validated messages -/

open Tmv.PeerMsgs Tmv.PeerState in
/-- `validated_handlers_in_bounds`: start from a fresh `PeerState`; apply, in ANY order and number,
the peer's messages that passed `ValidateBasic` (NewRoundStep, NewValidBlock, ProposalPOL, HasVote,
VoteSetBits, Proposal, BlockPart, Vote) and the calls of the node's own gossip routines
(`PickSendVote` on any of its vote sets or commits, the part-gossip and catch-up picks,
`InitProposalBlockParts`), for ANY node round state (height, round, validator count, last-commit
size, part count — bounded by `B`) and ANY index `PickRandom` may return. Then no modelled
`BitArray` index use leaves `Elems`, no `make` gets a negative length, `PickRandom` never reads
`Elems[-1]`, and every array of the peer state stays nil or consistent, non-empty and at most `B`
bits — where `B` is any bound above `MaxBlockPartsCount`, `MaxVotesCount` and the node's own sizes.
Not modelled: bit CONTENTS (no guard depends on them), the node's own vote sets / part sets
(assumed consistent), the other reactors. -/
theorem validated_handlers_in_bounds (B : Int) (hB1 : maxBlockPartsCount ≤ B) (hB2 : maxVotesCount ≤ B)
    (ops : List Op) (hadm : ∀ op ∈ ops, op.admissible B) :
    ∃ p, run {} ops = some p ∧ Inv B p :=
  run_ok B hB1 hB2 ops {} (inv_init B) hadm

open Tmv.PeerMsgs Tmv.PeerState in
/-- non-vacuity: a hostile-but-valid sequence (round-step, a proposal claiming 1601 parts, a
131-bit POL array, a has-vote with a huge index, a vote, gossip picks) runs through -/
example : (run {} [
    .newRoundStep ⟨1, 0, 1, -1⟩, .proposal 1 0 0 1601, .proposalPOL ⟨1, 0, newBitArray 131⟩,
    .hasVote ⟨1, 0, 1, 2147483647⟩, .vote 1 4 0 1 0 1 3,
    .pickSendVote ⟨1, 0, 2, 4, true⟩ (some 3), .gossipPart 1601 (some 1600), .catchupPart (some 7),
    .newRoundStep ⟨2, 0, 1, 0⟩]).isSome = true := by decide

open Tmv.PeerMsgs Tmv.PeerState in
/-- why `ProposalMessage.ValidateBasic` must bound the part count: `SetHasProposal` sizes the peer's
array with it (2^32-1 bits = 512 MB before the repair) -/
theorem proposal_total_sizes_peer_array :
    (setHasProposal { height := 1, round := 0 } 1 0 (-1) 4294967295).pbp =
      some { bits := 4294967295, elems := 67108864 } := by decide

open Tmv.PeerMsgs Tmv.PeerState in
/-- why a stored array must be non-empty: `PickRandom` on a non-nil array without elements reads
`Elems[-1]` (a validated VoteSetBits array may have size 0, it is never stored) -/
theorem empty_array_pickRandom_panics :
    pickRandomOk (some { bits := 0, elems := 0 }) = false ∧
    BitArr.validateBasic (some { bits := 0, elems := 0 }) = true := by decide

/-! ## clause 1, liveness of the send routine under a fair pick -/

/-- A channel that owes the wire something and is picked IS served: `sendPacketMsg` with
`pick = c.id` emits a packet of channel `c` (the choice rule cannot be bypassed by the
`isSendPending` pass). -/
theorem picked_pending_channel_is_served (s : Sender) (t : Trace) (h : SInv s t) (c : SChan)
    (hc : c ∈ s.chans) (hne : rest s.maxSize c ≠ []) :
    ∃ p, (sendPacketMsg s c.id).2 = some p ∧ p.chId = (c.id : Int) :=
  step_pick_serves s t h c hc hne

/-- `every accepted message is eventually on the wire`, with the hypothesis it needs: let `ops1`
be ANY history (TrySends, send-routine steps, any picks) and `c` a channel owing `n` packets after
it. Let `ops2` be ANY continuation — more TrySends on any channel, steps with any picks — in which
the send routine's choice falls on `c` at least `n` times (FAIRNESS; the real rule picks the
least recentlySent/priority ratio, which is not modelled). Then every message accepted on `c`
during `ops1` is completely on the wire after `ops2`: the channel's wire stream starts with the
packetisation of those messages, in acceptance order. Without the fairness hypothesis the claim is
false (a schedule that never picks `c` while other channels stay busy starves it). -/
theorem fair_pick_transmits (mx : Nat) (hmx : 0 < mx) (ds : List Desc) (hnd : (ds.map (·.id)).Nodup)
    (ops1 ops2 : List SOp) (c : SChan)
    (hc : c ∈ (runOps (Sender.new mx ds) {} ops1).1.chans)
    (hfair : (rest mx c).length ≤ picksOf c.id ops2) :
    ∃ extra, proj c.id (runOps (runOps (Sender.new mx ds) {} ops1).1 (runOps (Sender.new mx ds) {} ops1).2 ops2).2.wire =
      (delivered c.id (runOps (Sender.new mx ds) {} ops1).2.acc).flatMap (packetize mx) ++ extra :=
  fair_pick_transmits_lemma mx hmx ds hnd ops1 ops2 c hc hfair

/-- non-vacuity: channel 2 owes 2 packets after `ops1`; in `ops2` channel 1 keeps receiving new
messages and is picked in between, channel 2 is picked twice: its message is out -/
example :
    let ds : List Desc := [⟨1, 4, 8⟩, ⟨2, 4, 8⟩]
    let st1 := runOps (Sender.new 2 ds) {} [.send 2 [9, 9, 9], .send 1 [1]]
    let ops2 := [SOp.step 1, .send 1 [2, 2, 2], .step 2, .step 1, .send 1 [3], .step 2, .step 1]
    (st1.1.chans.map fun c => (rest 2 c).length) = [1, 2] ∧ picksOf 2 ops2 = 2 ∧
    proj 2 (runOps st1.1 st1.2 ops2).2.wire = [(false, [9, 9]), (true, [9])] := by decide

/-! ## the other reactors: sizes, indices and height arithmetic a peer's message decides -/

open Tmv.ReactorMsgs in
/-- blockchain v0: a StatusResponse that passed `ValidateMsg` (any int64 base/height) keeps the
pool's height arithmetic inside int64: `maxPeerHeight` stays non-negative, `maxPeerHeight - 1`
(IsCaughtUp) does not underflow and `height + len(requesters)` (makeNextRequester) does not
overflow as long as the node's own height leaves room for `maxTotalRequesters` requesters. -/
theorem blockchain_status_arith_in_bounds (p : Pool) (base height : Int)
    (hv : (BcMsg.statusResponse base height).valid = true) (hh : inInt64 height)
    (hp0 : 0 ≤ p.maxPeerHeight) (hp1 : inInt64 p.maxPeerHeight)
    (hown : 0 ≤ p.height ∧ p.height + maxTotalRequesters ≤ int64Max) (hreq : p.requesters ≤ maxTotalRequesters) :
    0 ≤ (setPeerRange p height).maxPeerHeight ∧ inInt64 (setPeerRange p height).maxPeerHeight ∧
    inInt64 (caughtUpOperand (setPeerRange p height)) ∧ inInt64 (nextHeight (setPeerRange p height)) ∧
    0 ≤ base ∧ base ≤ height := by
  have hb : 0 ≤ base ∧ 0 ≤ height ∧ base ≤ height := by
    simp only [BcMsg.valid] at hv
    by_cases c1 : base < 0 <;> simp only [c1, if_true, if_false] at hv
    · cases hv
    by_cases c2 : height < 0 <;> simp only [c2, if_true, if_false] at hv
    · cases hv
    by_cases c3 : base > height <;> simp only [c3, if_true, if_false] at hv
    · cases hv
    omega
  have hmt : (maxTotalRequesters : Int) = 600 := by decide
  have hreq' : (p.requesters : Int) ≤ 600 := by rw [← hmt]; exact_mod_cast hreq
  unfold inInt64 int64Max at *
  unfold setPeerRange caughtUpOperand nextHeight
  by_cases c : height > p.maxPeerHeight
  · simp only [c, if_true]; omega
  · simp only [c, if_false]; omega

open Tmv.ReactorMsgs in
example : (BcMsg.statusResponse 0 int64Max).valid = true ∧ (BcMsg.statusResponse 5 4).valid = false := by decide

open Tmv.ReactorMsgs in
/-- statesync: a chunk that `chunkQueue.Add` stores has the snapshot's height and format and an
index below the snapshot's chunk count (any uint32 index, uint64 height in the message) -/
theorem statesync_chunk_index_in_bounds (s : Snapshot) (height format index : Nat)
    (h : chunkAccepted s height format index = true) :
    index < s.chunks ∧ height = s.height ∧ format = s.format := by
  unfold chunkAccepted at h
  split at h
  · cases h
  split at h
  · cases h
  split at h
  · cases h
  omega

open Tmv.ReactorMsgs in
example : chunkAccepted ⟨7, 1, 3⟩ 7 1 2 = true ∧ chunkAccepted ⟨7, 1, 3⟩ 7 1 4294967295 = false := by decide

open Tmv.ReactorMsgs in
/-- pex: the number of addresses one PexAddrs message can carry is bounded by the channel's
`RecvMessageCapacity` (= maxAddressSize * maxGetSelection, enforced by `recv_buffer_bounded`)
divided by the smallest encoded address; and a peer's third request inside one interval is
refused (the first two are free by construction of `receiveRequest`) -/
theorem pex_addrs_count_bounded (count minAddr msgLen : Nat) (hmin : 0 < minAddr)
    (henc : count * minAddr ≤ msgLen) (hcap : msgLen ≤ pexMaxMsgSize) :
    count ≤ pexMaxMsgSize / minAddr ∧ pexMaxMsgSize = 64000 := by
  refine ⟨?_, by decide⟩
  have : count * minAddr ≤ pexMaxMsgSize := Nat.le_trans henc hcap
  exact (Nat.le_div_iff_mul_le hmin).mpr this

open Tmv.ReactorMsgs in
theorem pex_third_request_refused :
    (pexReceiveRequest 0).2 = true ∧ (pexReceiveRequest (pexReceiveRequest 0).1).2 = true ∧
    (pexReceiveRequest (pexReceiveRequest (pexReceiveRequest 0).1).1).2 = false := by decide

open Tmv.PeerMsgs Tmv.PeerState in
/-- `Sub` on arrays of different sizes, both ways (a 129-validator vote set against a 1-bit POL
array and the reverse), and why the loop bound must be the MINIMUM of the two word counts: bounded
by the receiver's words alone the loop reads `o.Elems` out of range as soon as the peer's array
is shorter than the node's (more than 64 validators) -/
theorem sub_loop_bound_must_be_min :
    (sub (newBitArray 129) (newBitArray 1)).isSome = true ∧
    (sub (newBitArray 1) (newBitArray 129)).isSome = true ∧
    subWith (fun _ _ ce => ce) (newBitArray 129) (newBitArray 1) = none ∧
    (subWith (fun _ _ ce => ce) (newBitArray 64) (newBitArray 1)).isSome = true := by decide

/-! ## the peer level: several peers delivering on one channel -/

/-- For ANY interleaving of the peers' deliveries on a shared channel, the messages the reactor is
handed as coming from peer `p` are exactly `p`'s messages, in order, each decoded from its own
bytes. (With one decode target shared by all peers — the seeded change C17-r3-1 — delivery is not
a function of the message's bytes and the statement has no counterpart; the stream `peers` judges
the real code with concurrent senders.) -/
theorem peers_do_not_mix {α : Type} (decode : Bytes → α) (arrivals : List (Nat × Bytes)) (p : Nat) :
    ((hubDeliver decode arrivals).filter (·.1 = p)).map (·.2) =
      ((arrivals.filter (·.1 = p)).map (·.2)).map decode := by
  induction arrivals with
  | nil => rfl
  | cons a as ih =>
    unfold hubDeliver at ih ⊢
    by_cases h : a.1 = p
    · simp only [List.map_cons, List.filter_cons, h, decide_true, if_true] at ih ⊢
      rw [ih]
    · simp only [List.map_cons, List.filter_cons, h, decide_false] at ih ⊢
      exact ih

/-! ## the fairness `fair_pick_transmits` assumes: the least-ratio choice of `sendPacketMsg` -/

/-- `sendPacketMsg` chooses, among the channels with something to send, the first one with the
least `recentlySent / priority` (`pickLeast`) and then charges it the bytes written. This rule is
FAIR with a computable bound: a channel `c` that stays pending is chosen within
`waitBound c chans + 1` send steps — `waitBound` = Σ over the other channels `x` of
`c.recentlySent * x.prio / c.prio + 1 - x.recentlySent` — whatever the other channels have pending
(`s.1`, arbitrary per step) and however many bytes each packet takes (`s.2 ≥ 1`). Stated for one
stats window: `updateStats` (every 2 s, `recentlySent *= 0.8` on all channels, `decay`) is not a
step here; it lowers every ratio, so a window boundary can lengthen the wait by at most another
window's bound, and since `c.recentlySent` only shrinks under decay while a passed-over channel's
grows with every choice there is NO starvation schedule. Model assumption: ratios compared exactly
(the code compares float32 quotients; the sender stream checks on every run that the real choice
is the model's `pickLeast`). -/
theorem least_ratio_is_fair (c : PCh) (steps : List ((Nat → Bool) × Nat)) (chans : List PCh)
    (hc : c ∈ chans) (hprio : ∀ x ∈ chans, 0 < x.prio)
    (hst : ∀ s ∈ steps, s.1 c.id = true ∧ 1 ≤ s.2)
    (hlong : waitBound c chans < steps.length) :
    some c.id ∈ picks chans steps := by
  by_cases h : some c.id ∈ picks chans steps
  · exact h
  · have := bounded_wait c steps chans hc hprio hst h
    omega

/-- what `pickLeast` returns is pending and no pending channel has a strictly smaller ratio -/
theorem pickLeast_is_least (pending : List PCh) (hp : ∀ x ∈ pending, 0 < x.prio) (d : PCh)
    (h : pickLeast pending = some d) : d ∈ pending ∧ ∀ x ∈ pending, ¬ better x d = true :=
  pickLeast_spec' pending hp d h

/-- non-vacuity: channel 3 (priority 1, 40 bytes sent) against two busy channels of priority 5
and 10: bound 40*5/1+1-0 + 40*10/1+1-0 = 602 steps of one byte each; it is chosen at once when
the others have sent more in proportion -/
example :
    waitBound ⟨3, 1, 40⟩ [⟨1, 5, 0⟩, ⟨2, 10, 0⟩, ⟨3, 1, 40⟩] = 602 ∧
    pickLeast [⟨1, 5, 300⟩, ⟨2, 10, 500⟩, ⟨3, 1, 40⟩] = some ⟨3, 1, 40⟩ ∧
    pickLeast [⟨1, 5, 100⟩, ⟨2, 10, 200⟩, ⟨3, 1, 40⟩] = some ⟨1, 5, 100⟩ := by decide

/-! ## C16 × C17: an MConnection running over a SecretConnection -/

section secure_link
open Tmv.SecretFrames
variable (enc : Nat → Bytes → Bytes) (dec : Nat → Bytes → Option Bytes) (junk : Nat → Bytes)
variable (encF : PacketMsg → Bytes) (splitF : Bytes → Option (PacketMsg × Bytes))

/-- Messages sent on the channels of an MConnection that runs OVER a SecretConnection arrive in
order, unmodified, at most once — or a forgery of the AEAD is exhibited. The sending MConnection
(any interleaving of TrySends and send-routine steps, `ops`) writes the frames of its packets;
the SecretConnection seals those bytes in chunks `cs` from counter `c` (C16). The receiving side
reads, with ANY read schedule `rs`, from a network that delivers an ARBITRARY byte string `net`
(cut, edited, reordered, replayed — the attacker of C16's `tamper_never_alters`), parses the bytes
it was handed into frames and runs the receive loop. Then the loop is not stopped by anything it
was handed and, per channel, what it delivered is a PREFIX of the accepted messages. (What is
missing at the end is the link failing: C16's `tamper_detected` says the reader gets an error at
the first affected frame, which `recvRoutine` turns into `stopForError`.) -/
theorem secure_link_in_order_or_fails (hc : Correct enc dec) (hf : Framing encF splitF)
    (mx : Nat) (hmx : 0 < mx) (ds : List Desc) (hnd : (ds.map (·.id)).Nodup)
    (hbyte : ∀ d ∈ ds, d.id ≤ 255) (ops : List SOp)
    (hcap : ∀ d ∈ ds, ∀ m ∈ delivered d.id (runOps (Sender.new mx ds) {} ops).2.acc,
      m.length ≤ d.fillDefaults.recvMessageCapacity)
    (c : Nat) (cs : List Bytes)
    (hcs : cs.flatten = (runOps (Sender.new mx ds) {} ops).2.wire.flatMap encF)
    (hb : ∀ ch ∈ cs, ch.length ≤ dataMaxSize) (net : Bytes) (rs : List Nat) :
    (∃ frames, frames = parseFrames splitF ((okBytes (runReads dec ⟨[], c, net⟩ rs).1).length + 1)
        (okBytes (runReads dec ⟨[], c, net⟩ rs).1) ∧
      (recvAll (Receiver.new mx ds) (msgFrames (fun p => packetSize p.chId.toNat p.eof p.data.length) frames)).1.stopped = none ∧
      ∀ d ∈ ds, ∃ more,
        delivered d.id (runOps (Sender.new mx ds) {} ops).2.acc =
          delivered d.id (recvAll (Receiver.new mx ds) (msgFrames (fun p => packetSize p.chId.toNat p.eof p.data.length) frames)).2 ++ more) ∨
    Nonempty (Forgery dec (sealFrom enc junk c cs)) := by
  rcases Tmv.Props.C16.tamper_never_alters enc dec junk hc c cs hb net rs with hpre | hforge
  · left
    rw [hcs] at hpre
    obtain ⟨rest, hrest⟩ := parse_prefix encF splitF hf _ _ _ (Nat.lt_succ_self _) hpre
    refine ⟨_, rfl, ?_⟩
    exact prefix_delivery mx hmx ds hnd hbyte ops _ rest hrest hcap
  · exact Or.inr hforge

/-- …and exactly once when the link is undisturbed: the SecretConnection `Write`s `ws` carry the
MConnection's frames, the wire is what the sender sealed, the reader reads with positive sizes
until everything is out (C16 `stream_roundtrip`), the sender is idle: the receive loop delivered,
per channel, exactly the accepted messages in order. -/
theorem secure_link_exactly_once (hc : Correct enc dec) (hl : LenOK enc) (hf : Framing encF splitF)
    (mx : Nat) (hmx : 0 < mx) (ds : List Desc) (hnd : (ds.map (·.id)).Nodup)
    (hbyte : ∀ d ∈ ds, d.id ≤ 255) (ops : List SOp)
    (hidle : idle (runOps (Sender.new mx ds) {} ops).1)
    (hcap : ∀ d ∈ ds, ∀ m ∈ delivered d.id (runOps (Sender.new mx ds) {} ops).2.acc,
      m.length ≤ d.fillDefaults.recvMessageCapacity)
    (c : Nat) (ws : List Bytes)
    (hws : ws.flatten = (runOps (Sender.new mx ds) {} ops).2.wire.flatMap encF)
    (hroom : c + ws.flatten.length ≤ maxU64)
    (rs : List Nat) (hpos : ∀ k ∈ rs, 0 < k) (hlong : ws.flatten.length < rs.length) :
    let got := okBytes (runReads dec ⟨[], c, wireOf (writeAll enc junk c (ws.map (·, true))).2⟩ rs).1
    let frames := parseFrames splitF (got.length + 1) got
    (recvAll (Receiver.new mx ds) (msgFrames (fun p => packetSize p.chId.toNat p.eof p.data.length) frames)).1.stopped = none ∧
    ∀ d ∈ ds,
      delivered d.id (recvAll (Receiver.new mx ds) (msgFrames (fun p => packetSize p.chId.toNat p.eof p.data.length) frames)).2 =
        delivered d.id (runOps (Sender.new mx ds) {} ops).2.acc := by
  have h := (Tmv.Props.C16.stream_roundtrip enc dec junk hc hl c ws rs hroom).2.2.2 hpos hlong
  simp only at h ⊢
  rw [h, hws, parse_full encF splitF hf _ _ (Nat.lt_succ_self _)]
  exact end_to_end mx hmx ds hnd hbyte ops hidle hcap

end secure_link

/-- non-vacuity of the composition's hypotheses: a concrete frame codec satisfies `Framing`
(unary length prefix + payload), C16's toy AEAD satisfies `Correct`/`LenOK`, and two frames
written back to back parse back -/
example : Framing toyEncF toySplitF ∧
    Tmv.SecretFrames.Correct Tmv.Props.C16.toyEnc Tmv.Props.C16.toyDec ∧
    parseFrames toySplitF 3 (toyEncF ⟨1, false, [7, 8]⟩ ++ toyEncF ⟨2, true, []⟩) =
      [⟨1, false, [7, 8]⟩, ⟨2, true, []⟩] :=
  ⟨toy_framing, by intro n m; simp [Tmv.Props.C16.toyEnc, Tmv.Props.C16.toyDec], by decide⟩

/-! ## `Receive`'s decision in the remaining reactors: total, and when the peer is dropped -/

open Tmv.ReactorMsgs in
/-- every input of the evidence / mempool (v0, v1) / pex / blockchain-BlockResponse `Receive` —
undecodable bytes, a wrapper without a kind, or any decoded message in any modelled context —
yields exactly one of accept / ignore / stop / recovered-panic; bytes that do not give a message
always end in the connection's recover, never in the reactor's logic -/
theorem receive_decision_total (d : Decoded) (k : Decision) :
    (decodeGate d k = .accept ∨ decodeGate d k = .ignore ∨ decodeGate d k = .stop ∨
      decodeGate d k = .recovered) ∧
    (d ≠ .msg → decodeGate d k = .recovered) ∧ (d = .msg → decodeGate d k = k) := by
  cases d <;> cases k <;> simp [decodeGate]

open Tmv.ReactorMsgs in
/-- evidence: the peer is stopped iff some item does not convert, fails `ValidateBasic` or is
rejected by the pool as INVALID; an item the pool refuses for another reason (committed, pending)
never costs the peer its connection -/
theorem evidence_stop_iff (items : List EvItem) :
    evidenceDecide items = .stop ↔
      (.convErr ∈ items ∨ .vbErr ∈ items ∨ .addInvalid ∈ items) := by
  unfold evidenceDecide
  have e : ∀ a : EvItem, (items.any (· == a) = true) ↔ a ∈ items := by
    intro a; simp [List.any_eq_true]
  by_cases h1 : EvItem.convErr ∈ items
  · simp [(e _).mpr h1, h1]
  · have g1 : ¬ (items.any (· == EvItem.convErr) = true) := fun h => h1 ((e _).mp h)
    by_cases h2 : EvItem.vbErr ∈ items
    · simp [g1, (e _).mpr h2, h2]
    · have g2 : ¬ (items.any (· == EvItem.vbErr) = true) := fun h => h2 ((e _).mp h)
      by_cases h3 : EvItem.addInvalid ∈ items
      · simp [g1, g2, (e _).mpr h3, h3]
      · have g3 : ¬ (items.any (· == EvItem.addInvalid) = true) := fun h => h3 ((e _).mp h)
        simp only [g1, g2, g3, if_false, h1, h2, h3, or_self, iff_false]
        split
        · rename_i hh; cases hh
        · split <;> simp

open Tmv.ReactorMsgs in
/-- mempool v0/v1: no Txs message — empty, with oversized transactions, with a full pool, with
duplicates, however many — makes the reactor drop the peer -/
theorem mempool_never_stops (txs : List TxClass) :
    mempoolDecide txs ≠ .stop ∧ mempoolDecide txs ≠ .recovered ∧
    (mempoolDecide txs = .ignore ↔ txs = []) := by
  unfold mempoolDecide
  cases txs <;> simp

open Tmv.ReactorMsgs in
/-- pex: an address list is accepted only if every address converts, the list was asked for and
the sender's own address parses; a seed serves an inbound peer once and disconnects it -/
theorem pex_decisions (c : PexCtx) (conv srcOk : Bool) :
    (pexAddrsDecide c conv srcOk = .accept ↔ (conv = true ∧ c.solicited = true ∧ srcOk = true)) ∧
    (c.seedMode = true → c.peerOutbound = false → c.marker = 0 → (pexRequestDecide c).1 = .stop) ∧
    (c.seedMode = true → c.peerOutbound = false → c.marker ≠ 0 → (pexRequestDecide c).1 = .ignore) := by
  refine ⟨?_, ?_, ?_⟩
  · unfold pexAddrsDecide
    cases conv <;> cases srcOk <;> cases hs : c.solicited <;> simp [hs]
  · intro h1 h2 h3; simp [pexRequestDecide, h1, h2, h3]
  · intro h1 h2 h3; simp [pexRequestDecide, h1, h2, h3]

open Tmv.ReactorMsgs in
/-- blockchain: a BlockResponse whose block does not convert stops the sender, one that converts
does not -/
theorem blockResponse_stop_iff (ok : Bool) : blockResponseDecide ok = .stop ↔ ok = false := by
  cases ok <;> simp [blockResponseDecide]

/-! ## the accept path: a hostile handshake never takes the node down -/

open Tmv.ReactorMsgs in
/-- Every failure of the accept path that a remote peer can cause — at any stage: connection
filters, secret connection, NodeInfo exchange (garbled, oversized, truncated, missing), NodeInfo
validation, id checks, compatibility, even a panic inside the upgrade — reaches
`Switch.acceptRoutine` as `ErrRejected` or `ErrFilterTimeout`, for which the routine logs and
CONTINUES; it panics ("accept routine exited") only on errors no peer can cause (the resolver
failing on the remote address, the listener failing), and exits on `ErrTransportClosed`. -/
theorem peer_caused_accept_failure_never_panics (f : AcceptFailure) (h : f.peerCaused = true) :
    acceptRoutineOn (acceptErrOf f) = .continue ∧
    (acceptErrOf f = .rejected ∨ acceptErrOf f = .filterTimeout) := by
  cases f <;> simp_all [AcceptFailure.peerCaused, acceptErrOf, acceptRoutineOn]

open Tmv.ReactorMsgs in
/-- the routine panics exactly on the two local failures -/
theorem acceptRoutine_panics_iff (f : AcceptFailure) :
    acceptRoutineOn (acceptErrOf f) = .panic ↔ (f = .resolveIPs ∨ f = .listenerFails) := by
  cases f <;> simp [acceptErrOf, acceptRoutineOn]

/-! ## after hand-over: a send nobody will receive must be guarded -/

open Tmv.ReactorMsgs in
/-- A channel send guarded by the service's `IsRunning` never blocks forever, provided the consumer
lives as long as the service runs (the reactor's `poolRoutine` and the block pool): however many
messages a peer makes the reactor report — before, during or after the hand-over to consensus —
each report is sent, skipped, or waits for a consumer that exists. -/
theorem guarded_send_never_blocks_forever (running : Bool) (c : BChan)
    (hlive : running = true → c.consumer = true) (n : Nat) :
    SendRes.blockedForever ∉ chanSends true running n c := by
  induction n generalizing c with
  | zero => simp [chanSends]
  | succ k ih =>
    simp only [chanSends, List.mem_cons, not_or]
    constructor
    · unfold chanSend
      cases running <;> simp_all
      split <;> simp
    · apply ih
      intro hr
      have := hlive hr
      unfold chanSend
      cases running <;> simp_all
      split <;> simp_all

open Tmv.ReactorMsgs in
/-- …and why the guard is needed: WITHOUT it, once the consumer is gone (fast sync handed over)
the send after the `cap`-th blocks forever — with the pool lock held. -/
theorem unguarded_send_blocks_after_cap (cap : Nat) (running : Bool) :
    (chanSend false running ⟨cap, cap, false⟩).2 = .blockedForever ∧
    (chanSends false false 4 ⟨3, 0, false⟩).getLast? = some .blockedForever ∧
    SendRes.blockedForever ∉ chanSends true false 4 ⟨3, 0, false⟩ := by
  refine ⟨by simp [chanSend], by decide, guarded_send_never_blocks_forever false _ (by simp) _⟩

end Tmv.Props.C17
