import Tmv.Lemmas.MerkleComplete
import Tmv.Lemmas.MerkleInclusion
import Tmv.Lemmas.MerkleTraced
import Tmv.Lemmas.MerkleDepth
import Tmv.Model.PartSet
import Tmv.Model.TxProof
import Tmv.Lemmas.PartReader
import Tmv.Lemmas.PartCons
/-! # C10 — Block parts and Merkle proofs bind content to position
Property theorems only. `H` is an arbitrary function; the only thing assumed about it is a fixed
output length `L > 0` (true of SHA-256, needed to split `l ++ r`). Soundness theorems conclude
"claim ∨ an explicit hash collision", never "no collision exists". -/
namespace Tmv.Props.C10
open Tmv Tmv.Merkle Tmv.PartSet Tmv.TxProof
variable (H : Bytes → Bytes)

/-- Completeness: the proof built for position `i` verifies for the item at `i`. -/
theorem proofs_verify (items : List Bytes) (i : Nat) (hi : i < items.length) :
    verify H (root H items) items[i] (proofOf H items i) = .ok () := by
  have hc := fromAunts_auntsF H items.length items i hi (Nat.le_refl _)
  have hget : items[i]?.getD [] = items[i] := by simp [hi]
  have hget2 : items.getD i [] = items[i] := by simp [List.getD_eq_getElem?_getD, hi]
  rw [hget] at hc
  unfold verify proofOf computeRoot
  simp only [hget2]
  have h1 : ¬ ((items.length : Int) < 0) := by omega
  have h2 : ¬ ((i : Int) < 0) := by omega
  have h3 : ¬ ((i : Int) < 0 ∨ (items.length : Int) ≤ 0) := by omega
  have hne : items ≠ [] := by intro h; subst h; simp at hi
  simp [h1, h2, hc, root, hne]

/-- Soundness with position: a proof whose stated total is the real number of leaves verifies
against the real root only for the item that sits at the stated index (or exhibits a collision). -/
theorem verify_position (L : Nat) (hL : 0 < L) (hlen : ∀ x, (H x).length = L)
    (items : List Bytes) (hne : items ≠ []) (leaf : Bytes) (p : Proof)
    (ht : p.total = items.length)
    (hv : verify H (root H items) leaf p = .ok ()) :
    (0 ≤ p.index ∧ ∃ h : p.index.toNat < items.length, leaf = items[p.index.toNat])
      ∨ Nonempty (Collision H) := by
  unfold verify at hv
  split at hv; · cases hv
  split at hv; · cases hv
  rename_i hidx
  split at hv; · cases hv
  rename_i hleaf
  have hrootlen : (root H items).length = L := rootF_len H L hlen _ _
  have hrne : root H items ≠ [] := by
    intro h; rw [h] at hrootlen; simp at hrootlen; omega
  have hcomp : computeRoot H p = some (root H items) := by
    split at hv
    · simp [hrne] at hv
    · rename_i h heq; split at hv
      · rename_i e; rw [heq, e]
      · cases hv
  unfold computeRoot at hcomp
  have hpos : 0 < items.length := List.length_pos_iff.mpr hne
  split at hcomp; · cases hcomp
  rw [ht] at hcomp
  simp only [Int.toNat_natCast] at hcomp
  have hl : p.leafHash.length = L := by
    have : p.leafHash = leafHash H leaf := by simpa using hleaf
    rw [this]; simp [leafHash, hlen]
  rcases fromAunts_position H L hlen items.length items p.index.toNat p.leafHash p.aunts
      (Nat.le_refl _) hne hl hcomp with ⟨hi, he⟩ | hc
  · have hleaf' : leafHash H leaf = leafHash H items[p.index.toNat] := by
      have : p.leafHash = leafHash H leaf := by simpa using hleaf
      rw [← this]; exact he
    by_cases hx : (0 :: leaf : Bytes) = 0 :: items[p.index.toNat]
    · left; exact ⟨by omega, hi, (List.cons.inj hx).2⟩
    · right; exact ⟨⟨_, _, hx, hleaf'⟩⟩
  · right; exact hc

/-- `verify_position` with a *traced* collision: the alternative to the claim is a collision
between two byte strings that were actually passed to `H` in this very run — `0x00‖leaf` or an
inner node of the claimed path on one side, a node of the real tree on the other. (For a
fixed-length `H` "some collision exists" is true by counting and would make the disjunction
classically trivial; a collision inside these explicitly listed, linearly many inputs is not.) -/
theorem verify_position_traced (L : Nat) (hL : 0 < L) (hlen : ∀ x, (H x).length = L)
    (items : List Bytes) (hne : items ≠ []) (leaf : Bytes) (p : Proof)
    (ht : p.total = items.length)
    (hv : verify H (root H items) leaf p = .ok ()) :
    (0 ≤ p.index ∧ ∃ h : p.index.toNat < items.length, leaf = items[p.index.toNat])
      ∨ CollisionIn H
          ((0 :: leaf) :: pathPre H items.length p.index.toNat items.length (leafHash H leaf) p.aunts)
          (rootPre H items.length items) := by
  unfold verify at hv
  split at hv; · cases hv
  split at hv; · cases hv
  rename_i hidx
  split at hv; · cases hv
  rename_i hleaf
  have hrootlen : (root H items).length = L := rootF_len H L hlen _ _
  have hrne : root H items ≠ [] := by
    intro h; rw [h] at hrootlen; simp at hrootlen; omega
  have hcomp : computeRoot H p = some (root H items) := by
    split at hv
    · simp [hrne] at hv
    · rename_i h heq; split at hv
      · rename_i e; rw [heq, e]
      · cases hv
  unfold computeRoot at hcomp
  split at hcomp; · cases hcomp
  rw [ht] at hcomp
  simp only [Int.toNat_natCast] at hcomp
  have hlh : p.leafHash = leafHash H leaf := by simpa using hleaf
  rw [hlh] at hcomp
  rcases fromAunts_position_traced H L hlen items.length items p.index.toNat leaf p.aunts
      (Nat.le_refl _) hne hcomp with ⟨hi, he⟩ | hc
  · left; exact ⟨by omega, hi, he⟩
  · right; exact hc

/-- Inclusion with nothing pinned: whatever (index,total,path) the proof states, if it verifies
against the real root then the leaf is one of the items (or a collision is exhibited) — so
leaf/inner-node confusion, wrong-length aunts and transplanted paths can at worst restate the
position of a genuine item, never introduce a foreign one. -/
theorem verify_inclusion (L : Nat) (hL : 0 < L) (hlen : ∀ x, (H x).length = L)
    (items : List Bytes) (hne : items ≠ []) (leaf : Bytes) (p : Proof)
    (hv : verify H (root H items) leaf p = .ok ()) :
    leaf ∈ items ∨ Nonempty (Collision H) := by
  unfold verify at hv
  split at hv; · cases hv
  split at hv; · cases hv
  split at hv; · cases hv
  rename_i hleaf
  have hrootlen : (root H items).length = L := rootF_len H L hlen _ _
  have hrne : root H items ≠ [] := by
    intro h; rw [h] at hrootlen; simp at hrootlen; omega
  have hcomp : computeRoot H p = some (root H items) := by
    split at hv
    · simp [hrne] at hv
    · rename_i h heq; split at hv
      · rename_i e; rw [heq, e]
      · cases hv
  unfold computeRoot at hcomp
  split at hcomp; · cases hcomp
  have hlh : p.leafHash = leafHash H leaf := by simpa using hleaf
  rw [hlh] at hcomp
  exact fromAunts_inclusion H L hlen items.length items (Nat.le_refl _) hne _ _ _ leaf _ hcomp

/-- The proof a full node serves for transaction `i` validates against the block's data hash. -/
theorem txproof_validates (L : Nat) (hL : 0 < L) (hlen : ∀ x, (H x).length = L)
    (txs : List Bytes) (i : Nat) (hi : i < txs.length) :
    validate H (txsHash H txs) (proofFor H txs i) = .ok () := by
  have hi' : i < (txs.map H).length := by simpa using hi
  have hv := proofs_verify H (txs.map H) i hi'
  unfold validate proofFor txsHash
  have hd : txs.getD i [] = txs[i] := by simp [List.getD_eq_getElem?_getD, hi]
  have h1 : ¬ ((proofOf H (txs.map H) i).index < 0) := by simp [proofOf]
  have h2 : ¬ ((proofOf H (txs.map H) i).total ≤ 0) := by
    simp only [proofOf, List.length_map]; omega
  simp only [ne_eq, not_true_eq_false, if_false, h1, h2, hd]
  have : (txs.map H)[i] = H txs[i] := by simp
  rw [this] at hv
  rw [hv]

/-- A transaction proof that validates against the data hash of a block whose transactions are
`txs`, and that states the true number of transactions, is for the transaction that sits at the
stated index (or a collision is exhibited). -/
theorem txproof_position (L : Nat) (hL : 0 < L) (hlen : ∀ x, (H x).length = L)
    (txs : List Bytes) (hne : txs ≠ []) (tp : TxProof)
    (ht : tp.proof.total = txs.length)
    (hv : validate H (txsHash H txs) tp = .ok ()) :
    (0 ≤ tp.proof.index ∧ ∃ h : tp.proof.index.toNat < txs.length, tp.data = txs[tp.proof.index.toNat])
      ∨ Nonempty (Collision H) := by
  unfold validate at hv
  split at hv; · cases hv
  rename_i hdh
  split at hv; · cases hv
  split at hv; · cases hv
  split at hv
  · rename_i u hver
    have hroot : tp.rootHash = root H (txs.map H) := by
      have : txsHash H txs = tp.rootHash := by simpa using hdh
      rw [← this]; rfl
    rw [hroot] at hver
    have hver' : verify H (root H (txs.map H)) (H tp.data) tp.proof = .ok () := by rw [hver]
    rcases verify_position H L hL hlen (txs.map H) (by simpa using hne) (H tp.data) tp.proof
        (by simpa using ht) hver' with ⟨h0, hi, he⟩ | hc
    · have hi' : tp.proof.index.toNat < txs.length := by simpa using hi
      simp only [List.getElem_map] at he
      by_cases hx : tp.data = txs[tp.proof.index.toNat]
      · left; exact ⟨h0, hi', hx⟩
      · right; exact ⟨⟨_, _, hx, he⟩⟩
    · right; exact hc
  · cases hv

/-- `Verify` alone does not bind `total`: in a 2-leaf tree, the second item also verifies as
"item 2 of 3". This is why callers (e.g. `AddPart`) must pin `total` themselves. -/
theorem total_not_bound_by_verify (a b : Bytes) :
    verify H (root H [a, b]) b
      { total := 3, index := 2, leafHash := leafHash H b, aunts := [leafHash H a] } = .ok () := by
  have s3 : splitPoint 3 = 2 := by decide
  have s2 : splitPoint 2 = 1 := by decide
  simp [verify, computeRoot, root, rootF, fromAunts, s3, s2]

/-- Splitting and re-joining is the identity. -/
theorem split_join (data : Bytes) (psize : Nat) (h : 0 < psize) :
    (split data psize).flatten = data := by
  unfold split
  have : ∀ (fuel : Nat) (d : Bytes), d.length ≤ fuel → (splitF fuel d psize).flatten = d := by
    intro fuel
    induction fuel with
    | zero => intro d hd; have : d = [] := List.length_eq_zero_iff.mp (by omega); simp [splitF, this]
    | succ f ih =>
      intro d hd
      unfold splitF
      split
      · rename_i he; simp [he]
      · rename_i hne
        have hdpos : 0 < d.length := List.length_pos_iff.mpr hne
        simp only [List.flatten_cons]
        rw [ih (d.drop psize) (by simp; omega)]
        exact List.take_append_drop psize d
  exact this _ _ (Nat.le_refl _)

/-- `AddPart` accepts a part at slot `i` only if its bytes are the `i`-th piece of the data the
header commits to (root and part count), or a collision is exhibited. -/
theorem addPart_binds_position (L : Nat) (hL : 0 < L) (hlen : ∀ x, (H x).length = L)
    (pieces : List Bytes) (hne : pieces ≠ []) (ps ps' : PartSet) (p : Part)
    (htot : ps.total = pieces.length) (hhash : ps.hash = root H pieces)
    (hadd : addPart H ps p = (ps', .added)) :
    (∃ h : p.index < pieces.length, p.bytes = pieces[p.index]) ∨ Nonempty (Collision H) := by
  unfold addPart at hadd
  split at hadd; · cases hadd
  split at hadd; · cases hadd
  split at hadd; · cases hadd
  rename_i hpos
  split at hadd; · cases hadd
  rename_i u hv
  have hpi : p.proof.index = (p.index : Int) := by
    rcases Decidable.em (p.proof.index = (p.index : Int)) with h | h
    · exact h
    · exact absurd (Or.inl h) hpos
  have hpt : p.proof.total = (ps.total : Int) := by
    rcases Decidable.em (p.proof.total = (ps.total : Int)) with h | h
    · exact h
    · exact absurd (Or.inr h) hpos
  rw [hhash] at hv
  have hv' : verify H (root H pieces) p.bytes p.proof = .ok () := by rw [hv]
  rcases verify_position H L hL hlen pieces hne p.bytes p.proof (by rw [hpt, htot]) hv' with
    ⟨_, hi, he⟩ | hc
  · left
    have : p.proof.index.toNat = p.index := by rw [hpi]; simp
    simp only [this] at hi he
    exact ⟨hi, he⟩
  · right; exact hc

/-- running `AddPart` over any sequence of offered parts (any order, repetitions, junk) -/
def addAll (ps : PartSet) (offers : List Part) : PartSet :=
  offers.foldl (fun s p => (addPart H s p).1) ps

/-- the invariant carried through every delivery sequence -/
def Good (pieces : List Bytes) (ps : PartSet) : Prop :=
  ps.total = pieces.length ∧ ps.hash = root H pieces ∧ ps.parts.length = pieces.length ∧
  ∀ (i : Nat) (q : Part), ps.parts[i]? = some (some q) → pieces[i]? = some q.bytes

theorem good_step (L : Nat) (hL : 0 < L) (hlen : ∀ x, (H x).length = L)
    (pieces : List Bytes) (hne : pieces ≠ []) (hno : ¬ Nonempty (Collision H))
    (ps : PartSet) (p : Part) (hg : Good H pieces ps) : Good H pieces (addPart H ps p).1 := by
  rcases hres : addPart H ps p with ⟨ps', r⟩
  cases r with
  | added =>
    obtain ⟨h1, h2, h3, h4⟩ := hg
    rcases addPart_binds_position H L hL hlen pieces hne ps ps' p h1 h2 hres with ⟨hi, he⟩ | hc
    · have hps' : ps' = { ps with parts := ps.parts.set p.index (some p) } := by
        unfold addPart at hres
        split at hres; · cases hres
        split at hres; · cases hres
        split at hres; · cases hres
        split at hres; · cases hres
        exact (Prod.mk.inj hres).1.symm
      subst hps'
      refine ⟨h1, h2, by simpa using h3, ?_⟩
      intro i q hq
      simp only [List.getElem?_set] at hq
      split at hq
      · rename_i heq
        split at hq
        · simp at hq; subst hq; subst heq; simp [hi, he]
        · cases hq
      · exact h4 i q hq
    · exact absurd hc hno
  | dup | errIndex | errProof =>
    have : ps' = ps := by
      unfold addPart at hres
      split at hres; · exact (Prod.mk.inj hres).1.symm
      split at hres; · exact (Prod.mk.inj hres).1.symm
      split at hres; · exact (Prod.mk.inj hres).1.symm
      split at hres
      · exact (Prod.mk.inj hres).1.symm
      · cases (Prod.mk.inj hres).2
    simpa [this] using hg

/-- A part set created from a header and completed through `AddPart` — whatever was offered, in
whatever order, however often — reassembles to exactly the original bytes (hence the original
block hash), or a collision exists. -/
theorem complete_reassembles (L : Nat) (hL : 0 < L) (hlen : ∀ x, (H x).length = L)
    (data : Bytes) (psize : Nat) (hps : 0 < psize) (hd : data ≠ [])
    (offers : List Part)
    (hcomplete : isComplete (addAll H (fromHeader (split data psize).length
        (root H (split data psize))) offers) = true) :
    assemble (addAll H (fromHeader (split data psize).length (root H (split data psize))) offers)
        = data ∨ Nonempty (Collision H) := by
  by_cases hno : Nonempty (Collision H)
  · right; exact hno
  left
  have hne : split data psize ≠ [] := by
    intro h
    have := split_join data psize hps
    rw [h] at this; simp at this; exact hd this
  generalize hpieces : split data psize = pieces at *
  have hinit : Good H pieces (fromHeader pieces.length (root H pieces)) := by
    refine ⟨rfl, rfl, by simp [fromHeader], ?_⟩
    intro i q hq
    simp [fromHeader, List.getElem?_replicate] at hq
  have hall : ∀ (offers : List Part) (ps : PartSet), Good H pieces ps →
      Good H pieces (addAll H ps offers) := by
    intro offers
    induction offers with
    | nil => intro ps h; exact h
    | cons o os ih =>
      intro ps h
      exact ih _ (good_step H L hL hlen pieces hne hno ps o h)
  have hfin := hall offers _ hinit
  generalize addAll H (fromHeader pieces.length (root H pieces)) offers = fin at *
  obtain ⟨h1, _, h3, h4⟩ := hfin
  -- complete: every slot is filled
  have hfull : ∀ i, i < fin.parts.length → ∃ q, fin.parts[i]? = some (some q) := by
    have hc : (fin.parts.filter Option.isSome).length = fin.parts.length := by
      have := hcomplete
      simp [isComplete, count] at this
      omega
    have hallsome : ∀ o ∈ fin.parts, o.isSome = true := List.length_filter_eq_length_iff.mp hc
    intro i hi
    have hm := hallsome fin.parts[i] (List.getElem_mem hi)
    rcases hq : fin.parts[i] with _ | q
    · rw [hq] at hm; cases hm
    · exact ⟨q, by simp [hi, hq]⟩
  have hmap : (fin.parts.map partBytes) = pieces := by
    apply List.ext_getElem?
    intro i
    by_cases hi : i < fin.parts.length
    · obtain ⟨q, hq⟩ := hfull i hi
      have := h4 i q hq
      simp [hq, this, partBytes]
    · have h5 : pieces.length ≤ i := by omega
      simp [List.getElem?_eq_none_iff.mpr h5, List.getElem?_eq_none_iff.mpr (Nat.le_of_not_lt hi)]
  unfold assemble
  simp only [hmap]
  rw [← hpieces]
  exact split_join data psize hps


/-! ## Traced versions: the collision alternative is among the strings hashed in this run -/

/-- `verify_inclusion` with a traced collision. -/
theorem verify_inclusion_traced (L : Nat) (hL : 0 < L) (hlen : ∀ x, (H x).length = L)
    (items : List Bytes) (hne : items ≠ []) (leaf : Bytes) (p : Proof)
    (hv : verify H (root H items) leaf p = .ok ()) :
    leaf ∈ items ∨ CollisionIn H
      ((0 :: leaf) :: pathPre H p.total.toNat p.index.toNat p.total.toNat (leafHash H leaf) p.aunts)
      (rootPre H items.length items) := by
  unfold verify at hv
  split at hv; · cases hv
  split at hv; · cases hv
  split at hv; · cases hv
  rename_i hleaf
  have hrootlen : (root H items).length = L := rootF_len H L hlen _ _
  have hrne : root H items ≠ [] := by
    intro h; rw [h] at hrootlen; simp at hrootlen; omega
  have hcomp : computeRoot H p = some (root H items) := by
    split at hv
    · simp [hrne] at hv
    · rename_i h heq; split at hv
      · rename_i e; rw [heq, e]
      · cases hv
  unfold computeRoot at hcomp
  split at hcomp; · cases hcomp
  have hlh : p.leafHash = leafHash H leaf := by simpa using hleaf
  rw [hlh] at hcomp
  exact fromAunts_inclusion_traced H L hlen items.length items (Nat.le_refl _) hne _ _ _ leaf _ hcomp

/-- the strings hashed while `AddPart` checks part `p` against a header of `n` parts -/
def partPre (n : Nat) (p : Part) : List Bytes :=
  (0 :: p.bytes) :: pathPre H n p.index n (leafHash H p.bytes) p.proof.aunts

/-- `addPart_binds_position` with a traced collision. -/
theorem addPart_binds_position_traced (L : Nat) (hL : 0 < L) (hlen : ∀ x, (H x).length = L)
    (pieces : List Bytes) (hne : pieces ≠ []) (ps ps' : PartSet) (p : Part)
    (htot : ps.total = pieces.length) (hhash : ps.hash = root H pieces)
    (hadd : addPart H ps p = (ps', .added)) :
    (∃ h : p.index < pieces.length, p.bytes = pieces[p.index]) ∨
      CollisionIn H (partPre H pieces.length p) (rootPre H pieces.length pieces) := by
  unfold addPart at hadd
  split at hadd; · cases hadd
  split at hadd; · cases hadd
  split at hadd; · cases hadd
  rename_i hpos
  split at hadd; · cases hadd
  rename_i u hv
  have hpi : p.proof.index = (p.index : Int) := by
    rcases Decidable.em (p.proof.index = (p.index : Int)) with h | h
    · exact h
    · exact absurd (Or.inl h) hpos
  have hpt : p.proof.total = (ps.total : Int) := by
    rcases Decidable.em (p.proof.total = (ps.total : Int)) with h | h
    · exact h
    · exact absurd (Or.inr h) hpos
  rw [hhash] at hv
  have hv' : verify H (root H pieces) p.bytes p.proof = .ok () := by rw [hv]
  have hidx : p.proof.index.toNat = p.index := by rw [hpi]; simp
  rcases verify_position_traced H L hL hlen pieces hne p.bytes p.proof (by rw [hpt, htot]) hv' with
    ⟨_, hi, he⟩ | hc
  · left
    simp only [hidx] at hi he
    exact ⟨hi, he⟩
  · right
    simp only [hidx] at hc
    exact hc

theorem good_step_traced (L : Nat) (hL : 0 < L) (hlen : ∀ x, (H x).length = L)
    (pieces : List Bytes) (hne : pieces ≠ [])
    (ps : PartSet) (p : Part) (hg : Good H pieces ps)
    (hno : ¬ CollisionIn H (partPre H pieces.length p) (rootPre H pieces.length pieces)) :
    Good H pieces (addPart H ps p).1 := by
  rcases hres : addPart H ps p with ⟨ps', r⟩
  cases r with
  | added =>
    obtain ⟨h1, h2, h3, h4⟩ := hg
    rcases addPart_binds_position_traced H L hL hlen pieces hne ps ps' p h1 h2 hres with ⟨hi, he⟩ | hc
    · have hps' : ps' = { ps with parts := ps.parts.set p.index (some p) } := by
        unfold addPart at hres
        split at hres; · cases hres
        split at hres; · cases hres
        split at hres; · cases hres
        split at hres; · cases hres
        exact (Prod.mk.inj hres).1.symm
      subst hps'
      refine ⟨h1, h2, by simpa using h3, ?_⟩
      intro i q hq
      simp only [List.getElem?_set] at hq
      split at hq
      · rename_i heq
        split at hq
        · simp at hq; subst hq; subst heq; simp [hi, he]
        · cases hq
      · exact h4 i q hq
    · exact absurd hc hno
  | dup | errIndex | errProof =>
    have : ps' = ps := by
      unfold addPart at hres
      split at hres; · exact (Prod.mk.inj hres).1.symm
      split at hres; · exact (Prod.mk.inj hres).1.symm
      split at hres; · exact (Prod.mk.inj hres).1.symm
      split at hres
      · exact (Prod.mk.inj hres).1.symm
      · cases (Prod.mk.inj hres).2
    simpa [this] using hg

/-- `complete_reassembles` with a traced collision: a completed part set reassembles to the
original bytes unless one of the OFFERED parts collides, on a string hashed while checking it,
with a node of the real tree. -/
theorem complete_reassembles_traced (L : Nat) (hL : 0 < L) (hlen : ∀ x, (H x).length = L)
    (data : Bytes) (psize : Nat) (hps : 0 < psize) (hd : data ≠ [])
    (offers : List Part)
    (hcomplete : isComplete (addAll H (fromHeader (split data psize).length
        (root H (split data psize))) offers) = true) :
    assemble (addAll H (fromHeader (split data psize).length (root H (split data psize))) offers)
        = data ∨
      ∃ p ∈ offers, CollisionIn H (partPre H (split data psize).length p)
        (rootPre H (split data psize).length (split data psize)) := by
  by_cases hex : ∃ p ∈ offers, CollisionIn H (partPre H (split data psize).length p)
        (rootPre H (split data psize).length (split data psize))
  · right; exact hex
  left
  have hnone : ∀ p ∈ offers, ¬ CollisionIn H (partPre H (split data psize).length p)
        (rootPre H (split data psize).length (split data psize)) := by
    intro p hp hc; exact hex ⟨p, hp, hc⟩
  have hne : split data psize ≠ [] := by
    intro h
    have := split_join data psize hps
    rw [h] at this; simp at this; exact hd this
  generalize hpieces : split data psize = pieces at *
  have hinit : Good H pieces (fromHeader pieces.length (root H pieces)) := by
    refine ⟨rfl, rfl, by simp [fromHeader], ?_⟩
    intro i q hq
    simp [fromHeader, List.getElem?_replicate] at hq
  have hall : ∀ (os : List Part) (ps : PartSet), (∀ p ∈ os, ¬ CollisionIn H (partPre H pieces.length p)
        (rootPre H pieces.length pieces)) → Good H pieces ps → Good H pieces (addAll H ps os) := by
    intro os
    induction os with
    | nil => intro ps _ h; exact h
    | cons o os ih =>
      intro ps hn h
      exact ih _ (fun p hp => hn p (List.mem_cons_of_mem _ hp))
        (good_step_traced H L hL hlen pieces hne ps o h (hn o (List.mem_cons_self)))
  have hfin := hall offers _ hnone hinit
  generalize addAll H (fromHeader pieces.length (root H pieces)) offers = fin at *
  obtain ⟨h1, _, h3, h4⟩ := hfin
  have hfull : ∀ i, i < fin.parts.length → ∃ q, fin.parts[i]? = some (some q) := by
    have hc : (fin.parts.filter Option.isSome).length = fin.parts.length := by
      have := hcomplete
      simp [isComplete, count] at this
      omega
    have hallsome : ∀ o ∈ fin.parts, o.isSome = true := List.length_filter_eq_length_iff.mp hc
    intro i hi
    have hm := hallsome fin.parts[i] (List.getElem_mem hi)
    rcases hq : fin.parts[i] with _ | q
    · rw [hq] at hm; cases hm
    · exact ⟨q, by simp [hi, hq]⟩
  have hmap : (fin.parts.map partBytes) = pieces := by
    apply List.ext_getElem?
    intro i
    by_cases hi : i < fin.parts.length
    · obtain ⟨q, hq⟩ := hfull i hi
      have := h4 i q hq
      simp [hq, this, partBytes]
    · have h5 : pieces.length ≤ i := by omega
      simp [List.getElem?_eq_none_iff.mpr h5, List.getElem?_eq_none_iff.mpr (Nat.le_of_not_lt hi)]
  unfold assemble
  simp only [hmap]
  rw [← hpieces]
  exact split_join data psize hps


/-! ## The wire glue: honest parts pass `Part.ValidateBasic` -/

theorem splitF_piece_len (psize : Nat) : ∀ (fuel : Nat) (d : Bytes) (x : Bytes),
    x ∈ splitF fuel d psize → x.length ≤ psize := by
  intro fuel
  induction fuel with
  | zero => intro d x hx; simp [splitF] at hx
  | succ f ih =>
    intro d x hx
    unfold splitF at hx
    split at hx
    · simp at hx
    · simp only [List.mem_cons] at hx
      rcases hx with rfl | hx
      · simp [List.length_take]; omega
      · exact ih _ _ hx

/-- Every part a correct proposer cuts (part size within `BlockPartSizeBytes`, fewer than 2^100
parts) passes the validation the reactor applies to parts from the wire, for any 32-byte hash —
so `ValidateBasic` never stands between an honest part and `AddPart`. (`100 ≤ maxAunts` is
discharged from the regenerated constant: changing `merkle.MaxAunts` below 100 breaks this proof.) -/
theorem honest_parts_validate (hlen : ∀ x, (H x).length = hashSize)
    (data : Bytes) (psize : Nat) (hpsz : psize ≤ blockPartSizeBytes)
    (hcount : (split data psize).length ≤ 2 ^ 100)
    (i : Nat) (hi : i < (split data psize).length) :
    partValidateBasic { index := i, bytes := (split data psize)[i],
                        proof := proofOf H (split data psize) i } = .ok () := by
  have hma : 100 ≤ maxAunts := by decide
  generalize hp : split data psize = pieces at *
  have hne : pieces ≠ [] := by intro h; subst h; simp at hi
  have hpl : pieces[i].length ≤ psize := by
    have hm : pieces[i] ∈ pieces := List.getElem_mem hi
    have hm' : pieces[i] ∈ split data psize := by rw [hp]; exact hm
    exact splitF_piece_len psize _ _ _ hm'
  have ha := auntsF_le_maxAunts H pieces i hne hcount
  have hal := aunts_len_hash H hashSize hlen pieces.length pieces i
  unfold partValidateBasic proofValidateBasic proofOf
  have h1 : ¬ pieces[i].length > blockPartSizeBytes := by omega
  have h2 : ¬ ((pieces.length : Int) < 0) := by omega
  have h3 : ¬ ((i : Int) < 0) := by omega
  have h4 : (leafHash H (pieces[i]?.getD [])).length = hashSize := by simp [leafHash, hlen]
  have h5 : ¬ (auntsF H pieces.length pieces i).length > maxAunts := by omega
  have h6 : (auntsF H pieces.length pieces i).all (fun a => a.length == hashSize) = true := by
    rw [List.all_eq_true]
    intro a haa
    simpa using hal a haa
  simp [h1, h2, h3, h4, h5, h6]


/-! ## Any committed leaves (not only the pieces `NewPartSetFromData` cuts), the reader, `HasHeader` -/

/-- `complete_reassembles_traced` for ANY non-empty list of leaves the header commits to — pieces
of any sizes, empty pieces included (a proposer need not cut with `NewPartSetFromData`): a part set
made from the header `(pieces.length, root pieces)` and completed through `AddPart`, whatever was
offered, holds exactly `pieces`, so it reassembles to their concatenation — unless one of the
OFFERED parts collides with a node of the real tree. -/
theorem complete_reassembles_leaves_traced (L : Nat) (hL : 0 < L) (hlen : ∀ x, (H x).length = L)
    (pieces : List Bytes) (hne : pieces ≠ []) (offers : List Part)
    (hcomplete : isComplete (addAll H (fromHeader pieces.length (root H pieces)) offers) = true) :
    ((addAll H (fromHeader pieces.length (root H pieces)) offers).parts.map partBytes = pieces ∧
      assemble (addAll H (fromHeader pieces.length (root H pieces)) offers) = pieces.flatten) ∨
      ∃ p ∈ offers, CollisionIn H (partPre H pieces.length p) (rootPre H pieces.length pieces) := by
  by_cases hex : ∃ p ∈ offers, CollisionIn H (partPre H pieces.length p) (rootPre H pieces.length pieces)
  · right; exact hex
  left
  have hnone : ∀ p ∈ offers, ¬ CollisionIn H (partPre H pieces.length p)
        (rootPre H pieces.length pieces) := by
    intro p hp hc; exact hex ⟨p, hp, hc⟩
  have hinit : Good H pieces (fromHeader pieces.length (root H pieces)) := by
    refine ⟨rfl, rfl, by simp [fromHeader], ?_⟩
    intro i q hq
    simp [fromHeader, List.getElem?_replicate] at hq
  have hall : ∀ (os : List Part) (ps : PartSet), (∀ p ∈ os, ¬ CollisionIn H (partPre H pieces.length p)
        (rootPre H pieces.length pieces)) → Good H pieces ps → Good H pieces (addAll H ps os) := by
    intro os
    induction os with
    | nil => intro ps _ h; exact h
    | cons o os ih =>
      intro ps hn h
      exact ih _ (fun p hp => hn p (List.mem_cons_of_mem _ hp))
        (good_step_traced H L hL hlen pieces hne ps o h (hn o (List.mem_cons_self)))
  have hfin := hall offers _ hnone hinit
  generalize addAll H (fromHeader pieces.length (root H pieces)) offers = fin at *
  obtain ⟨h1, _, h3, h4⟩ := hfin
  have hfull : ∀ i, i < fin.parts.length → ∃ q, fin.parts[i]? = some (some q) := by
    have hc : (fin.parts.filter Option.isSome).length = fin.parts.length := by
      have := hcomplete
      simp [isComplete, count] at this
      omega
    have hallsome : ∀ o ∈ fin.parts, o.isSome = true := List.length_filter_eq_length_iff.mp hc
    intro i hi
    have hm := hallsome fin.parts[i] (List.getElem_mem hi)
    rcases hq : fin.parts[i] with _ | q
    · rw [hq] at hm; cases hm
    · exact ⟨q, by simp [hi, hq]⟩
  have hmap : (fin.parts.map partBytes) = pieces := by
    apply List.ext_getElem?
    intro i
    by_cases hi : i < fin.parts.length
    · obtain ⟨q, hq⟩ := hfull i hi
      have := h4 i q hq
      simp [hq, this, partBytes]
    · have h5 : pieces.length ≤ i := by omega
      simp [List.getElem?_eq_none_iff.mpr h5, List.getElem?_eq_none_iff.mpr (Nat.le_of_not_lt hi)]
  exact ⟨hmap, by unfold assemble; rw [hmap]⟩

/-- One `PartSetReader.Read` with a non-empty buffer of `n` bytes delivers exactly the next `n` bytes
of the concatenation of the parts (fewer only when fewer remain, an empty part in the middle is
stepped over), leaves exactly the rest unread, and reports `io.EOF` iff fewer than `n` remained. -/
theorem reader_read_exact (rest : List Bytes) (cur : Bytes) (n : Nat) (hn : 0 < n) :
    (rd rest cur n).1 = (cur ++ rest.flatten).take n ∧
    (rd rest cur n).2.1 ++ (rd rest cur n).2.2.1.flatten = (cur ++ rest.flatten).drop n ∧
    ((rd rest cur n).2.2.2 = true ↔ (cur ++ rest.flatten).length < n) :=
  rd_spec rest cur n hn

/-- Every read schedule: whatever non-empty buffer sizes a caller of `GetReader` uses, the chunks it
is handed, concatenated, are the first `sizes.sum` bytes of the concatenation of the parts — no gap,
no repetition, no reordering — and the `k`-th read reports EOF exactly when the data ran out within it. -/
theorem reader_any_schedule (ps : PartSet) (sizes : List Nat) (hp : ∀ n ∈ sizes, 0 < n) :
    (((rdSeq sizes (readerOf ps).1 (readerOf ps).2).map Prod.fst).flatten
        = (assemble ps).take sizes.sum) ∧
    ∀ k, k < sizes.length →
      ((((rdSeq sizes (readerOf ps).1 (readerOf ps).2)[k]?).map Prod.snd = some true) ↔
        (assemble ps).length < (sizes.take (k+1)).sum) := by
  have hasm : (readerOf ps).1 ++ (readerOf ps).2.flatten = assemble ps := by
    unfold readerOf assemble
    cases ps.parts.map partBytes with
    | nil => simp
    | cons c r => simp
  refine ⟨?_, ?_⟩
  · rw [rdSeq_flatten sizes hp, hasm]
  · intro k hk
    rw [rdSeq_eof sizes hp _ _ k hk, hasm]

/-- `HasHeader` is header equality: part count AND root. -/
theorem hasHeader_iff (ps : PartSet) (total : Nat) (hash : Bytes) :
    hasHeader (some ps) total hash = true ↔ ps.total = total ∧ ps.hash = hash := by
  simp [hasHeader]

theorem hasHeader_nil (total : Nat) (hash : Bytes) : hasHeader none total hash = false := rfl

/-- `AddPart` never changes the header of the set (whatever is delivered). -/
theorem addAll_keeps_header (ps : PartSet) (offers : List Part) :
    (addAll H ps offers).total = ps.total ∧ (addAll H ps offers).hash = ps.hash := by
  induction offers generalizing ps with
  | nil => exact ⟨rfl, rfl⟩
  | cons o os ih =>
    have h1 : (addPart H ps o).1.total = ps.total ∧ (addPart H ps o).1.hash = ps.hash := by
      unfold addPart
      split; · exact ⟨rfl, rfl⟩
      split; · exact ⟨rfl, rfl⟩
      split; · exact ⟨rfl, rfl⟩
      split <;> exact ⟨rfl, rfl⟩
    have := ih (addPart H ps o).1
    simp only [addAll, List.foldl_cons] at this ⊢
    exact ⟨this.1.trans h1.1, this.2.trans h1.2⟩

/-- The chain consensus relies on when it keeps the part set it already holds for a committed block
id: a set that was created from its own header, `HasHeader` the committed header
`(pieces.length, root pieces)`, and was completed by `AddPart` reads back — under every read
schedule — as the committed bytes, or an offered part collides with the real tree. (With the part
count left out of `HasHeader` the conclusion `t = pieces.length` of `hasHeader_iff` is gone and a set with another
count is kept, which can never complete.) -/
theorem kept_set_reads_committed (L : Nat) (hL : 0 < L) (hlen : ∀ x, (H x).length = L)
    (pieces : List Bytes) (hne : pieces ≠ []) (t : Nat) (r : Bytes) (offers : List Part)
    (hhas : hasHeader (some (addAll H (fromHeader t r) offers)) pieces.length (root H pieces) = true)
    (hcomplete : isComplete (addAll H (fromHeader t r) offers) = true)
    (sizes : List Nat) (hp : ∀ n ∈ sizes, 0 < n) :
    (((rdSeq sizes (readerOf (addAll H (fromHeader t r) offers)).1
        (readerOf (addAll H (fromHeader t r) offers)).2).map Prod.fst).flatten
        = pieces.flatten.take sizes.sum) ∨
      ∃ p ∈ offers, CollisionIn H (partPre H pieces.length p) (rootPre H pieces.length pieces) := by
  rw [hasHeader_iff] at hhas
  obtain ⟨ht, hr⟩ := hhas
  have hkeep := addAll_keeps_header H (fromHeader t r) offers
  simp only [fromHeader] at hkeep
  have ht' : t = pieces.length := by rw [← hkeep.1]; exact ht
  have hr' : r = root H pieces := by rw [← hkeep.2]; exact hr
  subst ht'; subst hr'
  rcases complete_reassembles_leaves_traced H L hL hlen pieces hne offers hcomplete with ⟨_, ha⟩ | hc
  · left
    rw [(reader_any_schedule _ sizes hp).1, ha]
  · right; exact hc


/-! ## The consumer: what consensus hands to the block decoder -/

/-- `State.addProposalBlockPart` behind the reactor's `ValidateBasic`, over ANY sequence of block
part messages (any heights, rounds, orders, repetitions, junk, oversized sets): once the state
expects the parts of the header `(pieces.length, root pieces)`, the only byte string it ever hands
to the block decoder is the concatenation of the committed pieces — so the block it votes on is the
one the header commits to — unless one of the offered parts collides with a node of the real tree. -/
theorem cons_block_is_committed (L : Nat) (hL : 0 < L) (hlen : ∀ x, (H x).length = L)
    (pieces : List Bytes) (hne : pieces ≠ []) (h maxBytes : Int) (msgs : List (Int × Int × Part))
    (b : Bytes)
    (hb : (consRun H (PartsState.mk h maxBytes (some (fromHeader pieces.length (root H pieces))) none)
        msgs).block = some b) :
    b = pieces.flatten ∨
      ∃ m ∈ msgs, CollisionIn H (partPre H pieces.length m.2.2) (rootPre H pieces.length pieces) := by
  have hinv := consRun_inv H (fromHeader pieces.length (root H pieces)) (msgs.map (·.2.2)) msgs
    (PartsState.mk h maxBytes (some (fromHeader pieces.length (root H pieces))) none)
    (fun m hm => List.mem_map.mpr ⟨m, hm, rfl⟩)
    ⟨⟨[], by simp, rfl⟩, by intro b hb; cases hb⟩
  obtain ⟨acc', hacc', hcomp, hasm⟩ := hinv.2 b hb
  rcases complete_reassembles_leaves_traced H L hL hlen pieces hne acc' hcomp with ⟨_, ha⟩ | ⟨p, hp, hc⟩
  · left; rw [hasm]; exact ha
  · right
    obtain ⟨m, hm, hmp⟩ := List.mem_map.mp (hacc' p hp)
    exact ⟨m, hm, by rw [hmp]; exact hc⟩

/-- A part that fails the reactor's `ValidateBasic`, or is for another height, changes nothing. -/
theorem cons_ignores_invalid (s : PartsState) (h r : Int) (p : Part)
    (hbad : h < 0 ∨ r < 0 ∨ (partValidateBasic p ≠ .ok ()) ∨ s.height ≠ h) :
    (consAddPart H s h r p).1 = s := by
  unfold consAddPart
  split; · rfl
  rename_i hneg
  split; · rfl
  rename_i hv
  split; · rfl
  rename_i hh
  rcases hbad with h1 | h1 | h1 | h1
  · exact absurd (Or.inl h1) hneg
  · exact absurd (Or.inr h1) hneg
  · exact absurd hv h1
  · exact absurd h1 hh


/-! ## The gate in front of the header: only a complete block id becomes a part set -/

/-- A proposal that passes `Proposal.ValidateBasic` carries a part-set header with a positive part
count and a root of hash length (so `defaultSetProposal` never builds a part set from a header
without a root). -/
theorem proposal_header_complete (p : ProposalHdr) (h : proposalValidateBasic p = .ok ()) :
    p.root.length = hashSize ∧ 0 < p.total ∧ p.blockHash.length = hashSize := by
  unfold proposalValidateBasic at h
  split at h; · cases h
  split at h; · cases h
  split at h; · cases h
  split at h; · cases h
  split at h; · cases h
  split at h; · cases h
  rename_i hc
  simp [isCompleteID] at hc
  exact ⟨hc.2, Nat.pos_of_ne_zero hc.1.2, hc.1.1⟩

/-- A proof whose (index, total, number of aunts) describe no path is refused against EVERY root,
the empty one included (before the `fix:` commit Go's `bytes.Equal(nil, [])` made it verify against
an empty root for any item). -/
theorem shapeless_proof_never_verifies (r leaf : Bytes) (p : Proof)
    (hshape : computeRoot H p = none) : ∀ u, verify H r leaf p ≠ .ok u := by
  intro u
  unfold verify
  split; · simp
  split; · simp
  split; · simp
  rw [hshape]
  simp

/-- Hence no part set — whatever its header, a rootless one included — accepts a part carried by
such a proof. -/
theorem header_rejects_shapeless (ps : PartSet) (p : Part)
    (hshape : computeRoot H p.proof = none) : (addPart H ps p).2 ≠ .added := by
  unfold addPart
  split; · simp
  split; · simp
  split; · simp
  split
  · simp
  · rename_i u hu; exact absurd hu (shapeless_proof_never_verifies H ps.hash p.bytes p.proof hshape u)

/-- A header WITHOUT a root (which commits to no data) accepts nothing at all: a verifying proof
computes a hash, and a hash is never empty. -/
theorem rootless_header_accepts_nothing (L : Nat) (hL : 0 < L) (hlen : ∀ x, (H x).length = L)
    (ps : PartSet) (hroot : ps.hash = []) (p : Part) : (addPart H ps p).2 ≠ .added := by
  unfold addPart
  split; · simp
  split; · simp
  split; · simp
  split
  · simp
  · rename_i u hu
    exfalso
    unfold verify at hu
    split at hu; · cases hu
    split at hu; · cases hu
    split at hu; · cases hu
    rename_i hleaf
    have hleaf' : p.proof.leafHash = leafHash H p.bytes := by simpa using hleaf
    split at hu
    · cases hu
    · rename_i h hc
      split at hu
      · rename_i heq
        -- the computed root is the leaf hash or an inner hash: length L > 0, never the empty root
        have hlenh : h.length = L := by
          unfold computeRoot at hc
          split at hc; · cases hc
          revert hc
          generalize p.proof.total.toNat = n
          generalize p.proof.index.toNat = i
          intro hc
          cases n with
          | zero => simp [fromAunts] at hc
          | succ n =>
            unfold fromAunts at hc
            split at hc; · cases hc
            split at hc
            · split at hc
              · simp only [Option.some.injEq] at hc; rw [← hc, hleaf']; simp [leafHash, hlen]
              · cases hc
            · split at hc
              · cases hc
              · simp only [] at hc
                split at hc
                · simp only [Option.map_eq_some_iff] at hc
                  obtain ⟨l, _, hl⟩ := hc
                  rw [← hl]; simp [innerHash, hlen]
                · simp only [Option.map_eq_some_iff] at hc
                  obtain ⟨l, _, hl⟩ := hc
                  rw [← hl]; simp [innerHash, hlen]
        rw [heq, hroot] at hlenh
        simp at hlenh
        omega
      · cases hu

example : proposalValidateBasic {
    isProposalType := true, height := 3, round := 0, polRound := -1,
    blockHash := List.replicate 32 1, total := 1, root := List.replicate 32 2, sigLen := 64 } = .ok () := by
  simp [proposalValidateBasic, validateHash, isCompleteID, hashSize, maxSignatureSize]
example : proposalValidateBasic {
    isProposalType := true, height := 3, round := 0, polRound := -1,
    blockHash := List.replicate 32 1, total := 1, root := [], sigLen := 64 } = .error .incomplete := by
  simp [proposalValidateBasic, validateHash, isCompleteID, hashSize, maxSignatureSize]


/-! ## The block store keeps what the part set held -/

/-- `LoadBlock` after `SaveBlock` of the part set cut from `data`: exactly `data` reaches the decoder,
and saving other heights in between does not disturb it. -/
theorem store_load_after_save (st : BStore) (h : Int) (data : Bytes) (psize : Nat) (hp : 0 < psize) :
    bsLoadBlock (bsSave st h (fromData H data psize)) h = some data := by
  have hasm : assemble (fromData H data psize) = data := by
    have hm : (fromData H data psize).parts.map partBytes = split data psize := by
      unfold fromData
      apply List.ext_getElem?
      intro i
      by_cases hi : i < (split data psize).length
      · simp [hi, partBytes]
      · simp [hi, List.getElem?_eq_none_iff.mpr (Nat.le_of_not_lt hi)]
    unfold assemble
    rw [hm]
    exact split_join data psize hp
  simp [bsLoadBlock, bsParts, bsSave, hasm]

theorem find_filter_other (l : List (Int × PartSet)) (h h' : Int) (hne : h' ≠ h) :
    List.find? (fun e => e.1 == h') (l.filter (fun e => e.1 != h)) = List.find? (fun e => e.1 == h') l := by
  induction l with
  | nil => rfl
  | cons e es ih =>
    by_cases he : e.1 = h
    · have hb : (e.1 != h) = false := by simp [he]
      have hb' : (e.1 == h') = false := by simp [he]; exact fun x => hne x.symm
      rw [List.filter_cons, hb, List.find?_cons, hb']
      simpa using ih
    · have hb : (e.1 != h) = true := by simp [he]
      rw [List.filter_cons, hb]
      simp only [if_true, List.find?_cons]
      split
      · rfl
      · exact ih

theorem store_other_heights_untouched (st : BStore) (h h' : Int) (ps : PartSet) (hne : h' ≠ h) :
    bsLoadBlock (bsSave st h ps) h' = bsLoadBlock st h' := by
  have h1 : ((h == h') = false) := by simp; exact fun e => hne e.symm
  simp only [bsLoadBlock, bsParts, bsSave, List.find?_cons, h1]
  rw [find_filter_other st.blocks h h' hne]

/-- and each stored part read back is the part that was saved, at its own index -/
theorem store_part_after_save (st : BStore) (h : Int) (data : Bytes) (psize : Nat) (i : Nat)
    (hi : i < (split data psize).length) :
    (bsLoadPart (bsSave st h (fromData H data psize)) h i).map (fun p => (p.index, p.bytes, p.proof)) =
      some (i, (split data psize).getD i [], proofOf H (split data psize) i) := by
  simp [bsLoadPart, bsParts, bsSave, fromData, hi]

/-! Non-vacuity of the reader theorems: a set with an empty part in the middle, read 2 bytes at a time. -/
example : rdSeq [2, 2, 2] [1] [[], [2, 3], []] = [([1, 2], false), ([3], true), ([], true)] := by decide

/-! Non-vacuity: the hypotheses are satisfiable and `added` is reachable. -/
example : let Hx : Bytes → Bytes := fun x => [UInt8.ofNat x.length];
    (∀ x, (Hx x).length = 1) ∧ split [1,2,3] 2 = [[1,2],[3]] := by
  simp [split, splitF]

end Tmv.Props.C10
