import Tmv.Lemmas.SecretFrames
import Tmv.Model.Sts
/-! # C16 — Peer links are mutually authenticated and tamper-evident
Property theorems only.

Data phase (`Model/SecretFrames.lean`): the AEAD of a direction is a pair of arbitrary functions
`enc`/`dec`. What is assumed about them is stated in each theorem:
* `Correct enc dec`  — `dec n (enc n m) = some m`;
* `LenOK enc`        — a sealed frame is `aeadSizeOverhead` bytes longer than its plaintext;
* authenticity is NOT assumed: the tamper theorems conclude "claim ∨ an explicit `Forgery`", i.e.
  a ciphertext that opens under a counter under which the sender never produced it.
`junk` is the stale content of the pooled frame buffers (arbitrary).

Handshake (`Model/Sts.lean`): symbolic; transcript-hash injectivity, ideal signatures and an ideal
AEAD for the auth frame are built into the term algebra — cryptographic strength is a hypothesis,
not a result. -/
namespace Tmv.Props.C16
open Tmv Tmv.SecretFrames

section frames
variable (enc : Nat → Bytes → Bytes) (dec : Nat → Bytes → Option Bytes) (junk : Nat → Bytes)

/-- Round trip, all write sizes and all read sizes: after any sequence of `Write` calls (fewer
than 2^64 bytes past counter `c`, so no overflow) on a working conn, every schedule of `Read`
sizes returns only data or — once everything has been handed out — `io.EOF`; the bytes handed
out are a prefix of the bytes written, in order; an `io.EOF` is seen only after ALL bytes were
handed out; and with positive read sizes and more reads than bytes everything arrives. -/
theorem stream_roundtrip (hc : Correct enc dec) (hl : LenOK enc) (c : Nat) (ws : List Bytes)
    (rs : List Nat) (hroom : c + ws.flatten.length ≤ maxU64) :
    let sent := (writeAll enc junk c (ws.map (·, true))).2
    let res := (runReads dec ⟨[], c, wireOf sent⟩ rs).1
    okBytes res <+: ws.flatten ∧
    (∀ r ∈ res, isOk r = true ∨ r = .error .eof) ∧
    (.error .eof ∈ res → okBytes res = ws.flatten) ∧
    ((∀ k ∈ rs, 0 < k) → ws.flatten.length < rs.length → okBytes res = ws.flatten) := by
  have hcnt := allChunks_count ws
  have hwa := writeAll_ok enc junk ws c (by omega)
  simp only [hwa]
  have hon : Hon enc junk ⟨[], c, wireOf (sealFrom enc junk c (ws.flatMap chunks))⟩
      (ws.flatMap chunks) [] :=
    ⟨by simp, allChunks_bounds ws, by simp only []; omega⟩
  obtain ⟨rs1, rs2, res1, s1, hsplit, hrun, hok, hlen, hbr⟩ :=
    honest_run enc dec junk hc hl [] rs _ _ hon
  simp only [List.nil_append, allChunks_flatten] at hbr
  subst hsplit
  rw [runReads_append, hrun]
  simp only []
  rcases hbr with ⟨h2, pre', _, he⟩ | ⟨he, hs1⟩
  · subst h2
    simp only [runReads, List.append_nil]
    refine ⟨⟨_, he⟩, fun r hr => Or.inl (hok r hr), ?_, ?_⟩
    · intro hmem; have := hok _ hmem; simp [isOk] at this
    · intro hpos hlt
      have h1 := hlen (fun k hk => hpos k (by simpa using hk))
      have h2 := congrArg List.length he
      simp only [List.length_append] at h2 hlt
      omega
  · subst hs1
    rw [run_eof]
    simp only [okBytes_append, okBytes_eofs, List.append_nil]
    refine ⟨by rw [he]; exact List.prefix_refl _, ?_, fun _ => he, fun _ _ => he⟩
    intro r hr
    rcases List.mem_append.mp hr with h1 | h1
    · exact Or.inl (hok r h1)
    · right; obtain ⟨_, _, rfl⟩ := List.mem_map.mp h1; rfl

/-- A nonce is never used twice: over ANY sequence of `Write` calls (any data, working or failing
conn, including calls that panic), the frames handed to the conn carry strictly increasing
counters, each sealed under the counter it is listed with, all below the final counter, which
never exceeds `MaxUint64` — the counter never wraps and `MaxUint64` itself is never put on the
wire. -/
theorem nonce_never_reused (c : Nat) (hc : c ≤ maxU64) (calls : List (Bytes × Bool)) :
    let r := writeAll enc junk c calls
    List.Pairwise (· < ·) (r.2.map (·.1)) ∧
    (∀ x ∈ r.2, c ≤ x.1 ∧ x.1 < r.1 ∧ ∃ m, x.2 = enc x.1 m) ∧
    c ≤ r.1 ∧ r.1 ≤ maxU64 := by
  have h := writeAll_nonces enc junk calls c hc
  exact ⟨h.1.1, h.1.2, h.2.1, h.2.2⟩

/-- At `MaxUint64` `Write` panics before anything reaches the conn, and the counter stays. -/
theorem nonce_overflow_panics (data : Bytes) (hd : data ≠ []) (ok : Bool) :
    let r := write enc junk maxU64 data ok
    r.outcome = .panic ∧ r.frames = [] ∧ r.nonce = maxU64 := by
  have hpos : 0 < data.length := List.length_pos_iff.mpr hd
  unfold write
  cases hlen : data.length with
  | zero => omega
  | succ f => simp [writeLoop, hlen, incrNonce]

/-- the reader's side of the same guard: a frame that opens at `MaxUint64` is not delivered -/
theorem recv_overflow_panics (s : RState) (k : Nat) (hb : s.buf = []) (hn : s.nonce = maxU64) :
    ∀ b, (SecretFrames.read dec s k).2 ≠ .ok b := by
  intro b
  unfold SecretFrames.read
  simp only [hb, List.length_nil, Nat.lt_irrefl, if_false, hn, incrNonce]
  split
  · simp
  · split
    · simp
    · split <;> simp

/-- the 12-byte nonces of distinct counters below 2^64 are distinct -/
theorem nonceBytes_injective (a b : Nat) (ha : a ≤ maxU64) (hb : b ≤ maxU64)
    (h : nonceBytes a = nonceBytes b) : a = b := by
  simp only [nonceBytes, le64, List.append_cancel_left_eq] at h
  have hr : List.range 8 = [0, 1, 2, 3, 4, 5, 6, 7] := by decide
  rw [hr] at h
  simp only [List.map_cons, List.map_nil, List.cons.injEq, and_true] at h
  obtain ⟨h0, h1, h2, h3, h4, h5, h6, h7⟩ := h
  have e : ∀ x y : Nat, UInt8.ofNat (x % 256) = UInt8.ofNat (y % 256) → x % 256 = y % 256 := by
    intro x y hxy
    have := congrArg UInt8.toNat hxy
    simpa using this
  have g0 := e _ _ h0; have g1 := e _ _ h1; have g2 := e _ _ h2; have g3 := e _ _ h3
  have g4 := e _ _ h4; have g5 := e _ _ h5; have g6 := e _ _ h6; have g7 := e _ _ h7
  simp only [maxU64] at ha hb
  simp only [Nat.reducePow, Nat.div_one] at g0 g1 g2 g3 g4 g5 g6 g7
  omega

/-- Never altered, never out of order — whatever is on the wire. The sender sealed the chunks
`cs` from counter `c`; the reader starts at `c` and is fed an ARBITRARY byte string (any edit,
reordering, replay, removal, truncation or fabrication of the ciphertext), and reads with an
arbitrary schedule, through and past any number of errors. Then everything it is ever handed is
a prefix of what was written — or a forgery is exhibited. -/
theorem tamper_never_alters (hc : Correct enc dec) (c : Nat) (cs : List Bytes)
    (hb : ∀ ch ∈ cs, ch.length ≤ dataMaxSize) (wire : Bytes) (rs : List Nat) :
    okBytes (runReads dec ⟨[], c, wire⟩ rs).1 <+: cs.flatten ∨
      Nonempty (Forgery dec (sealFrom enc junk c cs)) := by
  by_cases hno : Nonempty (Forgery dec (sealFrom enc junk c cs))
  · exact Or.inr hno
  left
  have h0 : Pfx c cs [] ⟨[], c, wire⟩ := ⟨0, by omega, rfl, by simp⟩
  obtain ⟨i, hi, _, hd⟩ := pfx_run enc dec junk hc c cs hb hno rs [] _ h0
  simp only [List.nil_append] at hd
  have h1 : okBytes (runReads dec ⟨[], c, wire⟩ rs).1 <+: (cs.take i).flatten := ⟨_, hd⟩
  have h2 : (cs.take i).flatten <+: cs.flatten := by
    refine ⟨(cs.drop i).flatten, ?_⟩
    rw [← List.flatten_append, List.take_append_drop]
  exact List.IsPrefix.trans h1 h2

/-- Tamper evidence at the first affected frame. The sender sealed `pre ++ post` from counter
`c`; the wire carries the frames of `pre` untouched and then `rest`, whose first block is NOT
what the sender sealed under the counter the reader will be at (a modified frame, another frame
— reordered, replayed, or the successor of a removed one —, a short block, or nothing). Then for
every read schedule: either the schedule ends inside `pre` (all reads succeed, prefix of `pre`),
or the schedule splits as `rs1 ++ k :: rs2` where the reads of `rs1` all succeed and hand out
exactly the bytes of `pre`, and the next `Read` fails with `io.EOF`, `io.ErrUnexpectedEOF` or the
decryption error — or a forgery is exhibited. -/
theorem tamper_detected (hc : Correct enc dec) (hl : LenOK enc) (c : Nat) (pre post : List Bytes)
    (rest : Bytes) (hb : ∀ ch ∈ pre, 0 < ch.length ∧ ch.length ≤ dataMaxSize)
    (hroom : c + pre.length ≤ maxU64)
    (haff : (c + pre.length, rest.take sealedFrameSize) ∉ sealFrom enc junk c (pre ++ post))
    (rs : List Nat) :
    ((∀ r ∈ (runReads dec ⟨[], c, wireOf (sealFrom enc junk c pre) ++ rest⟩ rs).1, isOk r = true) ∧
      okBytes (runReads dec ⟨[], c, wireOf (sealFrom enc junk c pre) ++ rest⟩ rs).1 <+: pre.flatten) ∨
    (∃ rs1 k rs2 res1 s1, rs = rs1 ++ k :: rs2 ∧
      runReads dec ⟨[], c, wireOf (sealFrom enc junk c pre) ++ rest⟩ rs1 = (res1, s1) ∧
      (∀ r ∈ res1, isOk r = true) ∧ okBytes res1 = pre.flatten ∧
      ∃ e, (SecretFrames.read dec s1 k).2 = .error e ∧ (e = .eof ∨ e = .ueof ∨ e = .decrypt)) ∨
    Nonempty (Forgery dec (sealFrom enc junk c (pre ++ post))) := by
  have hon : Hon enc junk ⟨[], c, wireOf (sealFrom enc junk c pre) ++ rest⟩ pre rest :=
    ⟨rfl, hb, hroom⟩
  obtain ⟨rs1, rs2, res1, s1, hsplit, hrun, hok, _, hbr⟩ :=
    honest_run enc dec junk hc hl rest rs _ _ hon
  simp only [List.nil_append] at hbr
  rcases hbr with ⟨h2, pre', _, he⟩ | ⟨he, hs1⟩
  · left
    subst h2
    simp only [List.append_nil] at hsplit
    subst hsplit
    rw [hrun]
    exact ⟨hok, ⟨_, he⟩⟩
  · cases rs2 with
    | nil =>
      left
      simp only [List.append_nil] at hsplit
      subst hsplit
      rw [hrun]
      exact ⟨hok, by rw [he]; exact List.prefix_refl _⟩
    | cons k ks =>
      rcases boundary_fails dec (sealFrom enc junk c (pre ++ post)) (c + pre.length) rest k haff with
        ⟨e, h1, h2⟩ | hf
      · right; left
        exact ⟨rs1, k, ks, res1, s1, hsplit, hrun, hok, he, e, by rw [hs1]; exact h1, h2⟩
      · right; right; exact hf

/-- …and the failure is reached: with positive read sizes and more reads than `pre` has bytes,
the schedule does run into the failing `Read` (second or third alternative above). -/
theorem tamper_detected_reached (hc : Correct enc dec) (hl : LenOK enc) (c : Nat)
    (pre post : List Bytes) (rest : Bytes)
    (hb : ∀ ch ∈ pre, 0 < ch.length ∧ ch.length ≤ dataMaxSize) (hroom : c + pre.length ≤ maxU64)
    (haff : (c + pre.length, rest.take sealedFrameSize) ∉ sealFrom enc junk c (pre ++ post))
    (rs : List Nat) (hpos : ∀ k ∈ rs, 0 < k) (hlong : pre.flatten.length < rs.length) :
    (∃ r ∈ (runReads dec ⟨[], c, wireOf (sealFrom enc junk c pre) ++ rest⟩ rs).1, isOk r = false) ∨
    Nonempty (Forgery dec (sealFrom enc junk c (pre ++ post))) := by
  have hon : Hon enc junk ⟨[], c, wireOf (sealFrom enc junk c pre) ++ rest⟩ pre rest :=
    ⟨rfl, hb, hroom⟩
  obtain ⟨rs1, rs2, res1, s1, hsplit, hrun, hok, hlen, hbr⟩ :=
    honest_run enc dec junk hc hl rest rs _ _ hon
  simp only [List.nil_append] at hbr
  have hl1 := hlen (fun k hk => hpos k (by rw [hsplit]; simp [hk]))
  have hshort : (okBytes res1).length ≤ pre.flatten.length := by
    rcases hbr with ⟨_, pre', _, he⟩ | ⟨he, _⟩
    · rw [← he]; simp
    · rw [he]; exact Nat.le_refl _
  cases rs2 with
  | nil => simp only [List.append_nil] at hsplit; subst hsplit; omega
  | cons k ks =>
    rcases hbr with ⟨h2, _⟩ | ⟨_, hs1⟩
    · cases h2
    · rcases boundary_fails dec (sealFrom enc junk c (pre ++ post)) (c + pre.length) rest k haff with
        ⟨e, h1, _⟩ | hf
      · left
        subst hsplit
        rw [runReads_append, hrun]
        simp only [runReads_cons]
        refine ⟨(SecretFrames.read dec s1 k).2, by simp, ?_⟩
        rw [hs1, h1]; rfl
      · exact Or.inr hf

/-- `Write` on a working conn with room below `MaxUint64`: everything is reported written, the
frames are the sealed chunks under consecutive counters. -/
theorem write_complete (c : Nat) (data : Bytes) (hroom : c + data.length ≤ maxU64) :
    write enc junk c data true =
      ⟨c + (chunks data).length, sealFrom enc junk c (chunks data), data.length, .ok⟩ := by
  have hcnt : (chunks data).length ≤ data.length := by
    have := count_le_flatten (chunks data) (fun x hx => (chunks_bounds data x hx).1)
    rw [chunks_flatten] at this; exact this
  unfold write
  rw [writeLoop_ok enc junk _ _ _ _ _ (Nat.le_refl _) (by unfold chunks at hcnt; omega)]
  simp [chunks]

/-- `Write` on a failing conn: nothing is on the wire, `n = 0`, and the counter has moved past
the sealed frame (the frame's counter is burnt, not reused). -/
theorem write_conn_error (c : Nat) (data : Bytes) (hd : data ≠ []) (hc : c < maxU64) :
    let r := write enc junk c data false
    r.outcome = .connErr ∧ r.frames = [] ∧ r.n = 0 ∧ r.nonce = c + 1 := by
  have hpos : 0 < data.length := List.length_pos_iff.mpr hd
  unfold write
  cases hlen : data.length with
  | zero => omega
  | succ f => simp [writeLoop, hlen, incrNonce_some _ hc]

/-- edit class "truncation": a block shorter than a sealed frame (or absent) is never what the
sender sealed -/
theorem truncated_block_is_affected (hl : LenOK enc) (c n : Nat) (all : List Bytes)
    (hb : ∀ ch ∈ all, ch.length ≤ dataMaxSize) (rest : Bytes) (hshort : rest.length < sealedFrameSize) :
    (n, rest.take sealedFrameSize) ∉ sealFrom enc junk c all := by
  intro hmem
  obtain ⟨i, hi, _, he⟩ := (mem_sealFrom enc junk all c _ _).mp hmem
  have h1 := congrArg List.length he
  rw [hl, mkFrame_length _ _ (hb _ (List.getElem_mem hi))] at h1
  simp only [List.length_take] at h1
  have : totalFrameSize + aeadSizeOverhead = sealedFrameSize := rfl
  omega

/-- edit classes "change", "reordering", "replay", "removal": the block at the reader's position
`j` is not byte-for-byte the frame the sender sealed as number `j` -/
theorem changed_block_is_affected (c j : Nat) (all : List Bytes) (hj : j < all.length) (rest : Bytes)
    (hne : rest.take sealedFrameSize ≠ enc (c + j) (mkFrame all[j] (junk (c + j)))) :
    (c + j, rest.take sealedFrameSize) ∉ sealFrom enc junk c all := by
  intro hmem
  obtain ⟨i, hi, h1, he⟩ := (mem_sealFrom enc junk all c _ _).mp hmem
  have : i = j := by omega
  subst this
  exact hne he

/-! Non-vacuity: a toy AEAD (append 16 bytes that encode the counter parity; open checks
them) satisfies `Correct` and `LenOK`, and a two-frame write is read back across frames. -/
def toyEnc (n : Nat) (m : Bytes) : Bytes := m ++ List.replicate 16 (UInt8.ofNat n)
def toyDec (n : Nat) (c : Bytes) : Option Bytes :=
  if c.drop (c.length - 16) = List.replicate 16 (UInt8.ofNat n) then some (c.take (c.length - 16)) else none

example : Correct toyEnc toyDec ∧ LenOK toyEnc := by
  refine ⟨?_, ?_⟩
  · intro n m; simp [toyEnc, toyDec]
  · intro n m; simp [toyEnc]; decide

/-- the hypothesis of `tamper_detected` is satisfiable: a stream cut after its first frame -/
example : (3 + [[1]].length, ([] : Bytes).take sealedFrameSize) ∉
    sealFrom toyEnc (fun _ => []) 3 ([[1]] ++ [[2, 2]]) :=
  truncated_block_is_affected toyEnc (fun _ => []) (by intro n m; simp [toyEnc]; decide) 3 _ _
    (by intro ch h; simp at h; rcases h with rfl | rfl <;> decide) [] (by decide)

end frames

/-! ## Handshake (symbolic) -/
section sts
open Tmv.Sts
variable (lt : Point → Point → Bool)

theorem sortP_pair (a b x y : Point) (h : sortP lt a b = sortP lt x y) :
    (a = x ∧ b = y) ∨ (a = y ∧ b = x) := by
  unfold sortP at h
  split at h <;> split at h <;> simp only [Prod.mk.injEq] at h
  · exact Or.inl h
  · exact Or.inr h
  · exact Or.inr ⟨h.2, h.1⟩
  · exact Or.inl ⟨h.2, h.1⟩

/-- every signature the adversary can put into a deliverable frame is one it owns or one an
honest session of the trace made over that session's challenge -/
theorem deliverable_sig (T : List Session) (env : Sealed) (h : Deliverable lt T env) (σ : Sig)
    (hs : env.payload.sig = some σ) : SigKnown lt T σ := by
  rcases h with ⟨s, hsT, hout⟩ | ⟨_, hk⟩
  · unfold Session.authOut at hout
    split at hout
    · rename_i c k hc _
      have := Option.some.inj hout
      subst this
      simp only [Option.some.injEq] at hs
      subst hs
      exact Or.inr ⟨s, hsT, c, hc, rfl⟩
    · cases hout
  · exact hk σ hs

/-- `auth_binds_identity_symbolic` (partial: symbolic crypto; and see `reflection_accepted`).
If an honest session `s` completes with an HONEST remote key `p` on a frame the adversary could
deliver, then either `p` is `s`'s own key and the signature is `s`'s own (reflection — the link
is then refused by `transport.upgrade`, see `upgrade_excludes_reflection`), or an honest session
`s'` of `p` exists in the trace that ran over the SAME ephemeral exchange: `s` received `s'`'s
ephemeral and `s'` received `s`'s. Substituted ephemerals, signatures replayed from other
sessions and small-order points therefore never yield an honest identity. Assumes: free term
algebra (transcript injectivity, ideal signatures), fresh ephemerals (`hfresh`). -/
theorem auth_binds_identity_symbolic (T : List Session)
    (hfresh : ∀ s1 ∈ T, ∀ s2 ∈ T, s1.eph = s2.eph → s1 = s2)
    (s : Session) (hs : s ∈ T) (env : Sealed) (hd : Deliverable lt T env) (p : Nat)
    (hacc : s.finish lt (some env) = .ok (.honest p)) :
    (p = s.owner) ∨
    ∃ s' ∈ T, s'.owner = p ∧ s.rem = .honest s'.eph ∧ s'.rem = .honest s.eph := by
  unfold Session.finish at hacc
  split at hacc
  · rename_i c rk hc hrk
    simp only at hacc
    split at hacc
    · cases hacc
    · split at hacc
      · cases hacc
      · split at hacc
        · rename_i hsig
          have hkp : env.payload.key = .honest p := by
            simpa using hacc
          rw [hkp] at hsig
          have hk' := deliverable_sig lt T env hd _ hsig
          rcases hk' with hadv | ⟨s', hs'T, c', hc', hσ⟩
          · exact absurd rfl (hadv p)
          · simp only [Sig.mk.injEq, Key.honest.injEq] at hσ
            obtain ⟨hown, hcc⟩ := hσ
            subst hcc
            -- both challenges are over the same sorted ephemeral pair
            unfold Session.chal at hc hc'
            cases hd1 : dh s.eph s.rem with
            | none => rw [hd1] at hc; cases hc
            | some d1 =>
              cases hd2 : dh s'.eph s'.rem with
              | none => rw [hd2] at hc'; cases hc'
              | some d2 =>
                rw [hd1] at hc; rw [hd2] at hc'
                simp only [Option.map_some, Option.some.injEq] at hc hc'
                rw [← hc'] at hc
                simp only [Chal.mk.injEq] at hc
                have hpair : sortP lt s.loc s.rem = sortP lt s'.loc s'.rem :=
                  Prod.ext hc.1 hc.2.1
                rcases sortP_pair lt _ _ _ _ hpair with ⟨h1, _⟩ | ⟨h1, h2⟩
                · left
                  have : s.eph = s'.eph := by simpa [Session.loc] using h1
                  have := hfresh s hs s' hs'T this
                  subst this
                  exact hown
                · right
                  exact ⟨s', hs'T, hown.symm, by simpa [Session.loc] using h2,
                    by simpa [Session.loc] using h1.symm⟩
        · cases hacc
  · cases hacc

/-- The reflection is real (witness; replayed on the real code by the stream's `reflect-sig`
script, known finding `secretconn.handshake.reflected-own-signature`): a party that runs the DH
with its own ephemeral can open the node's auth frame and send the node's own key and signature
back; the node completes with its OWN key as remote key although the counterparty does not hold
it. -/
theorem reflection_accepted :
    let s : Session := ⟨0, 10, .adv 5⟩
    let lt0 : Point → Point → Bool := fun _ _ => true
    ∃ env, Deliverable lt0 [s] env ∧ s.finish lt0 (some env) = .ok (.honest s.owner) := by
  refine ⟨⟨⟨.ha 10 5, false⟩, ⟨.honest 0, some ⟨.honest 0, ⟨.honest 10, .adv 5, .ha 10 5⟩⟩⟩⟩, ?_, ?_⟩
  · right
    refine ⟨trivial, ?_⟩
    intro σ hσ
    right
    refine ⟨_, List.mem_singleton.mpr rfl, ⟨.honest 10, .adv 5, .ha 10 5⟩, by decide, ?_⟩
    simp only [Option.some.injEq] at hσ
    exact hσ.symm
  · decide

/-- The full-strength clause at the level of `MakeSecretConnection`: an accepted honest identity
always has a matching honest session over the same ephemeral exchange. -/
def AuthFull : Prop :=
  ∀ (lt : Point → Point → Bool) (T : List Session),
    (∀ s1 ∈ T, ∀ s2 ∈ T, s1.eph = s2.eph → s1 = s2) →
    ∀ s ∈ T, ∀ env, Deliverable lt T env → ∀ p, s.finish lt (some env) = .ok (.honest p) →
      ∃ s' ∈ T, s'.owner = p ∧ s.rem = .honest s'.eph ∧ s'.rem = .honest s.eph

/-- It is false of the model (and of the code: known finding
`secretconn.handshake.reflected-own-signature`): the reflected own signature is accepted. -/
theorem auth_binds_identity_fails : ¬ AuthFull := by
  intro h
  obtain ⟨env, hd, hacc⟩ := reflection_accepted
  have := h (fun _ _ => true) [⟨0, 10, .adv 5⟩] (by simp) ⟨0, 10, .adv 5⟩ (by simp) env hd 0 hacc
  obtain ⟨s', _, _, h1, _⟩ := this
  cases h1

/-- What holds: for every accepted honest identity OTHER than the node's own the matching
session exists (the hypothesis the proof forces is `p ≠ s.owner`; `transport.upgrade` enforces
it, see `upgrade_auth`). -/
theorem auth_binds_identity_partial (lt : Point → Point → Bool) (T : List Session)
    (hfresh : ∀ s1 ∈ T, ∀ s2 ∈ T, s1.eph = s2.eph → s1 = s2)
    (s : Session) (hs : s ∈ T) (env : Sealed) (hd : Deliverable lt T env) (p : Nat)
    (hacc : s.finish lt (some env) = .ok (.honest p)) (hself : p ≠ s.owner) :
    ∃ s' ∈ T, s'.owner = p ∧ s.rem = .honest s'.eph ∧ s'.rem = .honest s.eph := by
  rcases auth_binds_identity_symbolic lt T hfresh s hs env hd p hacc with h | h
  · exact absurd h hself
  · exact h

/-! ### Several sessions of one process: freshness as part of the run -/

theorem mkRunFrom_eph : ∀ (specs : List (Nat × Point)) (i : Nat),
    (mkRunFrom i specs).map (·.eph) = List.range' i specs.length := by
  intro specs
  induction specs with
  | nil => intro i; simp [mkRunFrom]
  | cons x xs ih => intro i; obtain ⟨o, r⟩ := x; simp [mkRunFrom, ih, List.range'_succ]

/-- Freshness as part of the run: in a run where every started handshake draws the next scalar
(`mkRun`), all honest ephemerals are distinct — the hypothesis of the theorems below is exactly
what the stream checks on the cleartext first messages (`eph=distinct`). -/
theorem mkRun_ephDistinct (specs : List (Nat × Point)) : EphDistinct (mkRun specs) := by
  unfold EphDistinct mkRun
  rw [mkRunFrom_eph]
  exact List.nodup_range'

theorem nodup_map_index {α β : Type} (f : α → β) : ∀ (l : List α), (l.map f).Nodup →
    ∀ (i j : Nat) (a b : α), l[i]? = some a → l[j]? = some b → f a = f b → i = j := by
  intro l
  induction l with
  | nil => intro _ i j a b h; simp at h
  | cons x xs ih =>
    intro hn i j a b hi hj hf
    simp only [List.map_cons, List.nodup_cons] at hn
    cases i with
    | zero =>
      cases j with
      | zero => rfl
      | succ j' =>
        simp at hi hj; subst hi
        exact absurd (List.mem_map.mpr ⟨b, List.mem_of_getElem? hj, hf.symm⟩) hn.1
    | succ i' =>
      cases j with
      | zero =>
        simp at hi hj; subst hj
        exact absurd (List.mem_map.mpr ⟨a, List.mem_of_getElem? hi, hf⟩) hn.1
      | succ j' =>
        simp at hi hj
        rw [ih hn.2 i' j' a b hi hj hf]

theorem ephDistinct_fresh (T : List Session) (hd : EphDistinct T) :
    ∀ s1 ∈ T, ∀ s2 ∈ T, s1.eph = s2.eph → s1 = s2 := by
  intro s1 h1 s2 h2 he
  obtain ⟨i, hi⟩ := List.getElem?_of_mem h1
  obtain ⟨j, hj⟩ := List.getElem?_of_mem h2
  have := nodup_map_index (fun x : Session => x.eph) T hd i j s1 s2 hi hj he
  subst this
  rw [hi] at hj; exact Option.some.inj hj

/-- `auth_binds_identity` over a run whose ephemerals are observed distinct. -/
theorem auth_binds_identity_run (lt : Point → Point → Bool) (T : List Session) (hd : EphDistinct T)
    (s : Session) (hs : s ∈ T) (env : Sealed) (hdel : Deliverable lt T env) (p : Nat)
    (hacc : s.finish lt (some env) = .ok (.honest p)) (hself : p ≠ s.owner) :
    ∃ s' ∈ T, s'.owner = p ∧ s.rem = .honest s'.eph ∧ s'.rem = .honest s.eph :=
  auth_binds_identity_partial lt T (ephDistinct_fresh T hd) s hs env hdel p hacc hself

/-- Injective agreement (no replay across sessions): with distinct ephemerals, two different
sessions of the run (indices `i ≠ j`) are never served by one and the same peer session — a
recorded peer half authenticates at most the one session it was run with. -/
theorem injective_agreement (T : List Session) (hd : EphDistinct T) (i j i' j' : Nat)
    (si sj pi pj : Session) (hi : T[i]? = some si) (hj : T[j]? = some sj)
    (hi' : T[i']? = some pi) (hj' : T[j']? = some pj) (hij : i ≠ j)
    (hmi : pi.rem = .honest si.eph) (hmj : pj.rem = .honest sj.eph) : i' ≠ j' := by
  intro h
  subst h
  rw [hi'] at hj'
  have := Option.some.inj hj'
  subst this
  rw [hmi] at hmj
  exact hij (nodup_map_index (fun x : Session => x.eph) T hd i j si sj hi hj (Point.honest.inj hmj))

/-- A handshake whose (fresh) ephemeral no honest session ever received accepts no foreign honest
identity, whatever recorded or fabricated frame it is handed: replaying the remote side of an
earlier session into a later session of the same node fails. -/
theorem replay_into_fresh_session_fails (lt : Point → Point → Bool) (T : List Session)
    (hd : EphDistinct T) (s : Session) (hs : s ∈ T)
    (hunseen : ∀ y ∈ T, y.rem ≠ .honest s.eph)
    (env : Sealed) (hdel : Deliverable lt T env) (p : Nat) (hself : p ≠ s.owner) :
    s.finish lt (some env) ≠ .ok (.honest p) := by
  intro hacc
  obtain ⟨s', hs', _, _, h2⟩ := auth_binds_identity_run lt T hd s hs env hdel p hacc hself
  exact hunseen s' hs' h2

/-- The freshness hypothesis is necessary (this is the behaviour of an implementation that
recycles ephemeral key pairs between handshakes): in a run where session 2 of node 0 shows the
ephemeral of its session 0 again, the recorded peer half of session 0 is accepted by session 2
— one peer session serves two sessions, with no key held by the replaying party. -/
theorem eph_reuse_allows_replay :
    let T : List Session := [⟨0, 5, .honest 6⟩, ⟨1, 6, .honest 5⟩, ⟨0, 5, .honest 6⟩]
    let lt0 : Point → Point → Bool := fun x y => match x, y with
      | .honest i, .honest j => i < j | _, _ => false
    ¬ EphDistinct T ∧
    ∃ x s env, T[1]? = some x ∧ T[2]? = some s ∧ x.authOut lt0 = some env ∧
      Deliverable lt0 T env ∧ s.finish lt0 (some env) = .ok (.honest 1) := by
  refine ⟨by decide, ⟨1, 6, .honest 5⟩, ⟨0, 5, .honest 6⟩, _, rfl, rfl, rfl, ?_, by decide⟩
  exact Or.inl ⟨⟨1, 6, .honest 5⟩, by simp, rfl⟩

/-- `transport.upgrade` accepts only if the authenticated key is the dialed one (when dialing),
equals the self-reported one and is not the node's own: the reflected link is refused. -/
theorem upgrade_excludes_reflection (own conn nodeInfo : Key) (dialed : Option Key)
    (h : upgrade own dialed conn nodeInfo = .ok) :
    conn ≠ own ∧ conn = nodeInfo ∧ (∀ d, dialed = some d → conn = d) := by
  unfold upgrade at h
  split at h
  · cases h
  · rename_i h1
    split at h
    · cases h
    · rename_i h2
      split at h
      · cases h
      · rename_i h3
        have h2' : conn = nodeInfo := by
          rcases Decidable.em (conn = nodeInfo) with e | e
          · exact e
          · exact absurd e h2
        refine ⟨by rw [h2']; exact fun e => h3 e.symm, h2', ?_⟩
        intro d hd
        rcases Decidable.em (conn = d) with e | e
        · exact e
        · exact absurd ⟨by simp [hd], by rw [hd]; intro x; exact e (Option.some.inj x).symm⟩ h1

/-- Mutual authentication at the transport level: a session that completes with an honest key
which then passes `upgrade`'s checks has a matching honest session of that key over the same
ephemeral exchange (the reflection alternative is gone). -/
theorem upgrade_auth (T : List Session)
    (hfresh : ∀ s1 ∈ T, ∀ s2 ∈ T, s1.eph = s2.eph → s1 = s2)
    (s : Session) (hs : s ∈ T) (env : Sealed) (hd : Deliverable lt T env) (p : Nat)
    (hacc : s.finish lt (some env) = .ok (.honest p)) (dialed : Option Key) (nodeInfo : Key)
    (hup : upgrade (.honest s.owner) dialed (.honest p) nodeInfo = .ok) :
    ∃ s' ∈ T, s'.owner = p ∧ s.rem = .honest s'.eph ∧ s'.rem = .honest s.eph := by
  rcases auth_binds_identity_symbolic lt T hfresh s hs env hd p hacc with h | h
  · have := (upgrade_excludes_reflection _ _ _ _ hup).1
    exact absurd (by rw [h]) this
  · exact h

/-- substituted ephemeral: whatever the adversary then delivers, no foreign honest identity -/
theorem substituted_ephemeral_fails (T : List Session)
    (hfresh : ∀ s1 ∈ T, ∀ s2 ∈ T, s1.eph = s2.eph → s1 = s2)
    (s : Session) (hs : s ∈ T) (a : Nat) (hrem : s.rem = .adv a) (env : Sealed)
    (hd : Deliverable lt T env) (p : Nat) (hacc : s.finish lt (some env) = .ok (.honest p)) :
    p = s.owner := by
  rcases auth_binds_identity_symbolic lt T hfresh s hs env hd p hacc with h | ⟨s', _, _, h1, _⟩
  · exact h
  · rw [hrem] at h1; cases h1

/-- small-order point: the handshake stops, whatever is delivered -/
theorem low_order_fails (s : Session) (k : Nat) (hrem : s.rem = .lowOrder k) (inp : Option Sealed) :
    s.finish lt inp = .lowOrder := by
  simp [Session.finish, Session.chal, Session.recvKey, hrem, dh]

/-- a key of another type is refused even with a valid signature -/
theorem wrong_key_type_fails (s : Session) (env : Sealed) (i : Nat) (hk : env.payload.key = .other i) :
    ∀ k, s.finish lt (some env) ≠ .ok k := by
  intro k
  unfold Session.finish
  split
  · simp only
    split
    · simp
    · split
      · simp
      · rename_i k' hk'; exact absurd hk (hk' i)
  · simp

/-- Two honest sessions that received each other's ephemerals (with a byte order that is total
and asymmetric on distinct encodings) compute the same challenge, and each one's send key is the
other's receive key; within a session the two direction keys differ — so equal counters in the
two directions never meet under one key. -/
theorem handshake_keys_agree (hsym : ∀ x y : Point, x ≠ y → lt y x = !lt x y)
    (a b : Session) (hne : a.eph ≠ b.eph) (ha : a.rem = .honest b.eph) (hb : b.rem = .honest a.eph) :
    a.chal lt = b.chal lt ∧ (a.chal lt).isSome ∧ a.sendKey lt = b.recvKey lt ∧
      a.recvKey lt = b.sendKey lt ∧ a.sendKey lt ≠ a.recvKey lt := by
  have hpne : (Point.honest a.eph) ≠ .honest b.eph := by
    intro h; exact hne (Point.honest.inj h)
  have hs := hsym _ _ hpne
  have hsort : sortP lt (.honest b.eph) (.honest a.eph) = sortP lt (.honest a.eph) (.honest b.eph) := by
    unfold sortP
    cases h : lt (.honest a.eph) (.honest b.eph) <;> simp [h, hs]
  have hmin : min b.eph a.eph = min a.eph b.eph := Nat.min_comm _ _
  have hmax : max b.eph a.eph = max a.eph b.eph := Nat.max_comm _ _
  simp only [Session.chal, Session.sendKey, Session.recvKey, Session.locIsLeast, Session.loc, ha, hb, dh,
    Option.map_some, hsort, hmin, hmax, Option.isSome_some, Option.some.injEq, AeadKey.mk.injEq,
    true_and, ne_eq]
  unfold sortP
  cases h : lt (.honest a.eph) (.honest b.eph) <;> simp [hpne, hpne.symm]

/-- Handshake and data phase together: two honest sessions that received each other's ephemerals
end up with matching direction keys, so whatever one end writes (any write sizes, from any
counter `c` — the auth frame used counter 0 — with room below 2^64) the other end reads back
(any read sizes) as a prefix, then all of it, then `io.EOF`; for an AEAD family `E k`/`D k` that
is correct and 16-byte expanding under every key. -/
theorem link_roundtrip (lt : Point → Point → Bool) (hsym : ∀ x y : Point, x ≠ y → lt y x = !lt x y)
    (E : AeadKey → Nat → Bytes → Bytes) (D : AeadKey → Nat → Bytes → Option Bytes)
    (hc : ∀ k, Correct (E k) (D k)) (hl : ∀ k, LenOK (E k)) (junk : Nat → Bytes)
    (a b : Session) (hne : a.eph ≠ b.eph) (ha : a.rem = .honest b.eph) (hb : b.rem = .honest a.eph)
    (c : Nat) (ws : List Bytes) (rs : List Nat) (hroom : c + ws.flatten.length ≤ maxU64) :
    ∃ ks kr, a.sendKey lt = some ks ∧ b.recvKey lt = some kr ∧
      let sent := (writeAll (E ks) junk c (ws.map (·, true))).2
      let res := (runReads (D kr) ⟨[], c, wireOf sent⟩ rs).1
      okBytes res <+: ws.flatten ∧ (∀ r ∈ res, isOk r = true ∨ r = .error .eof) ∧
      (.error .eof ∈ res → okBytes res = ws.flatten) ∧
      ((∀ k ∈ rs, 0 < k) → ws.flatten.length < rs.length → okBytes res = ws.flatten) := by
  obtain ⟨_, _, hk, _, _⟩ := handshake_keys_agree lt hsym a b hne ha hb
  have hsome : ∃ ks, a.sendKey lt = some ks := by
    simp [Session.sendKey, ha, dh]
  obtain ⟨ks, hks⟩ := hsome
  refine ⟨ks, ks, hks, by rw [← hk]; exact hks, ?_⟩
  exact stream_roundtrip (E ks) (D ks) junk (hc ks) (hl ks) c ws rs hroom

/-! ### `transport.upgrade`: direction, dialed ID, self-reported ID -/

/-- An admitted peer's presented identity is the address of the key that completed the
handshake: `upgrade` admits a link only if the self-reported NodeInfo ID is that key's ID, in
BOTH directions; when the link was dialed, only if the dialed address carries an ID and it is
that key's ID (an ID-less dialed address admits nobody); and never the node's own key. -/
theorem admitted_identity (own conn nodeInfo : Key) (d : Dialed)
    (h : upgradeD own d conn nodeInfo = .ok) :
    nodeInfo = conn ∧ conn ≠ own ∧ (∀ id, d = .outbound id → id = some conn) := by
  have key : ∀ (pre : Bool), (if pre = true then UpVerdict.dialedMismatch
        else if conn ≠ nodeInfo then .nodeInfoMismatch else if own = nodeInfo then .self else .ok) = .ok →
      pre = false ∧ nodeInfo = conn ∧ conn ≠ own := by
    intro pre hp
    cases pre with
    | true => simp at hp
    | false =>
      by_cases h2 : conn = nodeInfo
      · by_cases h3 : own = nodeInfo
        · simp [h2, h3] at hp
        · exact ⟨rfl, h2.symm, by rw [h2]; exact fun e => h3 e.symm⟩
      · simp [h2] at hp
  cases d with
  | inbound =>
    obtain ⟨_, h2, h3⟩ := key false (by simpa [upgradeD] using h)
    exact ⟨h2, h3, fun id hd => by cases hd⟩
  | outbound id =>
    obtain ⟨h1, h2, h3⟩ := key (decide (id ≠ some conn)) (by simpa [upgradeD] using h)
    refine ⟨h2, h3, ?_⟩
    intro id' hd
    cases hd
    simpa using h1

/-- completeness: a rule-following peer (NodeInfo ID = its key's ID, dialed under that ID or
accepted) that is not the node itself is admitted -/
theorem honest_peer_admitted (own conn : Key) (hne : own ≠ conn) :
    upgradeD own .inbound conn conn = .ok ∧ upgradeD own (.outbound (some conn)) conn conn = .ok := by
  simp [upgradeD, hne]

/-- the ID-bearing / inbound cases are the earlier `upgrade` -/
theorem upgradeD_eq_upgrade (own conn nodeInfo : Key) (dialed : Option Key) :
    upgrade own dialed conn nodeInfo =
      upgradeD own (match dialed with | none => .inbound | some k => .outbound (some k)) conn nodeInfo := by
  cases dialed with
  | none => simp [upgrade, upgradeD]
  | some k =>
    by_cases h : k = conn
    · subst h; simp [upgrade, upgradeD]
    · have h' : ¬ (some k = some conn) := fun e => h (Option.some.inj e)
      simp [upgrade, upgradeD, h, h']

/-- non-vacuity: an undisturbed pair completes, each with the other's key -/
example :
    let a : Session := ⟨0, 10, .honest 11⟩
    let b : Session := ⟨1, 11, .honest 10⟩
    let lt0 : Point → Point → Bool := fun x y => match x, y with
      | .honest i, .honest j => i < j | _, _ => false
    a.finish lt0 (b.authOut lt0) = .ok (.honest 1) ∧ b.finish lt0 (a.authOut lt0) = .ok (.honest 0) := by
  decide

/-- the hypotheses of `auth_binds_identity_symbolic` are satisfiable by an undisturbed pair (fresh
ephemerals, the peer's own frame is deliverable, the session accepts) -/
example :
    let a : Session := ⟨0, 10, .honest 11⟩
    let b : Session := ⟨1, 11, .honest 10⟩
    let lt0 : Point → Point → Bool := fun x y => match x, y with
      | .honest i, .honest j => i < j | _, _ => false
    (∀ s1 ∈ [a, b], ∀ s2 ∈ [a, b], s1.eph = s2.eph → s1 = s2) ∧
    (∃ env, b.authOut lt0 = some env ∧ Deliverable lt0 [a, b] env ∧
      a.finish lt0 (some env) = .ok (.honest 1)) := by
  refine ⟨by decide, ?_⟩
  refine ⟨_, rfl, Or.inl ⟨⟨1, 11, .honest 10⟩, by simp, rfl⟩, by decide⟩

end sts
end Tmv.Props.C16
