import Tmv.Lemmas.ConsSign
import Tmv.Lemmas.ConsLock2
import Tmv.Lemmas.ConsGuard
import Tmv.Lemmas.ConsQuorum
import Tmv.Lemmas.ConsMoves
import Tmv.Lemmas.CommitGlue
/-! # C02 — a correct validator never equivocates and every vote it casts is justified

Theorems about the node model `Tmv.Cons` (Tmv/Model/Cons.lean), which follows
`consensus/state.go`, `types/vote_set.go`, `consensus/types/height_vote_set.go` and the signer's
`privval/file.go` statement by statement and is compared with the real code on every run.

All statements quantify over EVERY input list `is` (proposals, block arrivals, votes from any
validator through any peer — including what only a >1/3 coalition can produce —, majority claims,
timeouts, txs-available) and every configuration (number of validators, powers, proposer schedule,
block validity, own index). `run c .init is` is the node after the whole list; since `is` is
arbitrary, each statement holds after every prefix, i.e. at every moment of every history.

`NoFutureTimeout c s is` says that no timeout in `is` names a round the node has not reached when it
is delivered. The real ticker only fires timeouts the node scheduled, and it schedules them for rounds
it is in (`scheduleTimeout` is called with `cs.Round` or the round being entered), so this is what
"timeouts delivered to one validator" can be. `handleTimeout` itself would act on a timeout of a
future round (`enterPrevote(height, round)` signs with `cs.Round` before the deferred round update):
`state_machine_alone_needs_reached_round` below exhibits the double prevote this produces when the
signer signs anything — with the FilePV signer `one_per_step` needs no such hypothesis. -/
namespace Tmv.Props.C02
open Tmv.Cons

/-- **one_per_step** (second line of defence, `privval/file.go` CheckHRS + same-HRS comparison):
for every configuration whose signer is a FilePV and EVERY input list — no hypothesis at all, not
even on timeouts — the node never releases two different votes of one type for one round, nor two
different proposals for one round. -/
theorem one_per_step (c : Cfg) (hc : c.checkHRS = true) (is : List Input) :
    (∀ t r b b', Output.signVote t r b ∈ (run c .init is).out →
        Output.signVote t r b' ∈ (run c .init is).out → b = b') ∧
    (∀ r b pol b' pol', Output.signProposal r b pol ∈ (run c .init is).out →
        Output.signProposal r b' pol' ∈ (run c .init is).out → b = b' ∧ pol = pol') := by
  have h : SInv (run c .init is).out (run c .init is).lss := run_inv hc is SInv.nil
  constructor
  · intro t r b b' h₁ h₂
    have := h.uniq _ h₁ _ h₂ r t.code (.vote b) (.vote b') rfl rfl
    cases this; rfl
  · intro r b pol b' pol' h₁ h₂
    have := h.uniq _ h₁ _ h₂ r 1 (.prop b pol) (.prop b' pol') rfl rfl
    cases this; exact ⟨rfl, rfl⟩

/-- **one_per_step_by_guards** (first line of defence, the step guards at the top of every `enterX`):
for EVERY configuration — whatever the signer does, including one that signs anything — and every
input list in which no timeout names a round the node has not reached, the node signs at most one
proposal, one prevote and one precommit per round. (`state_machine_alone_needs_reached_round` shows
that for this line of defence the hypothesis on timeouts cannot be dropped.) -/
theorem one_per_step_by_guards (c : Cfg) (is : List Input) (hnf : NoFutureTimeout c .init is) :
    (∀ t r b b', Output.signVote t r b ∈ (run c .init is).out →
        Output.signVote t r b' ∈ (run c .init is).out → b = b') ∧
    (∀ r b pol b' pol', Output.signProposal r b pol ∈ (run c .init is).out →
        Output.signProposal r b' pol' ∈ (run c .init is).out → b = b' ∧ pol = pol') := by
  have h : G (run c .init is) := run_G is hnf init_G
  constructor
  · intro t r b b' h₁ h₂
    cases t with
    | prevote => have := h.uniq _ h₁ _ h₂ 4 rfl rfl rfl; cases this; rfl
    | precommit => have := h.uniq _ h₁ _ h₂ 6 rfl rfl rfl; cases this; rfl
  · intro r b pol b' pol' h₁ h₂
    have := h.uniq _ h₁ _ h₂ 3 rfl rfl rfl
    cases this; exact ⟨rfl, rfl⟩

/-- **precommit_justified**: every precommit for a block `b` the node signs in round `r` is backed
by its round-`r` prevote set: that set has recorded a +2/3 majority for exactly `b` (the first majority
of a round is never replaced — `Tmv.Cons.Stable`), and the prevotes it holds for `b` carry more than
two thirds of the total power (`3·sum > 2·total`). Any signer (FilePV or one that signs anything). -/
theorem precommit_justified (c : Cfg) (is : List Input) (hnf : NoFutureTimeout c .init is) :
    ∀ r b, Output.signVote .precommit r (some b) ∈ (run c .init is).out →
      ∃ vs, (run c .init is).votes.prevotes (r : Int) = some vs ∧ vs.maj23 = some (some b) ∧
        2 * c.total < 3 * vs.blockSum (some b) := by
  intro r b h
  have hm : maj23Of ((run c .init is).votes.prevotes (r : Int)) = some (some b) :=
    run_J is hnf (by intro r b h; simp [NodeState.init] at h) r b h
  have hq : QH c (run c .init is).votes := run_Q is (QH.init c)
  cases hv : (run c .init is).votes.prevotes (r : Int) with
  | none => rw [hv] at hm; simp [maj23Of] at hm
  | some vs =>
    rw [hv] at hm
    have hm' : vs.maj23 = some (some b) := by simpa [maj23Of] using hm
    exact ⟨vs, rfl, hm', (quorum_iff c _).1 (hq.getVoteSet (t := .prevote) hv _ hm')⟩

/-- **prevote_respects_lock**: if the node signed a precommit for block `b` in round `r` and a
prevote for anything else (`nil` included) in a later round `r'`, then a +2/3 prevote majority for a
single value other than `b` (nil included) is recorded for some round `r''` with `r < r'' ≤ r'`.
(Signed votes carry non-decreasing rounds — clause `votes_in_reached_rounds` — so "a prevote of a
later round" is a later prevote; and because the statement holds after every prefix of the inputs,
the majority is recorded no later than the input during which the prevote was signed.) -/
theorem prevote_respects_lock (c : Cfg) (is : List Input) (hnf : NoFutureTimeout c .init is) :
    ∀ r b r' x, Output.signVote .precommit r (some b) ∈ (run c .init is).out →
      Output.signVote .prevote r' x ∈ (run c .init is).out → r < r' → x ≠ some b →
      ∃ (r'' : Nat) (y : Bid), r < r'' ∧ r'' ≤ r' ∧ y ≠ some b ∧
        maj23Of ((run c .init is).votes.prevotes (r'' : Int)) = some y := by
  intro r b r' x h1 h2 h3 h4
  obtain ⟨r'', y, a, b', c', d⟩ := (run_AT is hnf init_A init_T).2.p r b r' x h1 h2 h3 h4
  exact ⟨r'', y, by omega, b', c', d⟩

/-- **locked_until_polka**: after signing a precommit for `b` in round `r` the node is still locked
on `b` (with `LockedRound ≥ r`), unless a +2/3 prevote majority for something else is recorded for a
round in `(r, Round]` — the two unlock rules of `addVote` / `enterPrecommit`. -/
theorem locked_until_polka (c : Cfg) (is : List Input) (hnf : NoFutureTimeout c .init is) :
    ∀ r b, Output.signVote .precommit r (some b) ∈ (run c .init is).out →
      ((run c .init is).lockedBlock = some b ∧ (r : Int) ≤ (run c .init is).lockedRound) ∨
      ∃ (r'' : Nat) (y : Bid), r < r'' ∧ r'' ≤ (run c .init is).round ∧ y ≠ some b ∧
        maj23Of ((run c .init is).votes.prevotes (r'' : Int)) = some y := by
  intro r b h
  rcases (run_AT is hnf init_A init_T).2.k r b h with hl | ⟨r'', y, a, b', c', d⟩
  · exact Or.inl hl
  · exact Or.inr ⟨r'', y, by omega, b', c', d⟩

/-- signed votes are for rounds the node has reached -/
theorem votes_in_reached_rounds (c : Cfg) (is : List Input) (hnf : NoFutureTimeout c .init is) :
    ∀ t r x, Output.signVote t r x ∈ (run c .init is).out → r ≤ (run c .init is).round :=
  (run_AT is hnf init_A init_T).2.a4

/-- **lock_monotone** (state form, EVERY input list, no hypothesis): `LockedRound` never exceeds the
round the node is in, and equals it only from the precommit step on (it is set to the current round by
`enterPrecommit` and to -1 by the unlock rules; nothing else writes it). -/
theorem lock_monotone (c : Cfg) (is : List Input) :
    (run c .init is).lockedRound ≤ ((run c .init is).round : Int) ∧
    ((run c .init is).lockedRound = ((run c .init is).round : Int) → 6 ≤ (run c .init is).step.rank) := by
  suffices h : A (run c .init is) from h
  have : ∀ (is : List Input) (s : NodeState), A s → A (run c s is) := by
    intro is
    induction is with
    | nil => intro s h; unfold run; exact h
    | cons i is ih =>
      intro s h
      have := ih _ (step_A (c := c) i h)
      unfold run at this ⊢
      simpa [List.foldl] using this
  exact this is _ init_A

/-- **precommit_backed_by_delivered_prevotes**: when the node has signed a precommit for block `b` in
round `r`, more than two thirds of the total power — counted over DISTINCT validators `v` — is carried
by validators whose well-formed round-`r` prevote for `b` (index `v`, address of `v`, intact signature
by `v`'s key) is among the inputs delivered so far, or, for the node itself, is a prevote it signed.
(Holds after every prefix of the inputs, hence "delivered before the precommit was signed", up to the
input during which it was signed.) `wtUpTo power p n` is the total power of the validators `< n`
satisfying `p`. -/
theorem precommit_backed_by_delivered_prevotes (c : Cfg) (is : List Input) (hnf : NoFutureTimeout c .init is) :
    ∀ r b, Output.signVote .precommit r (some b) ∈ (run c .init is).out →
      2 * c.total < 3 * Tmv.VoteLog.wtUpTo c.power
        (fun v => deliveredBy is .prevote (r : Int) (some b) v ||
                  ownVote c (run c .init is).out .prevote (r : Int) (some b) v) c.n := by
  intro r b h
  obtain ⟨vs, hv, _, hq⟩ := precommit_justified c is hnf r b h
  have hd : D c ([] ++ is) (run c .init is) := run_D is init_D
  simp only [List.nil_append] at hd
  have := hd.ms.blockSum_le (t := .prevote) hv (some b)
  unfold Ev at this
  omega

/-- **precommit_holds_block**: a block the node precommits was delivered to it complete (a
`blockComplete b` input) or is the block it creates itself as proposer. Every input list, no
hypothesis. (`Tmv.Cons.enterPrecommit_locks_what_it_precommits` is the local form: the step that emits
the precommit leaves the node locked on exactly `b` in exactly that round, and `b` was its locked block
or its complete proposal block when `enterPrecommit` began.) -/
theorem precommit_holds_block (c : Cfg) (is : List Input) :
    ∀ r b, Output.signVote .precommit r (some b) ∈ (run c .init is).out →
      Input.blockComplete b ∈ is ∨ b = c.ownBlock := by
  have h : H c ([] ++ is) (run c .init is) := run_H is init_H
  simp only [List.nil_append] at h
  exact h.pc

/-- every state the node can be in satisfies the lock sanity invariant (A) -/
theorem reachable_A (c : Cfg) (is : List Input) : A (run c .init is) := lock_monotone c is

/-- **lock_moves** (relational form of lock_monotone, one `step` from any reachable state): across
the handling of one input — a timeout only for a round reached — (Round, LockedRound, LockedBlock)
changes only by a sequence of: the round advancing; `LockedRound := Round, LockedBlock := b` where the
prevotes of that round have a recorded +2/3 majority for `b` (the lock / re-lock of `enterPrecommit`);
`LockedRound := -1, LockedBlock := nil` where a +2/3 prevote majority for something other than the
locked block is recorded for a round in `(LockedRound, Round]` (the unlock rules of `addVote` and
`enterPrecommit`). Majorities are read off the vote sets after the step; they are never replaced. -/
theorem lock_moves (c : Cfg) (is : List Input) (i : Input) (hi : i.notFuture (run c .init is)) :
    LockMoves (step c (run c .init is) i).votes
      ((run c .init is).round, (run c .init is).lockedRound, (run c .init is).lockedBlock)
      ((step c (run c .init is) i).round, (step c (run c .init is) i).lockedRound,
       (step c (run c .init is) i).lockedBlock) :=
  (step_rel i hi (reachable_A c is)).2

/-- **scheduled_timeouts_suffice**: the hypothesis `NoFutureTimeout` follows from the input discipline
of a faithful ticker — every delivered timeout was scheduled by the node before (`schedule r st` is
among its outputs at that point) or is a round-0 timeout (the start-of-height timeout is scheduled
outside the state machine): the node only ever schedules timeouts for rounds it has reached. -/
theorem scheduled_timeouts_suffice (c : Cfg) (is : List Input) (h : TimeoutsWereScheduled c .init is) :
    NoFutureTimeout c .init is :=
  scheduled_noFuture is init_S h

/-- the lock rule for histories with a faithful ticker -/
theorem prevote_respects_lock_scheduled (c : Cfg) (is : List Input) (h : TimeoutsWereScheduled c .init is) :
    ∀ r b r' x, Output.signVote .precommit r (some b) ∈ (run c .init is).out →
      Output.signVote .prevote r' x ∈ (run c .init is).out → r < r' → x ≠ some b →
      ∃ (r'' : Nat) (y : Bid), r < r'' ∧ r'' ≤ r' ∧ y ≠ some b ∧
        maj23Of ((run c .init is).votes.prevotes (r'' : Int)) = some y :=
  prevote_respects_lock c is (scheduled_timeouts_suffice c is h)

/-- **makeCommit_sound** (`types.VoteSet.MakeCommit`, every input list, no hypothesis): whenever the
precommit set of a round `r` has a recorded +2/3 majority for block `b`, `makeCommit` yields a commit for
`b` with one flag per validator such that
* a slot is flagged "commit" exactly if its canonical vote is for `b` (same block id: a vote for another
  id — other hash or other part-set header — is marked absent), and "nil" exactly if it is a nil vote;
  empty slots and votes for other blocks are never flagged,
* every slot flagged "commit" holds a well-formed precommit `(r, b)` of that validator that was delivered
  to the node (own index, own address, intact signature by its own key) or that the node signed itself,
* the flagged slots carry more than two thirds of the total power. -/
theorem makeCommit_sound (c : Cfg) (is : List Input) (r b : Nat) (vs : VoteSet)
    (hv : (run c .init is).votes.precommits (r : Int) = some vs) (hm : vs.maj23 = some (some b)) :
    ∃ flags, vs.makeCommit c.n = some (some b, flags) ∧ flags.length = c.n ∧
      (∀ i, i < c.n → (flags.getD i .absent = .commit ↔ alookup vs.votes i = some (some b))) ∧
      (∀ i, i < c.n → (flags.getD i .absent = .nil ↔ alookup vs.votes i = some none)) ∧
      (∀ i, i < c.n → flags.getD i .absent = .commit →
        (deliveredBy is .precommit (r : Int) (some b) i ||
         ownVote c (run c .init is).out .precommit (r : Int) (some b) i) = true) ∧
      2 * c.total < 3 * commitPower c flags := by
  have hdv := run_DV (c := c) is init_D init_V
  simp only [List.nil_append] at hdv
  have hcs : Tmv.Net.CSh (run c .init is).votes := run_CS is Tmv.Net.CSh.init
  have hq : QH c (run c .init is).votes := run_Q is (QH.init c)
  have hg : (run c .init is).votes.getVoteSet (r : Int) .precommit = some vs := hv
  exact VoteSet.makeCommit_sound c _ vs b hm (hdv.1.ms.getVoteSet hg) (hdv.2.getVoteSet hg)
    (hcs.getVoteSet hg) (hq.getVoteSet hg)

/-- the commit a node stores when it decides is `makeCommit` of the precommits of its commit round, and
that set has the decided block as its recorded majority -/
theorem decided_has_majority (c : Cfg) (is : List Input) (b : Nat) (r : Int)
    (hd : (run c .init is).decided = some (b, r)) :
    (run c .init is).commitRound = r ∧ maj23Of ((run c .init is).votes.precommits r) = some (some b) :=
  run_PostD is (Tmv.Net.PostD.of_none rfl) b r hd

/-- **stored_commit_passes_verifyCommit** (C02 → C07): when the node has decided block `b` in round `r`,
the commit `MakeCommit` builds from the precommits of that round — concretised as a `types.Commit` by any
`Glue` (chain id, height, concrete block ids, addresses, and the timestamp and signature stored with each
validator's precommit) — is accepted by the `VerifyCommit` model of Tmv/Model/CommitVerify.lean against
the node's validator set for exactly `b`'s block id, provided
* the total power respects `MaxTotalVotingPower` and `b`'s block id is well-formed and non-zero,
* ideal signatures: the signature stored with a well-formed precommit that was delivered to the node (or
  that it signed itself) verifies under that validator's key over the canonical sign bytes of that vote. -/
theorem stored_commit_passes_verifyCommit {σ : Type} (g : Glue σ)
    (sigOK : Nat → Tmv.CommitVerify.SignBytes → σ → Bool) (c : Cfg) (is : List Input) (b r : Nat)
    (hd : (run c .init is).decided = some (b, (r : Int)))
    (hmax : (c.total : Int) ≤ Tmv.CommitVerify.maxTotalVotingPower)
    (hvb : (g.bidOf b).validBasic = true) (hnz : (g.bidOf b).isZero = false)
    (hsig : ∀ i bid, (deliveredBy is .precommit (r : Int) bid i ||
        ownVote c (run c .init is).out .precommit (r : Int) bid i) = true →
      sigOK i (g.signBytes r bid i) (g.sigOf i r bid) = true) :
    ∃ vs flags, (run c .init is).votes.precommits (r : Int) = some vs ∧
      vs.makeCommit c.n = some (some b, flags) ∧
      Tmv.CommitVerify.verifyCommit sigOK (g.vals c) g.chainID (g.bidOf b) g.height
        (g.commit c r b vs flags) = .ok := by
  obtain ⟨_, hmaj⟩ := decided_has_majority c is b r hd
  cases hv : (run c .init is).votes.precommits (r : Int) with
  | none => rw [hv] at hmaj; simp [maj23Of] at hmaj
  | some vs =>
    rw [hv] at hmaj
    have hm : vs.maj23 = some (some b) := by simpa [maj23Of] using hmaj
    obtain ⟨flags, hmk, hlen, hc, hn, _, hp⟩ := makeCommit_sound c is r b vs hv hm
    refine ⟨vs, flags, rfl, hmk, ?_⟩
    have hdv := run_DV (c := c) is init_D init_V
    simp only [List.nil_append] at hdv
    have hvd := hdv.2.getVoteSet (t := .precommit) hv
    apply Glue.verifyCommit_ok g sigOK c r b vs flags hlen hc hn hp hmax hvb hnz
    intro i hi bid hvote _
    have := (hvd i bid hvote).2
    exact hsig i bid (by simpa [Ev] using this)

/-! ### Non-vacuity and a witness -/

/-- 4 validators of power 1, we are validator 0 and the proposer of round 0 -/
def exCfg (hrs : Bool) (self : Nat) : Cfg where
  n := 4
  power := fun _ => 1
  self := some self
  proposer := fun k => k % 4
  valid := fun _ => true
  ownBlock := 0
  waitForTxs := false
  needProofBlock := true
  emptyInterval := false
  checkHRS := hrs

def exPv (r : Nat) (b : Bid) (v : Nat) : Input := .vote ⟨.prevote, r, b, v, true, v, v⟩ 1
def exPc (r : Nat) (b : Bid) (v : Nat) : Input := .vote ⟨.precommit, r, b, v, true, v, v⟩ 1

/-- propose and prevote block 0, see the polka, precommit and lock; nil precommits of the others and
the precommit timeout lead to round 1, where the propose timeout makes the node prevote again -/
def exLock : List Input :=
  [.timeout 0 .newHeight, exPv 0 (some 0) 1, exPv 0 (some 0) 2,
   exPc 0 none 1, exPc 0 none 2, exPc 0 none 3, .timeout 0 .precommitWait, .timeout 1 .propose]

instance (s : NodeState) (i : Input) : Decidable (i.notFuture s) := by
  cases i <;> unfold Input.notFuture <;> infer_instance

instance instDecNoFuture (c : Cfg) : (s : NodeState) → (is : List Input) → Decidable (NoFutureTimeout c s is)
  | _, [] => isTrue trivial
  | s, i :: is => by
    unfold NoFutureTimeout
    have := instDecNoFuture c (step c s i) is
    infer_instance

instance instDecTWS (c : Cfg) : (s : NodeState) → (is : List Input) → Decidable (TimeoutsWereScheduled c s is)
  | _, [] => isTrue trivial
  | s, i :: is => by
    unfold TimeoutsWereScheduled
    have := instDecTWS c (step c s i) is
    cases i <;> infer_instance

/-- the lock history below is one a faithful ticker produces -/
example : TimeoutsWereScheduled (exCfg true 0) .init exLock := by decide

/-- the hypotheses of `precommit_justified` / `prevote_respects_lock` hold of a history in which the
node does sign a block precommit, gets locked, and prevotes its locked block in the next round -/
example : NoFutureTimeout (exCfg true 0) .init exLock ∧
    Output.signVote .precommit 0 (some 0) ∈ (run (exCfg true 0) .init exLock).out ∧
    Output.signVote .prevote 1 (some 0) ∈ (run (exCfg true 0) .init exLock).out ∧
    (run (exCfg true 0) .init exLock).lockedBlock = some 0 := by decide

/-- … and of one where a nil polka in round 1 releases the lock, after which the node prevotes nil in
round 2 (the conclusion of `prevote_respects_lock` is then witnessed by round 1) -/
example :
    let is := exLock ++ [exPv 1 none 1, exPv 1 none 2, exPv 1 none 3, exPc 1 none 1, exPc 1 none 2,
      .timeout 1 .precommitWait, .timeout 2 .propose]
    NoFutureTimeout (exCfg true 0) .init is ∧
    (run (exCfg true 0) .init is).lockedBlock = none ∧
    Output.signVote .prevote 2 none ∈ (run (exCfg true 0) .init is).out := by decide

/-- a history in which the node (proposer of round 0) decides its own block in round 0 -/
def exDecide : List Input :=
  [.timeout 0 .newHeight, exPv 0 (some 0) 1, exPv 0 (some 0) 2, exPc 0 (some 0) 1, exPc 0 (some 0) 2]

/-- the hypotheses of `makeCommit_sound` / `stored_commit_passes_verifyCommit` are met by it … -/
example : (run (exCfg true 0) .init exDecide).decided = some (0, 0) := by decide

def exSB (r : Nat) (bid : Bid) : Tmv.CommitVerify.SignBytes :=
  ⟨Tmv.CommitVerify.precommitType, 1, r, bid.map (fun b => ⟨List.replicate 32 (UInt8.ofNat b), 1, List.replicate 32 0⟩), 0, "c"⟩

/-- … and by an ideal-signature instantiation of the glue (a signature is the pair (key, sign bytes)) -/
def exGlue : Glue (Nat × Tmv.CommitVerify.SignBytes) where
  chainID := "c"
  height := 1
  bidOf := fun b => ⟨List.replicate 32 (UInt8.ofNat b), 1, List.replicate 32 0⟩
  addrOf := fun i => [UInt8.ofNat i]
  tsOf := fun _ => 0
  sigOf := fun i r bid => (i, exSB r bid)

example : (exGlue.bidOf 0).validBasic = true ∧ (exGlue.bidOf 0).isZero = false ∧
    ((exCfg true 0).total : Int) ≤ Tmv.CommitVerify.maxTotalVotingPower ∧
    ∀ i r bid, (fun k sb (sg : Nat × Tmv.CommitVerify.SignBytes) => decide (sg = (k, sb))) i
      (exGlue.signBytes r bid i) (exGlue.sigOf i r bid) = true := by
  refine ⟨by decide, by decide, by decide, ?_⟩
  intro i r bid
  simp [Glue.signBytes, exGlue, exSB]

/-- the history of the witness below: validator 1 (not the proposer) prevotes nil at the propose
timeout, then receives the proposal and its block, then a timeout naming round 1 — which it has not
reached and never scheduled — arrives -/
def exFuture : List Input :=
  [.timeout 0 .newHeight, .timeout 0 .propose, .proposal ⟨0, 1, -1, 0⟩, .blockComplete 1, .timeout 1 .propose]

/-- **witness**: the step guards of `enterPrevote` alone do not stop a second, different prevote in
round 0 when a timeout for a round not yet reached is delivered and the signer signs anything
(`checkHRS = false`): `enterPrevote(h, 1)` passes its guard and `signVote` stamps `cs.Round = 0`. -/
theorem state_machine_alone_needs_reached_round :
    Output.signVote .prevote 0 none ∈ (run (exCfg false 1) .init exFuture).out ∧
    Output.signVote .prevote 0 (some 1) ∈ (run (exCfg false 1) .init exFuture).out ∧
    ¬ NoFutureTimeout (exCfg false 1) .init exFuture := by decide

/-- … while the FilePV signer refuses the second one on the very same inputs (cf. `one_per_step`) -/
example : Output.signVote .prevote 0 (some 1) ∉ (run (exCfg true 1) .init exFuture).out := by decide

end Tmv.Props.C02
