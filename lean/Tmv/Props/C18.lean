import Tmv.Lemmas.BlockStoreOps
import Tmv.Lemmas.StateStoreRange
import Tmv.Lemmas.StoreNode
/-! # C18 — stored chain data stays contiguous and consistent through pruning and crashes

Theorems about the model of `store/store.go` (Tmv/Model/BlockStore.lean) and of the record
bookkeeping of `state/store.go` (Tmv/Model/StateStoreRange.lean).  `Good db` is the audit of the
property: every height in the persisted `[base,height]` has meta, all parts (reassembling to a
block that hashes to the meta's id), hash-index entry, and the commit for it (seen commit for the
tip), all agreeing.  Crash points: EVERY SINGLE WRITE (a batch is treated as its individual
deletes in order, which is stronger than "a batch is one crash unit"). -/
namespace Tmv.Props.C18
open Tmv Tmv.BlockStore

/-- **SaveBlock is crash consistent.**  From a database that passes the audit, for every valid
next block, the database after ANY prefix of SaveBlock's writes passes the audit, and after all
of them the range ends at the new block (base unchanged, or the block's height for an empty store). -/
theorem save_crash_consistent (db : DB) (b : Block) (sc : Commit) (s' : Store)
    (units : List (List Write)) (hG : Good db) (hv : ValidNext db b sc)
    (hs : saveBlock (openStore db) b true sc = .ok (s', units)) :
    AllPrefixGood db units.flatten ∧ (∀ k, Good (afterUnits db units k)) ∧
    loadRange (applyAll db units.flatten) =
      ((if (loadRange db).1 = 0 then b.height else (loadRange db).1), b.height) ∧
    s' = openStore (applyAll db units.flatten) :=
  save_crash_core db b sc s' units hG hv hs

/-- **PruneBlocks is crash consistent**, for prunes of any number of batches: from a database that
passes the audit, the database after ANY prefix of the writes of `PruneBlocks(retain)` (descriptor
writes and every individual delete of every batch) passes the audit.  With the pre-fix flush
argument (`h` instead of `h + 1`) this is false — see `old_flush_base_breaks_audit`. -/
theorem prune_crash_consistent (db : DB) (retain : Int) (s' : Store) (n : Nat)
    (units : List (List Write)) (hG : Good db)
    (hp : pruneBlocks (openStore db) db retain = .ok (s', n, units)) :
    AllPrefixGood db units.flatten ∧ ∀ k, Good (afterUnits db units k) :=
  prune_crash_core db retain s' n units hG hp

/-- **Pruning removes exactly the heights below the retain height and nothing still needed.**
After `PruneBlocks(retain)` on an audited store with range `[B,H]`: the range is `[retain,H]`
(volatile fields agree), the number reported is `retain - B`, every key the function owns for a
height in `[B,retain)` (meta, hash-index entry, commit, seen commit, parts) is gone, every other key
has the value it had, and every height in `[retain,H]` still passes the audit. -/
theorem prune_exact (db : DB) (retain : Int) (s' : Store) (n : Nat)
    (units : List (List Write)) (hG : Good db)
    (hp : pruneBlocks (openStore db) db retain = .ok (s', n, units)) :
    loadRange (applyAll db units.flatten) = (retain, (loadRange db).2) ∧
    s' = openStore (applyAll db units.flatten) ∧
    (n : Int) = retain - (loadRange db).1 ∧
    (∀ a k, (loadRange db).1 ≤ a → a < retain → OwnedBy db a k →
      get (applyAll db units.flatten) k = none) ∧
    (∀ k, k ≠ .bsState → (∀ a, (loadRange db).1 ≤ a → a < retain → ¬ OwnedBy db a k) →
      get (applyAll db units.flatten) k = get db k) ∧
    (∀ a, retain ≤ a → a ≤ (loadRange db).2 →
      checkAt (applyAll db units.flatten) (loadRange db).2 a = none) := by
  obtain ⟨B, H, hr, hB, hBr, hrH, hGF, hs', hn, hu⟩ := prune_setup db retain s' n units hG hp
  have hspec := pruneLoop_spec H retain (retain - B).toNat B db [] 0 B (by omega) hrH hr hB
    (Int.le_refl _) hGF (fun w hw => by cases hw) (fun w hw => by cases hw)
  rw [← hu, ← hn] at hspec
  obtain ⟨s1, s2, s3, s4⟩ := hspec
  have hfinGood := allPrefixGood_last _ _ s1
  rw [hr]
  refine ⟨s2, ?_, by simp only; omega, ?_, ?_, ?_⟩
  · rw [hs']; simp [openStore, s2]
  · intro a k ha har ho
    have hk : k ≠ .bsState := by
      rintro rfl
      obtain ⟨m, _, hmem⟩ := ho
      rw [mem_deletesFor] at hmem
      rcases hmem with e | e | e | e | ⟨p, _, e⟩ <;> cases e
    exact (s3 k hk).1 (Or.inr ⟨a, ha, har, ho⟩)
  · intro k hk hno
    apply (s3 k hk).2
    rintro (e | ⟨a, ha, har, e⟩)
    · cases e
    · exact hno a ha har e
  · intro a ha haH
    rw [good_iff, s2] at hfinGood
    rcases hfinGood with ⟨h0, _⟩ | ⟨_, _, hgf⟩
    · simp only at h0; omega
    · exact hgf a ha haH

/-- readable corollary of `prune_exact`: below the retain height nothing loads any more -/
theorem prune_removes_below (db : DB) (retain : Int) (s' : Store) (n : Nat)
    (units : List (List Write)) (hG : Good db)
    (hp : pruneBlocks (openStore db) db retain = .ok (s', n, units))
    (a : Int) (ha : (loadRange db).1 ≤ a) (har : a < retain) :
    loadMeta (applyAll db units.flatten) a = none ∧ loadBlock (applyAll db units.flatten) a = none ∧
    loadCommit (applyAll db units.flatten) a = none ∧ loadSeen (applyAll db units.flatten) a = none ∧
    (∀ m, loadMeta db a = some m → loadHeightByHash (applyAll db units.flatten) m.hash = none) := by
  obtain ⟨_, _, _, hgone, _, _⟩ := prune_exact db retain s' n units hG hp
  obtain ⟨B, H, hr, hB, hBr, hrH, hGF, _, _, _⟩ := prune_setup db retain s' n units hG hp
  rw [hr] at ha
  obtain ⟨m, _, _, ok⟩ := (checkAt_none_iff db H a).1 (hGF a ha (by omega))
  have own : ∀ k, Write.del k ∈ deletesFor a m → get (applyAll db units.flatten) k = none :=
    fun k hk => hgone a k (by rw [hr]; exact ha) har ⟨m, ok.hmeta, hk⟩
  have hmeta : loadMeta (applyAll db units.flatten) a = none := by
    simp only [loadMeta, own (.bmeta a) ((mem_deletesFor a m _).2 (Or.inl rfl))]
  refine ⟨hmeta, by simp only [loadBlock, hmeta], ?_, ?_, ?_⟩
  · simp only [loadCommit, own (.commit a) ((mem_deletesFor a m _).2 (Or.inr (Or.inr (Or.inl rfl))))]
  · simp only [loadSeen, own (.seen a) ((mem_deletesFor a m _).2 (Or.inr (Or.inr (Or.inr (Or.inl rfl)))))]
  · intro m' hm'
    rw [ok.hmeta] at hm'; cases hm'
    simp only [loadHeightByHash, own (.hashIdx m.hash) ((mem_deletesFor a m _).2 (Or.inr (Or.inl rfl)))]

/-- readable corollary of `prune_exact`: no key that the audit of a retained height reads is
touched at all -/
theorem prune_keeps_above (db : DB) (retain : Int) (s' : Store) (n : Nat)
    (units : List (List Write)) (hG : Good db)
    (hp : pruneBlocks (openStore db) db retain = .ok (s', n, units))
    (a : Int) (ha : retain ≤ a) (haH : a ≤ (loadRange db).2) (k : Key)
    (hk : usedAt db (loadRange db).2 a k) :
    get (applyAll db units.flatten) k = get db k := by
  obtain ⟨_, _, _, _, hkeep, _⟩ := prune_exact db retain s' n units hG hp
  obtain ⟨B, H, hr, hB, hBr, hrH, hGF, _, _, _⟩ := prune_setup db retain s' n units hG hp
  rw [hr] at haH hk
  apply hkeep
  · rintro rfl
    rcases hk with e1 | ⟨i, e1⟩ | ⟨_, e1⟩ | ⟨_, e1⟩ | ⟨m, _, e1⟩ <;> cases e1
  · intro a' ha' har' ⟨m', hm', hmem⟩
    rw [hr] at ha'
    have := deletes_unused db B H a' m' hGF ha' (by omega) hm' _ hmem
    exact this.2 a (by omega) haH hk

/-- why the one-line repair matters: persisting base `h` and then deleting height `h` (what the
pre-fix intermediate flush did) leaves a store whose base does not load. -/
theorem old_flush_base_breaks_audit (db : DB) (h H : Int) (ws : List Write) (hh : 0 < h) (hH : h ≤ H)
    (hws : ∀ w ∈ ws, w.key ≠ .bsState)
    (hdel : get (applyAll (apply db (.set .bsState (.range h H))) ws) (.bmeta h) = none) :
    ¬ Good (applyAll (apply db (.set .bsState (.range h H))) ws) := by
  intro hG
  have hr : loadRange (applyAll (apply db (.set .bsState (.range h H))) ws) = (h, H) := by
    rw [loadRange_applyAll_of_not_mem _ _ hws, loadRange_set _ _ _ (by omega)]
  rw [good_iff, hr] at hG
  rcases hG with ⟨h0, _⟩ | ⟨_, _, hgf⟩
  · simp only at h0; omega
  · have := hgf h (Int.le_refl _) hH
    simp only [checkAt, loadMeta, hdel] at this
    cases this

/-! ### the executable audit (what the correspondence runs compare) decides `Good` -/

/-- the audit the harness and the driver run returns "ok" exactly on the databases the theorems
call `Good` -/
theorem audit_none_iff_good (db : DB) : audit db = none ↔ Good db := by
  unfold audit
  rw [good_iff]
  rcases hr : loadRange db with ⟨B, H⟩
  simp only
  by_cases h0 : H = 0 ∧ B = 0
  · obtain ⟨rfl, rfl⟩ := h0
    simp
  · simp only [h0, if_false]
    by_cases h1 : B ≤ 0 ∨ B > H
    · simp only [h1, if_true, false_iff, reduceCtorEq]
      rintro (⟨e1, e2⟩ | ⟨e1, e2, _⟩)
      · exact h0 ⟨e2, e1⟩
      · omega
    · simp only [h1, if_false, auditFrom_none_iff]
      constructor
      · intro hall
        refine Or.inr ⟨by omega, by omega, fun a ha haH => hall a ha (by omega)⟩
      · rintro (⟨e1, e2⟩ | ⟨_, _, hgf⟩)
        · exact absurd ⟨e2, e1⟩ h0
        · intro a ha haH
          exact hgf a ha (by omega)

/-! ### all histories with crashes -/

theorem good_empty : Good ({} : DB) := by
  rw [good_iff, loadRange_empty]
  exact Or.inl ⟨rfl, rfl⟩

/-- the databases reachable from an empty store by any sequence of valid `SaveBlock`s and any
`PruneBlocks`, each of which may be cut by a crash after ANY of its individual writes (after which
the store is reopened on what is on disk and the history continues) -/
inductive Reach : DB → Prop
  | empty : Reach {}
  | save (db : DB) (b : Block) (sc : Commit) (s' : Store) (units : List (List Write)) (j : Nat) :
      Reach db → ValidNext db b sc → saveBlock (openStore db) b true sc = .ok (s', units) →
      Reach (applyAll db (units.flatten.take j))
  | prune (db : DB) (retain : Int) (s' : Store) (n : Nat) (units : List (List Write)) (j : Nat) :
      Reach db → pruneBlocks (openStore db) db retain = .ok (s', n, units) →
      Reach (applyAll db (units.flatten.take j))

/-- **C18 for the block store**: for all chains, all sequences of saves and prunes (of any number
of batches) and every database write as a crash point, what is on disk passes the full audit of
`[base,height]`. -/
theorem reachable_good (db : DB) (h : Reach db) : Good db := by
  induction h with
  | empty => exact good_empty
  | save db b sc s' units j _ hv hs ih => exact (save_crash_consistent db b sc s' units ih hv hs).1 j
  | prune db retain s' n units j _ hp ih => exact (prune_crash_consistent db retain s' n units ih hp).1 j

/-! ### the hypotheses are satisfiable (non-vacuity) -/

private def blk1 : Block :=
  { height := 1, hash := 7, total := 2, lastCommit := { height := 0, blockHash := 0 }, vu := false, pu := false, retain := 0 }

example : ValidNext ({} : DB) blk1 { height := 1, blockHash := 7 } :=
  { pos := by decide, parts := by decide, seen := rfl,
    last := by intro m _ hm; simp [loadMeta_empty] at hm,
    fresh := by intro h m _ _ hm; simp [loadMeta_empty] at hm }

example : ∃ s' units, saveBlock (openStore ({} : DB)) blk1 true { height := 1, blockHash := 7 } = .ok (s', units) := by
  simp [saveBlock, openStore, loadRange_empty]

/-- a non-empty audited store exists, and `PruneBlocks` accepts a retain height on it -/
example : ∃ db, Good db ∧ loadRange db = (1, 1) ∧
    ∃ s' n units, pruneBlocks (openStore db) db 1 = .ok (s', n, units) := by
  have hr0 : loadRange ({} : DB) = (0, 0) := loadRange_empty
  have hv : ValidNext ({} : DB) blk1 { height := 1, blockHash := 7 } :=
    { pos := by decide, parts := by decide, seen := rfl,
      last := by intro m _ hm; simp [loadMeta_empty] at hm,
      fresh := by intro h m _ _ hm; simp [loadMeta_empty] at hm }
  obtain ⟨s', units, hs⟩ : ∃ s' units, saveBlock (openStore ({} : DB)) blk1 true { height := 1, blockHash := 7 } = .ok (s', units) := by
    simp [saveBlock, openStore, hr0]
  obtain ⟨h1, _, h3, _⟩ := save_crash_consistent {} blk1 _ s' units good_empty hv hs
  refine ⟨applyAll {} units.flatten, allPrefixGood_last _ _ h1, ?_, ?_⟩
  · rw [h3, hr0]; rfl
  · simp [pruneBlocks, openStore, h3, hr0, blk1]

/-! ### the state store serves the range

The validator-set model itself (contents, proposer priorities) is property C08's; here a record is
(LastHeightChanged, carries a full value?) and "can produce" means `LoadValidators` /
`LoadConsensusParams` find a full value the way the code looks for it.  Proved per operation, for
every write prefix; the pointer invariant `StateStore.PtrInv` that `PruneStates` relies on is a
hypothesis (it is what a chain of `save`s produces; it is not proved here to be maintained along
whole histories — the correspondence stream audits that on the real stores). -/

/-- **PruneStates keeps the last-changed and checkpoint records**: for every `from`, `to`, after ANY
prefix of the writes of `PruneStates(from, to)` (all batches, every individual write), every height
`h ≥ to` whose validator set / consensus params could be loaded before can still be loaded. -/
theorem state_store_serves_range_prune (db : StateStore.DB) (frm to : Int)
    (inv : StateStore.PtrInv db to) (j : Nat) (h : Int) (hh : to ≤ h) :
    (StateStore.valsLoadable db h = true →
      StateStore.valsLoadable
        (StateStore.applyAll db ((StateStore.pruneStates db frm to).1.flatten.take j)) h = true) ∧
    (StateStore.paramsLoadable db h = true →
      StateStore.paramsLoadable
        (StateStore.applyAll db ((StateStore.pruneStates db frm to).1.flatten.take j)) h = true) := by
  unfold StateStore.pruneStates
  split
  · simp [StateStore.applyAll_nil]
  · split
    · simp [StateStore.applyAll_nil]
    · split
      · simp [StateStore.applyAll_nil]
      · rename_i vc vfull hv
        split
        · simp [StateStore.applyAll_nil]
        · rename_i pc pfull hp
          have hshape := StateStore.pruneLoop_shape db
            (fun h => !vfull && (h == vc || h == StateStore.lastStoredHeightFor to vc))
            (fun h => !pfull && h == pc) to (to - frm).toNat (to - 1) db [] 0 (by omega)
            (StateStore.rel_refl _ _ _ _) (fun w hw => by cases hw)
          have hrel := StateStore.rel_applyAll db _ _ to
            ((StateStore.pruneLoop
              (fun h => !vfull && (h == vc || h == StateStore.lastStoredHeightFor to vc))
              (fun h => !pfull && h == pc) (to - frm).toNat (to - 1) db [] 0).1.flatten.take j) db
            (StateStore.rel_refl _ _ _ _) (fun w hw => hshape w (List.mem_of_mem_take hw))
          exact ⟨StateStore.serve_vals db _ to vc vfull _ hv hrel inv h hh,
                 StateStore.serve_params db _ to pc pfull _ hp hrel inv h hh⟩

/-- **`Save` never disturbs the range**: after ANY prefix of the writes of `Save(state)`, every
height below the one being prepared (`saveNext`, i.e. every height of the block store's range)
whose validator set / params could be loaded can still be loaded (its own record and the record it
points to are not among the keys `Save` writes). -/
theorem state_store_serves_range_save (db : StateStore.DB) (s : StateStore.St) (j : Nat) (h : Int)
    (hh : h < StateStore.saveNext s)
    (wfV : ∀ c f, StateStore.loadInfo db (.vals h) = some (c, f) → c ≤ h)
    (wfP : ∀ c f, StateStore.loadInfo db (.params h) = some (c, f) → c ≤ h) :
    StateStore.valsLoadable (StateStore.applyAll db ((StateStore.save s).1.flatten.take j)) h
      = StateStore.valsLoadable db h ∧
    StateStore.paramsLoadable (StateStore.applyAll db ((StateStore.save s).1.flatten.take j)) h
      = StateStore.paramsLoadable db h := by
  have hkeys := StateStore.save_keys s
  have hv : ∀ a, a ≤ h → StateStore.loadInfo
      (StateStore.applyAll db ((StateStore.save s).1.flatten.take j)) (.vals a)
        = StateStore.loadInfo db (.vals a) := by
    intro a ha
    apply StateStore.loadInfo_applyAll_of_not_mem
    intro w hw
    rcases hkeys w (List.mem_of_mem_take hw) with e | e | e | e <;> rw [e] <;> intro e2
    · injection e2; omega
    · injection e2; omega
    · cases e2
    · cases e2
  have hp : ∀ a, a ≤ h → StateStore.loadInfo
      (StateStore.applyAll db ((StateStore.save s).1.flatten.take j)) (.params a)
        = StateStore.loadInfo db (.params a) := by
    intro a ha
    apply StateStore.loadInfo_applyAll_of_not_mem
    intro w hw
    rcases hkeys w (List.mem_of_mem_take hw) with e | e | e | e <;> rw [e] <;> intro e2
    · cases e2
    · cases e2
    · injection e2; omega
    · cases e2
  constructor
  · unfold StateStore.valsLoadable
    rw [hv h (Int.le_refl _)]
    cases e : StateStore.loadInfo db (.vals h) with
    | none => rfl
    | some p =>
      obtain ⟨c, f⟩ := p
      cases f with
      | true => rfl
      | false =>
        simp only
        rw [hv _ (StateStore.lastStored_le h c (wfV c false e))]
  · unfold StateStore.paramsLoadable
    rw [hp h (Int.le_refl _)]
    cases e : StateStore.loadInfo db (.params h) with
    | none => rfl
    | some p =>
      obtain ⟨c, f⟩ := p
      cases f with
      | true => rfl
      | false =>
        simp only
        rw [hp _ (wfP c false e)]

/-- the pointer invariant is satisfiable: the state store right after the genesis `Save`
(initial height 5), pruning target 5 -/
example : StateStore.PtrInv
    (StateStore.applyAll {} (StateStore.save
      { lastBlockHeight := 0, lastBlockHash := 0, initialHeight := 5, lhcVals := 5, lhcParams := 5 }).1.flatten) 5 := by
  have hw : (StateStore.save
      { lastBlockHeight := 0, lastBlockHash := 0, initialHeight := 5, lhcVals := 5, lhcParams := 5 }).1.flatten =
      [.set (.vals 5) (.info 5 true), .set (.vals 6) (.info 5 false), .set (.params 5) (.info 5 true),
       .set .state (.state { lastBlockHeight := 0, lastBlockHash := 0, initialHeight := 5, lhcVals := 5, lhcParams := 5 })] := by
    simp [StateStore.save, StateStore.saveValsInfo, StateStore.saveParamsInfo, StateStore.interval,
      Facts.c18_valSetCheckpointInterval]
  rw [hw]
  have hget : ∀ k, StateStore.loadInfo (StateStore.applyAll {} [.set (.vals 5) (.info 5 true),
      .set (.vals 6) (.info 5 false), .set (.params 5) (.info 5 true),
      .set .state (.state { lastBlockHeight := 0, lastBlockHash := 0, initialHeight := 5, lhcVals := 5, lhcParams := 5 })]) k =
      if k = .vals 5 then some (5, true) else if k = .vals 6 then some (5, false)
      else if k = .params 5 then some (5, true) else none := by
    intro k
    simp only [StateStore.applyAll_cons, StateStore.applyAll_nil, StateStore.loadInfo_set]
    by_cases h1 : k = .vals 5
    · subst h1; simp
    · by_cases h2 : k = .vals 6
      · subst h2; simp
      · by_cases h3 : k = .params 5
        · subst h3; simp
        · have e1 : ¬ StateStore.Key.vals 5 = k := fun e => h1 e.symm
          have e2 : ¬ StateStore.Key.vals 6 = k := fun e => h2 e.symm
          have e3 : ¬ StateStore.Key.params 5 = k := fun e => h3 e.symm
          by_cases h4 : StateStore.Key.state = k
          · subst h4; simp
          · simp [h1, h2, h3, h4, e1, e2, e3, StateStore.loadInfo, StateStore.get]
  refine ⟨?_, ?_, ?_, ?_⟩
  · intro h c hh hl hc
    rw [hget] at hl
    split at hl
    · cases hl
    · split at hl
      · injection hl with hl; injection hl with hl; omega
      · split at hl <;> cases hl
  · intro c hl
    rw [hget] at hl
    simp at hl
    exact Or.inl hl.symm
  · intro h c hh hl hc
    rw [hget] at hl
    split at hl
    · cases hl
    · split at hl
      · rename_i e; cases e
      · split at hl <;> cases hl
  · intro c hl
    rw [hget] at hl
    simp at hl
    exact hl.symm

/-! ### the two stores together, over whole histories

`StoreNode.step` is one height of `consensus/state.go finalizeCommit`: `SaveBlock` (unless the
height is already stored — then the stored block is applied, which is what the handshake does after
a crash), `ApplyBlock` (`SaveABCIResponses`, `updateState`, `Save`), and, when the application
returned a retain height, the pruning glue (`PruneBlocks`, then `PruneStates(old base, retain)`).
A history is any sequence of such steps from the genesis `Save`, each cut after ANY single write to
either database and continued on the REOPENED stores.  `StoreNode.NInv` is the on-disk invariant:
`Good` for the block store, `StateStore.SInv` (records present, pointing downwards, full only at
change / checkpoint heights, LastHeightChanged monotone, loadable, newest records carrying the
persisted state's change heights) from the block store's base upwards, and the persisted state
level with the block store's tip or exactly one block behind it. -/

open Tmv.StoreNode in
/-- the databases reachable by finalizeCommit-style histories with crashes at any single write -/
inductive Reach2 : StoreNode.D → Prop
  | genesis (ih : Int) : 1 ≤ ih → Reach2 ((newNode ih).bdb, (newNode ih).sdb)
  | step (d : StoreNode.D) (fb : StateStore.St) (i : StepIn) (j : Nat) :
      Reach2 d → Honest d i →
      Reach2 (applyWs d ((flat (step (reopen d fb) i).units).take j))

/-- the genesis `Save` establishes the combined invariant -/
theorem genesis_inv (ih : Int) (hih : 1 ≤ ih) :
    StoreNode.NInv ((StoreNode.newNode ih).bdb, (StoreNode.newNode ih).sdb) := by
  refine ⟨StateStore.genesisSt ih, ?_, good_empty, Or.inl ⟨by simp [StoreNode.newNode, loadRange_empty], rfl⟩,
    fun m hp _ _ => by simp [StoreNode.newNode, loadRange_empty] at hp⟩
  have : StoreNode.lowOf ({} : DB) (StateStore.genesisSt ih) = ih := by
    simp [StoreNode.lowOf, loadRange_empty, StateStore.genesisSt]
  simp only [StoreNode.newNode]
  rw [this]
  exact StateStore.SInv.genesis ih hih

/-- **C18 for both stores over whole histories**: whatever is on disk after any finalizeCommit-style
history with crashes at arbitrary single writes satisfies the combined invariant. -/
theorem two_store_reachable_inv (d : StoreNode.D) (h : Reach2 d) : StoreNode.NInv d := by
  induction h with
  | genesis ih hih => exact genesis_inv ih hih
  | step d fb i j _ hon ih => exact StoreNode.step_prefix_inv d fb i ih hon j

/-- what the combined invariant says height by height -/
theorem ninv_serves (d : StoreNode.D) (hn : StoreNode.NInv d) (h : Int)
    (h1 : (loadRange d.1).1 ≤ h) (h2 : h ≤ (loadRange d.1).2) (hne : 0 < (loadRange d.1).2) :
    checkAt d.1 (loadRange d.1).2 h = none ∧ StateStore.valsLoadable d.2 h = true ∧
    StateStore.paramsLoadable d.2 h = true := by
  obtain ⟨st, hS, hG, hR, _⟩ := hn
  rw [good_iff] at hG
  rcases hG with ⟨_, h0⟩ | ⟨hB, hBH, hGF⟩
  · omega
  · have hlow : StoreNode.lowOf d.1 st = (loadRange d.1).1 := by
      unfold StoreNode.lowOf
      have : ¬ (loadRange d.1).2 = 0 := by omega
      simp only [this, if_false]
    rw [hlow] at hS
    have hle : (loadRange d.1).2 ≤ StateStore.saveNext st := by
      rcases hR with ⟨h0, _⟩ | ⟨_, hL | hW⟩
      · omega
      · have : StateStore.saveNext st = (loadRange d.1).2 + 1 := by
          unfold StateStore.saveNext; rw [hL]; split <;> omega
        omega
      · omega
    exact ⟨hGF h h1 h2, hS.vLoad h h1 (by omega), hS.pLoad h h1 (by omega)⟩

/-- **`two_store_reachable_good`**: after any such history, the combined audit the correspondence
runs execute — every height in the block store's `[base,height]` has block, parts, meta, hash
index and commit agreeing AND the state store produces its validator set and consensus params —
returns "ok" on what is on disk. -/
theorem two_store_reachable_good (d : StoreNode.D) (h : Reach2 d) : StoreNode.audit d.1 d.2 = none := by
  have hn := two_store_reachable_inv d h
  have hG : Good d.1 := by obtain ⟨_, _, hG, _, _⟩ := hn; exact hG
  unfold StoreNode.audit
  rcases hr : loadRange d.1 with ⟨B, H⟩
  simp only
  rw [good_iff, hr] at hG
  rcases hG with ⟨hB0, hH0⟩ | ⟨hB, hBH, _⟩
  · simp only at hB0 hH0; subst hB0; subst hH0; simp
  · simp only at hB hBH
    have h0 : ¬ (H = 0 ∧ B = 0) := by omega
    have h1 : ¬ (B ≤ 0 ∨ B > H) := by omega
    simp only [h0, h1, if_false]
    apply StoreNode.node_auditFrom_none
    intro a ha hb
    have := ninv_serves d hn a (by rw [hr]; exact ha) (by rw [hr]; simp only; omega) (by rw [hr]; simp only; omega)
    rw [hr] at this
    exact this

/-- **the crash window between the block-store write and the state-store write, exactly**: on disk
after any history, the persisted state is either level with the block store's tip, or exactly one
block behind it (`saveNext st` = the stored tip: `SaveBlock` completed, `Save` has not — what the
handshake repairs by re-applying the stored block).  In BOTH cases the full audit of `[base,height]`
holds (`two_store_reachable_good`): the validator record of the tip and of the height after it and
the params record of the tip were written by the previous `Save`. -/
theorem crash_window_exact (d : StoreNode.D) (h : Reach2 d) :
    ∃ st, StateStore.loadState d.2 = some st ∧
      (((loadRange d.1).2 = 0 ∧ st.lastBlockHeight = 0) ∨
       (0 < (loadRange d.1).2 ∧ st.lastBlockHeight = (loadRange d.1).2) ∨
       (0 < (loadRange d.1).2 ∧ (loadRange d.1).2 = StateStore.saveNext st ∧
         StateStore.valsLoadable d.2 ((loadRange d.1).2 + 1) = true)) := by
  obtain ⟨st, hS, hG, hR, _⟩ := two_store_reachable_inv d h
  refine ⟨st, hS.state, ?_⟩
  rcases hR with ⟨h0, hL⟩ | ⟨hp, hL | hW⟩
  · exact Or.inl ⟨h0, hL⟩
  · exact Or.inr (Or.inl ⟨hp, hL⟩)
  · refine Or.inr (Or.inr ⟨hp, hW, ?_⟩)
    rw [good_iff] at hG
    rcases hG with ⟨_, h0⟩ | ⟨hB, hBH, _⟩
    · omega
    · have hlow : StoreNode.lowOf d.1 st = (loadRange d.1).1 := by
        unfold StoreNode.lowOf
        have : ¬ (loadRange d.1).2 = 0 := by omega
        simp only [this, if_false]
      rw [hlow] at hS
      exact hS.vLoad _ (by omega) (by omega)

/-- **the pointer invariant is no longer a hypothesis**: on every reachable disk state, every
write prefix of `PruneStates(from, to)` for a `to` inside the served range keeps every height from
`to` up to the newest record loadable (validators) / up to the state's next height (params). -/
theorem state_store_serves_range (d : StoreNode.D) (hr : Reach2 d) (frm to : Int) (j : Nat) (h : Int) :
    ∃ st, StateStore.loadState d.2 = some st ∧
      (StoreNode.lowOf d.1 st ≤ to → to ≤ StateStore.saveNext st → to ≤ h →
        (h ≤ StateStore.saveNext st + 1 → StateStore.valsLoadable
          (StateStore.applyAll d.2 ((StateStore.pruneStates d.2 frm to).1.flatten.take j)) h = true) ∧
        (h ≤ StateStore.saveNext st → StateStore.paramsLoadable
          (StateStore.applyAll d.2 ((StateStore.pruneStates d.2 frm to).1.flatten.take j)) h = true)) := by
  obtain ⟨st, hS, _, _, _⟩ := two_store_reachable_inv d hr
  refine ⟨st, hS.state, fun h1 h2 h3 => ?_⟩
  have := hS.prune_prefix frm to h1 h2 j
  exact ⟨fun h4 => this.vLoad h h3 h4, fun h4 => this.pLoad h h3 h4⟩

/-- continuing WITHOUT a crash is covered by `Reach2.step` too: after a complete step the volatile
`BlockStore{base,height}` and in-memory `State` of the node are exactly what reopening the two
databases gives, so the next step of an uncrashed node is the next step of the reopened one. -/
theorem uncrashed_continuation_is_reopen (d : StoreNode.D) (h : Reach2 d) (fb fb' : StateStore.St)
    (i : StoreNode.StepIn) (hon : StoreNode.Honest d i) :
    (StoreNode.step (StoreNode.reopen d fb) i).node =
      StoreNode.reopen (StoreNode.applyWs d (StoreNode.flat (StoreNode.step (StoreNode.reopen d fb) i).units)) fb' :=
  StoreNode.step_node_eq_reopen d fb fb' i (two_store_reachable_inv d h) hon

/-- non-vacuity: a history exists (genesis at initial height 1), and an honest first proposal -/
example : Reach2 ((StoreNode.newNode 1).bdb, (StoreNode.newNode 1).sdb) := Reach2.genesis 1 (by decide)

/-- … and the states after any write prefix of an honest first step are reachable -/
example (j : Nat) : Reach2 (StoreNode.applyWs ((StoreNode.newNode 1).bdb, (StoreNode.newNode 1).sdb)
    ((StoreNode.flat (StoreNode.step (StoreNode.reopen ((StoreNode.newNode 1).bdb, (StoreNode.newNode 1).sdb)
      (StoreNode.genesis 1)) { id := 7, parts := 2, vu := true, pu := false, retain := 0 }).units).take j)) :=
  Reach2.step _ _ _ j (Reach2.genesis 1 (by decide))
    { sc := rfl, parts := by decide,
      fresh := by intro h m _ _ hm; simp [StoreNode.newNode, loadMeta_empty] at hm }

example : StoreNode.Honest ((StoreNode.newNode 1).bdb, (StoreNode.newNode 1).sdb)
    { id := 7, parts := 2, vu := true, pu := false, retain := 0 } :=
  { sc := rfl, parts := by decide,
    fresh := by intro h m _ _ hm; simp [StoreNode.newNode, loadMeta_empty] at hm }

end Tmv.Props.C18
