import Tmv.Lemmas.BlockStoreOps
import Tmv.Lemmas.StateStoreRange
/-! # C18 — stored chain data stays contiguous and consistent through pruning and crashes

Theorems about the model of `store/store.go` (Tmv/Model/BlockStore.lean) and of the record
bookkeeping of `state/store.go` (Tmv/Model/StateStoreRange.lean).  `Good db` is the audit of the
property: every height in the persisted `[base,height]` has meta, all parts (reassembling to a
block that hashes to the meta's id), hash-index entry, and the commit for it (seen commit for the
tip), all agreeing.  Crash points: EVERY SINGLE WRITE (a batch is treated as its individual
deletes in order, which is stronger than "a batch is one crash unit"). -/
namespace Tmv.Props.C18
open Tmv Tmv.BlockStore

/-- what consensus guarantees about the arguments of `SaveBlock` (the store checks none of it):
positive height, at least one part, the seen commit is for this block, the block's `LastCommit` is
for the stored previous block, and the block's hash is not the hash of a stored block (implied by
collision-freedom, since the height is hashed). -/
structure ValidNext (db : DB) (b : Block) (sc : Commit) : Prop where
  pos : 0 < b.height
  parts : 0 < b.total
  seen : sc = { height := b.height, blockHash := b.hash }
  last : ∀ m, loadMeta db (loadRange db).2 = some m →
    b.lastCommit = { height := (loadRange db).2, blockHash := m.hash }
  fresh : ∀ h m, (loadRange db).1 ≤ h → h ≤ (loadRange db).2 → loadMeta db h = some m → m.hash ≠ b.hash

/-- **SaveBlock is crash consistent.**  From a database that passes the audit, for every valid
next block, the database after ANY prefix of SaveBlock's writes passes the audit, and after all
of them the range ends at the new block (base unchanged, or the block's height for an empty store). -/
theorem save_crash_consistent (db : DB) (b : Block) (sc : Commit) (s' : Store)
    (units : List (List Write)) (hG : Good db) (hv : ValidNext db b sc)
    (hs : saveBlock (openStore db) b true sc = .ok (s', units)) :
    AllPrefixGood db units.flatten ∧ (∀ k, Good (afterUnits db units k)) ∧
    loadRange (applyAll db units.flatten) =
      ((if (loadRange db).1 = 0 then b.height else (loadRange db).1), b.height) ∧
    s' = openStore (applyAll db units.flatten) := by
  obtain ⟨hguard, hs', hunits⟩ := saveBlock_units _ _ _ _ _ hs
  simp only [openStore] at hguard hs'
  obtain ⟨B, hB⟩ : ∃ B, (loadRange db).1 = B := ⟨_, rfl⟩
  obtain ⟨H, hH⟩ : ∃ H, (loadRange db).2 = H := ⟨_, rfl⟩
  rw [hB, hH] at hguard
  simp only [hB] at hs'
  simp only [hB]
  have hpos := hv.pos
  -- the new base and the descriptor write
  have hbase' : s'.base = (if B = 0 then b.height else B) := by rw [hs']
  have hheight' : s'.height = b.height := by rw [hs']
  rw [hunits, hbase', hheight']
  have hGood := (good_iff db).1 hG
  rw [hB, hH] at hGood
  -- the database before the descriptor write
  have hr1 : loadRange (applyAll db (savePre b sc)) = loadRange db := by
    apply loadRange_applyAll_of_not_mem
    intro w hw
    simp only [savePre, List.mem_append, List.mem_map, List.mem_range, List.mem_cons, List.mem_nil_iff,
      or_false] at hw
    rcases hw with ⟨i, _, rfl⟩ | rfl | rfl | rfl | rfl <;> simp [Write.key]
  obtain ⟨gparts, gmeta, gidx, gcommit, gseen⟩ := savePre_gets db b sc
  -- the new tip passes the audit in the final database
  have hfinalTip : ∀ B', checkAt (apply (applyAll db (savePre b sc)) (.set .bsState (.range B' b.height)))
      b.height b.height = none := by
    intro B'
    rw [checkAt_none_iff]
    refine ⟨{ height := b.height, hash := b.hash, total := b.total }, b, sc, ?_⟩
    have hg : ∀ k, k ≠ Key.bsState →
        get (apply (applyAll db (savePre b sc)) (.set .bsState (.range B' b.height))) k
          = get (applyAll db (savePre b sc)) k := fun k hk => get_apply_of_ne _ _ _ (by simpa [Write.key] using hk.symm)
    have hgm := hg (.bmeta b.height) (by simp)
    have hgp := fun i => hg (.part b.height i) (by simp)
    have hgi := hg (.hashIdx b.hash) (by simp)
    have hgs := hg (.seen b.height) (by simp)
    have hm : loadMeta (apply (applyAll db (savePre b sc)) (.set .bsState (.range B' b.height))) b.height
        = some { height := b.height, hash := b.hash, total := b.total } := by
      simp only [loadMeta, hgm, gmeta]
    refine ⟨hm, rfl, ?_, rfl, rfl, rfl, ?_, ?_, ?_, ?_⟩
    · simp only [loadBlock, hm, hgp, gparts 0 hv.parts]
      have : (List.range b.total).all (partIs (apply (applyAll db (savePre b sc))
          (.set .bsState (.range B' b.height))) b.height b) = true := by
        simp only [List.all_eq_true, List.mem_range, partIs, beq_iff_eq]
        intro i hi
        rw [hgp, gparts i hi]
      simp [this]
    · simp only [loadHeightByHash, hgi, gidx]
    · simp only [Int.lt_irrefl, if_false, loadSeen, hgs, gseen]
    · rw [hv.seen]
    · rw [hv.seen]
  rcases hGood with ⟨hB0, hH0⟩ | ⟨hBpos, hBH, hGF⟩
  · -- empty store: nothing is in range until the descriptor is written
    subst hB0; subst hH0
    have hpre : AllPrefixGood db (savePre b sc) := by
      intro k
      have hr : loadRange (applyAll db ((savePre b sc).take k)) = loadRange db := by
        apply loadRange_applyAll_of_not_mem
        intro w hw
        have hw := List.mem_of_mem_take hw
        simp only [savePre, List.mem_append, List.mem_map, List.mem_range, List.mem_cons,
          List.mem_nil_iff, or_false] at hw
        rcases hw with ⟨i, _, rfl⟩ | rfl | rfl | rfl | rfl <;> simp [Write.key]
      rw [good_iff, hr, hB, hH]; exact Or.inl ⟨rfl, rfl⟩
    have hrf : loadRange (applyAll db (savePre b sc ++ [.set .bsState (.range b.height b.height)]))
        = (b.height, b.height) := by
      rw [applyAll_append, applyAll_cons, applyAll_nil, loadRange_set _ _ _ (by omega)]
    have hfinal : Good (applyAll db (savePre b sc ++ [.set .bsState (.range b.height b.height)])) := by
      rw [good_iff, hrf]
      refine Or.inr ⟨hpos, Int.le_refl _, ?_⟩
      intro h h1 h2
      have : h = b.height := by simp only at h1 h2; omega
      subst this
      rw [applyAll_append, applyAll_cons, applyAll_nil]
      exact hfinalTip _
    have hall : AllPrefixGood db (savePre b sc ++ [.set .bsState (.range b.height b.height)]) := by
      apply allPrefixGood_append _ _ _ hpre
      intro k
      cases k with
      | zero => simpa [applyAll_nil] using allPrefixGood_last _ _ hpre
      | succ k =>
        simp only [List.take_succ_cons, List.take_nil, ← applyAll_append]
        exact hfinal
    simp only [if_true]
    refine ⟨hall, good_afterUnits db units (hunits ▸ ?_), hrf, ?_⟩
    · rw [hbase', hheight']; simpa using hall
    · rw [hs']; simp [openStore, hrf]
  · -- non-empty store: the block is the next height
    have hn : b.height = H + 1 := by
      by_cases h : b.height = H + 1
      · exact h
      · exact absurd ⟨hBpos, h⟩ hguard
    have hBne : B ≠ 0 := by omega
    simp only [hBne, if_false]
    have hun : ∀ w ∈ savePre b sc, Unused db (loadRange db).1 (loadRange db).2 w := by
      rw [hB, hH]
      exact savePre_unused db b sc B H hn (fun h m h1 h2 hm => hv.fresh h m (hB ▸ h1) (hH ▸ h2) hm)
    have hpre : AllPrefixGood db (savePre b sc) := allPrefixGood_unused db _ hG hun
    have hrf : loadRange (applyAll db (savePre b sc ++ [.set .bsState (.range B b.height)]))
        = (B, b.height) := by
      rw [applyAll_append, applyAll_cons, applyAll_nil, loadRange_set _ _ _ (by omega)]
    have hfinal : Good (applyAll db (savePre b sc ++ [.set .bsState (.range B b.height)])) := by
      rw [good_iff, hrf]
      refine Or.inr ⟨hBpos, by simp only; omega, ?_⟩
      intro h h1 h2
      simp only at h1 h2
      rw [applyAll_append, applyAll_cons, applyAll_nil]
      by_cases htip : h = b.height
      · subst htip; exact hfinalTip _
      · have hhH : h ≤ H := by omega
        have hold := hGF h h1 hhH
        -- keys of the old heights are untouched
        have hkeys : ∀ k, usedAt db H h k → k ≠ .commit H →
            get (apply (applyAll db (savePre b sc)) (.set .bsState (.range B b.height))) k = get db k := by
          intro k hk hkc
          have hkb : k ≠ .bsState := by
            rintro rfl
            rcases hk with e1 | ⟨i, e1⟩ | ⟨_, e1⟩ | ⟨_, e1⟩ | ⟨m, _, e1⟩ <;> cases e1
          rw [get_apply_of_ne _ _ _ (by simpa [Write.key] using hkb.symm)]
          apply get_savePre_other
          · intro i e; subst e
            rcases hk with e1 | ⟨i', e1⟩ | ⟨_, e1⟩ | ⟨_, e1⟩ | ⟨m, _, e1⟩ <;>
              first | (injection e1; omega) | cases e1
          · intro e; subst e
            rcases hk with e1 | ⟨i', e1⟩ | ⟨_, e1⟩ | ⟨_, e1⟩ | ⟨m, _, e1⟩ <;>
              first | (injection e1; omega) | cases e1
          · intro e; subst e
            rcases hk with e1 | ⟨i', e1⟩ | ⟨_, e1⟩ | ⟨_, e1⟩ | ⟨m, hm, e1⟩ <;>
              first | (injection e1 with e1; exact hv.fresh h m (hB ▸ h1) (hH ▸ hhH) hm e1.symm) | cases e1
          · rw [hn]; intro e; apply hkc; rw [e]; congr 1; omega
          · intro e; subst e
            rcases hk with e1 | ⟨i', e1⟩ | ⟨_, e1⟩ | ⟨_, e1⟩ | ⟨m, _, e1⟩ <;>
              first | (injection e1; omega) | cases e1
        by_cases hlt : h < H
        · -- strictly below the old tip: same branch, same keys
          rw [checkAt_below_tip _ H b.height h hlt (by omega), ← hold]
          apply checkAt_congr
          intro k hk
          apply hkeys k hk
          rintro rfl
          rcases hk with e1 | ⟨i', e1⟩ | ⟨hl, e1⟩ | ⟨_, e1⟩ | ⟨m, _, e1⟩ <;>
            first | (injection e1; omega) | cases e1
        · -- the old tip: its commit is now the new block's LastCommit
          have hhe : h = H := by omega
          subst hhe
          obtain ⟨m, blk, c, ok⟩ := (checkAt_none_iff db h h).1 hold
          rw [checkAt_none_iff]
          refine ⟨m, blk, b.lastCommit, ?_⟩
          have hmeta : loadMeta (apply (applyAll db (savePre b sc)) (.set .bsState (.range B b.height))) h
              = loadMeta db h := by
            simp only [loadMeta, hkeys _ (Or.inl rfl) (by simp)]
          have hlast := hv.last m (by rw [hH]; exact ok.hmeta)
          rw [hH] at hlast
          refine ⟨hmeta.trans ok.hmeta, ok.metaHeight, ?_, ok.blockHash, ok.blockHeight, ok.blockTotal, ?_, ?_, ?_, ?_⟩
          · rw [← ok.block]
            have hp : ∀ i, get (apply (applyAll db (savePre b sc)) (.set .bsState (.range B b.height)))
                (.part h i) = get db (.part h i) := fun i => hkeys _ (Or.inr (Or.inl ⟨i, rfl⟩)) (by simp)
            have hpis : ∀ b', partIs (apply (applyAll db (savePre b sc)) (.set .bsState (.range B b.height))) h b'
                = partIs db h b' := by intro b'; funext i; simp only [partIs, hp]
            simp only [loadBlock, hmeta, hp, hpis]
          · rw [← ok.hashIdx]
            simp only [loadHeightByHash,
              hkeys _ (Or.inr (Or.inr (Or.inr (Or.inr ⟨m, ok.hmeta, rfl⟩)))) (by simp)]
          · have : h < b.height := by omega
            simp only [this, if_true, loadCommit]
            rw [get_apply_of_ne _ _ _ (by simp [Write.key])]
            have := gcommit
            rw [hn] at this
            have e : h + 1 - 1 = h := by omega
            rw [e] at this
            rw [this]
          · rw [hlast]
          · rw [hlast]
    have hall : AllPrefixGood db (savePre b sc ++ [.set .bsState (.range B b.height)]) := by
      apply allPrefixGood_append _ _ _ hpre
      intro k
      cases k with
      | zero => simpa [applyAll_nil] using allPrefixGood_last _ _ hpre
      | succ k =>
        simp only [List.take_succ_cons, List.take_nil, ← applyAll_append]
        exact hfinal
    refine ⟨hall, good_afterUnits db units (hunits ▸ ?_), hrf, ?_⟩
    · rw [hbase', hheight']; simpa [hBne] using hall
    · rw [hs']; simp [openStore, hrf, hBne]

/-- **PruneBlocks is crash consistent**, for prunes of any number of batches: from a database that
passes the audit, the database after ANY prefix of the writes of `PruneBlocks(retain)` (descriptor
writes and every individual delete of every batch) passes the audit.  With the pre-fix flush
argument (`h` instead of `h + 1`) this is false — see `old_flush_base_breaks_audit`. -/
theorem prune_crash_consistent (db : DB) (retain : Int) (s' : Store) (n : Nat)
    (units : List (List Write)) (hG : Good db)
    (hp : pruneBlocks (openStore db) db retain = .ok (s', n, units)) :
    AllPrefixGood db units.flatten ∧ ∀ k, Good (afterUnits db units k) := by
  obtain ⟨B, H, hr, hB, hBr, hrH, hGF, _, _, hu⟩ := prune_setup db retain s' n units hG hp
  have hspec := pruneLoop_spec H retain (retain - B).toNat B db [] 0 B (by omega) hrH hr hB
    (Int.le_refl _) hGF (fun w hw => by cases hw) (fun w hw => by cases hw)
  rw [← hu] at hspec
  exact ⟨hspec.1, good_afterUnits db units hspec.1⟩

/-- **Pruning removes exactly the heights below the retain height and nothing still needed.**
After `PruneBlocks(retain)` on an audited store with range `[B,H]`: the range is `[retain,H]`
(volatile fields agree), the number reported is `retain - B`, every key the function owns for a
height in `[B,retain)` (meta, hash-index entry, commit, seen commit, parts) is gone, every other key
has the value it had, and every height in `[retain,H]` still passes the audit. -/
theorem prune_exact (db : DB) (retain : Int) (s' : Store) (n : Nat)
    (units : List (List Write)) (hG : Good db)
    (hp : pruneBlocks (openStore db) db retain = .ok (s', n, units)) :
    loadRange (applyAll db units.flatten) = (retain, (loadRange db).2) ∧
    s' = openStore (applyAll db units.flatten) ∧
    (n : Int) = retain - (loadRange db).1 ∧
    (∀ a k, (loadRange db).1 ≤ a → a < retain → OwnedBy db a k →
      get (applyAll db units.flatten) k = none) ∧
    (∀ k, k ≠ .bsState → (∀ a, (loadRange db).1 ≤ a → a < retain → ¬ OwnedBy db a k) →
      get (applyAll db units.flatten) k = get db k) ∧
    (∀ a, retain ≤ a → a ≤ (loadRange db).2 →
      checkAt (applyAll db units.flatten) (loadRange db).2 a = none) := by
  obtain ⟨B, H, hr, hB, hBr, hrH, hGF, hs', hn, hu⟩ := prune_setup db retain s' n units hG hp
  have hspec := pruneLoop_spec H retain (retain - B).toNat B db [] 0 B (by omega) hrH hr hB
    (Int.le_refl _) hGF (fun w hw => by cases hw) (fun w hw => by cases hw)
  rw [← hu, ← hn] at hspec
  obtain ⟨s1, s2, s3, s4⟩ := hspec
  have hfinGood := allPrefixGood_last _ _ s1
  rw [hr]
  refine ⟨s2, ?_, by simp only; omega, ?_, ?_, ?_⟩
  · rw [hs']; simp [openStore, s2]
  · intro a k ha har ho
    have hk : k ≠ .bsState := by
      rintro rfl
      obtain ⟨m, _, hmem⟩ := ho
      rw [mem_deletesFor] at hmem
      rcases hmem with e | e | e | e | ⟨p, _, e⟩ <;> cases e
    exact (s3 k hk).1 (Or.inr ⟨a, ha, har, ho⟩)
  · intro k hk hno
    apply (s3 k hk).2
    rintro (e | ⟨a, ha, har, e⟩)
    · cases e
    · exact hno a ha har e
  · intro a ha haH
    rw [good_iff, s2] at hfinGood
    rcases hfinGood with ⟨h0, _⟩ | ⟨_, _, hgf⟩
    · simp only at h0; omega
    · exact hgf a ha haH

/-- readable corollary of `prune_exact`: below the retain height nothing loads any more -/
theorem prune_removes_below (db : DB) (retain : Int) (s' : Store) (n : Nat)
    (units : List (List Write)) (hG : Good db)
    (hp : pruneBlocks (openStore db) db retain = .ok (s', n, units))
    (a : Int) (ha : (loadRange db).1 ≤ a) (har : a < retain) :
    loadMeta (applyAll db units.flatten) a = none ∧ loadBlock (applyAll db units.flatten) a = none ∧
    loadCommit (applyAll db units.flatten) a = none ∧ loadSeen (applyAll db units.flatten) a = none ∧
    (∀ m, loadMeta db a = some m → loadHeightByHash (applyAll db units.flatten) m.hash = none) := by
  obtain ⟨_, _, _, hgone, _, _⟩ := prune_exact db retain s' n units hG hp
  obtain ⟨B, H, hr, hB, hBr, hrH, hGF, _, _, _⟩ := prune_setup db retain s' n units hG hp
  rw [hr] at ha
  obtain ⟨m, _, _, ok⟩ := (checkAt_none_iff db H a).1 (hGF a ha (by omega))
  have own : ∀ k, Write.del k ∈ deletesFor a m → get (applyAll db units.flatten) k = none :=
    fun k hk => hgone a k (by rw [hr]; exact ha) har ⟨m, ok.hmeta, hk⟩
  have hmeta : loadMeta (applyAll db units.flatten) a = none := by
    simp only [loadMeta, own (.bmeta a) ((mem_deletesFor a m _).2 (Or.inl rfl))]
  refine ⟨hmeta, by simp only [loadBlock, hmeta], ?_, ?_, ?_⟩
  · simp only [loadCommit, own (.commit a) ((mem_deletesFor a m _).2 (Or.inr (Or.inr (Or.inl rfl))))]
  · simp only [loadSeen, own (.seen a) ((mem_deletesFor a m _).2 (Or.inr (Or.inr (Or.inr (Or.inl rfl)))))]
  · intro m' hm'
    rw [ok.hmeta] at hm'; cases hm'
    simp only [loadHeightByHash, own (.hashIdx m.hash) ((mem_deletesFor a m _).2 (Or.inr (Or.inl rfl)))]

/-- readable corollary of `prune_exact`: no key that the audit of a retained height reads is
touched at all -/
theorem prune_keeps_above (db : DB) (retain : Int) (s' : Store) (n : Nat)
    (units : List (List Write)) (hG : Good db)
    (hp : pruneBlocks (openStore db) db retain = .ok (s', n, units))
    (a : Int) (ha : retain ≤ a) (haH : a ≤ (loadRange db).2) (k : Key)
    (hk : usedAt db (loadRange db).2 a k) :
    get (applyAll db units.flatten) k = get db k := by
  obtain ⟨_, _, _, _, hkeep, _⟩ := prune_exact db retain s' n units hG hp
  obtain ⟨B, H, hr, hB, hBr, hrH, hGF, _, _, _⟩ := prune_setup db retain s' n units hG hp
  rw [hr] at haH hk
  apply hkeep
  · rintro rfl
    rcases hk with e1 | ⟨i, e1⟩ | ⟨_, e1⟩ | ⟨_, e1⟩ | ⟨m, _, e1⟩ <;> cases e1
  · intro a' ha' har' ⟨m', hm', hmem⟩
    rw [hr] at ha'
    have := deletes_unused db B H a' m' hGF ha' (by omega) hm' _ hmem
    exact this.2 a (by omega) haH hk

/-- why the one-line repair matters: persisting base `h` and then deleting height `h` (what the
pre-fix intermediate flush did) leaves a store whose base does not load. -/
theorem old_flush_base_breaks_audit (db : DB) (h H : Int) (ws : List Write) (hh : 0 < h) (hH : h ≤ H)
    (hws : ∀ w ∈ ws, w.key ≠ .bsState)
    (hdel : get (applyAll (apply db (.set .bsState (.range h H))) ws) (.bmeta h) = none) :
    ¬ Good (applyAll (apply db (.set .bsState (.range h H))) ws) := by
  intro hG
  have hr : loadRange (applyAll (apply db (.set .bsState (.range h H))) ws) = (h, H) := by
    rw [loadRange_applyAll_of_not_mem _ _ hws, loadRange_set _ _ _ (by omega)]
  rw [good_iff, hr] at hG
  rcases hG with ⟨h0, _⟩ | ⟨_, _, hgf⟩
  · simp only at h0; omega
  · have := hgf h (Int.le_refl _) hH
    simp only [checkAt, loadMeta, hdel] at this
    cases this

/-! ### the executable audit (what the correspondence runs compare) decides `Good` -/

/-- the audit the harness and the driver run returns "ok" exactly on the databases the theorems
call `Good` -/
theorem audit_none_iff_good (db : DB) : audit db = none ↔ Good db := by
  unfold audit
  rw [good_iff]
  rcases hr : loadRange db with ⟨B, H⟩
  simp only
  by_cases h0 : H = 0 ∧ B = 0
  · obtain ⟨rfl, rfl⟩ := h0
    simp
  · simp only [h0, if_false]
    by_cases h1 : B ≤ 0 ∨ B > H
    · simp only [h1, if_true, false_iff, reduceCtorEq]
      rintro (⟨e1, e2⟩ | ⟨e1, e2, _⟩)
      · exact h0 ⟨e2, e1⟩
      · omega
    · simp only [h1, if_false, auditFrom_none_iff]
      constructor
      · intro hall
        refine Or.inr ⟨by omega, by omega, fun a ha haH => hall a ha (by omega)⟩
      · rintro (⟨e1, e2⟩ | ⟨_, _, hgf⟩)
        · exact absurd ⟨e2, e1⟩ h0
        · intro a ha haH
          exact hgf a ha (by omega)

/-! ### all histories with crashes -/

theorem good_empty : Good ({} : DB) := by
  rw [good_iff, loadRange_empty]
  exact Or.inl ⟨rfl, rfl⟩

/-- the databases reachable from an empty store by any sequence of valid `SaveBlock`s and any
`PruneBlocks`, each of which may be cut by a crash after ANY of its individual writes (after which
the store is reopened on what is on disk and the history continues) -/
inductive Reach : DB → Prop
  | empty : Reach {}
  | save (db : DB) (b : Block) (sc : Commit) (s' : Store) (units : List (List Write)) (j : Nat) :
      Reach db → ValidNext db b sc → saveBlock (openStore db) b true sc = .ok (s', units) →
      Reach (applyAll db (units.flatten.take j))
  | prune (db : DB) (retain : Int) (s' : Store) (n : Nat) (units : List (List Write)) (j : Nat) :
      Reach db → pruneBlocks (openStore db) db retain = .ok (s', n, units) →
      Reach (applyAll db (units.flatten.take j))

/-- **C18 for the block store**: for all chains, all sequences of saves and prunes (of any number
of batches) and every database write as a crash point, what is on disk passes the full audit of
`[base,height]`. -/
theorem reachable_good (db : DB) (h : Reach db) : Good db := by
  induction h with
  | empty => exact good_empty
  | save db b sc s' units j _ hv hs ih => exact (save_crash_consistent db b sc s' units ih hv hs).1 j
  | prune db retain s' n units j _ hp ih => exact (prune_crash_consistent db retain s' n units ih hp).1 j

/-! ### the hypotheses are satisfiable (non-vacuity) -/

private def blk1 : Block :=
  { height := 1, hash := 7, total := 2, lastCommit := { height := 0, blockHash := 0 }, vu := false, pu := false, retain := 0 }

example : ValidNext ({} : DB) blk1 { height := 1, blockHash := 7 } :=
  { pos := by decide, parts := by decide, seen := rfl,
    last := by intro m hm; simp [loadMeta_empty] at hm,
    fresh := by intro h m _ _ hm; simp [loadMeta_empty] at hm }

example : ∃ s' units, saveBlock (openStore ({} : DB)) blk1 true { height := 1, blockHash := 7 } = .ok (s', units) := by
  simp [saveBlock, openStore, loadRange_empty]

/-- a non-empty audited store exists, and `PruneBlocks` accepts a retain height on it -/
example : ∃ db, Good db ∧ loadRange db = (1, 1) ∧
    ∃ s' n units, pruneBlocks (openStore db) db 1 = .ok (s', n, units) := by
  have hr0 : loadRange ({} : DB) = (0, 0) := loadRange_empty
  have hv : ValidNext ({} : DB) blk1 { height := 1, blockHash := 7 } :=
    { pos := by decide, parts := by decide, seen := rfl,
      last := by intro m hm; simp [loadMeta_empty] at hm,
      fresh := by intro h m _ _ hm; simp [loadMeta_empty] at hm }
  obtain ⟨s', units, hs⟩ : ∃ s' units, saveBlock (openStore ({} : DB)) blk1 true { height := 1, blockHash := 7 } = .ok (s', units) := by
    simp [saveBlock, openStore, hr0]
  obtain ⟨h1, _, h3, _⟩ := save_crash_consistent {} blk1 _ s' units good_empty hv hs
  refine ⟨applyAll {} units.flatten, allPrefixGood_last _ _ h1, ?_, ?_⟩
  · rw [h3, hr0]; rfl
  · simp [pruneBlocks, openStore, h3, hr0, blk1]

/-! ### the state store serves the range

The validator-set model itself (contents, proposer priorities) is property C08's; here a record is
(LastHeightChanged, carries a full value?) and "can produce" means `LoadValidators` /
`LoadConsensusParams` find a full value the way the code looks for it.  Proved per operation, for
every write prefix; the pointer invariant `StateStore.PtrInv` that `PruneStates` relies on is a
hypothesis (it is what a chain of `save`s produces; it is not proved here to be maintained along
whole histories — the correspondence stream audits that on the real stores). -/

/-- **PruneStates keeps the last-changed and checkpoint records**: for every `from`, `to`, after ANY
prefix of the writes of `PruneStates(from, to)` (all batches, every individual write), every height
`h ≥ to` whose validator set / consensus params could be loaded before can still be loaded. -/
theorem state_store_serves_range_prune (db : StateStore.DB) (frm to : Int)
    (inv : StateStore.PtrInv db to) (j : Nat) (h : Int) (hh : to ≤ h) :
    (StateStore.valsLoadable db h = true →
      StateStore.valsLoadable
        (StateStore.applyAll db ((StateStore.pruneStates db frm to).1.flatten.take j)) h = true) ∧
    (StateStore.paramsLoadable db h = true →
      StateStore.paramsLoadable
        (StateStore.applyAll db ((StateStore.pruneStates db frm to).1.flatten.take j)) h = true) := by
  unfold StateStore.pruneStates
  split
  · simp [StateStore.applyAll_nil]
  · split
    · simp [StateStore.applyAll_nil]
    · split
      · simp [StateStore.applyAll_nil]
      · rename_i vc vfull hv
        split
        · simp [StateStore.applyAll_nil]
        · rename_i pc pfull hp
          have hshape := StateStore.pruneLoop_shape db
            (fun h => !vfull && (h == vc || h == StateStore.lastStoredHeightFor to vc))
            (fun h => !pfull && h == pc) to (to - frm).toNat (to - 1) db [] 0 (by omega)
            (StateStore.rel_refl _ _ _ _) (fun w hw => by cases hw)
          have hrel := StateStore.rel_applyAll db _ _ to
            ((StateStore.pruneLoop
              (fun h => !vfull && (h == vc || h == StateStore.lastStoredHeightFor to vc))
              (fun h => !pfull && h == pc) (to - frm).toNat (to - 1) db [] 0).1.flatten.take j) db
            (StateStore.rel_refl _ _ _ _) (fun w hw => hshape w (List.mem_of_mem_take hw))
          exact ⟨StateStore.serve_vals db _ to vc vfull _ hv hrel inv h hh,
                 StateStore.serve_params db _ to pc pfull _ hp hrel inv h hh⟩

/-- **`Save` never disturbs the range**: after ANY prefix of the writes of `Save(state)`, every
height below the one being prepared (`saveNext`, i.e. every height of the block store's range)
whose validator set / params could be loaded can still be loaded (its own record and the record it
points to are not among the keys `Save` writes). -/
theorem state_store_serves_range_save (db : StateStore.DB) (s : StateStore.St) (j : Nat) (h : Int)
    (hh : h < StateStore.saveNext s)
    (wfV : ∀ c f, StateStore.loadInfo db (.vals h) = some (c, f) → c ≤ h)
    (wfP : ∀ c f, StateStore.loadInfo db (.params h) = some (c, f) → c ≤ h) :
    StateStore.valsLoadable (StateStore.applyAll db ((StateStore.save s).1.flatten.take j)) h
      = StateStore.valsLoadable db h ∧
    StateStore.paramsLoadable (StateStore.applyAll db ((StateStore.save s).1.flatten.take j)) h
      = StateStore.paramsLoadable db h := by
  have hkeys := StateStore.save_keys s
  have hv : ∀ a, a ≤ h → StateStore.loadInfo
      (StateStore.applyAll db ((StateStore.save s).1.flatten.take j)) (.vals a)
        = StateStore.loadInfo db (.vals a) := by
    intro a ha
    apply StateStore.loadInfo_applyAll_of_not_mem
    intro w hw
    rcases hkeys w (List.mem_of_mem_take hw) with e | e | e | e <;> rw [e] <;> intro e2
    · injection e2; omega
    · injection e2; omega
    · cases e2
    · cases e2
  have hp : ∀ a, a ≤ h → StateStore.loadInfo
      (StateStore.applyAll db ((StateStore.save s).1.flatten.take j)) (.params a)
        = StateStore.loadInfo db (.params a) := by
    intro a ha
    apply StateStore.loadInfo_applyAll_of_not_mem
    intro w hw
    rcases hkeys w (List.mem_of_mem_take hw) with e | e | e | e <;> rw [e] <;> intro e2
    · cases e2
    · cases e2
    · injection e2; omega
    · cases e2
  constructor
  · unfold StateStore.valsLoadable
    rw [hv h (Int.le_refl _)]
    cases e : StateStore.loadInfo db (.vals h) with
    | none => rfl
    | some p =>
      obtain ⟨c, f⟩ := p
      cases f with
      | true => rfl
      | false =>
        simp only
        rw [hv _ (StateStore.lastStored_le h c (wfV c false e))]
  · unfold StateStore.paramsLoadable
    rw [hp h (Int.le_refl _)]
    cases e : StateStore.loadInfo db (.params h) with
    | none => rfl
    | some p =>
      obtain ⟨c, f⟩ := p
      cases f with
      | true => rfl
      | false =>
        simp only
        rw [hp _ (wfP c false e)]

/-- the pointer invariant is satisfiable: the state store right after the genesis `Save`
(initial height 5), pruning target 5 -/
example : StateStore.PtrInv
    (StateStore.applyAll {} (StateStore.save
      { lastBlockHeight := 0, lastBlockHash := 0, initialHeight := 5, lhcVals := 5, lhcParams := 5 }).1.flatten) 5 := by
  have hw : (StateStore.save
      { lastBlockHeight := 0, lastBlockHash := 0, initialHeight := 5, lhcVals := 5, lhcParams := 5 }).1.flatten =
      [.set (.vals 5) (.info 5 true), .set (.vals 6) (.info 5 false), .set (.params 5) (.info 5 true),
       .set .state (.state { lastBlockHeight := 0, lastBlockHash := 0, initialHeight := 5, lhcVals := 5, lhcParams := 5 })] := by
    simp [StateStore.save, StateStore.saveValsInfo, StateStore.saveParamsInfo, StateStore.interval,
      Facts.c18_valSetCheckpointInterval]
  rw [hw]
  have hget : ∀ k, StateStore.loadInfo (StateStore.applyAll {} [.set (.vals 5) (.info 5 true),
      .set (.vals 6) (.info 5 false), .set (.params 5) (.info 5 true),
      .set .state (.state { lastBlockHeight := 0, lastBlockHash := 0, initialHeight := 5, lhcVals := 5, lhcParams := 5 })]) k =
      if k = .vals 5 then some (5, true) else if k = .vals 6 then some (5, false)
      else if k = .params 5 then some (5, true) else none := by
    intro k
    simp only [StateStore.applyAll_cons, StateStore.applyAll_nil, StateStore.loadInfo_set]
    by_cases h1 : k = .vals 5
    · subst h1; simp
    · by_cases h2 : k = .vals 6
      · subst h2; simp
      · by_cases h3 : k = .params 5
        · subst h3; simp
        · have e1 : ¬ StateStore.Key.vals 5 = k := fun e => h1 e.symm
          have e2 : ¬ StateStore.Key.vals 6 = k := fun e => h2 e.symm
          have e3 : ¬ StateStore.Key.params 5 = k := fun e => h3 e.symm
          by_cases h4 : StateStore.Key.state = k
          · subst h4; simp
          · simp [h1, h2, h3, h4, e1, e2, e3, StateStore.loadInfo, StateStore.get]
  refine ⟨?_, ?_, ?_, ?_⟩
  · intro h c hh hl hc
    rw [hget] at hl
    split at hl
    · cases hl
    · split at hl
      · injection hl with hl; injection hl with hl; omega
      · split at hl <;> cases hl
  · intro c hl
    rw [hget] at hl
    simp at hl
    exact Or.inl hl.symm
  · intro h c hh hl hc
    rw [hget] at hl
    split at hl
    · cases hl
    · split at hl
      · rename_i e; cases e
      · split at hl <;> cases hl
  · intro c hl
    rw [hget] at hl
    simp at hl
    exact hl.symm

end Tmv.Props.C18
