import Tmv.Lemmas.CommitVerify
import Tmv.Lemmas.CommitDecode
/-! # C07 — A commit is accepted only with enough distinct valid signatures for that block
Property theorems only. `sigOK key signBytes sig` is an arbitrary predicate (nothing is assumed
about ed25519); `SignBytes` is the record `CanonicalizeVote` builds. All theorems are for every
validator set with non-negative powers (`NonNeg`; the code panics when the total exceeds
`MaxTotalVotingPower`, which the model has as the `.panicTotal` verdict), every commit (any flags,
addresses, timestamps, signatures, order and length) and every trust fraction (any two uint64).
Vocabulary (defined in `Tmv/Lemmas/CommitVerify.lean`): `sumPower vs` total power, `pickedPower vs js`
power at the positions `js`, `expectSB chainID c ts` the canonical-vote record of commit `c` for a
slot with timestamp `ts`, `GoodPick … (j, i)` = validator `j` has a qualifying signature in slot `i`,
`AllValid` = every non-absent slot verifies under the validator of its position, `fbSum vs sigs 0`
= power of the for-block slots. -/
namespace Tmv.Props.C07
open Tmv Tmv.CommitVerify

variable {σ : Type} (sigOK : Nat → SignBytes → σ → Bool)

/-- `VerifyCommit` accepts only if the commit is for the given height and block id and there are
distinct positions of the validator set whose slots are flagged for-the-block and carry a signature
valid under that validator's key over exactly (chain id, height, round, block id, slot timestamp),
with `3 · power > 2 · total`. -/
theorem verifyCommit_sound (vs : List Validator) (chainID : String) (blockID : BlockID) (height : Int)
    (c : Commit σ) (hnn : NonNeg vs)
    (h : verifyCommit sigOK vs chainID blockID height c = .ok) :
    c.height = height ∧ c.blockID = blockID ∧ vs.length = c.sigs.length ∧
    sumPower vs ≤ maxTotalVotingPower ∧
    ∃ picks : List Nat, picks.Nodup ∧
      (∀ i ∈ picks, GoodPick sigOK vs chainID c false (i, i)) ∧
      3 * pickedPower vs picks > 2 * sumPower vs := by
  unfold verifyCommit at h
  split at h; · cases h
  rename_i hlen
  split at h; · cases h
  rename_i hh
  split at h; · cases h
  rename_i hb
  have hb' : blockID = c.blockID := BlockID.equals_iff.mp (by simpa using hb)
  split at h; · cases h
  rename_i T hT
  obtain ⟨hTs, hTm⟩ := total_spec hnn hT
  have h0 : 0 ≤ T := by rw [hTs]; exact sumPower_nonneg hnn
  obtain ⟨hneed, _⟩ := needed_two_thirds h0 hTm
  simp only [hneed] at h
  split at h
  · rename_i r hr; subst h
    -- the loop itself never yields `.ok` as an early result
    exfalso
    have : ∀ (ss : List (CommitSig σ)) idx tally, fullLoop sigOK vs chainID c ss idx tally ≠ .error .ok := by
      intro ss; induction ss with
      | nil => intro idx tally hc; simp [fullLoop] at hc
      | cons s ss ih =>
        intro idx tally hc
        simp only [fullLoop] at hc
        split at hc
        · exact ih _ _ hc
        · split at hc
          · cases hc
          · split at hc
            · rename_i p hp; injection hc with hc; subst hc
              unfold voteSignBytes at hp
              split at hp
              · cases hp
              · split at hp <;> cases hp
            · split at hc
              · cases hc
              · exact ih _ _ hc
    exact this _ _ _ hr
  · rename_i got hgot
    split at h; · cases h
    rename_i hgt
    obtain ⟨picks, hnd, hg, hp⟩ := fullLoop_sound sigOK vs chainID c hnn (hTs ▸ hTm) c.sigs 0 0 got []
      (by intro k; simp) List.nodup_nil (by simp) (by simp) (by simp [pickedPower]) hgot
    refine ⟨by omega, hb'.symm, by omega, hTs ▸ hTm, picks, hnd, hg, ?_⟩
    rw [← hp, ← hTs]
    have := @two_thirds_exact T got h0
    rw [Int.tdiv_eq_ediv_of_nonneg (by omega)] at this
    exact this.mp (by omega)

/-- `VerifyCommitLight` accepts only under the same condition (it stops at the first crossing, so
the witnesses are the for-block slots it verified up to there). -/
theorem light_sound (vs : List Validator) (chainID : String) (blockID : BlockID) (height : Int)
    (c : Commit σ) (hnn : NonNeg vs)
    (h : verifyCommitLight sigOK vs chainID blockID height c = .ok) :
    c.height = height ∧ c.blockID = blockID ∧ vs.length = c.sigs.length ∧
    sumPower vs ≤ maxTotalVotingPower ∧
    ∃ picks : List Nat, picks.Nodup ∧
      (∀ i ∈ picks, GoodPick sigOK vs chainID c false (i, i)) ∧
      3 * pickedPower vs picks > 2 * sumPower vs := by
  unfold verifyCommitLight at h
  split at h; · cases h
  rename_i hlen
  split at h; · cases h
  rename_i hh
  split at h; · cases h
  rename_i hb
  have hb' : blockID = c.blockID := BlockID.equals_iff.mp (by simpa using hb)
  split at h; · cases h
  rename_i T hT
  obtain ⟨hTs, hTm⟩ := total_spec hnn hT
  have h0 : 0 ≤ T := by rw [hTs]; exact sumPower_nonneg hnn
  obtain ⟨hneed, _⟩ := needed_two_thirds h0 hTm
  simp only [hneed] at h
  split at h
  · rename_i r hr; subst h
    obtain ⟨picks, hnd, hg, hp⟩ := lightLoop_sound sigOK vs chainID c hnn (hTs ▸ hTm) _ c.sigs 0 0 []
      (by intro k; simp) List.nodup_nil (by simp) (by simp) (by simp [pickedPower]) hr
    refine ⟨by omega, hb'.symm, by omega, hTs ▸ hTm, picks, hnd, hg, ?_⟩
    rw [← hTs]
    have := @two_thirds_exact T (pickedPower vs picks) h0
    rw [Int.tdiv_eq_ediv_of_nonneg (by omega)] at this
    exact this.mp hp
  · cases h

/-- `VerifyCommitLightTrusting` accepts only if there are distinct members of the given set
(looked up by the slot's address), each with a for-block slot carrying a signature valid under the
member's key over exactly this commit's (chain id, height, round, block id, slot timestamp), whose
power is strictly more than `num/den` of the set's total: `power · den > total · num` for the
caller's uint64 `num`, `den` as mathematical integers. -/
theorem trusting_sound (vs : List Validator) (chainID : String) (c : Commit σ) (num den : Nat)
    (hnn : NonNeg vs)
    (h : verifyCommitLightTrusting sigOK vs chainID c num den = .ok) :
    0 < den ∧ sumPower vs ≤ maxTotalVotingPower ∧
    ∃ picks : List (Nat × Nat), (picks.map Prod.fst).Nodup ∧
      (∀ p ∈ picks, GoodPick sigOK vs chainID c true p) ∧
      pickedPower vs (picks.map Prod.fst) * den > sumPower vs * num := by
  unfold verifyCommitLightTrusting at h
  split at h; · cases h
  rename_i hden
  split at h; · cases h
  rename_i hrange
  split at h; · cases h
  rename_i T hT
  obtain ⟨hTs, hTm⟩ := total_spec hnn hT
  have h0 : 0 ≤ T := by rw [hTs]; exact sumPower_nonneg hnn
  have hn : toInt64 num = (num : Int) :=
    wrap64_id (by unfold minInt64; omega) (by omega)
  have hd : toInt64 den = (den : Int) :=
    wrap64_id (by unfold minInt64; omega) (by omega)
  simp only [hn, hd] at h
  split at h; · cases h
  rename_i hov
  obtain ⟨hm, hmax⟩ := safeMul_spec h0 (by omega : (0 : Int) ≤ num) (by simpa using hov)
  have hdpos : (0 : Int) < den := by omega
  have hx0 : 0 ≤ T * (num : Int) := Int.mul_nonneg h0 (by omega)
  obtain ⟨hneed, _⟩ := div64_nonneg hx0 hmax hdpos
  rw [hm] at h
  simp only [hneed] at h
  split at h
  · rename_i r hr; subst h
    obtain ⟨picks, hnd, hg, hp⟩ := trustLoop_sound sigOK vs chainID c hnn (hTs ▸ hTm) _ c.sigs 0 [] 0
      (by intro k; simp) (by simp) (by simp) (by simp [pickedPower]) hr
    refine ⟨by omega, hTs ▸ hTm, picks, hnd, hg, ?_⟩
    rw [← hTs]
    have := @frac_exact (T * num) den (pickedPower vs (picks.map Prod.fst)) hx0 hdpos
    rw [Int.tdiv_eq_ediv_of_nonneg hx0] at this
    exact this.mp hp
  · cases h


/-- The full and the early-exit variant return the SAME verdict (same error, same tally) on every
commit all of whose non-absent signatures are valid. -/
theorem full_light_same (vs : List Validator) (chainID : String) (blockID : BlockID) (height : Int)
    (c : Commit σ) (hnn : NonNeg vs) (hall : AllValid sigOK vs chainID c) :
    verifyCommit sigOK vs chainID blockID height c =
      verifyCommitLight sigOK vs chainID blockID height c := by
  unfold verifyCommit verifyCommitLight
  by_cases hlen : vs.length ≠ c.sigs.length
  · simp only [if_pos hlen]
  simp only [if_neg hlen]
  have hlen' : vs.length = c.sigs.length := by omega
  by_cases hh : height ≠ c.height
  · simp only [if_pos hh]
  simp only [if_neg hh]
  cases hb : !blockID.equals c.blockID
  case true => simp
  simp only [Bool.false_eq_true, if_false]
  cases hT : totalVotingPower vs with
  | none => rfl
  | some T =>
    obtain ⟨hTs, hTm⟩ := total_spec hnn hT
    have h0 : 0 ≤ T := by rw [hTs]; exact sumPower_nonneg hnn
    obtain ⟨hneed, hn0⟩ := needed_two_thirds h0 hTm
    have hb := maxTotal_bound
    have hF : fbSum vs c.sigs 0 ≤ T := by
      have := fbSum_le hnn c.sigs 0; rw [hTs]; simpa using this
    have hmax : 0 + fbSum vs c.sigs 0 ≤ maxInt64 := by unfold maxInt64 at *; omega
    have e1 := fullLoop_allValid sigOK vs chainID c hall hlen' hnn c.sigs 0 0 (by intro k; simp)
      (by omega) hmax
    have e2 := lightLoop_allValid sigOK vs chainID c hall hlen' hnn (T * 2 / 3) c.sigs 0 0
      (by intro k; simp) (by omega) hn0 hmax
    simp only [hneed, e1, e2]
    by_cases hgt : 0 + fbSum vs c.sigs 0 > T * 2 / 3
    · have : ¬ (0 + fbSum vs c.sigs 0 ≤ T * 2 / 3) := by omega
      simp only [if_pos hgt, if_neg this]
    · have : 0 + fbSum vs c.sigs 0 ≤ T * 2 / 3 := by omega
      simp only [if_neg hgt, if_pos this]

/-- Repeated signers (trusting variant): if a for-block slot names a member that an earlier
for-block slot already named, then either the verdict was already decided by the slots before the
repeat (and it is that verdict, which is not "not enough"), or those slots fell through and the
verdict is the double-vote error at the repeat. The repeat itself never adds power. -/
theorem repeat_signer (vs : List Validator) (chainID : String) (c : Commit σ) (num den : Nat)
    (pre post : List (CommitSig σ)) (s1 s2 : CommitSig σ) (j : Nat) (v1 v2 : Validator)
    (hs : c.sigs = pre ++ s2 :: post) (h1 : s1 ∈ pre)
    (hf1 : s1.flag = flagCommit) (hf2 : s2.flag = flagCommit)
    (ha1 : findByAddr vs s1.addr 0 = some (j, v1)) (ha2 : findByAddr vs s2.addr 0 = some (j, v2)) :
    (verifyCommitLightTrusting sigOK vs chainID c num den =
        verifyCommitLightTrusting sigOK vs chainID { c with sigs := pre } num den ∧
      ∀ g n, verifyCommitLightTrusting sigOK vs chainID { c with sigs := pre } num den ≠ .notEnough g n)
    ∨ (∃ g n first, verifyCommitLightTrusting sigOK vs chainID { c with sigs := pre } num den = .notEnough g n ∧
        verifyCommitLightTrusting sigOK vs chainID c num den = .doubleVote first pre.length) := by
  unfold verifyCommitLightTrusting
  by_cases hden : den = 0
  · left; simp only [if_pos hden]; simp
  simp only [if_neg hden]
  by_cases hr : (num : Int) > maxInt64 ∨ (den : Int) > maxInt64
  · left; simp only [if_pos hr]; simp
  simp only [if_neg hr]
  cases hT : totalVotingPower vs with
  | none => left; simp
  | some T =>
    simp only []
    by_cases hov : (safeMul T (toInt64 num)).2 = true
    · left; simp only [if_pos hov]; simp
    simp only [if_neg hov]
    generalize div64 (safeMul T (toInt64 num)).1 (toInt64 den) = needed
    have hc : ∀ s, voteSignBytes chainID c s = voteSignBytes chainID { c with sigs := pre } s :=
      fun s => rfl
    rw [← trustLoop_congr sigOK vs chainID c { c with sigs := pre } needed hc]
    simp only [hs, trustLoop_append]
    cases hp : trustLoop sigOK vs chainID c needed pre 0 [] 0 with
    | error e =>
      left
      exact ⟨rfl, trustLoop_error_ne_notEnough sigOK vs chainID c needed _ _ _ _ _ hp⟩
    | ok st =>
      obtain ⟨seen', t'⟩ := st
      right
      obtain ⟨_, hseen⟩ := trustLoop_seen sigOK vs chainID c needed pre 0 [] seen' 0 t' hp
      have hj := hseen s1 h1 hf1 j v1 ha1
      obtain ⟨first, hfirst⟩ := Option.isSome_iff_exists.mp hj
      refine ⟨t', needed, first, rfl, ?_⟩
      have hnf : ¬ s2.flag ≠ flagCommit := by simpa using hf2
      simp only [trustLoop, if_neg hnf, ha2, hfirst, Nat.zero_add]


/-- the clause of the property: acceptance agrees -/
theorem full_light_agree (vs : List Validator) (chainID : String) (blockID : BlockID) (height : Int)
    (c : Commit σ) (hnn : NonNeg vs) (hall : AllValid sigOK vs chainID c) :
    verifyCommit sigOK vs chainID blockID height c = .ok ↔
      verifyCommitLight sigOK vs chainID blockID height c = .ok := by
  rw [full_light_same sigOK vs chainID blockID height c hnn hall]

/-- a commit with a repeated signer is accepted only if the slots before the repeat already suffice -/
theorem repeat_signer_rejected (vs : List Validator) (chainID : String) (c : Commit σ) (num den : Nat)
    (pre post : List (CommitSig σ)) (s1 s2 : CommitSig σ) (j : Nat) (v1 v2 : Validator)
    (hs : c.sigs = pre ++ s2 :: post) (h1 : s1 ∈ pre)
    (hf1 : s1.flag = flagCommit) (hf2 : s2.flag = flagCommit)
    (ha1 : findByAddr vs s1.addr 0 = some (j, v1)) (ha2 : findByAddr vs s2.addr 0 = some (j, v2))
    (h : verifyCommitLightTrusting sigOK vs chainID c num den = .ok) :
    verifyCommitLightTrusting sigOK vs chainID { c with sigs := pre } num den = .ok := by
  rcases repeat_signer sigOK vs chainID c num den pre post s1 s2 j v1 v2 hs h1 hf1 hf2 ha1 ha2 with
    ⟨e, _⟩ | ⟨g, n, first, _, e⟩
  · rw [← e]; exact h
  · rw [e] at h; cases h

/-- threshold arithmetic, 2/3: for every total the code can hold, the int64 expression
`total * 2 / 3` is exact, i.e. `got > needed ⇔ 3·got > 2·total`. -/
theorem threshold_exact_two_thirds (T got : Int) (h0 : 0 ≤ T) (hT : T ≤ maxTotalVotingPower) :
    got > div64 (wrap64 (T * 2)) 3 ↔ 3 * got > 2 * T := by
  rw [(needed_two_thirds h0 hT).1]; omega

/-- threshold arithmetic, trust level: for uint64 parts that pass the guard and a product that
passes `safeMul`, `got > total*num/den ⇔ got·den > total·num`. -/
theorem threshold_exact_fraction (T got : Int) (num den : Nat) (h0 : 0 ≤ T)
    (hn : (num : Int) ≤ maxInt64) (hd : (den : Int) ≤ maxInt64) (hd0 : den ≠ 0)
    (hov : (safeMul T (toInt64 num)).2 = false) :
    got > div64 (safeMul T (toInt64 num)).1 (toInt64 den) ↔ got * den > T * num := by
  have e1 : toInt64 num = (num : Int) := wrap64_id (by unfold minInt64; omega) hn
  have e2 : toInt64 den = (den : Int) := wrap64_id (by unfold minInt64; omega) hd
  rw [e1] at hov ⊢; rw [e2]
  obtain ⟨hm, hmax⟩ := safeMul_spec h0 (by omega : (0 : Int) ≤ num) hov
  have hx0 : 0 ≤ T * (num : Int) := Int.mul_nonneg h0 (by omega)
  have hdpos : (0 : Int) < den := by omega
  rw [hm, (div64_nonneg hx0 hmax hdpos).1]
  have := @frac_exact (T * num) den got hx0 hdpos
  rw [Int.tdiv_eq_ediv_of_nonneg hx0] at this
  exact this

/-- a trust level with a part above MaxInt64 is refused before any arithmetic -/
theorem trusting_rejects_oversized_fraction (vs : List Validator) (chainID : String) (c : Commit σ)
    (num den : Nat) (hd : den ≠ 0) (h : (num : Int) > maxInt64 ∨ (den : Int) > maxInt64) :
    verifyCommitLightTrusting sigOK vs chainID c num den = .fractionRange := by
  unfold verifyCommitLightTrusting; simp only [if_neg hd, if_pos h]

/-- nil, absent and wrongly-signed slots never count (index-based variants): if no slot is at the
same time flagged for-the-block and validly signed by the validator of its position, both reject,
whatever else the commit contains. -/
theorem nil_absent_never_count (vs : List Validator) (chainID : String) (blockID : BlockID)
    (height : Int) (c : Commit σ) (hnn : NonNeg vs)
    (hbad : ∀ (i : Nat) (v : Validator) (s : CommitSig σ), vs[i]? = some v → c.sigs[i]? = some s →
      s.flag = flagCommit → sigOK v.key (expectSB chainID c s.ts) s.sig = false) :
    verifyCommit sigOK vs chainID blockID height c ≠ .ok ∧
    verifyCommitLight sigOK vs chainID blockID height c ≠ .ok := by
  have key : ∀ picks : List Nat, (∀ i ∈ picks, GoodPick sigOK vs chainID c false (i, i)) →
      3 * pickedPower vs picks > 2 * sumPower vs → False := by
    intro picks hg hp
    have := sumPower_nonneg hnn
    obtain ⟨i, hi⟩ := pickedPower_pos_nonempty (by omega : 0 < pickedPower vs picks)
    obtain ⟨v, s, hv, hs, hf, _, hok⟩ := hg i hi
    rw [hbad i v s hv hs hf] at hok; cases hok
  constructor
  · intro h
    obtain ⟨_, _, _, _, picks, _, hg, hp⟩ := verifyCommit_sound sigOK vs chainID blockID height c hnn h
    exact key picks hg hp
  · intro h
    obtain ⟨_, _, _, _, picks, _, hg, hp⟩ := light_sound sigOK vs chainID blockID height c hnn h
    exact key picks hg hp

/-- nil, absent, unknown-signer and wrongly-signed slots never count (trusting variant): if no
for-block slot carries the address of a member together with a signature valid under that
member's key, the commit is rejected at every trust level — also at `0/den`. -/
theorem nil_absent_unknown_never_count (vs : List Validator) (chainID : String) (c : Commit σ)
    (num den : Nat) (hnn : NonNeg vs)
    (hbad : ∀ (i : Nat) (s : CommitSig σ), c.sigs[i]? = some s → s.flag = flagCommit →
      ∀ (j : Nat) (v : Validator), vs[j]? = some v → s.addr = v.addr →
        sigOK v.key (expectSB chainID c s.ts) s.sig = false) :
    verifyCommitLightTrusting sigOK vs chainID c num den ≠ .ok := by
  intro h
  obtain ⟨_, _, picks, _, hg, hp⟩ := trusting_sound sigOK vs chainID c num den hnn h
  have h1 := sumPower_nonneg hnn
  have h2 : 0 ≤ sumPower vs * (num : Int) := Int.mul_nonneg h1 (by omega)
  have h3 : 0 < pickedPower vs (picks.map Prod.fst) := by
    apply Int.lt_of_not_ge; intro hle
    have : pickedPower vs (picks.map Prod.fst) * (den : Int) ≤ 0 :=
      Int.mul_nonpos_of_nonpos_of_nonneg hle (by omega)
    omega
  obtain ⟨j, hj⟩ := pickedPower_pos_nonempty h3
  obtain ⟨p, hp', _⟩ := List.mem_map.mp hj
  obtain ⟨v, s, hv, hs, hf, ha, hok⟩ := hg p hp'
  rw [hbad p.2 s hs hf p.1 v hv (ha rfl)] at hok; cases hok

/-- for a commit of a non-nil block the record a counted signature verifies against names exactly
that block id, and it is not the record of a nil vote -/
theorem counted_record_names_block (chainID : String) (c : Commit σ) (ts : Int)
    (hz : c.blockID.isZero = false) :
    (expectSB chainID c ts).blockID = some c.blockID ∧
    expectSB chainID c ts ≠ { expectSB chainID c ts with blockID := none } := by
  have : (expectSB chainID c ts).blockID = some c.blockID := by simp [expectSB, canonBlockID, hz]
  refine ⟨this, ?_⟩
  intro h
  have h2 := congrArg SignBytes.blockID h
  rw [this] at h2; cases h2


/-- Exactness of `VerifyCommit` on commits whose non-absent signatures are all valid: for a
commit of the right size, height and block id it accepts if and only if the for-block slots carry
strictly more than two thirds of the total power. -/
theorem verifyCommit_exact (vs : List Validator) (chainID : String) (c : Commit σ)
    (hnn : NonNeg vs) (hmax : sumPower vs ≤ maxTotalVotingPower)
    (hlen : vs.length = c.sigs.length) (hall : AllValid sigOK vs chainID c) :
    verifyCommit sigOK vs chainID c.blockID c.height c = .ok ↔
      3 * fbSum vs c.sigs 0 > 2 * sumPower vs := by
  have hT := total_complete hnn hmax
  have h0 := sumPower_nonneg hnn
  obtain ⟨hneed, hn0⟩ := needed_two_thirds h0 hmax
  have hb := maxTotal_bound
  have hF : fbSum vs c.sigs 0 ≤ sumPower vs := by
    have := fbSum_le hnn c.sigs 0; simpa using this
  have hmx : 0 + fbSum vs c.sigs 0 ≤ maxInt64 := by unfold maxInt64 at *; omega
  have e1 := fullLoop_allValid sigOK vs chainID c hall hlen hnn c.sigs 0 0 (by intro k; simp)
    (by omega) hmx
  have he : (!c.blockID.equals c.blockID) = false := by
    simp [BlockID.equals_iff.mpr rfl]
  unfold verifyCommit
  have hl : ¬ vs.length ≠ c.sigs.length := by omega
  simp only [if_neg hl, ne_eq, not_true_eq_false, if_false, he, Bool.false_eq_true, hT, hneed, e1]
  by_cases hle : 0 + fbSum vs c.sigs 0 ≤ sumPower vs * 2 / 3
  · simp only [if_pos hle]
    constructor
    · intro h; cases h
    · intro h; omega
  · simp only [if_neg hle]
    constructor
    · intro _; omega
    · intro _; trivial


/-- Unconditionally (no assumption on the signatures): whatever the full variant accepts, the
early-exit variant accepts. -/
theorem full_implies_light (vs : List Validator) (chainID : String) (blockID : BlockID) (height : Int)
    (c : Commit σ) (hnn : NonNeg vs)
    (h : verifyCommit sigOK vs chainID blockID height c = .ok) :
    verifyCommitLight sigOK vs chainID blockID height c = .ok := by
  have hall : AllValid sigOK vs chainID c := by
    unfold verifyCommit at h
    split at h; · cases h
    split at h; · cases h
    split at h; · cases h
    split at h; · cases h
    split at h
    · rename_i r hr; subst h
      -- an early `.ok` from the full loop is impossible (shown inside verifyCommit_sound); reuse soundness
      intro i v s hv hs hf
      exfalso
      have : ∀ (ss : List (CommitSig σ)) idx tally, fullLoop sigOK vs chainID c ss idx tally ≠ .error .ok := by
        intro ss; induction ss with
        | nil => intro idx tally hc; simp [fullLoop] at hc
        | cons s ss ih =>
          intro idx tally hc
          simp only [fullLoop] at hc
          split at hc
          · exact ih _ _ hc
          · split at hc
            · cases hc
            · split at hc
              · rename_i p hp; injection hc with hc; subst hc
                exact (voteSignBytes_ne_notEnough chainID c hp).2 rfl
              · split at hc
                · cases hc
                · exact ih _ _ hc
      exact this _ _ _ hr
    · rename_i got hgot
      intro i v s hv hs hf
      exact fullLoop_ok_valid sigOK vs chainID c c.sigs 0 0 got hgot i s v hs (by simpa using hv) hf
  rw [← full_light_same sigOK vs chainID blockID height c hnn hall]; exact h

/-! ### non-vacuity: a concrete instance on which the hypotheses hold and the verdicts differ -/

/-- toy scheme: key `k` signs the record by writing `k`, a code for the block and the height -/
def exSigOK (k : Nat) (sb : SignBytes) (s : Nat) : Bool :=
  s == k + (if sb.blockID.isSome then 100 else 200) + 1000 * sb.height.toNat

def exVals : List Validator := [⟨[1], 1, 10⟩, ⟨[2], 2, 3⟩, ⟨[3], 3, 1⟩]
def exBid : BlockID := ⟨List.replicate 32 7, 1, List.replicate 32 9⟩
/-- validator 0 signs the block, validator 1 signs nil, validator 2 is absent: 10 of 14 -/
def exCommit : Commit Nat :=
  { height := 5, round := 0, blockID := exBid,
    sigs := [⟨2, [1], 0, 5101⟩, ⟨3, [2], 0, 5202⟩, ⟨1, [], 0, 0⟩] }
/-- validator 0's slot repeated -/
def exRepeat : Commit Nat :=
  { exCommit with sigs := [⟨2, [1], 0, 5101⟩, ⟨2, [1], 0, 5101⟩, ⟨1, [], 0, 0⟩] }

example : NonNeg exVals := by
  intro v hv; simp [exVals] at hv; rcases hv with rfl | rfl | rfl <;> decide

example : verifyCommit exSigOK exVals "A" exBid 5 exCommit = .ok := by decide
example : verifyCommitLight exSigOK exVals "A" exBid 5 exCommit = .ok := by decide
example : verifyCommitLightTrusting exSigOK exVals "A" exCommit 2 3 = .ok := by decide
/-- 10 of 14 is not strictly more than 5/7 -/
example : verifyCommitLightTrusting exSigOK exVals "A" exCommit 5 7 = .notEnough 10 10 := by decide
example : verifyCommitLightTrusting exSigOK exVals "A" exCommit 18446744073709551615 1 = .fractionRange := by decide
/-- the nil vote's power never counts: the same commit against a set where validator 0 has 9 -/
example : verifyCommit exSigOK [⟨[1], 1, 9⟩, ⟨[2], 2, 4⟩, ⟨[3], 3, 1⟩] "A" exBid 5 exCommit
    = .notEnough 9 9 := by decide
/-- hypotheses of `repeat_signer` hold for `exRepeat` at level 5/7 and the verdict is the double vote -/
example : exRepeat.sigs = [⟨2, [1], 0, 5101⟩] ++ ⟨2, [1], 0, 5101⟩ :: [⟨1, [], 0, 0⟩] ∧
    findByAddr exVals [1] 0 = some (0, ⟨[1], 1, 10⟩) ∧
    verifyCommitLightTrusting exSigOK exVals "A" exRepeat 5 7 = .doubleVote 0 1 :=
  ⟨rfl, by decide, by decide⟩
/-- hypotheses of `full_light_same` / `verifyCommit_exact` -/
example : AllValid exSigOK exVals "A" exCommit := by
  intro i v s hv hs hf
  match i with
  | 0 => simp [exVals, exCommit] at hv hs; subst hv; subst hs; exact ⟨_, rfl, by decide⟩
  | 1 => simp [exVals, exCommit] at hv hs; subst hv; subst hs; exact ⟨_, rfl, by decide⟩
  | 2 => simp [exVals, exCommit] at hv hs; subst hv; subst hs; exact absurd rfl hf
  | n + 3 => simp [exVals] at hv
/-- hypotheses of `threshold_exact_fraction` -/
example : (safeMul 14 (toInt64 5)).2 = false ∧ ((5 : Nat) : Int) ≤ maxInt64 := by decide
/-- hypothesis of `nil_absent_never_count`: a commit whose only for-block slot is signed for
another height -/
example : verifyCommit exSigOK exVals "A" exBid 5
    { exCommit with sigs := [⟨2, [1], 0, 6101⟩, ⟨3, [2], 0, 5202⟩, ⟨1, [], 0, 0⟩] } = .wrongSig 0 := by
  decide


section Glue
variable {σ : Type} (sigOK : Nat → SignBytes → σ → Bool) (sigLen : σ → Nat)

/-! ## The decoding / ValidateBasic glue -/

/-- A decoded validator set needs no well-formedness hypothesis: whatever `ValidatorSetFromProto`
returns (for any wire message, any claimed total) is non-empty, has non-negative powers, addresses
of address size, and a total that is the sum of its powers within `MaxTotalVotingPower`. -/
theorem decoded_set_wellformed (w : WireValSet) (vs : List Validator) (h : valSetFromProto w = .ok vs) :
    vs = w.validators ∧ vs ≠ [] ∧ NonNeg vs ∧ (∀ v ∈ vs, v.addr.length = addressSize) ∧
    totalVotingPower vs = some (sumPower vs) ∧ sumPower vs ≤ maxTotalVotingPower ∧
    ∀ t, valSetFromProto { w with total := t } = .ok vs :=
  let ⟨a, b, c, d, e, f⟩ := valSetFromProto_ok h
  ⟨a, b, c, d, e, f, fun _ => h⟩

/-- Soundness for decoded input, with NO extra hypothesis: a set that came out of
`ValidatorSetFromProto` and a commit that `VerifyCommit` accepts against it satisfy the soundness
statement. (The commit needs no validation for soundness: see the table below for what
`ValidateBasic` adds.) -/
theorem decoded_full_sound (w : WireValSet) (vs : List Validator) (chainID : String) (blockID : BlockID)
    (height : Int) (c : Commit σ) (hd : valSetFromProto w = .ok vs)
    (h : verifyCommit sigOK vs chainID blockID height c = .ok) :
    c.height = height ∧ c.blockID = blockID ∧ vs.length = c.sigs.length ∧
    ∃ picks : List Nat, picks.Nodup ∧
      (∀ i ∈ picks, GoodPick sigOK vs chainID c false (i, i)) ∧
      3 * pickedPower vs picks > 2 * sumPower vs :=
  let ⟨a, b, c', _, d⟩ := verifyCommit_sound sigOK vs chainID blockID height c (valSetFromProto_ok hd).2.2.1 h
  ⟨a, b, c', d⟩

theorem decoded_light_sound (w : WireValSet) (vs : List Validator) (chainID : String) (blockID : BlockID)
    (height : Int) (c : Commit σ) (hd : valSetFromProto w = .ok vs)
    (h : verifyCommitLight sigOK vs chainID blockID height c = .ok) :
    c.height = height ∧ c.blockID = blockID ∧ vs.length = c.sigs.length ∧
    ∃ picks : List Nat, picks.Nodup ∧
      (∀ i ∈ picks, GoodPick sigOK vs chainID c false (i, i)) ∧
      3 * pickedPower vs picks > 2 * sumPower vs :=
  let ⟨a, b, c', _, d⟩ := light_sound sigOK vs chainID blockID height c (valSetFromProto_ok hd).2.2.1 h
  ⟨a, b, c', d⟩

theorem decoded_trusting_sound (w : WireValSet) (vs : List Validator) (chainID : String)
    (c : Commit σ) (num den : Nat) (hd : valSetFromProto w = .ok vs)
    (h : verifyCommitLightTrusting sigOK vs chainID c num den = .ok) :
    0 < den ∧
    ∃ picks : List (Nat × Nat), (picks.map Prod.fst).Nodup ∧
      (∀ p ∈ picks, GoodPick sigOK vs chainID c true p) ∧
      pickedPower vs (picks.map Prod.fst) * den > sumPower vs * num :=
  let ⟨a, _, d⟩ := trusting_sound sigOK vs chainID c num den (valSetFromProto_ok hd).2.2.1 h
  ⟨a, d⟩

/-- What `CommitFromProto` guarantees: the commit is the wire commit, its block id is valid, height
and round are non-negative, from height 1 on it names a non-nil block and has slots, every slot has
a known flag, absent slots carry no address, no signature and the zero time, all other slots an
address of address size and a signature of 1..MaxSignatureSize bytes. -/
theorem decoded_commit_wellformed (w c : Commit σ) (h : commitFromProto sigLen w = .ok c) :
    c = w ∧ CommitWF sigLen c ∧ commitValidateBasic sigLen c = none :=
  commitFromProto_ok sigLen h

/-- absent slots of a validated commit carry no address, no signature, no time -/
theorem absent_slots_carry_nothing (c : Commit σ) (hb : commitValidateBasic sigLen c = none)
    (h1 : 1 ≤ c.height) (s : CommitSig σ) (hs : s ∈ c.sigs) (ha : s.flag = flagAbsent) :
    s.addr = [] ∧ sigLen s.sig = 0 ∧ s.ts = zeroTime := by
  unfold commitValidateBasic at hb
  have h0 : ¬ c.height < 0 := by omega
  have h1' : c.height ≥ 1 := h1
  by_cases hr : c.round < 0
  · simp [h0, hr] at hb
  simp only [h0, hr, if_false, h1', if_true] at hb
  cases hz : c.blockID.isZero
  · by_cases he : c.sigs.length = 0
    · simp [hz, he] at hb
    · simp only [hz, he, if_false, Bool.false_eq_true, Option.map_eq_none_iff] at hb
      obtain ⟨_, hab, _⟩ := (firstSigErr_none sigLen).mp hb s hs
      obtain ⟨a, b, c'⟩ := hab ha
      exact ⟨a, c', b⟩
  · simp [hz] at hb

/-- After `CommitFromProto` (or `ValidateBasic` + a valid block id) none of the three entry points
can hit one of the code's panics on the commit (unknown flag, invalid block id, index out of
range): the only remaining panic is the set's total. -/
theorem decoded_commit_never_panics (vs : List Validator) (chainID : String) (blockID : BlockID)
    (height : Int) (c : Commit σ) (num den : Nat) (hwf : CommitWF sigLen c) :
    ¬ (verifyCommit sigOK vs chainID blockID height c).isPanic ∧
    ¬ (verifyCommitLight sigOK vs chainID blockID height c).isPanic ∧
    ¬ (verifyCommitLightTrusting sigOK vs chainID c num den).isPanic := by
  obtain ⟨hb, _, _, _, hs⟩ := hwf
  have hk : ∀ s ∈ c.sigs, s.flag = flagAbsent ∨ s.flag = flagCommit ∨ s.flag = flagNil :=
    fun s hs' => (hs s hs').1
  have np : ∀ r : Res, (r = .size vs.length c.sigs.length ∨ r = .height ∨ r = .blockID ∨ r = .panicTotal ∨
      r = .ok ∨ r = .zeroDen ∨ r = .fractionRange ∨ r = .overflow ∨ ∃ g n, r = .notEnough g n) → ¬ r.isPanic := by
    intro r h hp
    rcases h with h | h | h | h | h | h | h | h | ⟨g, n, h⟩ <;> subst h <;>
      rcases hp with hp | hp | hp <;> cases hp
  refine ⟨?_, ?_, ?_⟩
  · unfold verifyCommit
    split; · exact np _ (Or.inl rfl)
    rename_i hlen
    split; · exact np _ (by simp)
    split; · exact np _ (by simp)
    split; · exact np _ (by simp)
    dsimp only
    split
    · rename_i r hr
      exact fullLoop_no_panic sigOK vs chainID c c.sigs 0 0 r hk hb (by omega) hr
    · split
      · exact np _ (by simp)
      · exact np _ (by simp)
  · unfold verifyCommitLight
    split; · exact np _ (Or.inl rfl)
    rename_i hlen
    split; · exact np _ (by simp)
    split; · exact np _ (by simp)
    split; · exact np _ (by simp)
    dsimp only
    split
    · rename_i r hr
      exact lightLoop_no_panic sigOK vs chainID c _ c.sigs 0 0 r hk hb (by omega) hr
    · exact np _ (by simp)
  · unfold verifyCommitLightTrusting
    split; · exact np _ (by simp)
    split; · exact np _ (by simp)
    split; · exact np _ (by simp)
    dsimp only
    split; · exact np _ (by simp)
    split
    · rename_i r hr
      exact trustLoop_no_panic sigOK vs chainID c _ c.sigs 0 [] 0 r hk hb hr
    · exact np _ (by simp)

/-- A commit without slots is rejected by every entry point (without `ValidateBasic`). -/
theorem empty_commit_rejected (vs : List Validator) (chainID : String) (blockID : BlockID)
    (height : Int) (c : Commit σ) (num den : Nat) (hnn : NonNeg vs) (he : c.sigs = []) :
    verifyCommit sigOK vs chainID blockID height c ≠ .ok ∧
    verifyCommitLight sigOK vs chainID blockID height c ≠ .ok ∧
    verifyCommitLightTrusting sigOK vs chainID c num den ≠ .ok := by
  obtain ⟨a, b⟩ := nil_absent_never_count sigOK vs chainID blockID height c hnn
    (by intro i v s _ hs; simp [he] at hs)
  exact ⟨a, b, nil_absent_unknown_never_count sigOK vs chainID c num den hnn
    (by intro i s hs; simp [he] at hs)⟩

/-- A commit whose block id fails `BlockID.ValidateBasic` (a hash of a wrong length) is never
accepted by the verification functions themselves: they panic at the first for-block slot or
find no power. -/
theorem invalid_blockID_never_accepted (vs : List Validator) (chainID : String) (blockID : BlockID)
    (height : Int) (c : Commit σ) (num den : Nat) (hnn : NonNeg vs)
    (hb : c.blockID.validBasic = false) :
    verifyCommit sigOK vs chainID blockID height c ≠ .ok ∧
    verifyCommitLight sigOK vs chainID blockID height c ≠ .ok ∧
    verifyCommitLightTrusting sigOK vs chainID c num den ≠ .ok := by
  refine ⟨?_, ?_, ?_⟩
  · intro h
    unfold verifyCommit at h
    split at h; · cases h
    split at h; · cases h
    split at h; · cases h
    split at h; · cases h
    rename_i T hT
    obtain ⟨hTs, hTm⟩ := total_spec hnn hT
    have h0 : 0 ≤ T := by rw [hTs]; exact sumPower_nonneg hnn
    obtain ⟨hneed, hn0⟩ := needed_two_thirds h0 hTm
    simp only [hneed] at h
    split at h
    · rename_i r hr; subst h
      exact fullLoop_ne_error_ok sigOK vs chainID c _ _ _ hr
    · rename_i got hgot
      have := fullLoop_invalid_bid sigOK vs chainID c hb c.sigs 0 0 got hgot
      subst this
      split at h
      · cases h
      · omega
  · intro h
    unfold verifyCommitLight at h
    split at h; · cases h
    split at h; · cases h
    split at h; · cases h
    split at h; · cases h
    dsimp only at h
    split at h
    · rename_i r hr; subst h
      exact lightLoop_invalid_bid sigOK vs chainID c hb _ _ _ _ hr
    · cases h
  · intro h
    unfold verifyCommitLightTrusting at h
    split at h; · cases h
    split at h; · cases h
    split at h; · cases h
    dsimp only at h
    split at h; · cases h
    split at h
    · rename_i r hr; subst h
      exact trustLoop_invalid_bid sigOK vs chainID c hb _ _ _ _ _ hr
    · cases h

end Glue

/-! ### What only `ValidateBasic` rejects: a table of witnesses
Each row is a concrete commit (three validators of power 10, 3, 1 with 20-byte addresses, toy
signature scheme `exSigOK`) that `Commit.ValidateBasic` refuses and that the verification functions
themselves accept, or handle differently from each other. Together with `empty_commit_rejected` and
`invalid_blockID_never_accepted` (rejected by verification itself, for all inputs) and
`decoded_commit_never_panics` this is the division of labour between the two layers. -/

def tAddr (n : UInt8) : Bytes := List.replicate 20 n
def tVals : List Validator := [⟨tAddr 1, 1, 10⟩, ⟨tAddr 2, 2, 3⟩, ⟨tAddr 3, 3, 1⟩]
/-- signature byte length of the toy tokens: token 0 is the empty signature -/
def tSigLen (s : Nat) : Nat := if s = 0 then 0 else 64
/-- the well-formed commit: validator 0 for the block, validator 1 for nil, validator 2 absent;
`third` replaces the last slot, `first` the first -/
def tCommit (first third : CommitSig Nat) : Commit Nat :=
  { height := 5, round := 0, blockID := exBid, sigs := [first, ⟨3, tAddr 2, 7, 5202⟩, third] }
def tFirst : CommitSig Nat := ⟨2, tAddr 1, 7, 5101⟩
def tAbsent : CommitSig Nat := ⟨1, [], zeroTime, 0⟩

/-- the base row: valid for `ValidateBasic`, `CommitFromProto` and all three entry points -/
theorem table_wellformed :
    commitValidateBasic tSigLen (tCommit tFirst tAbsent) = none ∧
    (commitFromProto tSigLen (tCommit tFirst tAbsent)).isOk = true ∧
    verifyCommit exSigOK tVals "A" exBid 5 (tCommit tFirst tAbsent) = .ok ∧
    verifyCommitLight exSigOK tVals "A" exBid 5 (tCommit tFirst tAbsent) = .ok ∧
    verifyCommitLightTrusting exSigOK tVals "A" (tCommit tFirst tAbsent) 2 3 = .ok := by decide

/-- an absent slot that carries a signature, an address or a timestamp: only `ValidateBasic`
objects; all three entry points ignore the slot and accept -/
theorem table_absent_slot_with_content :
    (∀ third ∈ [(⟨1, [], zeroTime, 77⟩ : CommitSig Nat), ⟨1, tAddr 3, zeroTime, 0⟩, ⟨1, [], 7, 0⟩],
      commitValidateBasic tSigLen (tCommit tFirst third) ≠ none ∧
      verifyCommit exSigOK tVals "A" exBid 5 (tCommit tFirst third) = .ok ∧
      verifyCommitLight exSigOK tVals "A" exBid 5 (tCommit tFirst third) = .ok ∧
      verifyCommitLightTrusting exSigOK tVals "A" (tCommit tFirst third) 2 3 = .ok) ∧
    commitValidateBasic tSigLen (tCommit tFirst ⟨1, [], zeroTime, 77⟩) = some (.sig .absentSig) ∧
    commitValidateBasic tSigLen (tCommit tFirst ⟨1, tAddr 3, zeroTime, 0⟩) = some (.sig .absentAddr) ∧
    commitValidateBasic tSigLen (tCommit tFirst ⟨1, [], 7, 0⟩) = some (.sig .absentTime) := by decide

/-- an unknown BlockIDFlag: `ValidateBasic` rejects, `VerifyCommit` panics, the two light variants
skip the slot and accept -/
theorem table_unknown_flag :
    commitValidateBasic tSigLen (tCommit tFirst ⟨4, tAddr 3, 7, 5103⟩) = some (.sig .unknownFlag) ∧
    verifyCommit exSigOK tVals "A" exBid 5 (tCommit tFirst ⟨4, tAddr 3, 7, 5103⟩) = .panicFlag ∧
    verifyCommitLight exSigOK tVals "A" exBid 5 (tCommit tFirst ⟨4, tAddr 3, 7, 5103⟩) = .ok ∧
    verifyCommitLightTrusting exSigOK tVals "A" (tCommit tFirst ⟨4, tAddr 3, 7, 5103⟩) 2 3 = .ok := by decide

/-- a signing slot whose address has the wrong size (or is simply not the validator's): the
index-based variants never look at the address and accept; the trusting variant does not find the
member and the slot does not count -/
theorem table_wrong_address :
    commitValidateBasic tSigLen (tCommit ⟨2, [1], 7, 5101⟩ tAbsent) = some (.sig .addrSize) ∧
    verifyCommit exSigOK tVals "A" exBid 5 (tCommit ⟨2, [1], 7, 5101⟩ tAbsent) = .ok ∧
    verifyCommitLight exSigOK tVals "A" exBid 5 (tCommit ⟨2, [1], 7, 5101⟩ tAbsent) = .ok ∧
    verifyCommitLightTrusting exSigOK tVals "A" (tCommit ⟨2, [1], 7, 5101⟩ tAbsent) 2 3 = .notEnough 0 9 ∧
    -- a well-sized address of ANOTHER validator: still accepted by position
    verifyCommit exSigOK tVals "A" exBid 5 (tCommit ⟨2, tAddr 3, 7, 5101⟩ tAbsent) = .ok ∧
    verifyCommitLightTrusting exSigOK tVals "A" (tCommit ⟨2, tAddr 3, 7, 5101⟩ tAbsent) 2 3 = .wrongSig 0 := by
  decide

/-- signature length (missing / above MaxSignatureSize) is checked by `ValidateBasic` only; the
verification functions leave it to the signature scheme (`sigOK`) -/
theorem table_signature_length :
    commitValidateBasic (fun _ => 65) (tCommit tFirst tAbsent) = some (.sig .sigTooBig) ∧
    commitValidateBasic (fun _ => 0) (tCommit tFirst tAbsent) = some (.sig .sigMissing) ∧
    verifyCommit exSigOK tVals "A" exBid 5 (tCommit tFirst tAbsent) = .ok := by decide

def tNeg : Commit Nat :=
  { height := -1, round := -1, blockID := exBid,
    sigs := [⟨2, tAddr 1, 7, 101⟩, ⟨3, tAddr 2, 7, 202⟩, tAbsent] }
def tNilBlock : Commit Nat :=
  { height := 5, round := 0, blockID := BlockID.zero,
    sigs := [⟨2, tAddr 1, 7, 5201⟩, ⟨3, tAddr 2, 7, 5202⟩, tAbsent] }

/-- negative height or round, and a nil block id from height 1 on: only `ValidateBasic` objects; a
commit "for the nil block" whose slots are flagged for-the-block and signed over nil verifies -/
theorem table_height_round_nilblock :
    commitValidateBasic tSigLen tNeg = some .negHeight ∧
    commitValidateBasic tSigLen { tNeg with height := 0 } = some .negRound ∧
    verifyCommit exSigOK tVals "A" exBid (-1) tNeg = .ok ∧
    verifyCommitLightTrusting exSigOK tVals "A" tNeg 2 3 = .ok ∧
    commitValidateBasic tSigLen tNilBlock = some .nilBlock ∧
    verifyCommit exSigOK tVals "A" BlockID.zero 5 tNilBlock = .ok ∧
    verifyCommitLight exSigOK tVals "A" BlockID.zero 5 tNilBlock = .ok ∧
    verifyCommitLightTrusting exSigOK tVals "A" tNilBlock 2 3 = .ok := by decide

/-- a commit without slots fails `ValidateBasic` from height 1 on (and every entry point:
`empty_commit_rejected`); a block id of the shape hash-empty / part-set-header-non-zero is valid,
not nil and not complete -/
theorem table_no_signatures_and_blockid_shapes :
    commitValidateBasic tSigLen ({ height := 5, round := 0, blockID := exBid, sigs := [] } : Commit Nat)
      = some .noSigs ∧
    (let b : BlockID := ⟨[], 1, List.replicate 32 9⟩
     b.validBasic = true ∧ b.isZero = false ∧ b.isComplete = false ∧ canonBlockID b = some b) ∧
    exBid.isComplete = true ∧ BlockID.zero.isComplete = false ∧
    (⟨[1, 2, 3], 1, []⟩ : BlockID).validBasic = false := by decide

/-- `IsComplete` is strictly stronger than "valid and not nil" -/
theorem isComplete_implies_valid_nonzero (b : BlockID) (h : b.isComplete = true) :
    b.validBasic = true ∧ b.isZero = false := by
  unfold BlockID.isComplete at h
  simp only [Bool.and_eq_true, beq_iff_eq, decide_eq_true_eq] at h
  obtain ⟨h1, _, h3⟩ := h
  unfold BlockID.validBasic validHash BlockID.isZero
  simp [h1, h3]


section Relations
variable {σ : Type} (sigOK : Nat → SignBytes → σ → Bool)

/-- Relation light ⇒ trusting: on a set whose addresses are pairwise distinct, a commit whose
for-block slots carry the address of the validator of their position and that `VerifyCommitLight`
accepts is accepted by `VerifyCommitLightTrusting` with the same set at trust level 2/3. Both
hypotheses are needed: `light_not_trusting_duplicate_address`, `table_wrong_address`. -/
theorem light_implies_trusting_two_thirds (vs : List Validator) (chainID : String) (blockID : BlockID)
    (height : Int) (c : Commit σ) (hnn : NonNeg vs) (hd : (vs.map (·.addr)).Nodup)
    (hc : AddrConsistent vs c)
    (h : verifyCommitLight sigOK vs chainID blockID height c = .ok) :
    verifyCommitLightTrusting sigOK vs chainID c 2 3 = .ok := by
  unfold verifyCommitLight at h
  split at h; · cases h
  split at h; · cases h
  split at h; · cases h
  split at h; · cases h
  rename_i T hT
  obtain ⟨hTs, hTm⟩ := total_spec hnn hT
  have h0 : 0 ≤ T := by rw [hTs]; exact sumPower_nonneg hnn
  obtain ⟨hneed, _⟩ := needed_two_thirds h0 hTm
  have hb := maxTotal_bound
  simp only [hneed] at h
  split at h
  · rename_i r hr; subst h
    have e2 : toInt64 2 = 2 := by decide
    have e3 : toInt64 3 = 3 := by decide
    have hmax : T * 2 ≤ maxInt64 := by unfold maxInt64 at *; omega
    have hno := safeMul_no_overflow h0 (by omega : (0:Int) ≤ 2) hmax
    obtain ⟨hm, _⟩ := safeMul_spec h0 (by omega : (0:Int) ≤ 2) hno
    obtain ⟨hdiv, _⟩ := div64_nonneg (by omega : 0 ≤ T * 2) hmax (by omega : (0:Int) < 3)
    have ht := trustLoop_of_lightLoop sigOK vs chainID c hd hc (T * 2 / 3) c.sigs 0 [] 0
      (by intro k; simp) (by simp) hr
    unfold verifyCommitLightTrusting
    have r1 : ¬ ((3 : Nat) = 0) := by decide
    have r2 : ¬ (((2 : Nat) : Int) > maxInt64 ∨ ((3 : Nat) : Int) > maxInt64) := by decide
    simp only [if_neg r1, if_neg r2, hT, e2, e3, hno, hm, hdiv, ht, Bool.false_eq_true, if_false]
  · cases h

/-- with duplicate addresses in the set the implication fails: the second of two validators sharing
an address signs (10 of 11); the light variant accepts by position, the trusting variant resolves
the address to the first validator and rejects the signature -/
theorem light_not_trusting_duplicate_address :
    let vs : List Validator := [⟨[9], 1, 1⟩, ⟨[9], 2, 10⟩]
    let c : Commit Nat := { height := 5, round := 0, blockID := exBid, sigs := [⟨1, [], 0, 0⟩, ⟨2, [9], 0, 5102⟩] }
    NonNeg vs ∧ AddrConsistent vs c ∧
    verifyCommitLight exSigOK vs "A" exBid 5 c = .ok ∧
    verifyCommitLightTrusting exSigOK vs "A" c 2 3 = .wrongSig 1 := by
  refine ⟨?_, ?_, by decide, by decide⟩
  · intro v hv; simp at hv; rcases hv with rfl | rfl <;> decide
  · intro i v s hv hs hf
    match i with
    | 0 => simp at hv hs; subst hs; exact absurd hf (by decide)
    | 1 => simp at hv hs; subst hv; subst hs; rfl
    | n + 2 => simp at hv

/-- a trusted set that shares no address with the commit's slots never accepts it, at any level -/
theorem trusting_disjoint_set_rejects (tv : List Validator) (chainID : String) (c : Commit σ)
    (num den : Nat) (hnn : NonNeg tv)
    (hdis : ∀ s ∈ c.sigs, ∀ v ∈ tv, s.addr ≠ v.addr) :
    verifyCommitLightTrusting sigOK tv chainID c num den ≠ .ok := by
  apply nil_absent_unknown_never_count sigOK tv chainID c num den hnn
  intro i s hs _ j v hv ha
  exact absurd ha (hdis s (List.mem_of_getElem? hs) v (List.mem_of_getElem? hv))


/-- The form the light client (C09) uses: if `VerifyCommitLightTrusting` accepts against the TRUSTED
set `tv` at level `num/den`, then for every group `F` of positions of `tv` whose power is at most
`num/den` of `tv`'s total (e.g. the faulty members, at most the trust level by assumption) some
counted signer — a distinct trusted member with a qualifying signature in the commit — lies
outside `F`. -/
theorem trusting_counted_signer_outside (tv : List Validator) (chainID : String) (c : Commit σ)
    (num den : Nat) (hnn : NonNeg tv)
    (h : verifyCommitLightTrusting sigOK tv chainID c num den = .ok)
    (F : List Nat) (hF : pickedPower tv F * den ≤ sumPower tv * num) :
    ∃ p : Nat × Nat, p.1 ∉ F ∧ GoodPick sigOK tv chainID c true p := by
  obtain ⟨_, _, picks, hnd, hg, hp⟩ := trusting_sound sigOK tv chainID c num den hnn h
  apply Classical.byContradiction
  intro hno
  have hsub : ∀ j ∈ picks.map Prod.fst, j ∈ F := by
    intro j hj
    obtain ⟨p, hp', rfl⟩ := List.mem_map.mp hj
    apply Classical.byContradiction
    intro hn; exact hno ⟨p, hn, hg p hp'⟩
  have hle := pickedPower_subset_le hnn _ F hnd hsub
  have : pickedPower tv (picks.map Prod.fst) * (den : Int) ≤ pickedPower tv F * den :=
    Int.mul_le_mul_of_nonneg_right hle (by omega)
  omega

/-- the same for the two-thirds variants: a group of positions holding at most two thirds of the
power cannot contain all counted signers -/
theorem light_counted_signer_outside (vs : List Validator) (chainID : String) (blockID : BlockID)
    (height : Int) (c : Commit σ) (hnn : NonNeg vs)
    (h : verifyCommitLight sigOK vs chainID blockID height c = .ok)
    (F : List Nat) (hF : 3 * pickedPower vs F ≤ 2 * sumPower vs) :
    ∃ i : Nat, i ∉ F ∧ GoodPick sigOK vs chainID c false (i, i) := by
  obtain ⟨_, _, _, _, picks, hnd, hg, hp⟩ := light_sound sigOK vs chainID blockID height c hnn h
  apply Classical.byContradiction
  intro hno
  have hsub : ∀ j ∈ picks, j ∈ F := by
    intro j hj
    apply Classical.byContradiction
    intro hn; exact hno ⟨j, hn, hg j hj⟩
  have hle := pickedPower_subset_le hnn _ F hnd hsub
  omega

end Relations
end Tmv.Props.C07
