import Tmv.Lemmas.MempoolV0
import Tmv.Lemmas.MempoolV1
import Tmv.Lemmas.MempoolV0Async
import Tmv.Lemmas.MempoolKeyed
/-! # C12 — Mempool contents stay unique, bounded, current and correctly ordered

Theorems about the models `Tmv.Mempool.V0` (mempool/v0 CListMempool) and `Tmv.Mempool.V1`
(mempool/v1 TxMempool), for ALL operation histories (`run (init cfg h) ops`: any interleaving of
CheckTx with any application verdict, Update with any block / delivery codes / recheck verdicts /
new filters, Flush; reaps do not change the state and are stated for every state) and ALL
configurations, including a cache smaller than the pool or disabled. -/
namespace Tmv.Props.C12
open Tmv Tmv.Mempool

/-- configurations used by the non-vacuity examples (cache smaller than the pool) -/
def exCfg0 : V0.Cfg :=
  { size := 2, maxTxsBytes := 5, maxTxBytes := 3, cacheSize := 1, keepInvalid := false, recheck := true }
def exCfg0b : V0.Cfg :=
  { size := 3, maxTxsBytes := 50, maxTxBytes := 3, cacheSize := 1, keepInvalid := false, recheck := true }
def exCfg1 : V1.Cfg :=
  { size := 2, maxTxsBytes := 100, maxTxBytes := 10, cacheSize := 1, keepInvalid := false, recheck := true,
    ttlNumBlocks := 0, ttlDuration := false }

/-! ## v0 (CListMempool) -/

/-- **no_duplicates** (v0): at every moment every transaction is in the pool at most once —
for every configuration (no validity assumption) and every history. -/
theorem v0_no_duplicates (cfg : V0.Cfg) (h : Int) (ops : List V0.Op) :
    (V0.keys (V0.run (V0.init cfg h) ops)).Nodup :=
  (V0.inv_run ops (V0.inv_init cfg h)).nodup

/-- the key index (`txsMap`) holds exactly the keys of the pool list, each once -/
theorem v0_index_consistent (cfg : V0.Cfg) (h : Int) (ops : List V0.Op) :
    let s := V0.run (V0.init cfg h) ops
    s.txsMap.Perm (V0.keys s) ∧ s.txsMap.Nodup := by
  have hi := V0.inv_run ops (V0.inv_init cfg h)
  exact ⟨hi.map, (hi.map.nodup_iff).2 hi.nodup⟩

/-- **count_bytes_bounded** (v0): `Size() ≤ config.Size`, `SizeBytes() ≤ config.MaxTxsBytes`, and
`SizeBytes()` is exactly the total length of the pooled transactions — for every configuration that
passes `ValidateBasic` and every history. -/
theorem v0_count_bytes_bounded (cfg : V0.Cfg) (hv : V0.CfgValid cfg) (h : Int) (ops : List V0.Op) :
    let s := V0.run (V0.init cfg h) ops
    (s.txs.length : Int) ≤ cfg.size ∧ s.txsBytes ≤ cfg.maxTxsBytes ∧
      s.txsBytes = bytesOf (V0.keys s) := by
  have hb := V0.bounded_run ops (V0.bounded_init cfg h hv) hv
  have hc : (V0.run (V0.init cfg h) ops).cfg = cfg := V0.cfg_run ops _
  have hi := V0.inv_run ops (V0.inv_init cfg h)
  unfold V0.Bounded at hb
  rw [hc] at hb
  exact ⟨hb.1, hb.2, hi.bytes⟩

example : V0.CfgValid
    { size := 2, maxTxsBytes := 5, maxTxBytes := 3, cacheSize := 1, keepInvalid := false, recheck := true } :=
  ⟨by decide, by decide⟩

/-- **committed_removed** (v0): after `Update`, no transaction of the committed block is in the
pool (whatever its delivery code, whatever the recheck answers) — in every reachable state. -/
theorem v0_committed_removed (cfg : V0.Cfg) (h0 : Int) (ops : List V0.Op)
    (h : Int) (block : List (Bytes × Nat)) (pre post : Option Int) (rv : Bytes → Verdict)
    (c : Bytes × Nat) (hc : c ∈ block) :
    c.1 ∉ V0.keys (V0.update (V0.run (V0.init cfg h0) ops) h block pre post rv) := by
  have hi : V0.Inv (V0.run (V0.init cfg h0) ops) := V0.inv_run ops (V0.inv_init cfg h0)
  generalize V0.run (V0.init cfg h0) ops = s at hi
  rw [V0.update_eq]
  have hi0 : V0.Inv (V0.updHead s h pre post) := hi
  have h2 := V0.not_mem_commitAll block hi0 c hc
  have hi2 := V0.inv_commitAll block hi0
  simp only
  split
  · split
    · intro hk; exact h2 ((V0.recheckTxs_spec hi2 rv).2.2.2.1 _ hk)
    · exact h2
  · exact h2

/-- **no_readmit_while_cached** (v0): while the cache remembers a transaction, `CheckTx` of it is
refused and leaves the pool as it is — in every state. -/
theorem v0_no_readmit_while_cached (s : V0.State) (tx : Bytes) (v : Verdict)
    (h : s.cache.has tx = true) :
    (V0.checkTx s tx v).2 ≠ .ok ∧ (V0.checkTx s tx v).1.txs = s.txs := by
  unfold V0.checkTx
  split
  · exact ⟨by simp, rfl⟩
  · split
    · exact ⟨by simp, rfl⟩
    · split
      · exact ⟨by simp, rfl⟩
      · simp [Cache.push_of_has s.cache tx h]

example : ({ size := 1, keys := [[1]] } : Cache).has [1] = true := by decide

/-- a transaction committed with code OK is remembered right after its loop iteration of
`Update` (when a cache is configured) … -/
theorem v0_commit_remembers (s : V0.State) (tx : Bytes) (h : s.cache.size > 0) :
    (V0.commitOne s (tx, codeOK)).cache.has tx = true :=
  V0.commitOne_remembers s tx h

/-- … and when it is the last transaction of the block it is still remembered when `Update`
returns (the recheck only forgets transactions it removes from the pool), so by
`v0_no_readmit_while_cached` it is not re-admitted. Reachable states, any cache size ≥ 1. -/
theorem v0_update_remembers_last_committed (cfg : V0.Cfg) (h0 : Int) (ops : List V0.Op)
    (h : Int) (block : List (Bytes × Nat)) (tx : Bytes) (pre post : Option Int)
    (rv : Bytes → Verdict)
    (hs : (V0.run (V0.init cfg h0) ops).cache.size > 0) :
    let s' := V0.update (V0.run (V0.init cfg h0) ops) h (block ++ [(tx, codeOK)]) pre post rv
    s'.cache.has tx = true ∧ tx ∉ V0.keys s' := by
  have hi : V0.Inv (V0.run (V0.init cfg h0) ops) := V0.inv_run ops (V0.inv_init cfg h0)
  generalize V0.run (V0.init cfg h0) ops = s at hi hs
  have hi0 : V0.Inv (V0.updHead s h pre post) := hi
  have hnot := V0.not_mem_commitAll (block ++ [(tx, codeOK)]) hi0 (tx, codeOK) (by simp)
  have hi2 := V0.inv_commitAll (block ++ [(tx, codeOK)]) hi0
  have hhas : ((block ++ [(tx, codeOK)]).foldl V0.commitOne (V0.updHead s h pre post)).cache.has tx = true := by
    rw [List.foldl_append]
    simp only [List.foldl_cons, List.foldl_nil]
    apply V0.commitOne_remembers
    rw [V0.cache_size_commitAll]; exact hs
  show (V0.update s h (block ++ [(tx, codeOK)]) pre post rv).cache.has tx = true ∧
    tx ∉ V0.keys (V0.update s h (block ++ [(tx, codeOK)]) pre post rv)
  rw [V0.update_eq]
  simp only
  split
  · split
    · have hr := V0.recheckTxs_spec hi2 rv
      exact ⟨hr.2.2.2.2.2 tx hnot hhas, fun hk => hnot (hr.2.2.2.1 _ hk)⟩
    · exact ⟨hhas, hnot⟩
  · exact ⟨hhas, hnot⟩

/-- the hypothesis is satisfiable: a reachable state with a real cache and a non-empty pool -/
example : (V0.run (V0.init exCfg0 0) [.check [1] {}]).cache.size > 0 ∧
    (V0.run (V0.init exCfg0 0) [.check [1] {}]).txs.length = 1 := by decide

/-- **reap_is_prefix_within_limits** (v0, `ReapMaxBytesMaxGas`): the result is the first `k` pool
entries in arrival order; their proto-encoded size respects `maxBytes` (when ≥ 0), their gas
respects `maxGas` (when ≥ 0); and `k` is maximal: the next entry, if any, would break a limit.
Every state, all limits. -/
theorem v0_reap_is_prefix_within_limits (s : V0.State) (maxBytes maxGas : Int) :
    ∃ k, k ≤ s.txs.length ∧
      V0.reapMaxBytesMaxGas s maxBytes maxGas = (V0.keys s).take k ∧
      (maxBytes > -1 → V0.protoSum (s.txs.take k) ≤ maxBytes) ∧
      (maxGas > -1 → V0.gasSum (s.txs.take k) ≤ maxGas) ∧
      (∀ e, s.txs[k]? = some e →
        (maxBytes > -1 ∧ V0.protoSum (s.txs.take k) + protoSize e.tx.length > maxBytes) ∨
        (maxGas > -1 ∧ V0.gasSum (s.txs.take k) + e.gas > maxGas)) := by
  obtain ⟨k, hk, he, hb, hg, hm⟩ := V0.reapGo_spec maxBytes maxGas s.txs 0 0
    (by intro h; omega) (by intro h; omega)
  refine ⟨k, hk, ?_, ?_, ?_, ?_⟩
  · unfold V0.reapMaxBytesMaxGas V0.keys; rw [he, List.map_take]
  · intro h; have := hb h; omega
  · intro h; have := hg h; omega
  · intro e hek
    rcases hm e hek with h | h
    · left; exact ⟨h.1, by omega⟩
    · right; exact ⟨h.2 |> fun _ => h.1, by omega⟩

/-- **reap_is_prefix_within_limits** (v0, `ReapMaxTxs`): exactly the first `max` entries (all of
them when `max < 0`), never more than `max`. Every state. -/
theorem v0_reapMaxTxs_is_prefix_within_count (s : V0.State) (max : Int) :
    V0.reapMaxTxs s max = (V0.keys s).take (if max < 0 then s.txs.length else max.toNat) ∧
    (0 ≤ max → ((V0.reapMaxTxs s max).length : Int) ≤ max) := by
  have he : V0.reapMaxTxs s max = (V0.keys s).take (if max < 0 then s.txs.length else max.toNat) := by
    unfold V0.reapMaxTxs V0.keys
    simp only
    rw [V0.reapNGo_spec]
    split
    · simp
      exact (List.take_of_length_le (by simp)).symm
    · simp [List.map_take]
  refine ⟨he, ?_⟩
  intro h0
  rw [he]
  have : ¬ max < 0 := by omega
  simp only [this, if_false, List.length_take]
  omega

/-- **recheck_keeps_accepted_only** (v0): after `Update` with `config.Recheck`, every transaction
left in the pool was answered `CodeTypeOK` by the application's recheck and passes the post-check
now in force. Reachable states, all application verdicts. -/
theorem v0_recheck_keeps_accepted_only (cfg : V0.Cfg) (hr : cfg.recheck = true) (h0 : Int)
    (ops : List V0.Op) (h : Int) (block : List (Bytes × Nat)) (pre post : Option Int)
    (rv : Bytes → Verdict) :
    let s := V0.run (V0.init cfg h0) ops
    ∀ k ∈ V0.keys (V0.update s h block pre post rv),
      accepted (newFilter post s.post) (rv k) = true := by
  have hi : V0.Inv (V0.run (V0.init cfg h0) ops) := V0.inv_run ops (V0.inv_init cfg h0)
  have hc : (V0.run (V0.init cfg h0) ops).cfg = cfg := V0.cfg_run ops _
  generalize V0.run (V0.init cfg h0) ops = s at hi hc
  show ∀ k ∈ V0.keys (V0.update s h block pre post rv),
      accepted (newFilter post s.post) (rv k) = true
  intro k hk
  have hi0 : V0.Inv (V0.updHead s h pre post) := hi
  have hi2 := V0.inv_commitAll block hi0
  have hcfg := V0.cfg_commitAll block (V0.updHead s h pre post)
  rw [V0.update_eq] at hk
  have hrc : (block.foldl V0.commitOne (V0.updHead s h pre post)).cfg.recheck = true := by
    rw [hcfg.1]; show s.cfg.recheck = true; rw [hc]; exact hr
  simp only [hrc, if_true] at hk
  split at hk
  · have := (V0.recheckTxs_spec hi2 rv).2.2.2.2.1 k hk
    rw [hcfg.2] at this
    exact this
  · rename_i hlen
    have : (block.foldl V0.commitOne (V0.updHead s h pre post)).txs = [] := by
      cases hl : (block.foldl V0.commitOne (V0.updHead s h pre post)).txs with
      | nil => rfl
      | cons a r => rw [hl] at hlen; simp at hlen
    simp [V0.keys, this] at hk

/-- `Flush` leaves pool, index, byte counter and cache empty (every state). -/
theorem v0_flush_empties (s : V0.State) :
    (V0.flush s).txs = [] ∧ (V0.flush s).txsMap = [] ∧ (V0.flush s).txsBytes = 0 ∧
      (V0.flush s).cache.keys = [] := ⟨rfl, rfl, rfl, rfl⟩

/-- the tx cache (LRU) is bounded independently of the pool: it never holds a key twice, never more
than `config.CacheSize` keys, and nothing at all when disabled — every configuration and history. -/
theorem v0_cache_bounded (cfg : V0.Cfg) (h : Int) (ops : List V0.Op) :
    let c := (V0.run (V0.init cfg h) ops).cache
    c.keys.Nodup ∧ (cfg.cacheSize ≤ 0 → c.keys = []) ∧
      (0 < cfg.cacheSize → (c.keys.length : Int) ≤ cfg.cacheSize) := by
  have := V0.cacheOK_run (n := cfg.cacheSize) ops (V0.init cfg h) (Cache.okn_new _)
  obtain ⟨hs, h1, h2, h3⟩ := this
  rw [hs] at h2 h3
  exact ⟨h1, h2, h3⟩

/-- a recheck that really removes: cache smaller than the pool, two entries, one rejected -/
example : V0.keys (V0.update (V0.run (V0.init exCfg0b 0) [.check [1] {}, .check [2] {}])
    1 [] none none (fun t => if t = [1] then { code := 1 } else {})) = [[2]] := by decide

/-- **senders_recorded** (v0, supporting; used by the reactor not to send a tx back to a peer it
came from): when `CheckTx` from `peer` gets past the early guards and is not rejected by the
application / post-check — answered `ErrTxInCache`, or handed to the application and accepted — and
the transaction is in the pool afterwards (newly admitted or already there), `peer` is among the
entry's senders. Every state. -/
theorem v0_senders_recorded (s : V0.State) (tx : Bytes) (v : Verdict) (peer : Nat) :
    ((V0.checkTxFrom s tx v peer).2 = .inCache ∨
      ((V0.checkTxFrom s tx v peer).2 = .ok ∧ accepted s.post v = true)) →
    ∀ e ∈ (V0.checkTxFrom s tx v peer).1.txs, e.tx = tx → peer ∈ e.senders := by
  unfold V0.checkTxFrom
  simp only
  split
  · intro _; exact V0.recordSender_has _ tx peer
  · split
    · intro _; exact V0.recordSender_has _ tx peer
    · rename_i hacc
      intro h
      rcases h with h | ⟨_, h⟩
      · simp_all
      · exact absurd h hacc
  · rename_i h1 h2
    intro h
    rcases h with h | ⟨h, _⟩
    · exact absurd h h1
    · exact absurd h h2

/-- two peers submit the same tx, cache smaller than the pool: one entry, both peers recorded -/
example : ((V0.run (V0.init exCfg0b 0) [.check [1] {} 7, .check [2] {} 7, .check [1] {} 9]).txs.map
    (fun e => (e.tx, e.senders))) = [([1], [7, 9]), ([2], [7])] := by decide

/-- **what "remembered" means.** The tx cache remembers the last `CacheSize` distinct keys BY MOST
RECENT PUSH (a push of a key already cached — a resubmission, or the commit of a cached tx in
`Update` — refreshes its recency; `Remove` forgets). Precisely: after a push of `k`, whatever pushes
and removals of OTHER keys follow, `k` is still cached as long as fewer than `CacheSize` distinct
other keys are pushed (`hfew`: no duplicate-free list of later-pushed keys reaches the cache size).
Every operation the pools perform on the cache is such a push or removal (or `Reset`), the caches
of reachable pools satisfy `c.OK` (`v0_cache_bounded`, `v1_cache_bounded`), so with
`v0_/v1_no_readmit_while_cached` a transaction committed or submitted that recently is refused. -/
theorem cache_remembers_recent (c : Cache) (hok : c.OK) (hpos : 0 < c.size) (k : Bytes)
    (ops : List CacheOp) (hne : ∀ o ∈ ops, o.key ≠ k)
    (hfew : ∀ l : List Bytes, l.Nodup → (∀ x ∈ l, x ∈ pushedKeys ops) → k ∉ l →
      (l.length : Int) < c.size) :
    ((c.push k).1.applyAll ops).has k = true := by
  apply Cache.holds_has (D := pushedKeys ops)
  apply Cache.holds_all k (pushedKeys ops) ops _ (Cache.holds_push c k _ hok hpos) hne
    (fun j hj => mem_pushedKeys hj)
  rw [Cache.push_size]; exact hfew

/-- cache of size 3: `[9]` is pushed, then two other keys, one of them twice, and a removal — still
remembered; a third distinct key would be allowed to push it out -/
example : (((Cache.new 3).push [9]).1.applyAll
    [.push [1], .push [2], .push [1], .remove [2], .push [2]]).has [9] = true ∧
    (((Cache.new 3).push [9]).1.applyAll [.push [1], .push [2], .push [3]]).has [9] = false := by
  decide

/-! ## v0 over an asynchronous FIFO ABCI client (socket / grpc discipline)

`V0.AState`: `CheckTx` only queues its request, responses are handled one at a time later
(`globalCb`, then the request's callback), `Update` is preceded by `FlushAppConn` and only queues the
recheck requests; `resCbRecheck` is modelled WITH its mismatch-skipping loop. Histories: any
interleaving of sends, response deliveries and updates. -/

/-- the state invariants survive every asynchronous history, and the modelled code never panics
(neither "recheck cursor is not nil in reqResCb" nor a nil dereference in the skipping loop) -/
theorem v0_async_invariants (cfg : V0.Cfg) (h : Int) (ops : List V0.AOpF) :
    let a := V0.arunF (V0.ainit cfg h) ops
    (V0.keys a.s).Nodup ∧ a.s.txsMap.Perm (V0.keys a.s) ∧ a.s.txsBytes = bytesOf (V0.keys a.s) ∧
      a.panicked = false := by
  obtain ⟨hi, hp⟩ := V0.aphase_facts (V0.aphase_runF ops (V0.aphase_init cfg h))
  exact ⟨hi.nodup, hi.map, hi.bytes, hp⟩

/-- the mismatch-skipping loop of `resCbRecheck` is dead under the FIFO discipline: whenever the
recheck cursor stands on an entry, the next response to be handled is the recheck answer for
exactly that entry -/
theorem v0_async_skip_loop_dead (cfg : V0.Cfg) (h : Int) (ops : List V0.AOpF) (c : Bytes) :
    let a := V0.arunF (V0.ainit cfg h) ops
    a.cursor = some c → ∃ q, a.queue = V0.Req.recheck c :: q := by
  intro a hc
  rcases V0.aphase_runF ops (V0.aphase_init cfg h) with hi | ⟨kept, rem, firsts, hr⟩
  · have := hi.cursor; rw [this] at hc; cases hc
  · have h1 := hr.cursor
    have h2 := hr.queue
    cases rem with
    | nil => rw [h1] at hc; cases hc
    | cons c' rem =>
      rw [h1] at hc
      simp at hc; subst hc
      exact ⟨rem.map V0.Req.recheck ++ firsts, h2⟩

/-- **recheck_keeps_accepted_only** for the asynchronous discipline: after an `Update` that started
a recheck, once as many responses have been handled as the pool had entries (interleaved with any
number of new `CheckTx` calls, whose answers queue up behind), every transaction in the pool was
accepted by the recheck. -/
theorem v0_async_recheck_keeps_accepted_only (cfg : V0.Cfg) (h0 : Int) (ops : List V0.AOpF)
    (ht : Int) (block : List (Bytes × Nat)) (pre post : Option Int) (rv : Bytes → Verdict)
    (between : List V0.AOp) :
    let a1 := V0.aupdate (V0.arunF (V0.ainit cfg h0) ops) ht block pre post rv
    a1.cursor ≠ none →
    V0.countDeliver between = (V0.keys a1.s).length →
    ∀ k ∈ V0.keys (V0.arun a1 between).s, accepted a1.s.post (rv k) = true := by
  intro a1 hcur hcount k hk
  have hph := V0.aphase_runF ops (V0.aphase_init cfg h0)
  have hrv : a1.rv = rv := by
    show (V0.aupdate _ ht block pre post rv).rv = rv
    unfold V0.aupdate
    simp only
    split <;> rfl
  rcases V0.aupdate_phase hph ht block pre post rv with hi | hr
  · exact absurd hi.cursor hcur
  · obtain ⟨kept', rem', firsts', g1, g2, g3, g4⟩ :=
      V0.arun_recheck_phase between a1 [] (V0.keys a1.s) [] hr (by omega)
    have hrem : rem' = [] := List.length_eq_zero_iff.1 (by omega)
    subst hrem
    have hk' : k ∈ kept' := by
      have := g1.keys
      rw [this] at hk; simpa using hk
    have := g1.kept k hk'
    rw [g3, g4, hrv] at this
    exact this

/-- THE DISCIPLINE MADE EXPLICIT. `V0.AOpG` adds `RemoveTxByKey` and `Flush` to the operations;
`V0.Allowed` permits `RemoveTxByKey(k)` only while no recheck answer for `k` is pending and `Flush`
only while no recheck answer at all is pending (both are always permitted when no recheck is in
flight); `V0.Disciplined a ops` says every step of the history is permitted. Under it the
invariants hold and nothing panics … -/
theorem v0_async_invariants_disciplined (cfg : V0.Cfg) (h : Int) (ops : List V0.AOpG)
    (hd : V0.Disciplined (V0.ainit cfg h) ops) :
    let a := V0.arunG (V0.ainit cfg h) ops
    (V0.keys a.s).Nodup ∧ a.s.txsMap.Perm (V0.keys a.s) ∧ a.s.txsBytes = bytesOf (V0.keys a.s) ∧
      a.panicked = false := by
  obtain ⟨hi, hp⟩ := V0.aphase_facts (V0.aphase_runG ops (V0.aphase_init cfg h) hd)
  exact ⟨hi.nodup, hi.map, hi.bytes, hp⟩

/-- … and **recheck_keeps_accepted_only** holds: after an `Update` that started a recheck, for any
permitted steps in between (new submissions, answers, `RemoveTxByKey` of entries whose answer is
not pending), once all recheck answers have been handled every pooled transaction was accepted.
The hypothesis is minimal in the sense of `v0_async_recheck_fails_after_remove` (one
`RemoveTxByKey` of an entry with a pending answer breaks the conclusion) and of the known finding
`v0.async.flush-during-recheck.panic`. -/
theorem v0_async_recheck_keeps_accepted_only_disciplined (cfg : V0.Cfg) (h0 : Int)
    (ops : List V0.AOpG) (hd : V0.Disciplined (V0.ainit cfg h0) ops)
    (ht : Int) (block : List (Bytes × Nat)) (pre post : Option Int) (rv : Bytes → Verdict)
    (between : List V0.AOpG) :
    let a1 := V0.aupdate (V0.arunG (V0.ainit cfg h0) ops) ht block pre post rv
    a1.cursor ≠ none →
    V0.Disciplined a1 between → (∀ o ∈ between, o.isUpdate = false) →
    V0.countDeliverG between = (V0.keys a1.s).length →
    ∀ k ∈ V0.keys (V0.arunG a1 between).s, accepted a1.s.post (rv k) = true := by
  intro a1 hcur hdb hnu hcount k hk
  have hph := V0.aphase_runG ops (V0.aphase_init cfg h0) hd
  have hrv : a1.rv = rv := by
    show (V0.aupdate _ ht block pre post rv).rv = rv
    unfold V0.aupdate
    simp only
    split <;> rfl
  rcases V0.aupdate_phase hph ht block pre post rv with hi | hr
  · exact absurd hi.cursor hcur
  · obtain ⟨kept', rem', firsts', g1, g2, g3, g4⟩ :=
      V0.arunG_recheck_phase between a1 [] (V0.keys a1.s) [] hr hdb hnu (by omega)
    have hrem : rem' = [] := List.length_eq_zero_iff.1 (by omega)
    subst hrem
    have hk' : k ∈ kept' := by
      have := g1.keys
      rw [this] at hk; simpa using hk
    have := g1.kept k hk'
    rw [g3, g4, hrv] at this
    exact this

/-- the discipline is satisfiable with a removal in the middle of a recheck: entry `[1]` is removed
after its answer has been handled, while the answer for `[2]` is still pending -/
example :
    let a1 := V0.aupdate (V0.arunG (V0.ainit exCfg0b 0)
      [.send [1] {}, .send [2] {}, .deliver, .deliver]) 1 [] none none
      (fun t => if t = [2] then { code := 1 } else {})
    V0.Disciplined a1 [.deliver, .removeByKey [1], .deliver] ∧
    V0.keys (V0.arunG a1 [.deliver, .removeByKey [1], .deliver]).s = [] := by
  refine ⟨⟨trivial, ?_, trivial, trivial⟩, by decide⟩
  intro r hr
  have : r = V0.Req.recheck [2] := by
    have h : (V0.astepG (V0.aupdate (V0.arunG (V0.ainit exCfg0b 0)
      [.send [1] {}, .send [2] {}, .deliver, .deliver]) 1 [] none none
      (fun t => if t = [2] then { code := 1 } else {})) .deliver).queue = [V0.Req.recheck [2]] := by
      decide
    rw [h] at hr; simpa using hr
  subst this; decide

/-- outside that discipline the clause fails: `RemoveTxByKey` of an entry whose recheck answer is
still in flight makes the skipping loop give up at `recheckEnd`; the rejected entry `c1` stays
(known finding `v0.async.remove-during-recheck.rejected-tx-kept`, replayed by the `hazard` stream) -/
theorem v0_async_recheck_fails_after_remove :
    V0.hazardRemove.cursor = none ∧ V0.hazardRemove.queue = [] ∧
    [0xc1] ∈ V0.keys V0.hazardRemove.s ∧
    accepted V0.hazardRemove.s.post (V0.hazardRemove.rv [0xc1]) = false := by decide

/-- a recheck of two entries, the second rejected, with a new submission in between -/
example :
    let a1 := V0.aupdate (V0.arunF (V0.ainit exCfg0b 0)
      [.send [1] {}, .send [2] {}, .deliver, .deliver]) 1 [] none none
      (fun t => if t = [2] then { code := 1 } else {})
    a1.cursor ≠ none ∧ V0.keys a1.s = [[1], [2]] ∧
    V0.keys (V0.arun a1 [.deliver, .send [3] {}, .deliver]).s = [[1]] := by decide

/-! ## v1 (TxMempool, priority mempool) -/

/-- **no_duplicates** (v1): every configuration, every history. -/
theorem v1_no_duplicates (cfg : V1.Cfg) (h : Int) (ops : List V1.Op) :
    (V1.keys (V1.run (V1.init cfg h) ops)).Nodup :=
  (V1.run_spec ops (V1.inv_init cfg h)).1.nodup

/-- the key index (`txByKey`) holds exactly the keys of the pool list, each once -/
theorem v1_index_consistent (cfg : V1.Cfg) (h : Int) (ops : List V1.Op) :
    let s := V1.run (V1.init cfg h) ops
    s.byKey.Perm (V1.keys s) ∧ s.byKey.Nodup := by
  have hi := (V1.run_spec ops (V1.inv_init cfg h)).1
  exact ⟨hi.map, (hi.map.nodup_iff).2 hi.nodup⟩

/-- **count_bytes_bounded** (v1), including through evictions: every valid configuration, every
history. -/
theorem v1_count_bytes_bounded (cfg : V1.Cfg) (hv : V1.CfgValid cfg) (h : Int) (ops : List V1.Op) :
    let s := V1.run (V1.init cfg h) ops
    (s.txs.length : Int) ≤ cfg.size ∧ s.txsBytes ≤ cfg.maxTxsBytes ∧
      s.txsBytes = bytesOf (V1.keys s) := by
  obtain ⟨hi, hc, hb⟩ := V1.run_spec ops (V1.inv_init cfg h)
  have hb := hb (V1.bounded_init cfg h hv)
  unfold V1.Bounded at hb
  rw [hc, V1.keys_length] at hb
  exact ⟨hb.1, hb.2, hi.bytes⟩

example : V1.CfgValid
    { size := 2, maxTxsBytes := 5, maxTxBytes := 3, cacheSize := 1, keepInvalid := false, recheck := true,
      ttlNumBlocks := 2, ttlDuration := false } :=
  ⟨by decide, by decide⟩

/-- **committed_removed** (v1): reachable states, any block, codes, TTL expiry and recheck
answers. -/
theorem v1_committed_removed (cfg : V1.Cfg) (h0 : Int) (ops : List V1.Op)
    (h : Int) (block : List (Bytes × Nat)) (pre post : Option Int) (rv : Bytes → Verdict)
    (expired : V1.WTx → Bool) (c : Bytes × Nat) (hc : c ∈ block) :
    c.1 ∉ V1.keys (V1.update (V1.run (V1.init cfg h0) ops) h block pre post rv expired) :=
  (V1.update_spec (V1.run_spec ops (V1.inv_init cfg h0)).1 h block pre post rv expired).2.2.2.2.1 c hc

/-- **no_readmit_while_cached** (v1): every state. -/
theorem v1_no_readmit_while_cached (s : V1.State) (tx : Bytes) (v : Verdict)
    (h : s.cache.has tx = true) :
    (∀ me, (V1.checkTx s tx v).2 ≠ .ok me) ∧ (V1.checkTx s tx v).1.txs = s.txs := by
  unfold V1.checkTx
  split
  · exact ⟨by simp, rfl⟩
  · split
    · exact ⟨by simp, rfl⟩
    · simp [Cache.push_of_has s.cache tx h]

theorem v1_commit_remembers (s : V1.State) (tx : Bytes) (h : s.cache.size > 0) :
    (V1.commitOne s (tx, codeOK)).cache.has tx = true :=
  V1.commitOne_remembers s tx h

/-- the last transaction of a block, committed with code OK, is remembered and out of the pool
when `Update` returns (TTL purge and recheck only forget what they remove). -/
theorem v1_update_remembers_last_committed (cfg : V1.Cfg) (h0 : Int) (ops : List V1.Op)
    (h : Int) (block : List (Bytes × Nat)) (tx : Bytes) (pre post : Option Int)
    (rv : Bytes → Verdict) (expired : V1.WTx → Bool)
    (hs : (V1.run (V1.init cfg h0) ops).cache.size > 0) :
    let s' := V1.update (V1.run (V1.init cfg h0) ops) h (block ++ [(tx, codeOK)]) pre post rv expired
    s'.cache.has tx = true ∧ tx ∉ V1.keys s' := by
  have hi : V1.Inv (V1.run (V1.init cfg h0) ops) := (V1.run_spec ops (V1.inv_init cfg h0)).1
  generalize V1.run (V1.init cfg h0) ops = s at hi hs
  show (V1.update s h (block ++ [(tx, codeOK)]) pre post rv expired).cache.has tx = true ∧
    tx ∉ V1.keys (V1.update s h (block ++ [(tx, codeOK)]) pre post rv expired)
  refine ⟨?_, (V1.update_spec hi h _ pre post rv expired).2.2.2.2.1 (tx, codeOK) (by simp)⟩
  have hi0 : V1.Inv (V1.updHead s h pre post) := hi
  obtain ⟨a1, _, _, _, _, a6⟩ := V1.commitAll_spec (block ++ [(tx, codeOK)]) hi0
  have hnot := a6 (tx, codeOK) (by simp)
  have hhas : ((block ++ [(tx, codeOK)]).foldl V1.commitOne (V1.updHead s h pre post)).cache.has tx = true := by
    rw [List.foldl_append]
    simp only [List.foldl_cons, List.foldl_nil]
    apply V1.commitOne_remembers
    rw [V1.cache_size_commitAll]; exact hs
  obtain ⟨b1, _, _, _, b5, b6⟩ := V1.purge_spec a1 h expired
  have hhas2 := b6 tx hnot hhas
  have hnot2 : tx ∉ V1.keys (V1.purgeExpiredTxs ((block ++ [(tx, codeOK)]).foldl V1.commitOne
      (V1.updHead s h pre post)) h expired) := fun hk => hnot (b5 _ hk)
  rw [V1.update_eq]
  simp only
  split
  · split
    · exact (V1.recheck_spec b1 rv).2.2.2.2.2.2 tx hnot2 hhas2
    · exact hhas2
  · exact hhas2

example : (V1.run (V1.init exCfg1 0)
    [.check [1] { prio := 1 }]).cache.size > 0 := by decide

/-- the tx cache (LRU) is bounded independently of the pool (v1) -/
theorem v1_cache_bounded (cfg : V1.Cfg) (h : Int) (ops : List V1.Op) :
    let c := (V1.run (V1.init cfg h) ops).cache
    c.keys.Nodup ∧ (cfg.cacheSize ≤ 0 → c.keys = []) ∧
      (0 < cfg.cacheSize → (c.keys.length : Int) ≤ cfg.cacheSize) := by
  have := V1.cacheOK_run (n := cfg.cacheSize) ops (V1.init cfg h) (Cache.okn_new _)
  obtain ⟨hs, h1, h2, h3⟩ := this
  rw [hs] at h2 h3
  exact ⟨h1, h2, h3⟩

/-- `Flush` leaves pool, index, byte counter and cache empty (reachable states). -/
theorem v1_flush_empties (cfg : V1.Cfg) (h : Int) (ops : List V1.Op) :
    let s := V1.flush (V1.run (V1.init cfg h) ops)
    s.txs = [] ∧ s.byKey = [] ∧ s.txsBytes = 0 ∧ s.cache.keys = [] :=
  V1.flush_empties (V1.run_spec ops (V1.inv_init cfg h)).1

/-- **order_priority_then_arrival** (v1), with no assumption on the timestamps: the reap order
(`allEntriesSorted`) lists exactly the pool entries, each once; it is in non-increasing priority
and, within a priority, non-decreasing arrival timestamp; and entries that tie on both keep their
arrival (list) order — so the order is total and determined by the pool. Every state. -/
theorem v1_order_priority_then_arrival (s : V1.State) :
    (V1.allEntriesSorted s).Perm s.txs ∧
    (V1.allEntriesSorted s).Pairwise
      (fun x y => x.prio > y.prio ∨ (x.prio = y.prio ∧ x.seq ≤ y.seq)) ∧
    (∀ x y, [x, y].Sublist s.txs → x.prio = y.prio → x.seq = y.seq →
      [x, y].Sublist (V1.allEntriesSorted s)) := by
  refine ⟨V1.allEntriesSorted_perm s, V1.allEntriesSorted_sorted s, ?_⟩
  intro x y h hp hs
  apply V1.allEntriesSorted_stable s x y h
  rw [V1.reapBefore_false_iff]
  omega

/-- **reap_is_prefix_within_limits** (v1, `ReapMaxBytesMaxGas`): the first `k` entries of the reap
order, within the byte and gas limits, `k` maximal. Every state, all limits. -/
theorem v1_reap_is_prefix_within_limits (s : V1.State) (maxBytes maxGas : Int) :
    ∃ k, k ≤ (V1.allEntriesSorted s).length ∧
      V1.reapMaxBytesMaxGas s maxBytes maxGas = ((V1.allEntriesSorted s).take k).map (·.tx) ∧
      (maxBytes ≥ 0 → V1.protoSum ((V1.allEntriesSorted s).take k) ≤ maxBytes) ∧
      (maxGas ≥ 0 → V1.gasSum ((V1.allEntriesSorted s).take k) ≤ maxGas) ∧
      (∀ e, (V1.allEntriesSorted s)[k]? = some e →
        (maxBytes ≥ 0 ∧ V1.protoSum ((V1.allEntriesSorted s).take k) + protoSize e.tx.length > maxBytes) ∨
        (maxGas ≥ 0 ∧ V1.gasSum ((V1.allEntriesSorted s).take k) + e.gas > maxGas)) := by
  obtain ⟨k, hk, he, hb, hg, hm⟩ := V1.reapGo_spec maxBytes maxGas (V1.allEntriesSorted s) 0 0
    (by intro h; omega) (by intro h; omega)
  refine ⟨k, hk, he, ?_, ?_, ?_⟩
  · intro h; have := hb h; omega
  · intro h; have := hg h; omega
  · intro e hek
    rcases hm e hek with h | h
    · left; exact ⟨h.1, by omega⟩
    · right; exact ⟨h.1, by omega⟩

/-- **reap_is_prefix_within_limits** (v1, `ReapMaxTxs`). Every state. -/
theorem v1_reapMaxTxs_is_prefix_within_count (s : V1.State) (max : Int) :
    V1.reapMaxTxs s max = ((V1.allEntriesSorted s).take
      (if max < 0 then (V1.allEntriesSorted s).length else max.toNat)).map (·.tx) ∧
    (0 ≤ max → ((V1.reapMaxTxs s max).length : Int) ≤ max) := by
  have he : V1.reapMaxTxs s max = ((V1.allEntriesSorted s).take
      (if max < 0 then (V1.allEntriesSorted s).length else max.toNat)).map (·.tx) := by
    unfold V1.reapMaxTxs
    rw [V1.reapNGo_spec]
    simp
  refine ⟨he, ?_⟩
  intro h0
  rw [he]
  have : ¬ max < 0 := by omega
  simp only [this, if_false, List.length_map, List.length_take]
  omega

/-- **recheck_keeps_accepted_only** (v1). Reachable states, all verdicts. -/
theorem v1_recheck_keeps_accepted_only (cfg : V1.Cfg) (hr : cfg.recheck = true) (h0 : Int)
    (ops : List V1.Op) (h : Int) (block : List (Bytes × Nat)) (pre post : Option Int)
    (rv : Bytes → Verdict) (expired : V1.WTx → Bool) :
    let s := V1.run (V1.init cfg h0) ops
    ∀ k ∈ V1.keys (V1.update s h block pre post rv expired),
      accepted (newFilter post s.post) (rv k) = true := by
  obtain ⟨hi, hc, _⟩ := V1.run_spec ops (V1.inv_init cfg h0)
  have hc' : (V1.run (V1.init cfg h0) ops).cfg.recheck = true := by
    rw [hc]; exact hr
  exact (V1.update_spec hi h block pre post rv expired).2.2.2.2.2 hc'

/-- **evict_makes_room** (v1): in a reachable state of a valid configuration, when the arriving
transaction (size `need`, priority `p`) does not fit and the lower-priority entries are non-empty
and large enough, then after the eviction loop `canAddTx` holds. -/
theorem v1_evict_makes_room (cfg : V1.Cfg) (hv : V1.CfgValid cfg) (h0 : Int) (ops : List V1.Op)
    (need : Nat) (p : Int) :
    let s := V1.run (V1.init cfg h0) ops
    (s.txs.filter (fun cw => decide (cw.prio < p))).length ≠ 0 →
    ¬ V1.sizeOf (s.txs.filter (fun cw => decide (cw.prio < p))) < (need : Int) →
    V1.canAddTx (V1.evictLoop need s (V1.victimsOf s p) 0) need = true := by
  obtain ⟨hi, _, hb⟩ := V1.run_spec ops (V1.inv_init cfg h0)
  exact V1.evict_makes_room hi (hb (V1.bounded_init cfg h0 hv)) need p

/-- the premises are satisfiable: a full pool (size 2) of priorities 1 and 2, an arrival of one
byte with priority 5 does not fit, both entries are victims; after the loop one was evicted -/
example :
    let s := V1.run (V1.init exCfg1 0)
      [.check [1] { prio := 1 }, .check [2] { prio := 2 }]
    (s.txs.filter (fun cw => decide (cw.prio < 5))).length ≠ 0 ∧
    ¬ V1.sizeOf (s.txs.filter (fun cw => decide (cw.prio < 5))) < ((1 : Nat) : Int) ∧
    V1.canAddTx s 1 = false ∧
    V1.keys (V1.evictLoop 1 s (V1.victimsOf s 5) 0) = [[2]] := by decide

/-- **victims_lower_priority** (v1): whatever `CheckTx` removes from the pool had a strictly lower
priority than the one the application gave the arriving transaction; and nothing but the arriving
transaction is added. Reachable states. -/
theorem v1_victims_lower_priority (cfg : V1.Cfg) (h0 : Int) (ops : List V1.Op) (tx : Bytes)
    (v : Verdict) :
    let s := V1.run (V1.init cfg h0) ops
    (∀ e ∈ s.txs, e.tx ∉ V1.keys (V1.checkTx s tx v).1 → e.prio < v.prio) ∧
    (∀ k ∈ V1.keys (V1.checkTx s tx v).1, k ∈ V1.keys s ∨ k = tx) := by
  have hi := (V1.run_spec ops (V1.inv_init cfg h0)).1
  obtain ⟨_, _, _, h4, h5, _⟩ := V1.checkTx_spec hi tx v
  exact ⟨h5, h4⟩

/-- **ttl_purges_exactly_expired** (v1): `purgeExpiredTxs` (run by `Update` after the committed
transactions are removed) removes exactly the entries to which a TTL rule applies — older than
`TTLNumBlocks` blocks, or (`TTLDuration > 0`) reported expired by the clock predicate `expired`;
with `expired w := now − w.seq > TTLDuration` this is the code's rule. Reachable states; that the
other invariants survive is part of `v1_no_duplicates` … `v1_cache_bounded` (their histories
contain `Update` with every `expired`). -/
theorem v1_ttl_purges_exactly_expired (cfg : V1.Cfg) (h0 : Int) (ops : List V1.Op) (h : Int)
    (expired : V1.WTx → Bool) :
    let s := V1.run (V1.init cfg h0) ops
    ∀ w ∈ s.txs, (w.tx ∈ V1.keys (V1.purgeExpiredTxs s h expired) ↔
      ¬ ((s.cfg.ttlNumBlocks > 0 ∧ h - w.height > s.cfg.ttlNumBlocks) ∨
         (s.cfg.ttlDuration = true ∧ expired w = true))) :=
  V1.purge_exact (V1.run_spec ops (V1.inv_init cfg h0)).1 h expired

/-- an entry 3 blocks old with `TTLNumBlocks = 2` goes, a younger one stays -/
example :
    let s := V1.run (V1.init { exCfg1 with ttlNumBlocks := 2, size := 5 } 1)
      [.check [1] {}, .update 3 [] none none (fun _ => {}) (fun _ => false), .check [2] {}]
    V1.keys (V1.purgeExpiredTxs s 4 (fun _ => false)) = [[2]] := by decide

/-- the reap order is STRICT — higher priority first, then strictly earlier arrival — whenever the
arrival timestamps of the pooled entries are pairwise different … -/
theorem v1_order_strict_of_distinct_timestamps (cfg : V1.Cfg) (h : Int) (ops : List V1.Op) :
    let s := V1.run (V1.init cfg h) ops
    (s.txs.map (·.seq)).Nodup →
    (V1.allEntriesSorted s).Pairwise
      (fun x y => x.prio > y.prio ∨ (x.prio = y.prio ∧ x.seq < y.seq)) := by
  intro s hnd
  have hperm := V1.allEntriesSorted_perm (V1.run (V1.init cfg h) ops)
  have hnd' : ((V1.allEntriesSorted s).map (·.seq)).Nodup := ((hperm.map (·.seq)).nodup_iff).2 hnd
  have hne : (V1.allEntriesSorted s).Pairwise (fun x y => x.seq ≠ y.seq) := by
    have := List.pairwise_map.1 hnd'
    exact this
  exact ((V1.allEntriesSorted_sorted s).and hne).imp (fun {x y} hxy => by
    rcases hxy.1 with h1 | ⟨h1, h2⟩
    · exact Or.inl h1
    · exact Or.inr ⟨h1, by have := hxy.2; omega⟩)

/-- … and with equal timestamps the comparator alone does not order two entries (this was the
finding `v1.reap.order-undefined-on-equal-timestamps`, fixed by collecting in arrival order and
sorting stably: see the third clause of `v1_order_priority_then_arrival`). -/
theorem v1_comparator_not_total_on_equal_timestamps :
    ∃ a b : V1.WTx, a ≠ b ∧ a.prio = b.prio ∧ a.seq = b.seq ∧
      V1.reapBefore a b = false ∧ V1.reapBefore b a = false :=
  ⟨{ tx := [1], height := 0, seq := 5, gas := 0, prio := 1, sender := "" },
   { tx := [2], height := 0, seq := 5, gas := 0, prio := 1, sender := "" }, by decide, rfl, rfl,
   by decide, by decide⟩

/-- two entries with the same priority and timestamp are reaped in arrival order -/
example :
    let s : V1.State := { V1.init exCfg1 0 with txs :=
      [{ tx := [9], height := 0, seq := 5, gas := 0, prio := 1, sender := "" },
       { tx := [2], height := 0, seq := 5, gas := 0, prio := 1, sender := "" },
       { tx := [3], height := 0, seq := 1, gas := 0, prio := 7, sender := "" }] }
    (V1.allEntriesSorted s).map (·.tx) = [[3], [9], [2]] := by decide

/-- **senders_recorded** (v1, supporting). Every state. -/
theorem v1_senders_recorded (s : V1.State) (tx : Bytes) (v : Verdict) (peer : Nat) :
    ((V1.checkTxFrom s tx v peer).2 = .inCache ∨
      ((∃ me, (V1.checkTxFrom s tx v peer).2 = .ok me) ∧ accepted s.post v = true)) →
    ∀ e ∈ (V1.checkTxFrom s tx v peer).1.txs, e.tx = tx → peer ∈ e.peers := by
  unfold V1.checkTxFrom
  simp only
  split
  · intro _; exact V1.recordPeer_has _ tx peer
  · split
    · intro _; exact V1.recordPeer_has _ tx peer
    · rename_i hacc
      intro h
      rcases h with h | ⟨_, h⟩
      · simp_all
      · exact absurd h hacc
  · rename_i h1 h2
    intro h
    rcases h with h | ⟨⟨me, h⟩, _⟩
    · exact absurd h h1
    · exact absurd h (h2 me)

/-- a transaction the application (or the post-check) rejects never changes the pool contents -/
theorem v1_rejected_not_admitted (cfg : V1.Cfg) (h0 : Int) (ops : List V1.Op) (tx : Bytes)
    (v : Verdict) :
    let s := V1.run (V1.init cfg h0) ops
    accepted s.post v = false → V1.keys (V1.checkTx s tx v).1 = V1.keys s :=
  (V1.checkTx_spec (V1.run_spec ops (V1.inv_init cfg h0)).1 tx v).2.2.2.2.2

/-! ## v1 with `CheckTx` split into its two halves (calls in flight across other steps)

`V1.SState`: v1's `CheckTx` calls the application between its read-locked first phase and the
write-locked `addNewTransaction`, holding no pool lock; `sbegin` / `sfinish i v` are the halves, any
number of calls may be in flight, and `Update` may run in between. Histories: any interleaving. -/

/-- the state invariants (uniqueness, index, byte counter, limits) survive every such history -/
theorem v1_split_invariants (cfg : V1.Cfg) (hv : V1.CfgValid cfg) (h : Int) (ops : List V1.SOp) :
    let s := (V1.srun (V1.sinit cfg h) ops).s
    (V1.keys s).Nodup ∧ s.byKey.Perm (V1.keys s) ∧ s.txsBytes = bytesOf (V1.keys s) ∧
    (s.txs.length : Int) ≤ cfg.size ∧ s.txsBytes ≤ cfg.maxTxsBytes := by
  obtain ⟨hi, hc, hb⟩ := V1.srun_spec ops (a := V1.sinit cfg h) (V1.inv_init cfg h)
  have hb := hb (V1.bounded_init cfg h hv)
  unfold V1.Bounded at hb
  have hc' : (V1.srun (V1.sinit cfg h) ops).s.cfg = cfg := hc
  rw [hc', V1.keys_length] at hb
  exact ⟨hi.nodup, hi.map, hi.bytes, hb.1, hb.2⟩

/-- … but "a committed transaction is not re-admitted while remembered" FAILS for a call in flight
across the commit: the call passed the cache check before the block was committed, `Update` finds
nothing to remove, and `addNewTransaction` then inserts the committed transaction although the cache
remembers it (known finding `v1.inflight-check-readmits-committed-tx`, replayed on the real pool by
holding the call at the application). -/
theorem v1_split_committed_readmitted_fails :
    let a := V1.srun (V1.sinit exCfg1 1)
      [.begin [1] 0, .update 2 [([1], 0)] none none (fun _ => {}) (fun _ => false), .finish 0 {}]
    [1] ∈ V1.keys a.s ∧ a.s.cache.has [1] = true := by decide

/-- without a call in flight across the commit the clause holds: `v1_no_readmit_while_cached`,
`v1_update_remembers_last_committed` (there `CheckTx` is one step). -/
example : (V1.srun (V1.sinit exCfg1 1)
    [.begin [1] 0, .finish 0 {}, .update 2 [([1], 0)] none none (fun _ => {}) (fun _ => false),
     .begin [1] 0]).s.txs = [] := by decide

/-! ## The byte counter with an explicit key function

`MempoolV0/V1.lean` identify a transaction with its key. `Keyed` keeps the key function
(`TxKey = sha256(tx)`) explicit for what the counter depends on (pooled txs, key index, counter):
admissions behind the in-pool guard, removals by key as v0 `Update → removeTx(tx, …)` (counter
reduced by the length of the ARGUMENT) and as v1 `removeTxByKey` (by the size of the ELEMENT). -/

/-- v1: `SizeBytes` is exactly the total size of the pooled transactions for EVERY key function
(even a colliding one): the element's own size is subtracted. -/
theorem keyed_v1_bytes_exact (key : Bytes → Bytes) (ops : List Keyed.Op) :
    (Keyed.runV1 key Keyed.empty ops).bytes = bytesOf (Keyed.runV1 key Keyed.empty ops).entries :=
  Keyed.v1_run_exact key (ops.map Keyed.Op.tx) ops Keyed.empty (Keyed.inv_empty key _) rfl
    (fun o ho => List.mem_map_of_mem (f := Keyed.Op.tx) ho)

/-- v0: `SizeBytes` is exactly the total size of the pooled transactions, OR two different
transactions that occur in the history have the same key (an explicit collision of the key
function among the submitted / committed transactions). Every key function, every history. -/
theorem keyed_v0_bytes_exact_or_collision (key : Bytes → Bytes) (ops : List Keyed.Op) :
    (Keyed.runV0 key Keyed.empty ops).bytes = bytesOf (Keyed.runV0 key Keyed.empty ops).entries ∨
    ∃ x ∈ ops.map Keyed.Op.tx, ∃ y ∈ ops.map Keyed.Op.tx, x ≠ y ∧ key x = key y :=
  Keyed.v0_run_exact_or_collision key (ops.map Keyed.Op.tx) ops Keyed.empty (Keyed.inv_empty key _)
    (Or.inl rfl) (fun o ho => List.mem_map_of_mem (f := Keyed.Op.tx) ho)

/-- the collision alternative is needed for v0: with a colliding key function, committing a
3-byte transaction removes the pooled 2-byte one and the counter goes to −1 for an empty pool -/
theorem keyed_v0_bytes_wrong_on_collision :
    (Keyed.runV0 (fun _ => []) Keyed.empty [.add [1, 2], .remove [7, 8, 9]]).entries = [] ∧
    (Keyed.runV0 (fun _ => []) Keyed.empty [.add [1, 2], .remove [7, 8, 9]]).bytes = -1 := by
  decide

/-- `MempoolV0`'s `addTx` / `removeTx` are the keyed operations for the identity key -/
theorem keyed_refines_v0 (s : V0.State) (tx : Bytes) (b : Bool) (h : tx ∈ s.txsMap) :
    let a : Keyed.Acc := { entries := V0.keys s, index := s.txsMap, bytes := s.txsBytes }
    (Keyed.removeV0 id a tx).entries = V0.keys (V0.removeTx s tx b) ∧
    (Keyed.removeV0 id a tx).index = (V0.removeTx s tx b).txsMap ∧
    (Keyed.removeV0 id a tx).bytes = (V0.removeTx s tx b).txsBytes := by
  simp only [Keyed.removeV0, id, h, if_true]
  refine ⟨?_, rfl, rfl⟩
  rw [V0.keys_removeTx]
  have := map_eraseP_key (fun e : Bytes => e) tx (V0.keys s)
  simpa using this

/-! ### All key-dependent clauses with an explicit key function (`Keyed.KPool`)

`KPool` = accounting core + LRU cache (of KEYS) + senders per key; whatever the pools decide
without looking at keys is an arbitrary input of the operations. So the following hold for EVERY
key function, and where the identification of a tx with its key mattered the alternative is an
explicit collision between two transactions of the history (`ops.map KOp.tx`). -/

/-- no_duplicates / index_consistent: the pooled transactions have pairwise different KEYS (hence
are pairwise different) and the index holds exactly those keys — no collision alternative needed -/
theorem keyed_no_duplicates (key : Bytes → Bytes) (n : Int) (ops : List Keyed.KOp) :
    let p := Keyed.krunV0 key (Keyed.kempty n) ops
    (p.acc.entries.map key).Nodup ∧ p.acc.entries.Nodup ∧ p.acc.index.Perm (p.acc.entries.map key) := by
  obtain ⟨hi, _⟩ := Keyed.krunV0_spec key (ops.map Keyed.KOp.tx) ops (Keyed.kempty n)
    (Keyed.inv_empty key _) (Or.inl rfl) (fun o ho => List.mem_map_of_mem (f := Keyed.KOp.tx) ho)
  exact ⟨hi.nodup, Keyed.nodup_of_map_nodup key _ hi.nodup, hi.index⟩

/-- count_bytes (the counter): exact, or a traced collision (v0); exact (v1) -/
theorem keyed_pool_v0_bytes_exact_or_collision (key : Bytes → Bytes) (n : Int) (ops : List Keyed.KOp) :
    let p := Keyed.krunV0 key (Keyed.kempty n) ops
    p.acc.bytes = bytesOf p.acc.entries ∨
    ∃ x ∈ ops.map Keyed.KOp.tx, ∃ y ∈ ops.map Keyed.KOp.tx, x ≠ y ∧ key x = key y :=
  (Keyed.krunV0_spec key (ops.map Keyed.KOp.tx) ops (Keyed.kempty n)
    (Keyed.inv_empty key _) (Or.inl rfl) (fun o ho => List.mem_map_of_mem (f := Keyed.KOp.tx) ho)).2

theorem keyed_pool_v1_bytes_exact (key : Bytes → Bytes) (n : Int) (ops : List Keyed.KOp) :
    let p := Keyed.krunV1 key (Keyed.kempty n) ops
    p.acc.bytes = bytesOf p.acc.entries :=
  (Keyed.krunV1_spec key (ops.map Keyed.KOp.tx) ops (Keyed.kempty n)
    (Keyed.inv_empty key _) rfl (fun o ho => List.mem_map_of_mem (f := Keyed.KOp.tx) ho)).2

/-- committed_removed: after the `Update` iteration for `tx` no pooled transaction has `tx`'s key
— in particular `tx` itself is gone (v0 and v1 accounting alike) -/
theorem keyed_committed_removed (key : Bytes → Bytes) (n : Int) (ops : List Keyed.KOp)
    (tx : Bytes) (ok keep : Bool) :
    (∀ e ∈ (Keyed.kcommitV0 key (Keyed.krunV0 key (Keyed.kempty n) ops) tx ok keep).acc.entries,
      key e ≠ key tx) ∧
    tx ∉ (Keyed.kcommitV0 key (Keyed.krunV0 key (Keyed.kempty n) ops) tx ok keep).acc.entries := by
  obtain ⟨hi, _⟩ := Keyed.krunV0_spec key (ops.map Keyed.KOp.tx) ops (Keyed.kempty n)
    (Keyed.inv_empty key _) (Or.inl rfl) (fun o ho => List.mem_map_of_mem (f := Keyed.KOp.tx) ho)
  have h := Keyed.removeV0_no_key key hi tx
  exact ⟨h, fun hm => h tx hm rfl⟩

/-- no_readmit_while_cached: while the cache holds `tx`'s KEY, a submission of `tx` leaves the
pooled transactions, the index and the counter as they are (every state) -/
theorem keyed_no_readmit_while_cached (key : Bytes → Bytes) (p : Keyed.KPool) (tx : Bytes)
    (peer : Nat) (adm rm : Bool) (h : p.cache.has (key tx) = true) :
    (Keyed.kcheck key p tx peer adm rm).acc = p.acc :=
  Keyed.kcheck_cached key p tx peer adm rm h

/-- senders_recorded: after a submission that was a cache hit or was admitted, `peer` is recorded
under `tx`'s key whenever the index holds that key; and the entry it is recorded on is `tx` itself
unless two different transactions of the history share a key -/
theorem keyed_senders_recorded (key : Bytes → Bytes) (n : Int) (ops : List Keyed.KOp)
    (tx : Bytes) (peer : Nat) (adm rm : Bool) :
    let p := Keyed.krunV0 key (Keyed.kempty n) ops
    let p' := Keyed.kcheck key p tx peer adm rm
    ((p.cache.push (key tx)).2 = false ∨ adm = true) → key tx ∈ p'.acc.index →
    peer ∈ Keyed.sendersOf p' (key tx) ∧
    (tx ∈ p'.acc.entries ∨
      ∃ x ∈ (ops ++ [Keyed.KOp.check tx peer adm rm]).map Keyed.KOp.tx,
      ∃ y ∈ (ops ++ [Keyed.KOp.check tx peer adm rm]).map Keyed.KOp.tx, x ≠ y ∧ key x = key y) := by
  intro p p' hadm hk
  refine ⟨Keyed.kcheck_records key p tx peer adm rm hadm hk, ?_⟩
  have hrun := Keyed.krunV0_spec key ((ops ++ [Keyed.KOp.check tx peer adm rm]).map Keyed.KOp.tx)
    (ops ++ [Keyed.KOp.check tx peer adm rm]) (Keyed.kempty n) (Keyed.inv_empty key _) (Or.inl rfl)
    (fun o ho => List.mem_map_of_mem (f := Keyed.KOp.tx) ho)
  have hp' : Keyed.krunV0 key (Keyed.kempty n) (ops ++ [Keyed.KOp.check tx peer adm rm]) = p' := by
    simp [Keyed.krunV0, List.foldl_append, Keyed.kstepV0, p', p]
  rw [hp'] at hrun
  exact Keyed.entry_is_tx_or_collision key hrun.1 tx (by simp [Keyed.KOp.tx]) hk

/-- with a colliding key function the sender of one transaction IS recorded on another -/
example :
    (Keyed.kcheck (fun _ => []) (Keyed.kcheck (fun _ => []) (Keyed.kempty 0) [1] 7 true false)
      [2] 9 true false).acc.entries = [[1]] ∧
    Keyed.sendersOf (Keyed.kcheck (fun _ => []) (Keyed.kcheck (fun _ => []) (Keyed.kempty 0) [1] 7 true false)
      [2] 9 true false) [] = [7, 9] := by decide

end Tmv.Props.C12
