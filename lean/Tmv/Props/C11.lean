import Tmv.Lemmas.EvidenceInv
import Tmv.Lemmas.EvidenceLCA
/-! C11 — Evidence is admitted exactly when valid, fresh and new, and is used once.

Theorems about the model `Tmv/Model/Evidence.lean` (= /repo evidence/pool.go, evidence/verify.go after
the two `fix:` commits listed in known-findings.json), for every context `c` (chain, evidence
parameters, hash / size / signature / light-client-attack-verdict functions) and every state
`Reach`able from a new pool by ANY sequence of grow / add / check / update / report / restart
operations (in which consensus reports only genuine vote pairs, `GoodOp`). `MonoTime` = block
times do not decrease with the height. -/
namespace Tmv.Props.C11
open Tmv.Evidence

variable (c : Ctx)

/-! ## admit_iff -/

/-- `verify` succeeds exactly when the evidence proves the misbehaviour it claims against the
validator set and the block time of its height (`Proves`; for duplicate votes: `DVProves`, clause by
clause) and has not expired by BOTH age limits. -/
theorem verify_iff (storeH : Int) (st : State) (e : Ev) :
    verify c storeH st e = .ok () ↔ (Proves c storeH e ∧ expired st e.height e.time = false) :=
  verify_ok_iff c storeH st e

/-- expiry needs both limits exceeded -/
theorem expired_iff (st : State) (h t : Int) :
    expired st h t = true ↔ (st.height - h > st.maxAgeBlocks ∧ st.time - t > st.maxAgeDur) := by
  simp [expired]

/-! ### light-client-attack evidence: `VerifyLightClientAttack`, `validateABCIEvidence`,
`GetByzantineValidators`, `ConflictingHeaderIsInvalid` (commit checks = C07's model) -/

/-- `VerifyLightClientAttack(ev, common header, trusted header at th, common validators)` accepts
exactly when the evidence shows an attack against the node's own chain (`LCAAttack`): for a lunatic
jump, one light-client step from the common validators (C07 `verifyCommitLightTrusting` at 1/3), for
the same height a correctly derived header; +2/3 of the conflicting set signed (C07
`verifyCommitLight`, so C07's `light_sound` / `trusting_sound` apply to these conjuncts); the total
power is the common set's; the block conflicts (other hash, not just a later block); and the listed
byzantine validators are, in order, those `GetByzantineValidators` derives. -/
theorem lca_admitted_iff (l : LCA) (th : Int) :
    lcaOK c l th = true ↔
      ∃ cb tb, blockAt c l.common = some cb ∧ blockAt c th = some tb ∧ LCAAttack c l cb.vals th tb :=
  lcaOK_iff c l th

/-- ... and with the stores' availability conditions: what `Proves` (hence `add_admits_iff`,
`pending_sound`, `check_admits_only`, `check_passes_if`) means for light-client-attack evidence. -/
theorem proves_lca_iff (storeH : Int) (l : LCA) :
    Proves c storeH (.lca l) ↔
      (metaTime c storeH l.common = some l.time ∧
       (signedHeader c storeH l.common).isSome ∧ (loadVals c storeH l.common).isSome ∧
       ((l.common ≠ l.cfh ∧ (signedHeader c storeH l.cfh).isSome) ∨ l.common = l.cfh) ∧
       ∃ cb tb, blockAt c l.common = some cb ∧ blockAt c l.cfh = some tb ∧ LCAAttack c l cb.vals l.cfh tb) := by
  unfold Proves LCAProves
  simp only [Ev.height, Ev.time]
  rw [lcaOK_iff]

/-- lunatic attack (the conflicting header is not derived from the trusted state): the byzantine
validators are exactly the members of the COMMON validator set with a for-block slot in the
conflicting commit, ordered by power -/
theorem lca_byzantine_lunatic (l : LCA) (cv : List Validator) (t : Block) (vs : List Validator)
    (h : getByz l cv t = some vs) (hi : headerInvalid l t = true) (v : Validator) :
    v ∈ vs ↔ ∃ s ∈ l.sigs, s.flag = CommitVerify.flagCommit ∧ findVal cv s.addr = some v := by
  rw [(getByz_classification l cv t vs h).1 hi, mem_sortByPower, mem_lunaticSigners]

/-- equivocation (derived header, same round): every byzantine validator is a member of the
conflicting set named by a slot present in the conflicting commit whose position is also present in
the trusted commit -/
theorem lca_byzantine_equivocation (l : LCA) (cv : List Validator) (t : Block) (vs : List Validator)
    (h : getByz l cv t = some vs) (hi : headerInvalid l t = false) (hr : t.round = l.round)
    (v : Validator) (hv : v ∈ vs) :
    ∃ (i : Nat) (s : CSig), l.sigs[i]? = some s ∧ s.flag ≠ CommitVerify.flagAbsent ∧
      (∃ f : Nat, t.flags[i]? = some f ∧ f ≠ CommitVerify.flagAbsent) ∧ findVal l.cvals s.addr = some v := by
  obtain ⟨r, h1, h2⟩ := (getByz_classification l cv t vs h).2.1 hi hr
  rw [h2, mem_sortByPower] at hv
  exact mem_equivocators l l.sigs t.flags r h1 v hv

/-- amnesia (derived header, another round): nobody is named -/
theorem lca_byzantine_amnesia (l : LCA) (cv : List Validator) (t : Block) (vs : List Validator)
    (h : getByz l cv t = some vs) (hi : headerInvalid l t = false) (hr : t.round ≠ l.round) : vs = [] :=
  (getByz_classification l cv t vs h).2.2 hi hr

/-- Observation (not a violation of the only-if statement): light-client-attack evidence whose
conflicting block is at or above the node's latest block — the "forward lunatic" case `verify` has
a branch for — can never verify: that branch asks the block store for the commit of its LATEST
height, which exists only once the next block is saved (`signedHeader_latest`). -/
theorem forward_lunatic_unverifiable (storeH : Int) (l : LCA) (h1 : l.common ≠ l.cfh)
    (h2 : storeH ≤ l.cfh) : verifyLCA c storeH l ≠ .ok () := by
  intro h
  obtain ⟨_, _, h3, _⟩ := (verifyLCA_ok_iff c storeH l).1 h
  rcases h3 with ⟨_, h4⟩ | h4
  · unfold signedHeader at h4
    rw [if_neg (by omega)] at h4
    simp at h4
  · exact h1 h4

/-- AddEvidence: an item that is not pending becomes pending exactly when it is not committed,
proves its claim and has not expired. -/
theorem add_admits_iff (s : Sys) (e : Ev) (hd : s.dead = false) (hp : isPending c s.pool e = false) :
    isPending c (step c s (.add e)).1.pool e = true ↔
      (isCommitted c s.pool e = false ∧ Proves c s.storeH e ∧
        expired s.pool.state e.height e.time = false) := by
  simp only [step, hd, stepLive, addEvidence, hp, Bool.false_eq_true, ↓reduceIte]
  cases hc : isCommitted c s.pool e
  · simp only [Bool.false_eq_true, ↓reduceIte, true_and]
    rw [← verify_ok_iff]
    cases hv : verify c s.storeH s.pool.state e with
    | error x => simp [hp]
    | ok u => simp [isPending_addPending_self]
  · simp [hp]

/-- AddEvidence changes nothing but (possibly) that one pending entry: the committed set, the state
and the buffer stay. -/
theorem add_only_adds (s : Sys) (e : Ev) (x : Ev) (hx : x ∈ (step c s (.add e)).1.pool.pending) :
    x = e ∨ x ∈ s.pool.pending := by
  unfold step at hx
  cases hd : s.dead <;> simp only [hd] at hx
  · simp only [stepLive, addEvidence] at hx
    split at hx
    · exact Or.inr hx
    · split at hx
      · exact Or.inr hx
      · split at hx
        · exact Or.inr hx
        · exact mem_of_mem_setPending c hx
  · exact Or.inr hx

/-- At every reachable state of a live pool, EVERY pending item proves its claim against the
validator set and block time of its height, has not expired by both limits (under the pool's
current state), and is not committed — however it got there (AddEvidence, CheckEvidence of a
block, the consensus buffer, a restart). -/
theorem pending_sound (hm : MonoTime c) {s : Sys} (hr : Reach c s) (hd : s.dead = false)
    (hsmall : s.pool.pending.length < 4294967296) :
    ∀ e ∈ s.pool.pending, Proves c s.storeH e ∧ expired s.pool.state e.height e.time = false ∧
      isCommitted c s.pool e = false := by
  intro e he
  have hi := reach_inv c hm hr
  refine ⟨hi.pool.proven e he, hi.fresh hd hsmall e he, ?_⟩
  cases h : isCommitted c s.pool e
  · rfl
  · exact absurd ((isCommitted_iff c s.pool e).1 h) (hi.pool.disj e he)

/-- CheckEvidence (a block's evidence list) passes only if every item is not committed and —
unless another pending item has the same key (a hash collision) — proves its claim and has not
expired. -/
theorem check_admits_only (hm : MonoTime c) {s : Sys} (hr : Reach c s) (hd : s.dead = false)
    (hsmall : s.pool.pending.length < 4294967296) (l : List Ev)
    (hok : (step c s (.check l)).2 = .ok) :
    ∀ e ∈ l, isCommitted c s.pool e = false ∧
      ((Proves c s.storeH e ∧ expired s.pool.state e.height e.time = false) ∨
        ∃ x, x ≠ e ∧ key c x = key c e) := by
  have hi := reach_inv c hm hr
  simp only [step, hd, stepLive, checkEvidence] at hok
  intro e he
  obtain ⟨h1, h2⟩ := checkLoop_sound c l s.pool [] hi.pool hok e he
  refine ⟨?_, ?_⟩
  · cases h : isCommitted c s.pool e
    · rfl
    · exact absurd ((isCommitted_iff c s.pool e).1 h) h1
  · rcases h2 with ⟨h3, h4⟩ | h3
    · exact Or.inl ⟨h3, h4 (hi.fresh hd hsmall)⟩
    · exact Or.inr h3

/-- ... and it DOES pass when the list has no repeated hash and every item is either an already
pending (hence already verified) duplicate-vote evidence, or uncommitted, proven and unexpired:
together with `check_admits_only` and `check_no_duplicates`, CheckEvidence accepts exactly the
valid, fresh, new lists. -/
theorem check_passes_if (hm : MonoTime c) {s : Sys} (hr : Reach c s) (hd : s.dead = false) (l : List Ev)
    (hall : ∀ e ∈ l, (e.isLCA = false ∧ isPending c s.pool e = true) ∨
      (isCommitted c s.pool e = false ∧ Proves c s.storeH e ∧
        expired s.pool.state e.height e.time = false))
    (hnd : (l.map c.H).Nodup) : (step c s (.check l)).2 = .ok := by
  have hi := reach_inv c hm hr
  simp only [step, hd, stepLive, checkEvidence]
  apply checkLoop_complete c l s.pool [] hi.pool _ hnd (by simp)
  intro e he
  rcases hall e he with h | ⟨h1, h2, h3⟩
  · exact Or.inl h
  · exact Or.inr ⟨h1, (verify_ok_iff c _ _ _).2 ⟨h2, h3⟩⟩

/-! ## never_twice -/

/-- no evidence (hash) appears twice in a list that passes the check -/
theorem check_no_duplicates (s : Sys) (l : List Ev) (hok : (step c s (.check l)).2 = .ok) :
    (l.map c.H).Nodup := by
  unfold step at hok
  cases hd : s.dead <;> simp only [hd] at hok
  · simp only [stepLive, checkEvidence] at hok
    exact (checkLoop_nodup c l s.pool [] hok).1
  · cases hok

/-- a committed item never passes a check again -/
theorem committed_fails_check (hm : MonoTime c) {s : Sys} (hr : Reach c s) (l : List Ev) (e : Ev)
    (he : e ∈ l) (hc : isCommitted c s.pool e = true) : (step c s (.check l)).2 ≠ .ok := by
  intro hok
  have hi := reach_inv c hm hr
  unfold step at hok
  cases hd : s.dead <;> simp only [hd] at hok
  · simp only [stepLive, checkEvidence] at hok
    have := (checkLoop_sound c l s.pool [] hi.pool hok e he).1
    exact this ((isCommitted_iff c s.pool e).1 hc)
  · cases hok

/-- a committed item is never admitted again by AddEvidence, and is never pending -/
theorem committed_not_pending (hm : MonoTime c) {s : Sys} (hr : Reach c s) (e : Ev)
    (hc : isCommitted c s.pool e = true) :
    isPending c s.pool e = false ∧ isPending c (step c s (.add e)).1.pool e = false := by
  have hnp : ∀ {s : Sys}, Reach c s → isCommitted c s.pool e = true → isPending c s.pool e = false := by
    intro s hr hc
    have hi := reach_inv c hm hr
    rw [isPending_false_iff]
    intro x hx hk
    have := hi.pool.disj x hx
    rw [hk] at this
    exact this ((isCommitted_iff c s.pool e).1 hc)
  refine ⟨hnp hr hc, ?_⟩
  apply hnp (Reach.step (.add e) hr trivial)
  -- AddEvidence does not change the committed set
  unfold step
  cases hd : s.dead <;> simp only
  · simp only [stepLive]
    have := (addEvidence_keeps c (storeH := s.storeH) e (reach_inv c hm hr).pool).committed
    simp only [isCommitted] at hc ⊢
    rw [this]; exact hc
  · exact hc

theorem listLoop_sub (m : Int) (l : List Ev) :
    ∀ acc total, ∀ x ∈ (listLoop c m l acc total).1, x ∈ acc ∨ x ∈ l := by
  induction l with
  | nil => intro acc total x hx; simp [listLoop] at hx; exact Or.inl hx
  | cons e rest ih =>
    intro acc total x hx
    unfold listLoop at hx
    simp only at hx
    split at hx
    · simp at hx; exact Or.inl hx
    · rcases ih _ _ x hx with h | h
      · simp at h
        rcases h with h | h
        · exact Or.inr (by simp [h])
        · exact Or.inl h
      · exact Or.inr (by simp [h])

/-- PendingEvidence (what a proposer puts in a block) returns pending items only, never a committed
one -/
theorem proposed_not_committed (hm : MonoTime c) {s : Sys} (hr : Reach c s) (m : Int) :
    ∀ e ∈ (pendingEvidence c s.pool m).1, e ∈ s.pool.pending ∧ isCommitted c s.pool e = false := by
  intro e he
  have hi := reach_inv c hm hr
  have hmem : e ∈ s.pool.pending := by
    unfold pendingEvidence at he
    split at he
    · simp at he
    · rcases listLoop_sub c m _ _ _ e he with h | h
      · simp at h
      · exact h
  refine ⟨hmem, ?_⟩
  cases h : isCommitted c s.pool e
  · rfl
  · exact absurd ((isCommitted_iff c s.pool e).1 h) (hi.pool.disj e hmem)

/-- committed markers are never removed, by any operation (restarts included) -/
theorem committed_forever (hm : MonoTime c) {s : Sys} (hr : Reach c s) (o : Op) (k : Key)
    (hk : k ∈ s.pool.committed) : k ∈ (step c s o).1.pool.committed := by
  have hi := reach_inv c hm hr
  unfold step
  cases hd : s.dead <;> cases o <;> simp only [stepLive] <;> try exact hk
  all_goals first
    | (split <;> exact hk)
    | (rw [(addEvidence_keeps c _ hi.pool).committed]; exact hk)
    | (unfold checkEvidence; rw [(checkLoop_keeps c _ s.pool [] hi.pool).committed]; exact hk)
    | (split
       · rename_i hh; exact (update_spec c hm hh _ hi.pool).2.2.1 k hk
       · exact hk)
    | (rw [(newPool_spec c hm (stateAt c s.stateH) hi.pool).2.2.2.1]; exact hk)

/-- the evidence of a committed block is marked committed -/
theorem update_marks_committed (hm : MonoTime c) {s : Sys} (hr : Reach c s) (hd : s.dead = false)
    (h : Int) (evs : List Ev) (hok : (step c s (.update h evs)).2 = .ok) (hh : h ≤ s.storeH) :
    ∀ e ∈ evs, isCommitted c (step c s (.update h evs)).1.pool e = true ∧
      isPending c (step c s (.update h evs)).1.pool e = false := by
  have hi := reach_inv c hm hr
  have hr' : Reach c (step c s (.update h evs)).1 := Reach.step _ hr trivial
  have hi' := reach_inv c hm hr'
  intro e he
  have hcm : isCommitted c (step c s (.update h evs)).1.pool e = true := by
    simp only [step, hd, stepLive, hh, ↓reduceIte] at hok ⊢
    have h5 := (update_spec c hm hh evs hi.pool).2.2.2.2 hok
    exact (isCommitted_iff c _ e).2 (h5.marked e he)
  refine ⟨hcm, ?_⟩
  rw [isPending_false_iff]
  intro x hx hk
  have := hi'.pool.disj x hx
  rw [hk] at this
  exact this ((isCommitted_iff c _ e).1 hcm)

/-- USED ONCE: once evidence is in a committed block, then after ANY further operations it is
still marked committed, so (by `committed_fails_check`, `committed_not_pending`,
`proposed_not_committed`) no later block containing it passes the check and it is never pending
or proposed again. -/
theorem used_once (hm : MonoTime c) {s : Sys} (hr : Reach c s) (e : Ev)
    (hc : isCommitted c s.pool e = true) (ops : List Op) (hg : ∀ o ∈ ops, GoodOp c o) :
    Reach c (run c s ops) ∧ isCommitted c (run c s ops).pool e = true ∧
      isPending c (run c s ops).pool e = false ∧
      (∀ l, e ∈ l → (step c (run c s ops) (.check l)).2 ≠ .ok) ∧
      (∀ m, e ∉ (pendingEvidence c (run c s ops).pool m).1) := by
  induction ops generalizing s with
  | nil =>
    simp only [run]
    refine ⟨hr, hc, (committed_not_pending c hm hr e hc).1, fun l he => committed_fails_check c hm hr l e he hc, ?_⟩
    intro m hmem
    have := (proposed_not_committed c hm hr m e hmem).2
    rw [hc] at this; cases this
  | cons o rest ih =>
    simp only [run]
    apply ih (Reach.step o hr (hg o (by simp)))
    · exact (isCommitted_iff c _ e).2 (committed_forever c hm hr o _ ((isCommitted_iff c _ e).1 hc))
    · intro o' ho'; exact hg o' (by simp [ho'])

/-! ## buffer_to_pending -/

/-- ReportConflictingVotes only buffers the pair -/
theorem report_buffers (s : Sys) (v1 v2 : Vote) (hd : s.dead = false) :
    (v1, v2) ∈ (step c s (.report v1 v2)).1.pool.buffer ∧
    (step c s (.report v1 v2)).1.pool.pending = s.pool.pending := by
  simp [step, hd, stepLive, report]

/-- Conflicting votes seen by consensus become pending evidence at the next successful Update whose
height has reached the votes' height: the evidence formed with THAT height's block time and
validator set (`newDVE v1 v2 b.time b.vals`) is pending afterwards — unless the same evidence is
already committed, or it has already expired under the new state. -/
theorem buffer_to_pending (hm : MonoTime c) {s : Sys} (hr : Reach c s) (hd : s.dead = false)
    (h : Int) (evs : List Ev) (hh : h ≤ s.storeH) (hok : (step c s (.update h evs)).2 = .ok)
    (v1 v2 : Vote) (hb : (v1, v2) ∈ s.pool.buffer) (b : Block) (hblk : blockAt c v1.height = some b)
    (hle : v1.height ≤ h) (d : DV) (hform : newDVE v1 v2 b.time b.vals = some d) :
    d.time = b.time ∧
    (isPending c (step c s (.update h evs)).1.pool (.dv d) = true ∨
      isCommitted c (step c s (.update h evs)).1.pool (.dv d) = true ∨
      expired (stateAt c h) (Ev.dv d).height (Ev.dv d).time = true) ∧
    (step c s (.update h evs)).1.pool.buffer = [] := by
  have hi := reach_inv c hm hr
  simp only [step, hd, stepLive, hh, ↓reduceIte] at hok ⊢
  have h5 := (update_spec c hm hh evs hi.pool).2.2.2.2 hok
  refine ⟨(newDVE_height hform).1, ?_, h5.buffer⟩
  have hf : formEvidence c s.storeH (stateAt c h) v1 v2 = some (some d) := by
    rw [formEvidence_of_block c hh hblk hle, hform]
  rcases h5.flushed (v1, v2) hb d hf with h6 | h6 | h6
  · exact Or.inl h6
  · exact Or.inr (Or.inl ((isCommitted_iff c _ _).2 h6))
  · exact Or.inr (Or.inr h6)

/-! ## pending_survives (restarts included) -/

/-- Whatever the operation (a restart = new pool on the same DB included), a pending item is still
pending afterwards unless it is now committed or has expired under the pool's new state. -/
theorem pending_survives (hm : MonoTime c) {s : Sys} (hr : Reach c s) (o : Op) :
    ∀ x ∈ s.pool.pending, x ∈ (step c s o).1.pool.pending ∨
      isCommitted c (step c s o).1.pool x = true ∨
      expired (step c s o).1.pool.state x.height x.time = true := by
  have hi := reach_inv c hm hr
  intro x hx
  have hlive : x ∈ (stepLive c s o).1.pool.pending ∨ isCommitted c (stepLive c s o).1.pool x = true ∨
      expired (stepLive c s o).1.pool.state x.height x.time = true := by
    cases o with
    | grow h => simp only [stepLive]; split <;> exact Or.inl hx
    | add e => simp only [stepLive]; exact Or.inl ((addEvidence_keeps c e hi.pool).mem x hx)
    | check l => simp only [stepLive]; exact Or.inl ((checkLoop_keeps c l s.pool [] hi.pool).mem x hx)
    | report v1 v2 => simp only [stepLive]; exact Or.inl hx
    | restart =>
      simp only [stepLive]
      obtain ⟨_, _, h3, _, _, _, h7⟩ := newPool_spec c hm (stateAt c s.stateH) hi.pool
      rcases h7 x hx with h | h
      · exact Or.inl h
      · exact Or.inr (Or.inr (by rw [h3]; exact h))
    | saveBlock h => simp only [stepLive]; split <;> exact Or.inl hx
    | saveState h => simp only [stepLive]; split <;> exact Or.inl hx
    | replay => simp only [stepLive]; split <;> exact Or.inl hx
    | update h evs =>
      simp only [stepLive]
      split
      · rename_i hh
        obtain ⟨_, _, _, h4, h5⟩ := update_spec c hm hh evs hi.pool
        rcases h4 x hx with h | h
        · exact Or.inl h
        · have h6 := h5 h
          rcases h6.keep x hx with h7 | h7 | h7
          · exact Or.inl h7
          · exact Or.inr (Or.inl ((isCommitted_iff c _ _).2 h7))
          · exact Or.inr (Or.inr (by rw [h6.state]; exact h7))
      · exact Or.inl hx
  unfold step
  cases hd : s.dead with
  | false => exact hlive
  | true =>
    cases o with
    | restart => exact hlive
    | grow h => exact hlive
    | replay => exact hlive
    | add e => exact Or.inl hx
    | check l => exact Or.inl hx
    | update h evs => exact Or.inl hx
    | report v1 v2 => exact Or.inl hx
    | saveBlock h => exact Or.inl hx
    | saveState h => exact Or.inl hx

/-- A restart (NewPool from the same evidence DB, state from the state store) keeps the committed
markers, keeps every pending item that has not expired under the loaded state, invents nothing,
and reports the number of items it loaded. -/
theorem pending_survives_restart (hm : MonoTime c) {s : Sys} (hr : Reach c s) :
    let s' := (step c s .restart).1
    s'.pool.committed = s.pool.committed ∧
    (∀ x ∈ s'.pool.pending, x ∈ s.pool.pending) ∧
    (∀ x ∈ s.pool.pending, x ∈ s'.pool.pending ∨
        expired (stateAt c s.stateH) x.height x.time = true) ∧
    s'.pool.size = s'.pool.pending.length % 4294967296 ∧ s'.dead = false := by
  have hi := reach_inv c hm hr
  obtain ⟨h1, _, _, h4, _, h6, h7⟩ := newPool_spec c hm (stateAt c s.stateH) hi.pool
  have : (step c s .restart).1 = (stepLive c s .restart).1 := by
    unfold step; cases s.dead <;> rfl
  simp only [this, stepLive]
  exact ⟨h4, h6, h7, h1.size, trivial⟩

/-! ## size_eq_pending -/

/-- `Size()` equals the number of pending items (the counter is a uint32) -/
theorem size_eq_pending (hm : MonoTime c) {s : Sys} (hr : Reach c s) :
    s.pool.size = s.pool.pending.length % 4294967296 ∧
    (s.pool.pending.length < 4294967296 → s.pool.size = s.pool.pending.length) := by
  have hi := reach_inv c hm hr
  refine ⟨hi.pool.size, fun h => ?_⟩
  rw [hi.pool.size]; exact u32_small h

/-- pending keys are unique and in key order (what `listEvidence` iterates) -/
theorem pending_keys_sorted (hm : MonoTime c) {s : Sys} (hr : Reach c s) :
    List.Pairwise (fun a b => keyLt (key c a) (key c b) = true) s.pool.pending :=
  (reach_inv c hm hr).pool.sorted

/-! ## the reactor: evidence from peers enters only through AddEvidence -/

def _root_.Tmv.Evidence.Res.isInvalid : Res → Bool
  | .invalid _ => true
  | _ => false

theorem receive_cons (s : Sys) (e : Ev) (rest : List Ev) :
    receive c s (e :: rest) =
      if (step c s (.add e)).2.isInvalid then ((step c s (.add e)).1, true)
      else receive c (step c s (.add e)).1 rest := by
  simp only [receive]
  generalize step c s (.add e) = p
  obtain ⟨s', r⟩ := p
  cases r <;> simp [Res.isInvalid]

/-- a peer message is a sequence of AddEvidence calls: the state it leaves is reachable, so
`pending_sound` (every pending item proven, unexpired, uncommitted) holds after it -/
theorem receive_reach {s : Sys} (hr : Reach c s) (l : List Ev) : Reach c (receive c s l).1 := by
  induction l generalizing s with
  | nil => exact hr
  | cons e rest ih =>
    rw [receive_cons]
    have hr' : Reach c (step c s (.add e)).1 := Reach.step (.add e) hr trivial
    split
    · exact hr'
    · exact ih hr'

/-- whatever a peer sends, afterwards every pending item proves its claim, is unexpired and
uncommitted -/
theorem receive_admits_only (hm : MonoTime c) {s : Sys} (hr : Reach c s) (l : List Ev)
    (hd : (receive c s l).1.dead = false)
    (hsmall : (receive c s l).1.pool.pending.length < 4294967296) :
    ∀ e ∈ (receive c s l).1.pool.pending,
      Proves c (receive c s l).1.storeH e ∧
      expired (receive c s l).1.pool.state e.height e.time = false ∧
      isCommitted c (receive c s l).1.pool e = false :=
  pending_sound c hm (receive_reach c hr l) hd hsmall

/-- the peer is stopped exactly when one of its items (all before it accepted) is rejected by
AddEvidence as invalid -/
theorem receive_stops_iff (s : Sys) (l : List Ev) :
    (receive c s l).2 = true ↔
      ∃ pre e post, l = pre ++ e :: post ∧ (receive c s pre).2 = false ∧
        (step c (receive c s pre).1 (.add e)).2.isInvalid = true := by
  induction l generalizing s with
  | nil => simp [receive]
  | cons e rest ih =>
    rw [receive_cons]
    by_cases hi : (step c s (.add e)).2.isInvalid = true
    · simp only [hi, ↓reduceIte, true_iff]
      exact ⟨[], e, rest, rfl, by simp [receive], by simpa [receive] using hi⟩
    · simp only [hi, Bool.false_eq_true, ↓reduceIte]
      rw [ih]
      constructor
      · rintro ⟨pre, e', post, h1, h2, h3⟩
        refine ⟨e :: pre, e', post, by simp [h1], ?_, ?_⟩
        · rw [receive_cons]; simp only [hi, Bool.false_eq_true, ↓reduceIte]; exact h2
        · rw [receive_cons]; simp only [hi, Bool.false_eq_true, ↓reduceIte]; exact h3
      · rintro ⟨pre, e', post, h1, h2, h3⟩
        cases pre with
        | nil =>
          simp at h1
          obtain ⟨rfl, rfl⟩ := h1
          simp [receive] at h3
          exact absurd h3 hi
        | cons p pre' =>
          simp at h1
          obtain ⟨rfl, rfl⟩ := h1
          rw [receive_cons] at h2 h3
          simp only [hi, Bool.false_eq_true, ↓reduceIte] at h2 h3
          exact ⟨pre', e', post, rfl, h2, h3⟩

/-- gossip: evidence goes to a peer exactly when the peer is above the evidence's height and the
evidence is not older than `MaxAgeNumBlocks` for that peer -/
theorem prepare_iff (st : State) (e : Ev) (ph : Int) :
    prepare st e ph = true ↔ (e.height < ph ∧ ph - e.height ≤ st.maxAgeBlocks) := by
  unfold prepare
  split
  · simp; omega
  · split
    · simp; omega
    · simp; omega

/-! ## non-vacuity: a concrete chain, genuine evidence, a reachable state with it pending -/

def exVal : Validator := { addr := "k0", power := 10, pkAddr := "k0" }
def exVal2 : Validator := { addr := "k1", power := 5, pkAddr := "k1" }

def exCtx : Ctx :=
  { blocks := [{ time := 100, vals := [exVal, exVal2] }, { time := 200, vals := [exVal, exVal2] }, { time := 300, vals := [exVal] }, { time := 400, vals := [exVal] }],
    maxAgeBlocks := 1, maxAgeDur := 50,
    H := fun e => match e with | .dv d => (d.a.bid + 7 * d.b.bid).toNat | .lca l => l.tag.length,
    S := fun _ => 300,
    sigOK := fun pk v => pk == v.sig }

def exVote (bid : Int) : Vote :=
  { height := 2, round := 0, typ := 1, addr := "k0", bid := bid, ts := 0, idx := 0, sig := "k0" }

def exDV : DV := { a := exVote 1, b := exVote 2, tvp := 15, vp := 10, time := 200 }

example : MonoTime exCtx := by
  intro h1 h2 b1 b2 hle e1 e2
  have key : ∀ h b, blockAt exCtx h = some b → b.time = 100 * h := by
    intro h b e
    unfold blockAt at e
    split at e
    · rw [List.getElem?_eq_some_iff] at e
      obtain ⟨hi, hb⟩ := e
      have h4 : (h - 1).toNat < 4 := hi
      match hn : (h - 1).toNat, hi with
      | 0, _ => simp [exCtx, hn] at hb; subst hb; simp; omega
      | 1, _ => simp [exCtx, hn] at hb; subst hb; simp; omega
      | 2, _ => simp [exCtx, hn] at hb; subst hb; simp; omega
      | 3, _ => simp [exCtx, hn] at hb; subst hb; simp; omega
      | n+4, _ => omega
    · simp at e
  rw [key h1 b1 e1, key h2 b2 e2]; omega

/-- the genuine pair of conflicting votes is a `GoodPair` -/
theorem exGood : GoodPair exCtx (exVote 2) (exVote 1) := by
  intro b hb t d hd
  have : b = { time := 200, vals := [exVal, exVal2] } := by
    simp [blockAt, exVote, exCtx] at hb; exact hb.symm
  subst this
  simp [newDVE, exVote, exVal, exVal2, totalPower] at hd
  subst hd
  exact ⟨exVal, by simp [exVal, exVal2], by simp [exVal, exVal2, exCtx, totalPower]⟩

def exSys : Sys := run exCtx (initSys exCtx 2) [.add (.dv exDV), .grow 3, .report (exVote 2) (exVote 1)]

example : Reach exCtx exSys :=
  Reach.step _ (Reach.step _ (Reach.step _ (Reach.init 2) trivial) trivial) exGood

example : exSys.pool.pending = [.dv exDV] ∧ exSys.pool.size = 1 ∧ exSys.dead = false ∧
    exSys.pool.buffer = [(exVote 2, exVote 1)] := by decide

/-- the evidence is committed by a block, after which a check containing it fails and it is not
proposed -/
example : (step exCtx exSys (.check [.dv exDV])).2 = .ok ∧
    (step exCtx (step exCtx exSys (.update 3 [.dv exDV])).1 (.check [.dv exDV])).2 = .committed ∧
    (pendingEvidence exCtx (step exCtx exSys (.update 3 [.dv exDV])).1.pool (-1)).1 = [] := by decide

/-- at height 4 (age 2 > 1 blocks, 200 > 50 time units) the pending item has expired and is pruned -/
example : (run exCtx exSys [.grow 4, .update 4 []]).pool.pending = [] ∧
    (step exCtx (run exCtx exSys [.grow 4, .update 4 []]) (.add (.dv exDV))).2 = .invalid .expired := by decide

/-! ## non-vacuity: light-client-attack evidence -/

def lVal1 : Validator := { addr := "aa", power := 10, pkAddr := "aa", key := 1 }
def lVal2 : Validator := { addr := "bb", power := 5, pkAddr := "bb", key := 2 }
def lDer : Derived := ⟨"v", "n", "c", "a", "r"⟩

/-- a chain whose block 2 was committed in round 0 by both validators -/
def lCtx : Ctx :=
  { blocks := [{ time := 100, vals := [lVal1, lVal2], hash := "h1", derived := lDer, round := 0, flags := [2, 2] },
               { time := 200, vals := [lVal1, lVal2], hash := "h2", derived := lDer, round := 0, flags := [2, 2] },
               { time := 300, vals := [lVal1, lVal2], hash := "h3", derived := lDer, round := 0, flags := [2, 2] }],
    maxAgeBlocks := 5, maxAgeDur := 500, H := fun _ => 7, S := fun _ => 900, sigOK := fun _ _ => false,
    chainID := "x", csigOK := fun k _ s => s == toString k }

/-- equivocation at height 2: another block (hash "other"), same derived fields, same round, signed
by both validators -/
def lEquiv : LCA :=
  { common := 2, cfh := 2, cft := 200, tvp := 15, time := 200, chash := "other", cderived := lDer,
    commitHeight := 2, round := 0, sigs := [⟨2, "aa", "1"⟩, ⟨2, "bb", "2"⟩], cvals := [lVal1, lVal2],
    byz := [("aa", 10), ("bb", 5)], tag := "" }

example : lcaOK lCtx lEquiv 2 = true := by decide
/-- only validator "aa" signed: 10 of 15 is not more than 2/3 -/
example : lcaOK lCtx { lEquiv with sigs := [⟨2, "aa", "1"⟩, ⟨1, "bb", ""⟩], byz := [("aa", 10)] } 2 = false := by decide
/-- a wrong byzantine list is rejected -/
example : lcaOK lCtx { lEquiv with byz := [("aa", 10)] } 2 = false := by decide
/-- admitted by the pool once block 3 (carrying block 2's commit) is stored -/
example : (step lCtx (initSys lCtx 3) (.add (.lca lEquiv))).1.pool.pending = [.lca lEquiv] := by decide
/-- the same block in another round is an amnesia attack: nobody can be named -/
example : lcaOK lCtx { lEquiv with round := 1, byz := [] } 2 = true := by decide

/-! ## ApplyBlock: the pool is updated BEFORE the state is saved -/

theorem check_heights (s : Sys) (l : List Ev) :
    (step c s (.check l)).1.stateH = s.stateH ∧ (step c s (.check l)).1.storeH = s.storeH ∧
    (step c s (.check l)).1.dead = s.dead := by
  unfold step; cases hd : s.dead <;> simp [stepLive, hd]

theorem update_heights (s : Sys) (h : Int) (evs : List Ev) :
    (step c s (.update h evs)).1.stateH = s.stateH ∧ (step c s (.update h evs)).1.storeH = s.storeH := by
  unfold step; cases hd : s.dead <;> simp only [stepLive]
  · split <;> simp
  · simp

theorem check_ok_live (s : Sys) (l : List Ev) (h : (step c s (.check l)).2 = .ok) : s.dead = false := by
  cases hd : s.dead
  · rfl
  · unfold step at h; simp [hd] at h

theorem saveState_pool (s : Sys) (h : Int) : (step c s (.saveState h)).1.pool = s.pool := by
  unfold step; cases hd : s.dead <;> simp only [stepLive]
  · split <;> rfl

theorem saveState_dead (s : Sys) (h : Int) (hd : s.dead = true) : (step c s (.saveState h)).1 = s := by
  unfold step; simp [hd]

theorem update_ok_of_live (hm : MonoTime c) {s : Sys} (hr : Reach c s) (hd : s.dead = false) (h : Int)
    (evs : List Ev) (hh : h ≤ s.storeH) (hl : (step c s (.update h evs)).1.dead = false) :
    (step c s (.update h evs)).2 = .ok := by
  have hi := reach_inv c hm hr
  unfold step at hl ⊢
  simp only [hd, stepLive, hh, ↓reduceIte] at hl ⊢
  exact Res_not_panicked (update_spec c hm hh evs hi.pool).2.1 hl

/-- Crash safety of `ApplyBlock` with respect to "used once": whatever prefix of ApplyBlock ran
before the process died (`k` steps; `k ≥ 3` = it completed), IF the state of height `h` is what the
state store holds afterwards (so the node considers block `h` applied and will not apply it again),
THEN after the restart (handshake replay + new pool on the same DBs) every evidence of block `h` is
marked committed, is not pending and can never pass `CheckEvidence` again. This is exactly because
`evpool.Update` precedes `store.Save` (fact `applyblock_order`). -/
theorem applyblock_crash_safe (hm : MonoTime c) {s : Sys} (hr : Reach c s) (h : Int) (evs : List Ev)
    (k : Nat) (hh : h ≤ s.storeH) (hlt : s.stateH < h)
    (hsaved : (applyBlockSteps c s h evs k).stateH = h) :
    ∀ e ∈ evs,
      isCommitted c (run c (applyBlockSteps c s h evs k) [.replay, .restart]).pool e = true ∧
      isPending c (run c (applyBlockSteps c s h evs k) [.replay, .restart]).pool e = false ∧
      ∀ l, e ∈ l → (step c (run c (applyBlockSteps c s h evs k) [.replay, .restart]) (.check l)).2 ≠ .ok := by
  intro e he
  -- the state is saved only by the last step
  have key : Reach c (applyBlockSteps c s h evs k) ∧
      isCommitted c (applyBlockSteps c s h evs k).pool e = true := by
    unfold applyBlockSteps at hsaved ⊢
    have hc := check_heights c s evs
    have hu := update_heights c (step c s (.check evs)).1 h evs
    by_cases hk0 : k = 0
    · simp [hk0] at hsaved; omega
    · simp only [hk0, ↓reduceIte] at hsaved ⊢
      by_cases hok : (step c s (.check evs)).2 = .ok
      · simp only [hok, ne_eq, not_true_eq_false, ↓reduceIte] at hsaved ⊢
        by_cases hk1 : k = 1
        · simp only [hk1, ↓reduceIte] at hsaved; rw [hc.1] at hsaved; omega
        · simp only [hk1, ↓reduceIte] at hsaved ⊢
          by_cases hk2 : k = 2
          · simp only [hk2, ↓reduceIte] at hsaved; rw [hu.1, hc.1] at hsaved; omega
          · simp only [hk2, ↓reduceIte] at hsaved ⊢
            have hlive := check_ok_live c s evs hok
            have hr1 : Reach c (step c s (.check evs)).1 := Reach.step _ hr trivial
            have hd1 : (step c s (.check evs)).1.dead = false := by rw [hc.2.2]; exact hlive
            have hst1 : h ≤ (step c s (.check evs)).1.storeH := by rw [hc.2.1]; exact hh
            have hr2 := Reach.step (c := c) (.update h evs) hr1 trivial
            have hr3 := Reach.step (c := c) (.saveState h) hr2 trivial
            refine ⟨hr3, ?_⟩
            cases hdead : (step c (step c s (.check evs)).1 (.update h evs)).1.dead with
            | true =>
              rw [saveState_dead c _ h hdead, hu.1, hc.1] at hsaved; omega
            | false =>
              have hokU := update_ok_of_live c hm hr1 hd1 h evs hst1 hdead
              have hm2 := (update_marks_committed c hm hr1 hd1 h evs hokU hst1 e he).1
              rw [saveState_pool]; exact hm2
      · simp only [hok, ne_eq, not_false_eq_true, ↓reduceIte] at hsaved
        rw [hc.1] at hsaved; omega
  obtain ⟨hrX, hcX⟩ := key
  have := used_once c hm hrX e hcX [.replay, .restart] (by intro o _; cases o <;> trivial)
  exact ⟨this.2.1, this.2.2.1, this.2.2.2.1⟩


/-- KNOWN FINDING (crash window before `evpool.Update`): block `h` is in the block store, ApplyBlock
dies before the pool was updated (here: right after validation), the handshake replays block `h`
with `sm.EmptyEvidencePool{}` and saves its state — the pool never learns that the block's evidence
was committed: after the restart it is still pending, passes `CheckEvidence` and is proposed again.
So `applyblock_crash_safe` cannot be strengthened from "the state was saved by ApplyBlock" to "the
state of `h` is saved after the restart". -/
theorem replay_skips_pool_fails :
    let s := run exCtx (initSys exCtx 2) [.add (.dv exDV), .saveBlock 3]
    let s' := run exCtx (applyBlockSteps exCtx s 3 [.dv exDV] 1) [.replay, .restart]
    s.stateH = 2 ∧ s'.stateH = 3 ∧ s'.dead = false ∧
    isCommitted exCtx s'.pool (.dv exDV) = false ∧ isPending exCtx s'.pool (.dv exDV) = true ∧
    (step exCtx s' (.check [.dv exDV])).2 = .ok ∧
    (pendingEvidence exCtx s'.pool (-1)).1 = [.dv exDV] := by decide

/-- the same block applied without a crash: committed, not pending, a second block with it fails -/
example :
    let s := run exCtx (initSys exCtx 2) [.add (.dv exDV), .saveBlock 3]
    let s' := run exCtx (applyBlockSteps exCtx s 3 [.dv exDV] 3) [.replay, .restart]
    s'.stateH = 3 ∧ isCommitted exCtx s'.pool (.dv exDV) = true ∧
    (step exCtx s' (.check [.dv exDV])).2 = .committed := by decide

end Tmv.Props.C11
