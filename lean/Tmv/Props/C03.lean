import Tmv.Lemmas.SyncNet
import Tmv.Lemmas.VoteReachRun
import Tmv.Lemmas.GoodRound
import Tmv.Lemmas.SyncClosure
import Tmv.Lemmas.CommitInv
import Tmv.Lemmas.SyncLog
import Tmv.Lemmas.SyncOwn
import Tmv.Lemmas.SyncCommit
/-! # C03 — termination: correct nodes decide once the network behaves  (**partial**)

Models: `Tmv.Cons` (one node, `consensus/state.go` statement by statement; tied to the real
`consensus.State` by the C02 stream) and `Tmv.Sync` (Tmv/Model/Sync.lean: the correct nodes, the
log of every message sent, one `consensus/ticker.go` timer per node with `config.go` durations in
virtual time, `closure` = the idealised gossip of the statement, `syncRun` = a synchronous suffix).
The C03 stream runs every schedule on n real `consensus.State` nodes and on `Tmv.Sync` and compares
every node's state after every move.

What is proved here, each for EVERY configuration / state / schedule it quantifies over:

* the five mechanisms the property names, as theorems about the functions the real code runs:
  round skipping (`round_skip_on_prevotes`, `round_skip_on_precommits`), re-proposal of the valid
  block with its POL round (`reproposal_of_valid_block`), timeouts growing with the round
  (`timeouts_increase_with_round`), the ticker keeping the latest timeout (`ticker_moves_forward`),
  the commit step waiting for the block while keeping the commit round
  (`commit_step_waits_for_block`, `commit_for_held_block_is_final`), the unlock rule
  (`unlock_on_later_polka`, `lock_kept_while_behind`);
* **vote-set arithmetic** (step 1 of the termination plan): after ANY input list every vote set is
  well-formed (`vote_sets_well_formed`), a delivered vote is recorded and stays recorded
  (`delivered_vote_recorded`), votes carrying the quorum yield the recorded +2/3 majority whatever
  else was delivered and in whatever order (`votes_yield_majority`), votes for anything of more than
  2/3 yield `hasTwoThirdsAny` (`votes_yield_any`);
* **one node, one good round** (step 2): the three stage theorems (`good_round_prevote_stage`,
  `good_round_precommit_stage`, `good_round_commit_stage`) composed over the internal queue and the
  vote sets into `good_round_decides_node` (proposal and block, then ANY interleaving of the prevotes
  and precommits of the quorum ⇒ decision in that round); why the proposal and the block must come
  first or be re-delivered: `block_before_header_is_lost`, `proposal_after_block_waits_for_timeout`;
* for every schedule of the network model (any interleaving of deliveries, faulty messages, claims,
  timeouts, closures): `decisions_are_final`, `log_only_grows`, `nodes_are_runs` (every node of the
  net is the node model run on some input list, so every single-node theorem applies),
  `net_vote_sets_well_formed`, `commit_waiting_node_decides_on_delivery`,
  `quorum_and_block_decide` / `net_quorum_and_block_decide` (any order: not an orphan + precommit
  quorum recorded + block held ⇒ decided; universal commit-path invariants `Cons.KI`); what the
  idealised gossip
  achieves: `closure_records_votes`, `closure_spreads_majority` (after a converged closure every
  logged vote / every +2/3 majority in the log is recorded at every node that can take it),
  `correct_votes_never_conflict` (one vote per round lifted to the log: a correct validator's logged
  vote is its only vote for that round and type at every correct node) and hence
  `closure_spreads_correct_majority` / `correct_majority_known_to_all` (polkas and commits of correct
  validators spread to every live idle node tracking the round, no side condition; uses
  `own_votes_recorded`), `closure_converged_of_count`; round monotonicity and quiet steps
  (`step_never_goes_back`, relation `Cons.Quiet`) and with them the fixpoint argument for proposals
  and block parts (`closure_delivers_proposal`, `closure_delivers_block`), hence **`commit_spreads`**:
  after a converged closure a correct node that is not an orphan and waits for block `b` has decided
  `b` once the correct precommit quorum and the block are in the log; the
  discipline of the synchronous suffix (`suffix_timeout_needs_closed_net`,
  `suffix_timeouts_in_time_order`);
* the full statement `Termination` is FALSE of the model and of the code, for two reasons, both
  kernel-checked on the model and replayed on real nodes on every run (known findings):
  `termination_fails_after_leaving_commit_step` (a node that has seen a commit without the block is
  pulled out of the commit step by +2/3 prevotes of the next round and never decides) and
  `stale_lock_survives_its_polka` / `stale_lock_reachable` / `closure_single_lock_fails` (a lock
  outlives its releasing polka when the polka is completed before the node reaches its round: the
  unlock rule is only evaluated when a prevote of that round is added).

What is NOT proved (stated as definitions below, with what is missing): `good_round_decides` and
`bad_round_harmless` at network level and `Termination` under `NoOrphanCommit`, `NoStaleLock` and
`FairSchedule` (`TerminationRemaining`). `closure_single_lock` is false as stated
(`ClosureSingleLock`, `closure_single_lock_fails`); under `NoStaleLock` it is open. Of the four
pieces named earlier: (a) the lift of one-vote-per-round to the net's log is now PROVED
(`correct_votes_never_conflict`, `closure_spreads_correct_majority`: no `only` hypotheses left for
correct validators); (b) convergence of `closure` within its fuel is reduced to the executable test
`closureCount` (`closure_converged_of_count`), which the stream evaluates on both sides for every
closure of every run (never more than a handful of passes) — a proof for all reachable nets needs a
protocol-level measure and is open; (c) the fixpoint argument is now done for votes, proposals and block parts, own votes are recorded
(`own_votes_recorded`), and the commit half of the good round holds at network level
(`commit_spreads`); what is still missing for `good_round_decides` is the PREVOTE/PRECOMMIT half at
network level: a static characterisation of closed idle states ("a live node in round r that holds the
complete proposal and the polka has precommitted, or one of its timers is pending"), which needs
invariants linking step, ticker and signed votes (step ≥ prevote ⇒ a prevote of the round is signed;
step = propose / prevoteWait ⇒ that timeout is pending; the value of the prevote is the complete valid
proposal unless the node timed out first), the provenance of `proposal` (from the log or own, unique
per correct proposer), and the round synchronisation of (d); (d) round synchronisation in virtual time
(`bad_round_ends_at_precommit_wait_timeout` is the single-node step; `step_never_goes_back` gives
round monotonicity).
The Go stream's oracle checks the bound of `Termination` on every generated run instead. -/
namespace Tmv.Props.C03
open Tmv.Cons Tmv.Sync

/-! ### timeouts and the ticker -/

/-- **timeouts grow with the round** (`config.go` Propose / Prevote / Precommit): with positive
deltas every timeout of round `r+1` is strictly longer than the same timeout of round `r`, so the
timeouts eventually exceed any fixed message delay. -/
theorem timeouts_increase_with_round (t : Timeouts)
    (hp : 0 < t.proposeDelta) (hv : 0 < t.prevoteDelta) (hc : 0 < t.precommitDelta) (r : Nat) :
    t.duration r .propose < t.duration (r + 1) .propose ∧
    t.duration r .prevoteWait < t.duration (r + 1) .prevoteWait ∧
    t.duration r .precommitWait < t.duration (r + 1) .precommitWait := by
  simp only [Timeouts.duration, Nat.mul_add, Nat.mul_one]
  omega

/-- … and for any delay `d` there is a round from which on all three exceed it -/
theorem timeouts_exceed_any_delay (t : Timeouts)
    (hp : 0 < t.proposeDelta) (hv : 0 < t.prevoteDelta) (hc : 0 < t.precommitDelta) (d : Nat) :
    ∀ r, d ≤ r → d < t.duration r .propose + 1 ∧ d < t.duration r .prevoteWait + 1 ∧
      d < t.duration r .precommitWait + 1 := by
  intro r hr
  simp only [Timeouts.duration]
  have h1 : r ≤ t.proposeDelta * r := Nat.le_mul_of_pos_left r hp
  have h2 : r ≤ t.prevoteDelta * r := Nat.le_mul_of_pos_left r hv
  have h3 : r ≤ t.precommitDelta * r := Nat.le_mul_of_pos_left r hc
  omega

/-- the timeouts of `DefaultConsensusConfig` (ms); tied to the source by Tmv.Expect.C03 and, for
every timeout a real node schedules, by the stream (the expiry is part of the compared state) -/
def defaultTimeouts : Timeouts := ⟨3000, 500, 1000, 500, 1000, 500⟩

example : 0 < defaultTimeouts.proposeDelta ∧ 0 < defaultTimeouts.prevoteDelta ∧
    0 < defaultTimeouts.precommitDelta := by decide

/-- **the ticker only moves forward** (`timeoutRoutine`): the (round, step) of the routine's current
timeout never decreases lexicographically, whatever is scheduled — a timeout for an earlier round or
an earlier-or-equal step of the same round never replaces the armed one. -/
theorem ticker_moves_forward (t : Ticker) (e r : Nat) (st : Step) (lr ls : Nat)
    (hl : t.last = some (lr, ls)) (hpos : 0 < ls) :
    ∃ lr' ls', (t.schedule e r st).last = some (lr', ls') ∧ (lr < lr' ∨ (lr = lr' ∧ ls ≤ ls')) := by
  unfold Ticker.schedule
  rw [hl]
  dsimp only
  by_cases h1 : r < lr
  · rw [if_pos h1]; exact ⟨lr, ls, hl, Or.inr ⟨rfl, Nat.le_refl _⟩⟩
  · rw [if_neg h1]
    by_cases h2 : r = lr ∧ (0 < ls ∧ st.rank ≤ ls)
    · rw [if_pos h2]; exact ⟨lr, ls, hl, Or.inr ⟨rfl, Nat.le_refl _⟩⟩
    · rw [if_neg h2]
      refine ⟨r, st.rank, rfl, ?_⟩
      by_cases h3 : r = lr
      · right; refine ⟨h3.symm, ?_⟩
        have : ¬ (st.rank ≤ ls) := fun h => h2 ⟨h3, hpos, h⟩
        omega
      · left; omega

/-! ### mechanisms of `consensus/state.go`, for every state of a node -/

/-- **round skipping on +2/3-any prevotes of a later round** -/
theorem round_skip_on_prevotes (c : Cfg) (s : NodeState) (vr : Nat) (hh : s.halted = false)
    (hlt : s.round < vr) (hany : hasAnyOf c (s.votes.prevotes vr) = true) :
    (afterPrevote c s vr).halted = true ∨ (afterPrevote c s vr).round = vr :=
  afterPrevote_round_skip c s vr hh hlt hany

/-- **round skipping on +2/3-any precommits of a later round** -/
theorem round_skip_on_precommits (c : Cfg) (s : NodeState) (vr : Nat) (hh : s.halted = false)
    (hlt : s.round < vr) (hany : hasAnyOf c (s.votes.precommits vr) = true)
    (hno : maj23Of (s.votes.precommits vr) = none) :
    (afterPrecommit c s vr).halted = true ∨ (afterPrecommit c s vr).round = vr :=
  Cons.round_skip_on_precommits c s vr hh hlt hany hno

/-- **a bad round ends at the precommit-wait timeout**: a live node in round `r` (not in the commit
step) that is given its `PrecommitWait` timeout of round `r` moves on to round `r + 1` -/
theorem bad_round_ends_at_precommit_wait_timeout (c : Cfg) (s : NodeState) (r : Nat) (hh : s.halted = false)
    (hr : s.round = r) (hst : s.step.rank ≤ Step.precommitWait.rank) :
    (handleTimeout c s r .precommitWait).halted = true ∨ (handleTimeout c s r .precommitWait).round = r + 1 :=
  precommitWait_timeout_advances c s r hh hr hst

/-- **unlock on a later polka**: locked on `b` since a round before `vr`, in round `vr` or later,
and the round-`vr` prevotes have a +2/3 majority for something else (nil included) ⇒ unlocked -/
theorem unlock_on_later_polka (s : NodeState) (vr : Nat) (bid : Bid) (b : Nat)
    (hl : s.lockedBlock = some b) (hlr : s.lockedRound < (vr : Int)) (hr : vr ≤ s.round)
    (hne : bid ≠ some b) :
    (onPolka s vr bid).lockedBlock = none ∧ (onPolka s vr bid).lockedRound = -1 :=
  Cons.unlock_on_later_polka s vr bid b hl hlr hr hne

/-- … but a node that is still in an earlier round than the polka keeps its lock when the polka is
recorded (`vote.Round <= cs.Round` fails); the rule is applied again when the node's own prevote of
round `vr` is added. This is why `closure_single_lock` needs the nodes to have prevoted. -/
theorem lock_kept_while_behind (s : NodeState) (vr : Nat) (bid : Bid) (hr : s.round < vr) :
    (onPolka s vr bid).lockedBlock = s.lockedBlock :=
  no_unlock_before_round s vr bid hr

/-- **re-proposal of the valid block with its POL round** (`defaultDecideProposal`) -/
theorem reproposal_of_valid_block (c : Cfg) (s : NodeState) (round me b : Nat)
    (hh : s.halted = false) (hv : s.validBlock = some b) (hs : c.checkHRS = false) :
    (decideProposal c s round me).out = s.out ++ [.signProposal round b s.validRound] ∧
    (decideProposal c s round me).queue =
      s.queue ++ [.proposal ⟨round, b, s.validRound, me⟩, .part b] :=
  reproposes_valid_block c s round me b hh hv hs

/-- **good round, prevote stage**: not locked (or locked on the proposed block), complete valid
proposal block ⇒ the prevote is for it -/
theorem good_round_prevote_stage (c : Cfg) (s : NodeState) (b me : Nat)
    (hh : s.halted = false) (hs : c.checkHRS = false) (hme : c.self = some me)
    (hl : s.lockedBlock = none ∨ s.lockedBlock = some b) (hb : s.proposalBlock = some b) (hv : c.valid b = true) :
    (doPrevote c s).out = s.out ++ [.signVote .prevote s.round (some b)] :=
  doPrevote_votes_proposal c s b me hh hs hme hl hb hv

/-- **good round, precommit stage**: +2/3 prevotes of the current round for the block held ⇒ lock it
(in this round) and precommit it -/
theorem good_round_precommit_stage (c : Cfg) (s : NodeState) (r b me : Nat)
    (hh : s.halted = false) (hs : c.checkHRS = false) (hme : c.self = some me)
    (hr : s.round = r) (hst : s.step.rank < Step.precommit.rank)
    (hm : maj23Of (s.votes.prevotes (r : Int)) = some (some b)) (hvr : (r : Int) ≤ s.votes.round)
    (hl : s.lockedBlock = none ∨ s.lockedBlock = some b)
    (hb : s.proposalBlock = some b) (hv : c.valid b = true) :
    (enterPrecommit c s r).lockedBlock = some b ∧ (enterPrecommit c s r).lockedRound = (r : Int) ∧
    (enterPrecommit c s r).out = s.out ++ [.signVote .precommit r (some b)] ∧
    (enterPrecommit c s r).step = .precommit :=
  polka_precommits_and_locks c s r b me hh hs hme hr hst hm hvr hl hb hv

/-- **good round, commit stage**: +2/3 precommits of the current round for the block held ⇒ the node
decides it, in this round -/
theorem good_round_commit_stage (c : Cfg) (s : NodeState) (r b : Nat)
    (hh : s.halted = false) (hr : s.round = r)
    (hst : Step.precommit.rank ≤ s.step.rank ∧ s.step.rank < Step.commit.rank)
    (hm : maj23Of (s.votes.precommits (r : Int)) = some (some b))
    (hb : s.lockedBlock = some b ∨ (s.proposalBlock = some b ∧ s.proposalParts = some b))
    (hv : c.valid b = true) :
    (afterPrecommit c s r).decided = some (b, (r : Int)) :=
  precommit_quorum_decides c s r b hh hr hst hm hb hv

/-- **a commit for a block the node holds is final at once**, from whatever round and step before
the commit step the node is in (`enterCommit`) -/
theorem commit_for_held_block_is_final (c : Cfg) (s : NodeState) (r b : Nat)
    (hh : s.halted = false) (hst : s.step.rank < Step.commit.rank)
    (hm : maj23Of (s.votes.precommits (r : Int)) = some (some b))
    (hb : s.lockedBlock = some b ∨ (s.proposalBlock = some b ∧ s.proposalParts = some b))
    (hv : c.valid b = true) :
    (enterCommit c s r).decided = some (b, (r : Int)) :=
  enterCommit_decides c s r b hh hst hm hb hv

/-- **the commit step waits for the block while keeping the commit round**: in the commit step for
round `r`, set up for block `b`, the node decides `b` in round `r` when the block arrives -/
theorem commit_step_waits_for_block (c : Cfg) (s : NodeState) (r b : Nat)
    (hh : s.halted = false) (hst : s.step = .commit) (hcr : s.commitRound = (r : Int))
    (hm : maj23Of (s.votes.precommits (r : Int)) = some (some b))
    (hp : s.proposalParts = some b) (hd : s.partsDone = false) (hv : c.valid b = true) :
    (addBlockPart c s b).decided = some (b, (r : Int)) :=
  commit_step_block_arrival_decides c s r b hh hst hcr hm hp hd hv

/-! ### vote-set arithmetic: delivered votes yield the recorded majority, in any order -/

/-- every vote set a node ever holds, after ANY input list, satisfies the well-formedness invariant
`VoteSet.WF` (distinct bucket members, sums = powers, a bucket at or above the quorum implies a
recorded majority, …) -/
theorem vote_sets_well_formed (c : Cfg) (me : Nat) (hc : c.self = some me) (is : List Input) :
    HVS.WF c (run c .init is).votes := run_WF hc is

/-- **a delivered vote is recorded and stays recorded**: at the moment the vote arrives (`pre` has
been handled) the node is live and tracks the vote's round, the vote is well signed and its validator
has no conflicting vote in that set ⇒ it is in the set after the whole run `pre ++ vote :: post`,
whatever `post` contains. -/
theorem delivered_vote_recorded (c : Cfg) (me : Nat) (hc : c.self = some me) (pre post : List Input)
    (v : Vote) (peer : Peer) (hv : v.wellSigned c)
    (hlive : (run c .init pre).halted = false ∧ (run c .init pre).decided = none)
    (ht : ((run c .init pre).votes.getVoteSet (v.round : Int) v.typ).isSome = true)
    (ho : (run c .init pre).votes.only (v.round : Int) v.typ v.bid v.val) :
    (run c .init (pre ++ Input.vote v peer :: post)).votes.has (v.round : Int) v.typ v.bid v.val :=
  Cons.delivered_vote_recorded hc pre post v peer hv hlive ht ho

/-- **votes carrying the quorum yield the recorded +2/3 majority** — after ANY run (any order, any
junk from other validators, conflicting votes of faulty validators in other buckets, majority claims,
catch-up rounds, timeouts): if validators `Q` (distinct, power at least the quorum) all have a
recorded vote for `b` in the set of (r, t), no vote input of the run carries another value for one of
them, and the node itself — if it is one of them — signed nothing else, the recorded majority of
that set is `b`. -/
theorem votes_yield_majority (c : Cfg) (me : Nat) (hc : c.self = some me) (is : List Input)
    (r : Nat) (t : VType) (b : Bid) (Q : List Nat) (hn : Q.Nodup)
    (hq : ∀ u ∈ Q, u < c.n ∧ (run c .init is).votes.has (r : Int) t b u)
    (hin : ∀ v peer, Input.vote v peer ∈ is → v.typ = t → v.round = r → v.val ∈ Q → v.bid = b)
    (hown : me ∈ Q → ∀ x, Output.signVote t r x ∈ (run c .init is).out → x = b)
    (hp : c.quorum ≤ (Q.map c.power).sum) :
    maj23Of ((run c .init is).votes.getVoteSet (r : Int) t) = some b :=
  Cons.votes_yield_majority hc is r t b Q hn hq hin hown hp

/-- **recorded votes for anything of validators carrying more than 2/3 of the power yield
`hasTwoThirdsAny`** (what round skipping and the wait steps test) -/
theorem votes_yield_any (c : Cfg) (me : Nat) (hc : c.self = some me) (is : List Input)
    (r : Nat) (t : VType) (R : List Nat) (hn : R.Nodup)
    (hr : ∀ u ∈ R, u < c.n ∧ ∃ k, (run c .init is).votes.has (r : Int) t k u)
    (hp : c.total * 2 / 3 < (R.map c.power).sum) :
    hasAnyOf c ((run c .init is).votes.getVoteSet (r : Int) t) = true :=
  Cons.votes_yield_any hc is r t R hn hr hp

/-! ### one node, one good round -/

/-- **good_round_decides_node**: a node that has just entered round `r` (`GoodStart`: propose step,
nothing of the round received yet, unlocked or locked on `b`, `b` valid, the validators of
`me :: Q1` / `me :: Q2` carry the quorum and hold no conflicting votes at this node) is delivered the
proposal of the round's proposer for `b` and its block, and then — in ANY interleaving (`hperm`) — the
prevotes for `b` of `Q1` and the precommits for `b` of `Q2`; its own proposal-completion, prevote and
precommit travel through the internal queue as in the real receive routine. Then it decides `b` in
round `r`. (`hfresh`: the start state does not already contain the node's own precommit together with
a recorded precommit majority — without it the statement is false, `Cons.good_round_needs_fresh`.) -/
theorem good_round_decides_node (c : Cfg) (me : Nat) (s : NodeState) (r b : Nat) (Q1 Q2 : List Nat)
    (hs : GoodStart c me s r b Q1 Q2) (pr : Nat) (hpr : c.proposer s.valRound = pr ∧ pr < c.n)
    (hfresh : maj23Of (s.votes.precommits (r : Int)) = none ∨ ¬ s.votes.has (r : Int) .precommit (some b) me)
    (votes : List Input)
    (hperm : votes.Perm (goodVotes r b .prevote Q1 ++ goodVotes r b .precommit Q2)) :
    (run c s ([Input.proposal ⟨r, b, -1, pr⟩, Input.blockComplete b] ++ votes)).decided = some (b, (r : Int)) :=
  Cons.good_round_decides_node c me s r b Q1 Q2 hs pr hpr hfresh votes hperm

/-- **not an orphan + precommit quorum recorded + block held ⇒ decided** — after ANY input list in
any order: the node is not halted, is in the commit step if it has ever entered it (`hnorphan`, the
state form of `NoOrphanCommit`), its precommits of round `r` have the recorded +2/3 majority for `b`,
the round it committed in carries the same block (`hcv`: it is `r` itself, or agreement gives it), and
it holds `b`. Then it has decided `b`. (Universal invariants behind it, `Cons.KI`: the proposal block
is always held with its complete part set; a node in the commit step never holds the committed block
undecided; a recorded precommit majority for a block implies the node went through `enterCommit`.) -/
theorem quorum_and_block_decide (c : Cfg) (is : List Input) (r b : Nat)
    (hh : (run c .init is).halted = false)
    (hnorphan : 0 ≤ (run c .init is).commitRound → (run c .init is).step = .commit)
    (hm : maj23Of ((run c .init is).votes.getVoteSet (r : Int) .precommit) = some (some b))
    (hcv : ∀ b', maj23Of ((run c .init is).votes.getVoteSet (run c .init is).commitRound .precommit) = some (some b') →
      b' = b)
    (hb : (run c .init is).proposalBlock = some b) :
    (run c .init is).decided = some (b, (run c .init is).commitRound) :=
  Cons.quorum_and_block_decide is r b hh hnorphan hm hcv hb

/-! ### the network, every schedule -/

/-- **decisions are final**: whatever the scheduler and the faulty validators do (any list of
deliveries, faulty messages, claims, timeouts, closures), a node that has decided keeps exactly that
decision. -/
theorem decisions_are_final (c : SCfg) (net : Net) (ops : List Op) (i : Nat) (d : Nat × Int)
    (h : net.decidedAt i = some d) : (net.run c ops).decidedAt i = some d :=
  (run_pres c ops net).1 i d h

/-- **the log only grows** (nothing a correct node sent is ever lost: it stays available for
delivery), and the set of correct nodes is fixed -/
theorem log_only_grows (c : SCfg) (net : Net) (ops : List Op) :
    (∃ ext, (net.run c ops).log = net.log ++ ext) ∧ (net.run c ops).nodes.length = net.nodes.length :=
  (run_pres c ops net).2

/-- **a node that knows the commit and is still in the commit step decides as soon as the block is
delivered, and keeps that decision in every continuation** (the "decision seen without its block"
prefix of the property, for the nodes the defect below has not pulled out of the commit step):
node `i` is live, in the commit step for round `r`, set up for block `b` which is log entry `k`. -/
theorem commit_waiting_node_decides_on_delivery (c : SCfg) (net : Net) (i k r b : Nat) (nd : Node)
    (hi : net.nodes[i]? = some nd) (hk : net.log[k]? = some (.block b))
    (hh : nd.s.halted = false) (hd : nd.s.decided = none)
    (hst : nd.s.step = .commit) (hcr : nd.s.commitRound = (r : Int))
    (hm : maj23Of (nd.s.votes.precommits (r : Int)) = some (some b))
    (hp : nd.s.proposalParts = some b) (hpd : nd.s.partsDone = false) (hv : c.cfg.valid b = true)
    (ops : List Op) :
    ((net.deliver c i k).run c ops).decidedAt i = some (b, (r : Int)) := by
  apply decisions_are_final
  rw [deliver_block_decidedAt c net i k b nd hi hk]
  exact step_block_in_commit_step_decides (nodeCfg c.cfg nd.idx) nd.s r b hh hd hst hcr hm hp hpd hv

/-- **the precommit that completes the +2/3 majority makes a node decide** (one input of the
receive routine, own messages included; the vote-set arithmetic is the hypothesis `hm`) -/
theorem commit_quorum_vote_decides (c : Cfg) (s : NodeState) (v : Vote) (peer : Peer) (r b : Nat)
    (hh : s.halted = false) (hd : s.decided = none) (hr : s.round = r)
    (hst : Step.precommit.rank ≤ s.step.rank ∧ s.step.rank < Step.commit.rank)
    (hv : v.typ = .precommit ∧ v.round = r)
    (hadd : (s.votes.addVote c v peer).2 = true)
    (hm : maj23Of ((s.votes.addVote c v peer).1.precommits (r : Int)) = some (some b))
    (hb : s.lockedBlock = some b ∨ (s.proposalBlock = some b ∧ s.proposalParts = some b))
    (hval : c.valid b = true) :
    (step c s (.vote v peer)).decided = some (b, (r : Int)) :=
  step_commit_quorum_decides c s v peer r b hh hd hr hst hv hadd hm hb hval

/-- **every node of the net is the node model run on some input list**, under every schedule: all
single-node theorems (`Tmv.Cons`, C02, the vote arithmetic above) apply to the nodes of the net -/
theorem nodes_are_runs (c : SCfg) (correct : List Nat) (ops : List Op) :
    AllNodes (fun idx s => ∃ is, s = Cons.run (nodeCfg c.cfg idx) .init is) ((Net.init correct).run c ops) :=
  Sync.nodes_are_runs c correct ops

/-- … in particular every vote set of every node of every reachable net is well-formed -/
theorem net_vote_sets_well_formed (c : SCfg) (correct : List Nat) (ops : List Op) :
    AllNodes (fun idx s => HVS.WF (nodeCfg c.cfg idx) s.votes) ((Net.init correct).run c ops) := by
  intro nd hm
  obtain ⟨is, e⟩ := Sync.nodes_are_runs c correct ops nd hm
  show HVS.WF (nodeCfg c.cfg nd.idx) nd.s.votes
  rw [e]
  exact run_WF (me := nd.idx) rfl is

/-- **what the idealised gossip achieves** (`closure`, when its loop ends at a fixpoint rather than
by running out of fuel): every logged vote of another validator is recorded at every node that is
live, tracks the vote's round and holds no conflicting vote of that validator. Together with
`votes_yield_majority`: after closure a +2/3 majority that exists in the log is recorded at every
such node. -/
theorem closure_records_votes (c : SCfg) (correct : List Nat) (ops : List Op)
    (hconv : ((Net.init correct).run c ops).closureConverged c)
    (i k : Nat) (nd : Node) (v : Vote)
    (hi : (((Net.init correct).run c ops).closure c).nodes[i]? = some nd)
    (hk : (((Net.init correct).run c ops).closure c).log[k]? = some (.vote v))
    (hv : v.wellSigned (nodeCfg c.cfg nd.idx)) (hnot : v.val ≠ nd.idx)
    (hlive : nd.s.halted = false ∧ nd.s.decided = none)
    (ht : (nd.s.votes.getVoteSet (v.round : Int) v.typ).isSome = true)
    (ho : nd.s.votes.only (v.round : Int) v.typ v.bid v.val) :
    nd.s.votes.has (v.round : Int) v.typ v.bid v.val :=
  Sync.closure_records_votes c _ hconv (net_vote_sets_well_formed c correct ops) i k nd v hi hk hv hnot hlive ht ho

/-- **after closure a +2/3 majority that exists in the log is recorded at every node that can take
it** (polkas and commits spread): validators `Q` (distinct, carrying the quorum) have their votes
(t, r, b) in the log — the node's own one, if it is among them, recorded at the node —; the node is
live, tracks round `r` and holds no conflicting vote of any of them ⇒ its set of (r, t) has the
recorded majority `b`. -/
theorem closure_spreads_majority (c : SCfg) (correct : List Nat) (ops : List Op)
    (hconv : ((Net.init correct).run c ops).closureConverged c)
    (i : Nat) (nd : Node) (hi : (((Net.init correct).run c ops).closure c).nodes[i]? = some nd)
    (r : Nat) (t : VType) (b : Bid) (Q : List Nat) (hn : Q.Nodup) (hlt : ∀ u ∈ Q, u < c.cfg.n)
    (hlog : ∀ u ∈ Q, u ≠ nd.idx → ∃ k : Nat,
      (((Net.init correct).run c ops).closure c).log[k]? = some (Msg.vote ⟨t, r, b, u, true, u, u⟩))
    (hself : nd.idx ∈ Q → nd.s.votes.has (r : Int) t b nd.idx)
    (hlive : nd.s.halted = false ∧ nd.s.decided = none)
    (ht : (nd.s.votes.getVoteSet (r : Int) t).isSome = true)
    (honly : ∀ u ∈ Q, nd.s.votes.only (r : Int) t b u)
    (hp : (nodeCfg c.cfg nd.idx).quorum ≤ (Q.map (nodeCfg c.cfg nd.idx).power).sum) :
    maj23Of (nd.s.votes.getVoteSet (r : Int) t) = some b :=
  Sync.closure_spreads_majority c _ hconv (net_vote_sets_well_formed c correct ops) i nd hi r t b Q hn hlt
    hlog hself hlive ht honly hp

/-- **the same for every node of every reachable net** (commit half of `good_round_decides` at
network level, every schedule): a correct node that is not halted, not an orphan, has the recorded
precommit majority for `b` in some round, whose commit round carries `b`, and that holds `b`, has
decided `b`. -/
theorem net_quorum_and_block_decide (c : SCfg) (correct : List Nat) (ops : List Op) (nd : Node)
    (hm : nd ∈ ((Net.init correct).run c ops).nodes) (r b : Nat)
    (hh : nd.s.halted = false)
    (hnorphan : 0 ≤ nd.s.commitRound → nd.s.step = .commit)
    (hq : maj23Of (nd.s.votes.getVoteSet (r : Int) .precommit) = some (some b))
    (hcv : ∀ b', maj23Of (nd.s.votes.getVoteSet nd.s.commitRound .precommit) = some (some b') → b' = b)
    (hb : nd.s.proposalBlock = some b) :
    nd.s.decided = some (b, nd.s.commitRound) := by
  obtain ⟨is, e⟩ := Sync.nodes_are_runs c correct ops nd hm
  rw [e] at hh hnorphan hq hcv hb ⊢
  exact Cons.quorum_and_block_decide is r b hh hnorphan hq hcv hb

/-- **one vote per round, lifted to the net's log** (every schedule, whatever the faulty validators
do, MockPV or FilePV signer): a vote in the log that carries the index of a correct validator `u` is
the ONLY vote of `u` for that (round, type) that any correct node holds — so `u`'s votes can never be
refused as conflicting anywhere. (Invariant behind it, `Sync.LogInv`: every correct node satisfies
C02's step-guard invariant because the timeouts it is given are the ones it scheduled; a logged vote
with a correct index was signed by that node; a recorded vote is an own signed vote or a logged
vote.) -/
theorem correct_votes_never_conflict (c : SCfg) (correct : List Nat) (hn : correct.Nodup) (ops : List Op)
    (nd ndu : Node) (hm : nd ∈ ((Net.init correct).run c ops).nodes)
    (hmu : ndu ∈ ((Net.init correct).run c ops).nodes)
    (v : Vote) (hv : Msg.vote v ∈ ((Net.init correct).run c ops).log) (hval : v.val = ndu.idx) :
    nd.s.votes.only (v.round : Int) v.typ v.bid ndu.idx :=
  only_of_logged _ (run_LogInv c correct hn ops) nd ndu hm hmu v hv hval

/-- **after closure a +2/3 majority of CORRECT validators that exists in the log is recorded at every
live node that tracks the round** — no hypothesis about conflicting votes any more: polkas and
commits of correct validators spread to everybody. (`hself`: if the node is one of the voters, its
own vote is recorded at it.) -/
theorem closure_spreads_correct_majority (c : SCfg) (correct : List Nat) (hn : correct.Nodup) (ops : List Op)
    (hconv : ((Net.init correct).run c ops).closureConverged c)
    (i : Nat) (nd : Node) (hi : (((Net.init correct).run c ops).closure c).nodes[i]? = some nd)
    (r : Nat) (t : VType) (b : Bid) (Q : List Nat) (hQ : Q.Nodup)
    (hQc : ∀ u ∈ Q, u ∈ correct ∧ u < c.cfg.n)
    (hlog : ∀ u ∈ Q, Msg.vote ⟨t, r, b, u, true, u, u⟩ ∈ (((Net.init correct).run c ops).closure c).log)
    (hself : nd.idx ∈ Q → nd.s.votes.has (r : Int) t b nd.idx)
    (hlive : nd.s.halted = false ∧ nd.s.decided = none)
    (ht : (nd.s.votes.getVoteSet (r : Int) t).isSome = true)
    (hp : (nodeCfg c.cfg nd.idx).quorum ≤ (Q.map (nodeCfg c.cfg nd.idx).power).sum) :
    maj23Of (nd.s.votes.getVoteSet (r : Int) t) = some b := by
  have hinv : LogInv (((Net.init correct).run c ops).closure c) :=
    closure_LogInv c _ (run_LogInv c correct hn ops)
  have hidx : (((Net.init correct).run c ops).closure c).nodes.map (·.idx) = correct :=
    (closure_idx c _).trans (run_idx c correct ops)
  refine Sync.closure_spreads_majority c _ hconv (net_vote_sets_well_formed c correct ops) i nd hi r t b Q hQ
    (fun u hu => (hQc u hu).2) ?_ hself hlive ht ?_ hp
  · intro u hu _
    obtain ⟨k, hk⟩ := List.getElem?_of_mem (hlog u hu)
    exact ⟨k, hk⟩
  · intro u hu
    have hmemu : u ∈ (((Net.init correct).run c ops).closure c).nodes.map (·.idx) := by
      rw [hidx]; exact (hQc u hu).1
    obtain ⟨ndu, hndu, e⟩ := List.mem_map.1 hmemu
    have := only_of_logged _ hinv nd ndu (List.mem_of_getElem? hi) hndu
      ⟨t, r, b, u, true, u, u⟩ (hlog u hu) e.symm
    rw [e] at this
    exact this

/-- **convergence of the gossip closure is checkable**: `closureCount` (the number of passes the loop
makes when it stops at a pass that changed nothing; printed by the driver for EVERY closure of every
generated run and counted independently on the real nodes by the Go side — evidence key
`gossip_passes_per_closure`, oracle fingerprint `sync.closure-did-not-converge`) being `some _` is
exactly the hypothesis `closureConverged` of `closure_records_votes` / `closure_spreads_*`. That
the count stays below the fuel (64) on every reachable net is NOT proved (it is observed: at most a
handful of passes). -/
theorem closure_converged_of_count (c : SCfg) (net : Net) (k : Nat)
    (h : closureCount c closureFuel net = some (k + 1)) : net.closureConverged c :=
  closureConverged_of_count c net k h

/-- **every live node of every reachable net has recorded every vote it signed** (its queue is empty:
it always is between the moves of the scheduler — the stream compares the queue length of every
node after every move) -/
theorem own_votes_recorded (c : SCfg) (correct : List Nat) (hn : correct.Nodup) (ops : List Op)
    (nd : Node) (hm : nd ∈ ((Net.init correct).run c ops).nodes)
    (hlt : nd.idx < c.cfg.n) (hlive : nd.s.halted = false ∧ nd.s.decided = none)
    (hq : nd.s.queue = [])
    (t : VType) (r : Nat) (b : Bid) (hs : Output.signVote t r b ∈ nd.s.out) :
    nd.s.votes.has (r : Int) t b nd.idx :=
  Sync.own_votes_recorded c correct hn ops nd hm hlt hlive hq t r b hs

/-- **polkas and commits of correct validators are known to every correct node after closure**: as
`closure_spreads_correct_majority`, with the node's own vote taken care of — the only conditions left
on the receiving node are that it is live, idle (empty queue) and tracks the round. -/
theorem correct_majority_known_to_all (c : SCfg) (correct : List Nat) (hn : correct.Nodup) (ops : List Op)
    (hconv : ((Net.init correct).run c ops).closureConverged c)
    (i : Nat) (nd : Node) (hi : (((Net.init correct).run c ops).closure c).nodes[i]? = some nd)
    (r : Nat) (t : VType) (b : Bid) (Q : List Nat) (hQ : Q.Nodup)
    (hQc : ∀ u ∈ Q, u ∈ correct ∧ u < c.cfg.n)
    (hlog : ∀ u ∈ Q, Msg.vote ⟨t, r, b, u, true, u, u⟩ ∈ (((Net.init correct).run c ops).closure c).log)
    (hlive : nd.s.halted = false ∧ nd.s.decided = none) (hq : nd.s.queue = [])
    (ht : (nd.s.votes.getVoteSet (r : Int) t).isSome = true)
    (hp : (nodeCfg c.cfg nd.idx).quorum ≤ (Q.map (nodeCfg c.cfg nd.idx).power).sum) :
    maj23Of (nd.s.votes.getVoteSet (r : Int) t) = some b := by
  refine closure_spreads_correct_majority c correct hn ops hconv i nd hi r t b Q hQ hQc hlog ?_ hlive ht hp
  intro hself
  -- the closed net is reachable too
  have hreach : ((Net.init correct).run c ops).closure c = (Net.init correct).run c (ops ++ [.closure]) := by
    simp [Net.run, List.foldl_append, Net.op]
  have hm : nd ∈ ((Net.init correct).run c (ops ++ [.closure])).nodes := by
    rw [← hreach]; exact List.mem_of_getElem? hi
  have hinv : LogInv ((Net.init correct).run c (ops ++ [.closure])) := run_LogInv c correct hn _
  have hsigned := hinv.signed nd hm ⟨t, r, b, nd.idx, true, nd.idx, nd.idx⟩
    (by rw [← hreach]; exact hlog nd.idx hself) rfl
  exact Sync.own_votes_recorded c correct hn _ nd hm (hQc nd.idx hself).2 hlive hq t r b hsigned

/-! ### round monotonicity, quiet steps, and what closure delivers besides votes -/

/-- **one input of the receive routine never takes a node back** (`Cons.Quiet`): the round never
decreases; within one round the step only moves forward, the proposer-priority count is fixed and an
accepted proposal stays; with round, step and outputs unchanged a known part-set header stays (and a
complete part set stays complete) unless it is replaced by the header of the round's polka; recorded
majorities, halting and decisions are permanent. -/
theorem step_never_goes_back (c : Cfg) (s : NodeState) (i : Input) (hn : NHI s) :
    Quiet s (step c s i) ∧ NHI (step c s i) :=
  step_Quiet c s i hn

/-- **after a converged closure every live node has a proposal for its round** if the round's proposal
— by the proposer the node expects, with an admissible POL round, not its own — is in the log -/
theorem closure_delivers_proposal (c : SCfg) (correct : List Nat) (ops : List Op)
    (hconv : ((Net.init correct).run c ops).closureConverged c)
    (i k : Nat) (nd : Node) (p : Proposal)
    (hi : (((Net.init correct).run c ops).closure c).nodes[i]? = some nd)
    (hk : (((Net.init correct).run c ops).closure c).log[k]? = some (.proposal p))
    (hlive : nd.s.halted = false ∧ nd.s.decided = none)
    (hround : p.round = nd.s.round)
    (hpol : ¬ (p.pol < -1 ∨ (p.pol ≥ 0 ∧ p.pol ≥ (p.round : Int))))
    (hsigner : p.signer = (nodeCfg c.cfg nd.idx).proposer nd.s.valRound ∧ p.signer < c.cfg.n)
    (hnot : p.signer ≠ nd.idx) :
    nd.s.proposal.isSome = true :=
  Sync.closure_delivers_proposal c _ hconv (run_NHI c correct ops) i k nd p hi hk hlive hround hpol hsigner hnot

/-- **after a converged closure every live node that waits for the parts of a block that is in the log
has them** (the fixpoint argument of `closure_records_votes`, for block parts: uses that a quiet pass
cannot move a part-set header away and back) -/
theorem closure_delivers_block (c : SCfg) (correct : List Nat) (ops : List Op)
    (hconv : ((Net.init correct).run c ops).closureConverged c)
    (i k : Nat) (nd : Node) (b : Nat)
    (hi : (((Net.init correct).run c ops).closure c).nodes[i]? = some nd)
    (hk : (((Net.init correct).run c ops).closure c).log[k]? = some (.block b))
    (hlive : nd.s.halted = false ∧ nd.s.decided = none)
    (hparts : nd.s.proposalParts = some b) :
    nd.s.partsDone = true :=
  Sync.closure_delivers_block c _ hconv (run_NHI c correct ops) i k nd b hi hk hlive hparts

/-- **a commit spreads** (the "decision seen without its block" clause of the property, at network
level, every schedule): after a converged closure, a correct node that is not halted, idle, tracks
round `r`, is NOT an orphan (`hnorphan`), waits for block `b` and whose commit round carries `b`
(`hcv`) has decided `b` as soon as the precommits for `b` of correct validators carrying the quorum and
the block are in the log — whatever else the faulty validators sent and in whatever order everything
arrived. -/
theorem commit_spreads (c : SCfg) (correct : List Nat) (hn : correct.Nodup) (ops : List Op)
    (hconv : ((Net.init correct).run c ops).closureConverged c)
    (i : Nat) (nd : Node) (hi : (((Net.init correct).run c ops).closure c).nodes[i]? = some nd)
    (r b : Nat) (Q : List Nat) (hQ : Q.Nodup) (hQc : ∀ u ∈ Q, u ∈ correct ∧ u < c.cfg.n)
    (hlog : ∀ u ∈ Q, Msg.vote ⟨.precommit, r, some b, u, true, u, u⟩ ∈
      (((Net.init correct).run c ops).closure c).log)
    (hp : (nodeCfg c.cfg nd.idx).quorum ≤ (Q.map (nodeCfg c.cfg nd.idx).power).sum)
    (hblock : Msg.block b ∈ (((Net.init correct).run c ops).closure c).log)
    (hh : nd.s.halted = false) (hq : nd.s.queue = [])
    (ht : (nd.s.votes.getVoteSet (r : Int) .precommit).isSome = true)
    (hnorphan : 0 ≤ nd.s.commitRound → nd.s.step = .commit)
    (hcv : ∀ b', maj23Of (nd.s.votes.getVoteSet nd.s.commitRound .precommit) = some (some b') → b' = b)
    (hparts : nd.s.proposalParts = some b) :
    nd.s.decided = some (b, nd.s.commitRound) :=
  Sync.commit_spreads c correct hn ops hconv i nd hi r b Q hQ hQc hlog hp hblock hh hq ht hnorphan hcv hparts

/-- the same for a synchronous suffix -/
theorem decisions_are_final_in_suffix (c : SCfg) (net : Net) (moves : List Op) (i : Nat) (d : Nat × Int)
    (h : net.decidedAt i = some d) : (syncRun c net moves).decidedAt i = some d := by
  unfold syncRun
  have h0 : Later net ({ net with synced := true }.closure c) :=
    (Later.of_same (n := net) (n' := { net with synced := true }) rfl rfl).trans (closure_pres c _)
  have h1 := Pres.foldl moves (fun net mv => (net.op c mv).closure c)
    (fun mv n => (op_pres c mv n).trans (closure_pres c _)) ({ net with synced := true }.closure c)
  exact (h0.trans h1).1 i d h

/-- **in the synchronous suffix a timeout fires only when nothing else is enabled**: while the net
is not closed (some message may still be undelivered) a `fire` move does nothing -/
theorem suffix_timeout_needs_closed_net (c : SCfg) (net : Net) (i : Nat)
    (hs : net.synced = true) (hc : net.closed = false) : net.op c (.fire i) = net := by
  simp [Net.op, hs, hc]

/-- … and only in the order of virtual time: a timer that expires more than `skew` after the
earliest pending one does not fire -/
theorem suffix_timeouts_in_time_order (c : SCfg) (net : Net) (i e m : Nat) (hs : net.synced = true)
    (he : (net.nodes[i]?).bind Node.expiry = some e) (hm : net.minExpiry = some m)
    (hlate : m + c.skew < e) : net.op c (.fire i) = net := by
  have hne : ¬ (e ≤ m + c.skew) := by omega
  cases hc : net.closed with
  | false => simp [Net.op, hs, hc]
  | true => simp [Net.op, hs, hc, Net.fireAllowed, he, hm, hne]

/-! ### the property, and why it is false of the code as it stands -/

/-- power of the validators that are not correct nodes -/
def faultyPower (c : Cfg) (correct : List Nat) : Nat :=
  (((List.range c.n).filter fun v => !correct.contains v).map c.power).sum

/-- **the property** (full statement, as a proposition about the model): faulty validators hold
less than a third of the power ⇒ for every adversarial prefix (any list of moves) and every
synchronous suffix (`moves`: eligible timeouts and anything the faulty validators keep doing, each
followed by closure) the run is never stuck before every correct node has decided, and never gets
more than `B` rounds past the round reached at the synchrony point. -/
def Termination (sc : SCfg) (correct : List Nat) (B : Nat) : Prop :=
  3 * faultyPower sc.cfg correct < sc.cfg.total →
  ∀ (pre moves : List Op),
    let net := (Net.init correct).run sc pre
    let net' := syncRun sc net moves
    (net'.allDecided = true ∨ net'.somePending = true) ∧
    net'.maxRound ≤ (syncRun sc net []).maxRound + B

/-- the hypothesis the defect below forces: no undecided correct node knows a commit round while
being outside the commit step -/
def NoOrphanCommit (net : Net) : Prop :=
  ∀ nd ∈ net.nodes, nd.s.decided = none → nd.s.halted = false → 0 ≤ nd.s.commitRound → nd.s.step = .commit

/-- the node is locked on a block although it holds, for a round after its lock round that it has
reached, a recorded +2/3 prevote majority for something else (executable) -/
def hasStaleLock (s : NodeState) : Bool :=
  match s.lockedBlock with
  | none => false
  | some b => (List.range (s.round + 1)).any fun q =>
      decide (s.lockedRound < (q : Int)) &&
      (match maj23Of (s.votes.prevotes (q : Int)) with
       | some x => decide (x ≠ some b)
       | none => false)

/-- the hypothesis the second defect forces: no live correct node holds a lock that has outlived a
releasing polka (`unlock_on_later_polka` was due but the rule was not evaluated) -/
def NoStaleLock (net : Net) : Prop :=
  ∀ nd ∈ net.nodes, nd.s.decided = none → nd.s.halted = false → hasStaleLock nd.s = false

/-- `closure_single_lock` of DESIGN.md as a statement: after the synchrony point and closure all
live correct nodes that are locked are locked on one block. FALSE of the code:
`closure_single_lock_fails`. -/
def ClosureSingleLock (sc : SCfg) (correct : List Nat) : Prop :=
  3 * faultyPower sc.cfg correct < sc.cfg.total →
  ∀ (pre : List Op) (nd nd' : Node) (b b' : Nat),
    let net := syncRun sc ((Net.init correct).run sc pre) []
    nd ∈ net.nodes → nd' ∈ net.nodes → nd.s.decided = none → nd'.s.decided = none →
    nd.s.halted = false → nd'.s.halted = false →
    nd.s.lockedBlock = some b → nd'.s.lockedBlock = some b' → b = b'

/-- every validator with positive power is the proposer of some round in any window of `W` rounds -/
def FairSchedule (c : Cfg) (W : Nat) : Prop :=
  ∀ v, v < c.n → 0 < c.power v → ∀ r, ∃ k, k < W ∧ c.proposer (r + k) = v

/-- **what remains to be proved** (`termination_partial` of DESIGN.md, not a theorem here): under
`FairSchedule W`, and with `NoOrphanCommit` and `NoStaleLock` holding in every net the suffix passes
through, the
statement of `Termination` with `B = W + 1`. Its three lemmas, also unproved:
`closure_single_lock` (after closure — and after every correct node has prevoted in the round of the
highest polka, cf. `lock_kept_while_behind` — all locked correct nodes are locked on one block),
`good_round_decides` (the composition of the three `good_round_*_stage` theorems over the internal
queue and the vote sets), `bad_round_harmless`. -/
def TerminationRemaining (sc : SCfg) (correct : List Nat) (W : Nat) : Prop :=
  FairSchedule sc.cfg W → 3 * faultyPower sc.cfg correct < sc.cfg.total →
  ∀ (pre moves : List Op),
    let net := (Net.init correct).run sc pre
    (∀ k, NoOrphanCommit (syncRun sc net (moves.take k)) ∧ NoStaleLock (syncRun sc net (moves.take k))) →
    let net' := syncRun sc net moves
    (net'.allDecided = true ∨ net'.somePending = true) ∧
    net'.maxRound ≤ (syncRun sc net []).maxRound + (W + 1)

/-! #### the witness: 4 validators of power 1, validator 1 faulty -/

def exCfg : SCfg where
  cfg := { n := 4, power := fun _ => 1, self := none, proposer := fun k => k % 4, valid := fun b => b != 8,
           ownBlock := 0, waitForTxs := false, needProofBlock := true, emptyInterval := false,
           checkHRS := false }
  tmo := defaultTimeouts
  skew := 500

def exPv (r : Nat) (b : Bid) (v : Nat) : Msg := .vote ⟨.prevote, r, b, v, true, v, v⟩
def exPc (r : Nat) (b : Bid) (v : Nat) : Msg := .vote ⟨.precommit, r, b, v, true, v, v⟩

/-- the prefix of corpus/C03/commit-seen-then-round-skip.ops (positions: validator 0 ↦ 0, 2 ↦ 1,
3 ↦ 2): validator 0 proposes block 0 in round 0; validators 0 and 3 get it, validator 2 does not
and prevotes nil; the faulty validator 1 prevotes and precommits block 0. Validator 2 is handed every
prevote and precommit of round 0: it precommits nil and enters the commit step without the block.
Validators 0 and 3 each miss one precommit, time out and prevote block 0 in round 1; with the faulty
validator's prevote these are +2/3 prevotes of round 1 at validator 2, which leaves the commit step. -/
def exPrefix : List Op :=
  [.fire 0, .fire 1, .fire 2, .dl 0 1, .dl 2 0, .dl 2 1, .fire 1,
   .byz (exPv 0 (some 0) 1), .byz (exPc 0 (some 0) 1),
   .dl 0 3, .dl 0 4, .dl 0 5, .dl 2 2, .dl 2 4, .dl 2 5,
   .dl 1 2, .dl 1 3, .dl 1 5, .dl 1 6, .dl 1 7, .dl 1 8,
   .dl 0 6, .dl 0 9, .dl 2 6, .dl 2 9,
   .fire 0, .fire 2, .fire 0, .fire 2,
   .byz (exPv 1 (some 0) 1), .dl 1 10, .dl 1 11, .dl 1 12]

/-- the suffix: validator 2's propose and prevote-wait timeouts -/
def exMoves : List Op := [.fire 1, .fire 1]

def exFinal : Net := syncRun exCfg ((Net.init [0, 2, 3]).run exCfg exPrefix) exMoves

/-- Boolean form of `¬ NoOrphanCommit` -/
def hasOrphanCommit (net : Net) : Bool :=
  net.nodes.any fun nd =>
    nd.s.decided.isNone && !nd.s.halted && decide (0 ≤ nd.s.commitRound) && decide (nd.s.step ≠ .commit)

theorem noOrphan_bool (net : Net) (h : NoOrphanCommit net) : hasOrphanCommit net = false := by
  cases hb : hasOrphanCommit net with
  | false => rfl
  | true =>
    unfold hasOrphanCommit at hb
    obtain ⟨nd, hmem, hc⟩ := List.any_eq_true.1 hb
    simp only [Bool.and_eq_true, Option.isNone_iff_eq_none, Bool.not_eq_true', decide_eq_true_eq] at hc
    exact absurd (h nd hmem hc.1.1.1 hc.1.1.2 hc.1.2) hc.2

/-- validator 2 at the end of the run -/
def exStuck : NodeState := ((exFinal.nodes[1]?).map (·.s)).getD .init

/-- the end of that run: validators 0 and 3 have decided block 0 in round 0; validator 2 holds the
block and the +2/3 precommits of round 0 for it, knows commit round 0, sits in the precommit step of
round 1 locked on the block, with no timeout pending — and everything has been delivered to it. -/
theorem orphan_commit_state :
    exFinal.allDecided = false ∧ exFinal.somePending = false ∧ exFinal.closed = true ∧
    exFinal.nodes.map (·.idx) = [0, 2, 3] ∧
    exFinal.nodes.map (·.s.decided) = [some (0, 0), none, some (0, 0)] ∧
    exStuck.round = 1 ∧ exStuck.step = .precommit ∧ exStuck.commitRound = 0 ∧
    exStuck.proposalBlock = some 0 ∧ exStuck.lockedBlock = some 0 ∧
    maj23Of (exStuck.votes.precommits 0) = some (some 0) ∧ hasOrphanCommit exFinal = true := by
  decide +kernel

/-- **the property is false of the code as it stands** (known finding
`sync.correct-node-never-decides.left-commit-step`): for no bound `B` does `Termination` hold of the
4-validator configuration with one faulty validator. -/
theorem termination_fails_after_leaving_commit_step (B : Nat) : ¬ Termination exCfg [0, 2, 3] B := by
  intro h
  have hp : 3 * faultyPower exCfg.cfg [0, 2, 3] < exCfg.cfg.total := by decide
  have := (h hp exPrefix exMoves).1
  have hw := orphan_commit_state
  change exFinal.allDecided = true ∨ exFinal.somePending = true at this
  rcases this with h1 | h1
  · rw [hw.1] at h1; cases h1
  · rw [hw.2.1] at h1; cases h1

/-- the run violates exactly the hypothesis `NoOrphanCommit` -/
theorem witness_violates_no_orphan_commit : ¬ NoOrphanCommit exFinal := by
  intro h
  have h1 := noOrphan_bool exFinal h
  have h2 := orphan_commit_state.2.2.2.2.2.2.2.2.2.2.2
  rw [h1] at h2; cases h2

/-! ### why "delivered in any order" needs re-delivery and the propose timeout -/

/-- validator 1 of the witness configuration (not the proposer of round 0) -/
def exNode1 : Cfg := nodeCfg exCfg.cfg 1

def exPvIn (r : Nat) (b : Bid) (v : Nat) : Input := .vote ⟨.prevote, r, b, v, true, v, v⟩ (1 + v)

/-- **a block part that arrives before the node knows the part-set header is lost**: the block, then
the proposal — the node ends up with the proposal but without the block (`addProposalBlockPart`
drops parts while `ProposalBlockParts == nil`); only a second delivery of the block completes the
proposal and makes the node prevote. (This is why the gossip of the statement — and `closure` —
re-delivers.) -/
theorem block_before_header_is_lost :
    let is := [Input.timeout 0 .newHeight, .blockComplete 0, .proposal ⟨0, 0, -1, 0⟩]
    (run exNode1 .init is).proposalBlock = none ∧ (run exNode1 .init is).step = .propose ∧
    (run exNode1 .init (is ++ [.blockComplete 0])).proposalBlock = some 0 ∧
    Output.signVote .prevote 0 (some 0) ∈ (run exNode1 .init (is ++ [.blockComplete 0])).out := by
  decide

/-- the inputs of the next witness: the prevotes of validators 0, 2, 3 (a polka, which makes the
part-set header known), the block, and only then the proposal -/
def exLateProposal : List Input :=
  [.timeout 0 .newHeight, exPvIn 0 (some 0) 0, exPvIn 0 (some 0) 2, exPvIn 0 (some 0) 3,
   .blockComplete 0, .proposal ⟨0, 0, -1, 0⟩]

/-- **a proposal that arrives after its block is acted upon only by the propose timeout**
(`handleMsg` runs no transition after `setProposal`): the node holds the complete proposal AND the
+2/3 prevotes for it, sits in the propose step and has signed nothing; delivering everything again
changes nothing; the propose timeout makes it prevote and precommit at once. So "decides in round r
whatever the order" holds only together with "timeouts fire when nothing else is enabled". -/
theorem proposal_after_block_waits_for_timeout :
    (run exNode1 .init exLateProposal).step = .propose ∧
    (run exNode1 .init exLateProposal).proposalBlock = some 0 ∧
    (run exNode1 .init exLateProposal).proposal.isSome = true ∧
    maj23Of ((run exNode1 .init exLateProposal).votes.prevotes 0) = some (some 0) ∧
    (∀ t r x, Output.signVote t r x ∉ (run exNode1 .init exLateProposal).out) ∧
    (run exNode1 .init (exLateProposal ++ exLateProposal)).step = .propose ∧
    Output.signVote .precommit 0 (some 0) ∈
      (run exNode1 .init (exLateProposal ++ [.timeout 0 .propose])).out := by
  refine ⟨by decide, by decide, by decide, by decide, ?_, by decide, by decide⟩
  intro t r x h
  have : (run exNode1 .init exLateProposal).out = [.schedule 0 .propose] := by decide
  rw [this] at h
  simp at h

/-- the same run is an instance of `votes_yield_majority` (hypotheses evaluated): validators 0, 2, 3
carry the quorum 3 of 4 and are recorded for block 0 in the prevote set of round 0 -/
example : (∀ u ∈ [0, 2, 3], u < exNode1.n ∧
      (run exNode1 .init exLateProposal).votes.has (0 : Nat) .prevote (some 0) u) ∧
    exNode1.quorum ≤ ([0, 2, 3].map exNode1.power).sum ∧
    maj23Of ((run exNode1 .init exLateProposal).votes.getVoteSet (0 : Nat) .prevote) = some (some 0) := by
  refine ⟨?_, by decide, by decide⟩
  intro u hu
  have hb : ∀ u ∈ [0, 2, 3], u < exNode1.n ∧
      (run exNode1 .init exLateProposal).votes.hasB (0 : Nat) .prevote (some 0) u = true := by decide
  exact ⟨(hb u hu).1, HVS.has_of_hasB (hb u hu).2⟩

/-! ### a lock that outlives its releasing polka (second known finding) -/

/-- validator 0 of the witness configuration (the proposer of round 0) -/
def exNode0 : Cfg := nodeCfg exCfg.cfg 0

/-- validator 0 proposes block 0 and locks it on the polka of round 0 (its own prevote and those of
validators 1 and 3); then it is handed the complete polka for block 1 of round 1 (validators 1, 2, 3)
— while it is in round 0, so the unlock rule `LockedRound < vote.Round <= cs.Round` does not fire —
and the prevotes of round 2, on which it moves on to round 2 -/
def exStaleLock : List Input :=
  [.timeout 0 .newHeight, exPvIn 0 (some 0) 1, exPvIn 0 (some 0) 3,
   exPvIn 1 (some 1) 1, exPvIn 1 (some 1) 2, exPvIn 1 (some 1) 3,
   exPvIn 2 (some 1) 1, exPvIn 2 (some 1) 2, exPvIn 2 none 3]

/-- everything of round 1 again, and the round-2 proposal for block 1 with POL round 1 and its block -/
def exStaleMore : List Input :=
  [exPvIn 1 (some 1) 1, exPvIn 1 (some 1) 2, exPvIn 1 (some 1) 3, .proposal ⟨2, 1, 1, 2⟩, .blockComplete 1]

/-- **closure_single_lock is false of the code** (known finding `sync.stale-lock-never-released`,
replayed on real nodes: corpus/C03/stale-lock-after-round-skip.ops): the node is in round 2, still
locked on block 0 since round 0, although it holds the +2/3 prevotes for block 1 of round 1 and
`LockedRound < 1 ≤ Round`; the unlock rule is only evaluated when a prevote of round 1 is ADDED, so
delivering all of them again changes nothing; and given the complete round-2 proposal for block 1
with POL round 1 it prevotes its locked block 0 (`defaultDoPrevote` ignores the POL round). With the
two other correct nodes locked on block 1 by that polka and the faulty validator silent, no round
reaches +2/3 again. -/
theorem stale_lock_survives_its_polka :
    (run exNode0 .init exStaleLock).round = 2 ∧ (run exNode0 .init exStaleLock).lockedBlock = some 0 ∧
    (run exNode0 .init exStaleLock).lockedRound = 0 ∧
    maj23Of ((run exNode0 .init exStaleLock).votes.prevotes 1) = some (some 1) ∧
    (run exNode0 .init (exStaleLock ++ exStaleMore)).lockedBlock = some 0 ∧
    isProposalComplete (run exNode0 .init (exStaleLock ++ exStaleMore)) = true ∧
    Output.signVote .prevote 2 (some 0) ∈ (run exNode0 .init (exStaleLock ++ exStaleMore)).out := by
  decide

/-- the prefix of corpus/C03/stale-lock-after-round-skip.ops (validator 2 faulty; positions:
validator 0 ↦ 0, 1 ↦ 1, 3 ↦ 2) -/
def exStalePrefix : List Op :=
  [.fire 0, .fire 1, .fire 2, .dl 1 0, .dl 1 1, .fire 2, .byz (exPv 0 (some 0) 2),
   .byz (exPv 0 none 2), .dl 0 5, .dl 1 6, .dl 2 6, .dl 0 3, .dl 0 4, .dl 1 2, .dl 1 4, .dl 2 2,
   .dl 2 3, .fire 1, .fire 2, .byz (exPc 0 none 2), .dl 1 7, .dl 1 9, .dl 1 10, .fire 1, .dl 2 7,
   .dl 2 8, .dl 2 10, .fire 2, .dl 2 11, .dl 2 12, .byz (exPv 1 (some 1) 2), .dl 1 14, .dl 1 15,
   .dl 2 13, .dl 2 15, .byz (exPc 1 none 2), .dl 1 17, .dl 1 18, .fire 1, .dl 2 16, .dl 2 18,
   .fire 2, .fire 1, .fire 2, .byz (exPv 2 none 2), .dl 0 13, .dl 0 14, .dl 0 15, .dl 0 19, .dl 0 20,
   .dl 0 21]

def exStaleNet : Net := (Net.init [0, 1, 3]).run exCfg exStalePrefix

/-- … at the synchrony point, after closure -/
def exStaleClosed : Net := syncRun exCfg exStaleNet []

/-- **the stale lock in the network model**: with one of four validators faulty the net reaches, and
keeps through the synchrony point and closure, a state in which validator 0 is locked on block 0 and
validators 1 and 3 on block 1 — validator 0's lock has outlived the polka of round 1 that it holds. -/
theorem stale_lock_reachable :
    (exStaleClosed.nodes.map fun nd =>
      (nd.idx, nd.s.round, nd.s.lockedBlock, hasStaleLock nd.s && !nd.s.halted && nd.s.decided.isNone)) =
      [(0, 2, some 0, true), (1, 2, some 1, false), (3, 2, some 1, false)] ∧
    exStaleClosed.closed = true := by
  decide +kernel

/-- **closure_single_lock is false** of the model (and of the code: same schedule replayed on real
nodes) -/
theorem closure_single_lock_fails : ¬ ClosureSingleLock exCfg [0, 1, 3] := by
  intro h
  have hp : 3 * faultyPower exCfg.cfg [0, 1, 3] < exCfg.cfg.total := by decide
  have hw := stale_lock_reachable.1
  have hlen : exStaleClosed.nodes.length = 3 := by
    have := congrArg List.length hw; simpa using this
  obtain ⟨n0, h0⟩ : ∃ y, exStaleClosed.nodes[0]? = some y := ⟨exStaleClosed.nodes[0], List.getElem?_eq_getElem (by omega)⟩
  obtain ⟨n1, h1⟩ : ∃ y, exStaleClosed.nodes[1]? = some y := ⟨exStaleClosed.nodes[1], List.getElem?_eq_getElem (by omega)⟩
  have e0 : (exStaleClosed.nodes.map fun nd =>
      (nd.idx, nd.s.round, nd.s.lockedBlock, hasStaleLock nd.s && !nd.s.halted && nd.s.decided.isNone))[0]? =
      some (0, 2, some 0, true) := by rw [hw]; rfl
  have e1 : (exStaleClosed.nodes.map fun nd =>
      (nd.idx, nd.s.round, nd.s.lockedBlock, hasStaleLock nd.s && !nd.s.halted && nd.s.decided.isNone))[1]? =
      some (1, 2, some 1, false) := by rw [hw]; rfl
  rw [List.getElem?_map, h0] at e0
  rw [List.getElem?_map, h1] at e1
  simp only [Option.map_some, Option.some.injEq, Prod.mk.injEq] at e0 e1
  have hl0 : n0.s.halted = false ∧ n0.s.decided = none := by
    have := e0.2.2.2
    simp only [Bool.and_eq_true, Bool.not_eq_true', Option.isNone_iff_eq_none] at this
    exact ⟨this.1.2, this.2⟩
  -- validators 1 and 3 are live as well (their entry only says that they hold no stale lock)
  have hl1 : n1.s.halted = false ∧ n1.s.decided = none := by
    have : (exStaleClosed.nodes[1]?.map fun nd => (nd.s.halted, nd.s.decided)) = some (false, none) := by
      decide +kernel
    rw [h1] at this
    simp only [Option.map_some, Option.some.injEq, Prod.mk.injEq] at this
    exact this
  have := h hp exStalePrefix n0 n1 0 1 (List.mem_of_getElem? h0) (List.mem_of_getElem? h1)
    hl0.2 hl1.2 hl0.1 hl1.1 e0.2.2.1 e1.2.2.1
  cases this

/-- … and the state violates exactly `NoStaleLock` -/
theorem witness_violates_no_stale_lock : ¬ NoStaleLock exStaleClosed := by
  intro h
  have hw := stale_lock_reachable.1
  have hlen : exStaleClosed.nodes.length = 3 := by
    have := congrArg List.length hw; simpa using this
  obtain ⟨n0, h0⟩ : ∃ y, exStaleClosed.nodes[0]? = some y := ⟨exStaleClosed.nodes[0], List.getElem?_eq_getElem (by omega)⟩
  have e0 : (exStaleClosed.nodes.map fun nd =>
      (nd.idx, nd.s.round, nd.s.lockedBlock, hasStaleLock nd.s && !nd.s.halted && nd.s.decided.isNone))[0]? =
      some (0, 2, some 0, true) := by rw [hw]; rfl
  rw [List.getElem?_map, h0] at e0
  simp only [Option.map_some, Option.some.injEq, Prod.mk.injEq] at e0
  have := e0.2.2.2
  simp only [Bool.and_eq_true, Bool.not_eq_true', Option.isNone_iff_eq_none] at this
  have hf := h n0 (List.mem_of_getElem? h0) this.2 this.1.2
  rw [hf] at this
  exact absurd this.1.1 (by decide)

/-! ### the majority-claim gate for conflicting votes (reactor glue that lets late information in) -/

def exPcIn (r : Nat) (b : Bid) (v : Nat) : Input := .vote ⟨.precommit, r, b, v, true, v, v⟩ (1 + v)

/-- validator 0 locks block 0 in round 0; in round 1 it sees the prevotes of validators 1 and 2 for
block 1 and the prevote NIL of the equivocating validator 3 (no polka); it moves on to round 2 -/
def exGate : List Input :=
  [.timeout 0 .newHeight, exPvIn 0 (some 0) 1, exPvIn 0 (some 0) 3,
   exPcIn 0 none 1, exPcIn 0 none 2, exPcIn 0 none 3, .timeout 0 .precommitWait,
   .proposal ⟨1, 1, -1, 1⟩, .blockComplete 1,
   exPvIn 1 (some 1) 1, exPvIn 1 (some 1) 2, exPvIn 1 none 3, .timeout 1 .prevoteWait,
   exPcIn 1 (some 1) 1, exPcIn 1 (some 1) 2, exPcIn 1 none 3, .timeout 1 .precommitWait]

/-- **a peer's majority claim for a PAST round is what admits the equivocator's second vote**
(`VoteSetMaj23` → `Reactor.ReceiveEnvelope` → `HeightVoteSet.SetPeerMaj23`, then the `peerMaj23` gate
of `VoteSet.addVerifiedVote`): in round 2, still locked on block 0, the node is handed validator 3's
OTHER prevote of round 1, for block 1. Without a claim it is refused as conflicting: no polka, the lock
stays. After the claim "+2/3 prevoted block 1 in round 1" of peer 2 — a round BELOW the node's round —
the same vote is admitted, completes the polka of round 1, and the node unlocks. (The stream drives
the real `Reactor.ReceiveEnvelope` for every claim; generator kind `equivocator-past-round-claim`;
oracle fingerprint `sync.conflicting-vote-not-admitted.peer-maj23-claim-ignored`.) -/
theorem past_round_claim_admits_conflicting_vote :
    (run exNode0 .init exGate).round = 2 ∧ (run exNode0 .init exGate).lockedBlock = some 0 ∧
    (run exNode0 .init (exGate ++ [exPvIn 1 (some 1) 3])).lockedBlock = some 0 ∧
    maj23Of ((run exNode0 .init (exGate ++ [exPvIn 1 (some 1) 3])).votes.prevotes 1) = none ∧
    (run exNode0 .init (exGate ++ [.peerMaj23 1 .prevote 2 (some 1), exPvIn 1 (some 1) 3])).lockedBlock = none ∧
    maj23Of ((run exNode0 .init (exGate ++ [.peerMaj23 1 .prevote 2 (some 1), exPvIn 1 (some 1) 3])).votes.prevotes 1) =
      some (some 1) := by
  decide

/-! ### non-vacuity of the hypotheses above -/

/-- a node state satisfying the hypotheses of `commit_step_waits_for_block`: validator 2 of the
witness run right after it entered the commit step without the block -/
def exWaiting : NodeState :=
  ((((Net.init [0, 2, 3]).run exCfg (exPrefix.take 21)).nodes[1]?).map (·.s)).getD .init

example : exWaiting.halted = false ∧ exWaiting.step = .commit ∧ exWaiting.commitRound = 0 ∧
    maj23Of (exWaiting.votes.precommits 0) = some (some 0) ∧ exWaiting.proposalParts = some 0 ∧
    exWaiting.partsDone = false ∧ (nodeCfg exCfg.cfg 2).valid 0 = true := by decide +kernel

/-- … so the block's arrival at that moment decides (instance of the theorem, evaluated) -/
example : (addBlockPart (nodeCfg exCfg.cfg 2) exWaiting 0).decided = some (0, 0) := by decide +kernel

/-- the net in which validator 2 waits in the commit step, block 0 being log entry 1: the hypotheses
of `commit_waiting_node_decides_on_delivery` hold and delivering the block decides (evaluated) -/
def exWaitingNet : Net := (Net.init [0, 2, 3]).run exCfg (exPrefix.take 21)

example : exWaitingNet.log[1]? = some (.block 0) ∧
    (exWaitingNet.nodes[1]?.map fun nd => (nd.s.step, nd.s.halted, nd.s.decided, nd.s.partsDone)) =
      some (.commit, false, none, false) ∧
    (exWaitingNet.deliver exCfg 1 1).decidedAt 1 = some (0, 0) := by decide +kernel

/-- validator 1 right after it entered round 0 (it is not the proposer) -/
def exFresh : NodeState := run exNode1 .init [.timeout 0 .newHeight]

theorem exFresh_only (t : VType) (key : Bid) (u : Nat) : exFresh.votes.only (0 : Nat) t key u := by
  have hout : exFresh.out = [.schedule 0 .propose] := by decide
  have h := run_X (c := exNode1) (me := 1) (base := []) (E := fun _ => False) (outF := exFresh.out)
    (h0 := HVS.init) rfl [.timeout 0 .newHeight] (N.init 1) (by intro v peer hm; simp at hm)
    (fun _ ho => ho) (HExt.refl _ _ _)
  apply h.only (HVS.only_init _ _ _ _)
  intro w hw
  rcases hw.2.2 with hf | ⟨_, hs⟩
  · exact hf.elim
  · rw [hout] at hs; simp at hs

/-- the hypotheses of `good_round_decides_node` hold of it, with the validators 0 and 2 as the other
voters (1 + 2 of 4 = the quorum 3) -/
example : GoodStart exNode1 1 exFresh 0 0 [0, 2] [0, 2] where
  self := rfl
  mock := rfl
  meLt := by decide
  live := by decide
  round := by decide
  step := by decide
  noProp := by decide
  queue := by decide
  lock := Or.inl (by decide)
  valid := by decide
  hvsRound := by decide
  tracked := by decide
  wf := run_WF (me := 1) rfl _
  notVoted := by
    intro t x h
    have hout : exFresh.out = [.schedule 0 .propose] := by decide
    rw [hout] at h; simp at h
  clean1 := fun u _ => exFresh_only _ _ u
  clean2 := fun u _ => exFresh_only _ _ u
  q1 := ⟨by decide, by decide, by decide⟩
  q2 := ⟨by decide, by decide, by decide⟩

/-- … and one interleaving of the votes (a precommit first), evaluated -/
example : exNode1.proposer exFresh.valRound = 0 ∧
    (maj23Of (exFresh.votes.precommits (0 : Nat)) = none) ∧
    (run exNode1 exFresh ([Input.proposal ⟨0, 0, -1, 0⟩, Input.blockComplete 0] ++
      (goodVotes 0 0 .precommit [2] ++ goodVotes 0 0 .prevote [0, 2] ++ goodVotes 0 0 .precommit [0]))).decided = some (0, 0) := by
  decide

/-- the hypotheses of `quorum_and_block_decide` hold of the run in which validator 1 goes through
that good round (from the initial state) -/
def exGoodRun : List Input :=
  [.timeout 0 .newHeight, .proposal ⟨0, 0, -1, 0⟩, .blockComplete 0] ++
    (goodVotes 0 0 .precommit [2] ++ goodVotes 0 0 .prevote [0, 2] ++ goodVotes 0 0 .precommit [0])

example : (run exNode1 .init exGoodRun).halted = false ∧
    (0 ≤ (run exNode1 .init exGoodRun).commitRound → (run exNode1 .init exGoodRun).step = .commit) ∧
    maj23Of ((run exNode1 .init exGoodRun).votes.getVoteSet (0 : Nat) .precommit) = some (some 0) ∧
    (run exNode1 .init exGoodRun).commitRound = 0 ∧
    (run exNode1 .init exGoodRun).proposalBlock = some 0 ∧
    (run exNode1 .init exGoodRun).decided = some (0, 0) := by decide

/-- the closure at the synchrony point of the first witness run converges with the second pass -/
example : closureCount exCfg closureFuel { (Net.init [0, 2, 3]).run exCfg exPrefix with synced := true } = some 2 := by
  decide +kernel

/-- an instance of `commit_spreads` evaluated: in `exWaitingNet` validator 2 waits in the commit step
for block 0 (not an orphan); the closure converges with its second pass and validator 2 — like
validators 0 and 3, which were missing one precommit each — has decided block 0 in round 0 -/
example : closureCount exCfg closureFuel exWaitingNet = some 2 ∧
    ((exWaitingNet.closure exCfg).nodes.map fun nd => (nd.idx, nd.s.decided)) =
      [(0, some (0, 0)), (2, some (0, 0)), (3, some (0, 0))] := by decide +kernel

/-- the round-robin schedule of the witness configuration is fair with window 4 -/
example : FairSchedule exCfg.cfg 4 := by
  intro v hv _ r
  refine ⟨(v + 4 - r % 4) % 4, Nat.mod_lt _ (by decide), ?_⟩
  show (r + (v + 4 - r % 4) % 4) % 4 = v
  have : v < 4 := hv
  omega

/-- validator 2 of the witness run in round 0, before the last prevote of round 1 reaches it -/
def exBehind : NodeState :=
  ((((Net.init [0, 2, 3]).run exCfg (exPrefix.take 32)).nodes[1]?).map (·.s)).getD .init

/-- … and with that prevote recorded: the hypotheses of `round_skip_on_prevotes` hold (not halted,
in round 0 < 1, +2/3-any prevotes of round 1) -/
def exBehind' : NodeState :=
  { exBehind with votes := (exBehind.votes.addVote (nodeCfg exCfg.cfg 2) ⟨.prevote, 1, some 0, 1, true, 1, 1⟩ 2).1 }

example : exBehind'.halted = false ∧ exBehind'.round < 1 ∧
    hasAnyOf (nodeCfg exCfg.cfg 2) (exBehind'.votes.prevotes 1) = true := by decide +kernel

end Tmv.Props.C03
