import Tmv.Lemmas.PubSub
import Tmv.Lemmas.Index
import Tmv.Lemmas.IndexExact
import Tmv.Lemmas.BlockIndex
import Tmv.Lemmas.BlockExact
import Tmv.Model.EventBus
import Tmv.Model.BlockIndex
/-! # C19 — Subscribers get exactly their matching events; searches return exact matches
Property theorems only (pub/sub part).  The model is `Tmv.PubSub` (libs/pubsub as repaired by the
`fix:` commit), histories are arbitrary lists of the command loop's atomic steps. -/
namespace Tmv.Props.C19
open Tmv Tmv.Query Tmv.PubSub

deriving instance DecidableEq for Except

/-- the answers client `c` gets to its own commands (subscribe / unsubscribe / read results) -/
def answers (c : Str) : State → List PsOp → List Out
  | _, [] => []
  | s, o :: rest => (if ownOp c o then [(step s o).2] else []) ++ answers c (step s o).1 rest

/-- **Isolation (state).** What the server holds for client `c` after any history — its
registrations, its subscription objects with their buffers and cancellation reasons — is what it
would hold had only `c`'s own commands and the publications happened. -/
theorem view_run (c : Str) (s : State) (ops : List PsOp) :
    viewS c (run s ops) = run (viewS c s) (ops.filter (relevant c)) := by
  induction ops generalizing s with
  | nil => rfl
  | cons o rest ih =>
    by_cases h : relevant c o = true
    · simp only [run, List.filter_cons, h, if_true]
      rw [ih, (step_relevant c s o h).1]
    · have h' : relevant c o = false := by simpa using h
      simp only [run, List.filter_cons, h', Bool.false_eq_true, if_false]
      rw [ih, step_irrelevant c s o h']

/-- **Isolation (observations).** The sequence of answers `c` receives (every message id read,
every `empty`, every cancellation reason, every subscribe/unsubscribe verdict) is the sequence it
would receive had the other clients never issued a command. -/
theorem answers_run (c : Str) (s : State) (ops : List PsOp) :
    answers c s ops = answers c (viewS c s) (ops.filter (relevant c)) := by
  induction ops generalizing s with
  | nil => rfl
  | cons o rest ih =>
    by_cases h : relevant c o = true
    · have hs := step_relevant c s o h
      simp only [answers, List.filter_cons, h, if_true]
      rw [ih, hs.1]
      by_cases ho : ownOp c o = true
      · simp only [ho, if_true]; rw [hs.2 ho]
      · simp [ho]
    · have h' : relevant c o = false := by simpa using h
      have ho : ownOp c o = false := by
        cases o <;> simp_all [ownOp, relevant]
      simp only [answers, List.filter_cons, h', ho, Bool.false_eq_true, if_false, List.nil_append]
      rw [ih, step_irrelevant c s o h']

/-- **Isolation.** Two histories that agree on `c`'s own commands and on the publications — and
differ arbitrarily in what other clients subscribe to (including queries whose comparisons do not
fit the events), in their capacities and in how they read — give `c` the same answers and leave
the same state for `c`. -/
theorem isolation (c : Str) (ops₁ ops₂ : List PsOp)
    (h : ops₁.filter (relevant c) = ops₂.filter (relevant c)) :
    answers c State.init ops₁ = answers c State.init ops₂ ∧
    viewS c (run State.init ops₁) = viewS c (run State.init ops₂) := by
  rw [answers_run, answers_run c _ ops₂, view_run, view_run c _ ops₂, h]
  exact ⟨rfl, rfl⟩

/-- non-vacuity of `isolation`: the scenario of the repaired defect — another client whose query
compares `acc.n` numerically while the event carries a non-numeric value -/
example :
    let q1 : Str := [1]; let q2 : Str := [2]; let c1 : Str := [1]; let c2 : Str := [2]
    let key : Str := [97]
    let ill : Query := [{ key := key, op := .ge, operand := .int 100 }]
    let ok : Query := [{ key := key, op := .exists, operand := .none }]
    let ev : Events := [(key, [[120]])]
    answers c1 State.init [.sub c2 q2 ill 1, .sub c1 q1 ok 1, .pub (8, ev), .read c1 q1]
      = [.ok, .msg 8] ∧
    answers c1 State.init [.sub c1 q1 ok 1, .pub (8, ev), .read c1 q1] = [.ok, .msg 8] := by
  decide

/-! ### every matching event once, in publication order, or an explicit cancellation -/

/-- Follow the subscription object created by a successful `Subscribe(c, q, cap)` through ANY
later history in which `c` does not subscribe to `q` again (other clients do what they like; `c`
may read, unsubscribe, subscribe to other queries).  At the end the object exists, and what the
client has received from it followed by what is still buffered is a prefix — without gaps,
repetitions or reordering — of the publications its own query matches; it is ALL of them while
the subscription is active, and otherwise the object carries an explicit cancellation reason
(`Status.cancelled r`: unsubscribed by the client itself, or out of capacity). -/
theorem once_in_order_or_cancelled (s : State) (c q : Str) (ast : Query) (cap : Nat)
    (post : List PsOp)
    (hsub : (step s (.sub c q ast cap)).2 = .ok)
    (hpost : ∀ o ∈ post, isSub c q o = false) :
    ∃ r, (run (step s (.sub c q ast cap)).1 post).recs.filter (·.isFor c q) = [r] ∧
      r.query = ast ∧
      r.content <+: owed ast post ∧
      (r.status = .active → r.content = owed ast post) ∧
      (r.status ≠ .active → ∃ why, r.status = .cancelled why) := by
  -- the fresh record is the only one of the pair
  have h0 : ∃ r0, (step s (.sub c q ast cap)).1.recs.filter (·.isFor c q) = [r0] ∧
      r0.query = ast ∧ r0.content = [] ∧ r0.status = .active := by
    simp only [step] at hsub ⊢
    split at hsub
    · cases hsub
    · rename_i hreg
      simp only [hreg, if_false, Bool.false_eq_true]
      refine ⟨{ client := c, qstr := q, query := ast, cap := cap, queue := [], taken := [],
                status := .active }, ?_, rfl, rfl, rfl⟩
      simp only [List.filter_append, List.filter_filter]
      have : List.filter (fun x : Rec => x.isFor c q && !x.isFor c q) s.recs = [] := by
        apply List.filter_eq_nil_iff.mpr
        intro x _; simp
      rw [this]
      simp [Rec.isFor]
  obtain ⟨r0, hf0, hq0, hc0, ha0⟩ := h0
  -- generalised invariant
  have key : ∀ (post : List PsOp) (s : State) (r : Rec),
      s.recs.filter (·.isFor c q) = [r] → (∀ o ∈ post, isSub c q o = false) →
      ∃ r' l, (run s post).recs.filter (·.isFor c q) = [r'] ∧ r'.query = r.query ∧
        l <+: owed r.query post ∧ r'.content = r.content ++ l ∧
        (r'.status = .active → l = owed r.query post) ∧
        (r.status ≠ .active → l = [] ∧ r'.status ≠ .active) := by
    intro post
    induction post with
    | nil =>
      intro s r hf _
      exact ⟨r, [], hf, rfl, List.prefix_refl _, by simp, fun _ => rfl, fun h => ⟨rfl, h⟩⟩
    | cons o rest ih =>
      intro s r hf hp
      obtain ⟨r1, hf1, hq1, hstep, hna1⟩ :=
        step_rec c q s r o hf (hp o (List.mem_cons_self))
      obtain ⟨r', l, hf', hq', hl, hc', hact, hnact⟩ :=
        ih (step s o).1 r1 hf1 (fun o' ho' => hp o' (List.mem_cons_of_mem _ ho'))
      have howed : owed r.query (o :: rest) = owed r.query [o] ++ owed r.query rest := by
        cases o <;> simp only [owed] <;> try rfl
        split <;> simp
      rw [hq1] at hl hact
      rcases hstep with ⟨hra, hcont⟩ | ⟨hr1na, hcont⟩
      · refine ⟨r', owed r.query [o] ++ l, hf', hq'.trans hq1, ?_, ?_, ?_, fun h => absurd hra h⟩
        · rw [howed]; exact (List.prefix_append_right_inj _).mpr hl
        · rw [hc', hcont, List.append_assoc]
        · intro h; rw [howed, hact h]
      · obtain ⟨hl0, hr'na⟩ := hnact hr1na
        refine ⟨r', [], hf', hq'.trans hq1, List.nil_prefix, ?_, fun h => absurd h hr'na,
          fun _ => ⟨rfl, hr'na⟩⟩
        rw [hc', hcont, hl0]
  obtain ⟨r', l, hf', hq', hl, hc', hact, _⟩ := key post _ r0 hf0 hpost
  rw [hq0] at hq' hl hact
  refine ⟨r', hf', hq', ?_, ?_, ?_⟩
  · rw [hc', hc0]; simpa using hl
  · intro h; rw [hc', hc0, hact h]; rfl
  · intro h
    cases hs : r'.status with
    | active => exact absurd hs h
    | cancelled why => exact ⟨why, rfl⟩

/-- the hypotheses of `once_in_order_or_cancelled` are satisfiable, and both outcomes occur: with
capacity 1 and two matching publications before any read the subscription ends up cancelled
(out of capacity) holding the first message only; with a read in between it stays active and holds
both in order. -/
example :
    let c : Str := [1]; let q : Str := [2]; let key : Str := [97, 46, 98]
    let ast : Query := [{ key := key, op := .exists, operand := .none }]
    let ev : Events := [(key, [[120]])]
    let slow : List PsOp := [.pub (1, ev), .sub [9] q ast 0, .pub (2, ev), .read c q]
    let fast : List PsOp := [.pub (1, ev), .read c q, .pub (2, ev)]
    (step State.init (.sub c q ast 1)).2 = .ok ∧ (∀ o ∈ slow, isSub c q o = false) ∧
    (∀ o ∈ fast, isSub c q o = false) ∧
    ((run (step State.init (.sub c q ast 1)).1 slow).recs.filter (·.isFor c q)).map
        (fun r => (r.content.map (·.1), r.status)) = [([1], .cancelled .outOfCapacity)] ∧
    ((run (step State.init (.sub c q ast 1)).1 fast).recs.filter (·.isFor c q)).map
        (fun r => (r.content.map (·.1), r.status)) = [([1, 2], .active)] := by
  decide

/-! ### corners: capacity, unsubscribe, re-subscribe after a cancellation -/

/-- does the op take the pair (c, q) out of the server's registry? -/
def isUnsubOf (c q : Str) : PsOp → Bool
  | .unsub c' q' => c' == c && q' == q
  | .unsubAll c' => c' == c
  | _ => false

/-- **Re-subscribing after a cancellation is refused until the client unsubscribes.**  After a
successful `Subscribe(c, q)` and ANY history in which `c` neither unsubscribes `q` nor all — in
particular one in which the server cancelled the subscription for being out of capacity — the
pair is still registered (`Server.subscriptions` is only updated by Unsubscribe/UnsubscribeAll),
so a new `Subscribe(c, q)` with any capacity answers `ErrAlreadySubscribed` and changes nothing. -/
theorem resubscribe_refused_until_unsubscribe (s : State) (c q : Str) (ast : Query) (cap : Nat)
    (post : List PsOp) (hsub : (step s (.sub c q ast cap)).2 = .ok)
    (hpost : ∀ o ∈ post, isUnsubOf c q o = false) (ast' : Query) (cap' : Nat) :
    let s' := run (step s (.sub c q ast cap)).1 post
    step s' (.sub c q ast' cap') = (s', .errAlready) := by
  intro s'
  have hreg0 : (step s (.sub c q ast cap)).1.registry.contains (c, q) = true := by
    simp only [step] at hsub ⊢
    split at hsub
    · cases hsub
    · rename_i h
      have h' : ¬ (c, q) ∈ s.registry := by simpa using h
      simp [h']
  have key : ∀ (post : List PsOp) (s : State), s.registry.contains (c, q) = true →
      (∀ o ∈ post, isUnsubOf c q o = false) → (run s post).registry.contains (c, q) = true := by
    intro post
    induction post with
    | nil => intro s h _; exact h
    | cons o rest ih =>
      intro s h hp
      apply ih (step s o).1 _ (fun o' ho' => hp o' (List.mem_cons_of_mem _ ho'))
      have ho := hp o List.mem_cons_self
      cases o with
      | sub c' q' a' k' =>
        simp only [step]; split
        · exact h
        · simp only [List.contains_eq_mem, List.mem_append, decide_eq_true_eq] at h ⊢
          exact Or.inl h
      | unsub c' q' =>
        simp only [step]; split
        · exact h
        · have hne : ¬ (c' = c ∧ q' = q) := by simpa [isUnsubOf] using ho
          simp only [List.contains_eq_mem, decide_eq_true_eq, List.mem_filter] at h ⊢
          refine ⟨h, ?_⟩
          simp only [bne_iff_ne, ne_eq, Prod.mk.injEq]
          exact fun e => hne ⟨e.1.symm, e.2.symm⟩
      | unsubAll c' =>
        simp only [step]; split
        · exact h
        · have hne : ¬ c' = c := by simpa [isUnsubOf] using ho
          simp only [List.contains_eq_mem, decide_eq_true_eq, List.mem_filter] at h ⊢
          refine ⟨h, ?_⟩
          simp only [bne_iff_ne, ne_eq]
          exact fun e => hne e.symm
      | pub m => exact h
      | read c' q' => exact h
  have := key post _ hreg0 hpost
  simp only [step]
  rw [if_pos this]

/-- **Unsubscribe (or UnsubscribeAll) re-opens the pair.**  Whenever the pair is registered —
whether its subscription is still active or was cancelled by the server — `Unsubscribe(c, q)` and
`UnsubscribeAll(c)` answer ok, and a `Subscribe(c, q)` issued next succeeds; by
`once_in_order_or_cancelled` the new subscription object then receives exactly the publications
from that point on. -/
theorem unsubscribe_then_resubscribe (s : State) (c q : Str) (ast : Query) (cap : Nat)
    (hreg : s.registry.contains (c, q) = true) :
    (step s (.unsub c q)).2 = .ok ∧ (step (step s (.unsub c q)).1 (.sub c q ast cap)).2 = .ok ∧
    (step s (.unsubAll c)).2 = .ok ∧ (step (step s (.unsubAll c)).1 (.sub c q ast cap)).2 = .ok := by
  have hany : s.registry.any (·.1 == c) = true := by
    simp only [List.contains_eq_mem, decide_eq_true_eq] at hreg
    simp only [List.any_eq_true]
    exact ⟨(c, q), hreg, by simp⟩
  have h1 : ((s.registry.filter (· != (c, q))).contains (c, q)) = false := by
    simp [List.contains_eq_mem, List.mem_filter]
  have h2 : ((s.registry.filter (·.1 != c)).contains (c, q)) = false := by
    simp [List.contains_eq_mem, List.mem_filter]
  have hmem : (c, q) ∈ s.registry := by simpa using hreg
  have hany' : ∃ x ∈ s.registry, x.1 = c := ⟨(c, q), hmem, rfl⟩
  refine ⟨by simp [step, hmem], ?_, by simp only [step, hany, Bool.not_true, Bool.false_eq_true, if_false], ?_⟩
  · simp only [step, hreg, Bool.not_true, Bool.false_eq_true, if_false, h1]
  · simp only [step, hany, Bool.not_true, Bool.false_eq_true, if_false, h2]

/-- **An unbuffered subscription is never cancelled for capacity, and a buffered one keeps its
capacity.**  For the subscription object created by a successful `Subscribe(c, q, cap)` /
`SubscribeUnbuffered` (`cap = 0`), after ANY later history without a re-subscription of the pair:
its capacity is still `cap`, at most `cap` messages are buffered when `cap > 0`, and when
`cap = 0` its status is never `cancelled outOfCapacity` — so (with `once_in_order_or_cancelled`)
an unbuffered subscriber such as the indexer service gets EVERY matching publication until it
unsubscribes itself. -/
theorem capacity_respected (s : State) (c q : Str) (ast : Query) (cap : Nat) (post : List PsOp)
    (hsub : (step s (.sub c q ast cap)).2 = .ok)
    (hpost : ∀ o ∈ post, isSub c q o = false) :
    ∃ r, (run (step s (.sub c q ast cap)).1 post).recs.filter (·.isFor c q) = [r] ∧
      r.cap = cap ∧ (cap > 0 → r.queue.length ≤ cap) ∧
      (cap = 0 → r.status ≠ .cancelled .outOfCapacity) := by
  -- the invariant carried by every step
  let R : Rec → Rec → Prop := fun r r' =>
    r'.cap = r.cap ∧ ((r.cap > 0 → r.queue.length ≤ r.cap) → (r'.cap > 0 → r'.queue.length ≤ r'.cap)) ∧
    (r.cap = 0 → r.status ≠ .cancelled .outOfCapacity → r'.status ≠ .cancelled .outOfCapacity)
  have hrefl : ∀ r, R r r := fun r => ⟨rfl, fun h => h, fun _ h => h⟩
  have hcancel : ∀ w r, w = Reason.unsubscribed → R r (cancel w r) := by
    intro w r hw
    unfold cancel
    split
    · refine ⟨rfl, fun h => h, fun _ _ => ?_⟩
      simp [hw]
    · exact hrefl r
  have hdeliver : ∀ m r, R r (deliver m r) := by
    intro m r
    unfold deliver
    split
    · exact hrefl r
    · split
      · split
        · rename_i h0
          refine ⟨rfl, fun _ h => ?_, fun _ h => h⟩
          simp only at h; omega
        · split
          · rename_i hlt
            refine ⟨rfl, fun _ _ => ?_, fun _ h => h⟩
            simp only [List.length_append, List.length_singleton]; omega
          · rename_i h0 _
            refine ⟨rfl, fun h => h, fun hc _ => ?_⟩
            exact absurd hc h0
      · exact hrefl r
  have hread : ∀ r, R r (readRec r).1 := by
    intro r
    unfold readRec
    split
    · rename_i m rest hq
      refine ⟨rfl, fun h hc => ?_, fun _ h => h⟩
      have := h hc
      rw [hq] at this
      simp only [List.length_cons] at this ⊢
      omega
    · split <;> exact hrefl r
  -- the fresh record
  have h0 : ∃ r0, (step s (.sub c q ast cap)).1.recs.filter (·.isFor c q) = [r0] ∧
      r0.cap = cap ∧ r0.queue = [] ∧ r0.status = .active := by
    simp only [step] at hsub ⊢
    split at hsub
    · cases hsub
    · rename_i hreg
      simp only [hreg, if_false, Bool.false_eq_true]
      refine ⟨{ client := c, qstr := q, query := ast, cap := cap, queue := [], taken := [],
                status := .active }, ?_, rfl, rfl, rfl⟩
      simp only [List.filter_append, List.filter_filter]
      have : List.filter (fun x : Rec => x.isFor c q && !x.isFor c q) s.recs = [] := by
        apply List.filter_eq_nil_iff.mpr
        intro x _; simp
      rw [this]
      simp [Rec.isFor]
  obtain ⟨r0, hf0, hc0, hq0, ha0⟩ := h0
  have key : ∀ (post : List PsOp) (s : State) (r : Rec),
      s.recs.filter (·.isFor c q) = [r] → (∀ o ∈ post, isSub c q o = false) →
      ∃ r', (run s post).recs.filter (·.isFor c q) = [r'] ∧ R r r' := by
    intro post
    induction post with
    | nil => intro s r hf _; exact ⟨r, hf, hrefl r⟩
    | cons o rest ih =>
      intro s r hf hp
      obtain ⟨r1, hf1, h1⟩ := step_rec_gen R hrefl (fun r => hcancel _ r rfl)
        hdeliver hread c q s r o hf (hp o List.mem_cons_self)
      obtain ⟨r', hf', h2⟩ := ih (step s o).1 r1 hf1 (fun o' ho' => hp o' (List.mem_cons_of_mem _ ho'))
      refine ⟨r', hf', ?_⟩
      obtain ⟨a1, a2, a3⟩ := h1
      obtain ⟨b1, b2, b3⟩ := h2
      exact ⟨b1.trans a1, fun h => b2 (a2 h), fun hc hs => b3 (by rw [a1]; exact hc) (a3 hc hs)⟩
  obtain ⟨r', hf', e1, e2, e3⟩ := key post _ r0 hf0 hpost
  refine ⟨r', hf', e1.trans hc0, ?_, ?_⟩
  · intro hpos
    have := e2 (fun _ => by rw [hq0]; simp) (by rw [e1, hc0]; exact hpos)
    rw [e1, hc0] at this; exact this
  · intro hz
    exact e3 (by rw [hc0]; exact hz) (by rw [ha0]; simp)

/-- non-vacuity of the two corner theorems, on the out-of-capacity scenario: capacity 1, two
matching publications, no read → cancelled; re-subscribe refused; unsubscribe; re-subscribe
accepted and the fresh subscription gets publication 3 only -/
example :
    let c : Str := [1]; let q : Str := [2]; let key : Str := [97, 46, 98]
    let ast : Query := [{ key := key, op := .exists, operand := .none }]
    let ev : Events := [(key, [[120]])]
    let ops : List PsOp := [.sub c q ast 1, .pub (1, ev), .pub (2, ev), .sub c q ast 3, .read c q, .read c q,
      .unsub c q, .sub c q ast 3, .pub (3, ev), .read c q, .read c q]
    answers c State.init ops =
      [.ok, .errAlready, .msg 1, .cancelled .outOfCapacity, .ok, .ok, .msg 3, .empty] := by
  decide

/-! ## the kv tx index -/
section index
open Tmv.Index
variable (H : Bytes → Bytes)

/-- **Indexed once, under height, position and events** (partial: needs `CleanHist` — distinct tx
hashes, distinct positions, no '/' in indexed keys/values nor in the hash bytes; the first is
violated by the known finding `txindex.duplicate-tx-overwritten`, the third by
`txindex.Search.separator-in-key-or-value`).  After indexing ANY clean history (batches in any
grouping, replays of the same result allowed): `Get(hash)` returns the result itself, every
secondary row of the result (one per indexed attribute, one for the height) is present and points
at its hash, and no key occurs twice in the database. -/
theorem indexed_once_partial (hist : List TxResult) (hc : CleanHist H hist) (r : TxResult)
    (hr : r ∈ hist) :
    Index.get (addBatch H [] hist) (H r.tx) = .found r ∧
    (∀ kv ∈ attrsAll r, dbGet (addBatch H [] hist) (keyForEvent kv.1 kv.2 r.height r.index)
        = some (.hash (H r.tx))) ∧
    ((addBatch H [] hist).map (·.1)).Nodup := by
  refine ⟨?_, ?_, db_keys_nodup H hist⟩
  · have hm : (H r.tx, Val.result r) ∈ hist.flatMap (rowsOf H) := by
      simp only [List.mem_flatMap]; exact ⟨r, hr, by simp [rowsOf]⟩
    have := dbGet_of_mem H hc _ hm
    have hne : (H r.tx).isEmpty = false := by
      cases h : H r.tx with
      | nil => exact absurd h (hc.hashNonempty r hr)
      | cons _ _ => rfl
    simp only [Index.get, hne, Bool.false_eq_true, if_false]
    simp only at this
    rw [this]
  · intro kv hkv
    have hm : secRow H r kv ∈ hist.flatMap (rowsOf H) := by
      simp only [List.mem_flatMap]
      exact ⟨r, hr, by simp only [rowsOf, List.mem_append, List.mem_map]; exact Or.inl ⟨kv, hkv, rfl⟩⟩
    exact dbGet_of_mem H hc _ hm

/-- the hypotheses of `indexed_once_partial` are satisfiable by a non-trivial history -/
example : CleanHist (fun x => x)
    [{ height := 1, index := 0, tx := [1], events := [{ type := [97], attrs := [{ key := [98], value := [120], index := true }] }] },
     { height := 1, index := 1, tx := [2], events := [] }] := by
  constructor <;> decide

/-- `indexed_once` at full strength is false of the code: the same tx bytes committed at two
heights leave only the later record retrievable. -/
theorem indexed_once_fails_on_duplicate :
    let r1 : TxResult := { height := 1, index := 0, tx := [1], events := [] }
    let r2 : TxResult := { height := 2, index := 0, tx := [1], events := [] }
    Index.get (addBatch (fun x => x) [] [r1, r2]) [1] = .found r2 ∧ r1 ≠ r2 := by
  decide

/-- **Search exactness on clean input** — the general theorem of the tx index.
For EVERY history satisfying `CleanHist` (distinct tx hashes and positions; no '/' in indexed
keys/values nor in hash bytes) and `NoReserved` (the application does not emit `tx.height`), and
EVERY query of the language satisfying `CleanQuery` — any non-empty conjunction, in any order, of
`k = 's'`, `k = n`, `k EXISTS`, `k CONTAINS 's'`, `k < n`, `k <= n`, `k > n`, `k >= n`, including
`tx.height = n` (with the narrowing of the other equality scans it triggers), several range keys,
one- and two-sided ranges, ranges mixed with the other conditions — `Search` succeeds and returns
exactly the hashes of the indexed txs whose event map satisfies `Query.Matches`.
What `CleanQuery` excludes, each with its witness theorem / known finding: the key `tx.hash`
(`search_hash_shortcut_fails`), '/' in a key or equality operand (`search_exact_fails_on_separator`),
`EXISTS` on a key without '.' (`search_exists_undotted_fails`), two bounds of the same side on one
key, or both bounds on a key that has several values in one tx (`search_range_merge_fails`),
non-canonical decimal values under a numerically compared key, numbers beyond int64 and
`k > MaxInt64`; and by the stated exclusions of the model: float, TIME and DATE operands.
ORDER: the code builds the result by ranging over a Go map (`filteredHashes`), so the order of
the returned txs is unspecified; what is guaranteed, and stated, is that no tx is returned twice
(`hs.Nodup`) — together with the membership clause the result is determined up to permutation. -/
theorem search_exact_clean (hist : List TxResult) (hc : CleanHist H hist) (hres : NoReserved hist)
    (q : Query) (hq : CleanQuery hist q) :
    ∃ hs, search (addBatch H [] hist) q = .hashes hs ∧ hs.Nodup ∧
      ∀ x, x ∈ hs ↔ ∃ r ∈ hist, H r.tx = x ∧ «matches» q (eventsOf r) = .ok true := by
  obtain ⟨L, eL, nL, mL⟩ := search_clean_compute H hc hq
  refine ⟨L, eL, nL, ?_⟩
  intro x
  rw [mL]
  have hpart : ∀ (P : Cond → Prop), (∀ c ∈ q, P c) ↔ (∀ c ∈ rangeConds q, P c) ∧ (∀ c ∈ otherConds q, P c) := by
    intro P
    constructor
    · intro h
      exact ⟨fun c hc' => h c (List.mem_filter.mp hc').1, fun c hc' => h c (List.mem_filter.mp hc').1⟩
    · rintro ⟨h1, h2⟩ c hcq
      by_cases hr : isRangeOp c.op = true
      · exact h1 c (List.mem_filter.mpr ⟨hcq, hr⟩)
      · exact h2 c (List.mem_filter.mpr ⟨hcq, by simpa using hr⟩)
  -- per tx: all scans accept it iff all conditions hold of it
  have hper : ∀ r ∈ hist,
      ((∀ W ∈ lookForRanges q, ∃ m, (W.key, dec m) ∈ attrsAll r ∧ inR W m = true) ∧
       (∀ c ∈ otherConds q, condHoldsG c r = true ∧
          (c.op = .eq → (lookForHeight q).getD 0 > 0 → r.height = (lookForHeight q).getD 0))) ↔
      «matches» q (eventsOf r) = .ok true := by
    intro r hr
    rw [matches_clean q r hq.conds (fun c hcq => hq.canon c hcq r hr), hpart]
    have spec := lookForRanges_spec q
    constructor
    · rintro ⟨hR, hC⟩
      refine ⟨?_, fun c hcq => (hC c hcq).1⟩
      intro c hcr
      obtain ⟨W, hW, hk⟩ := spec.covers c hcr
      exact (range_tx hq W hW r hr).mp (hR W hW) c hcr hk.symm
    · rintro ⟨hR, hC⟩
      refine ⟨?_, ?_⟩
      · intro W hW
        exact (range_tx hq W hW r hr).mpr (fun c hcr _ => hR c hcr)
      · intro c hcq
        refine ⟨hC c hcq, ?_⟩
        intro _ hpos
        cases hh : lookForHeight q with
        | none => rw [hh] at hpos; simp at hpos
        | some n => simpa using height_pinned hres q n hh r hr hC
  -- some scan exists, so the hash determines the tx
  constructor
  · rintro ⟨hR, hC⟩
    have hex : ∃ r ∈ hist, H r.tx = x := by
      obtain ⟨c0, hc0⟩ := List.exists_mem_of_ne_nil q hq.nonempty
      by_cases hr0 : isRangeOp c0.op = true
      · obtain ⟨W, hW, _⟩ := (lookForRanges_spec q).covers c0 (List.mem_filter.mpr ⟨hc0, hr0⟩)
        obtain ⟨r, hr, hx, _⟩ := hR W hW
        exact ⟨r, hr, hx⟩
      · obtain ⟨r, hr, hx, _⟩ := hC c0 (List.mem_filter.mpr ⟨hc0, by simpa using hr0⟩)
        exact ⟨r, hr, hx⟩
    obtain ⟨r, hr, hx⟩ := hex
    refine ⟨r, hr, hx, (hper r hr).mp ⟨?_, ?_⟩⟩
    · intro W hW
      obtain ⟨r', hr', hx', h⟩ := hR W hW
      have : r' = r := hc.hashInj r' hr' r hr (hx'.trans hx.symm)
      rw [← this]; exact h
    · intro c hcq
      obtain ⟨r', hr', hx', h⟩ := hC c hcq
      have : r' = r := hc.hashInj r' hr' r hr (hx'.trans hx.symm)
      rw [← this]; exact h
  · rintro ⟨r, hr, hx, hm⟩
    obtain ⟨hR, hC⟩ := (hper r hr).mpr hm
    exact ⟨fun W hW => ⟨r, hr, hx, hR W hW⟩, fun c hcq => ⟨r, hr, hx, hC c hcq⟩⟩

/-- the hypotheses of `search_exact_clean` are satisfiable by a query that uses the height
narrowing, a range, a CONTAINS and an EXISTS at once:
`tx.height = 10 AND a.n >= 5 AND a.b CONTAINS 'x' AND a.n EXISTS` over a three-tx history; the
search returns the one tx at height 10 that satisfies it -/
example :
    let an : Str := [97, 46, 110]; let ab : Str := [97, 46, 98]
    let mk : Nat → Nat → Bytes → Str → Str → TxResult := fun h i tx n b =>
      { height := h, index := i, tx := tx, events := [{ type := [97], attrs :=
          [{ key := [110], value := n, index := true }, { key := [98], value := b, index := true }] }] }
    let hist : List TxResult := [mk 9 0 [1] [53] [120], mk 10 0 [2] [49, 48, 53] [120, 121], mk 10 1 [3] [50] [120]]
    let q : Query := [{ key := txHeightKey, op := .eq, operand := .int 10 }, { key := an, op := .ge, operand := .int 5 },
                      { key := ab, op := .contains, operand := .str [120] }, { key := an, op := .exists, operand := .none }]
    CleanHist (fun x => x) hist ∧ NoReserved hist ∧ CleanQuery hist q ∧
      search (addBatch (fun x => x) [] hist) q = .hashes [[2]] := by
  intro an ab mk hist q
  refine ⟨by constructor <;> decide, by unfold NoReserved; decide, ?_, by decide⟩
  have hcanon : ∀ r ∈ hist, ∀ k, k = txHeightKey ∨ k = an →
      ∀ v ∈ valuesOf (attrsAll r) k, ∃ m, m ≤ maxInt64 ∧ v = dec m := by
    intro r hr k hk v hv
    simp only [hist, List.mem_cons, List.not_mem_nil, or_false] at hr
    rcases hr with rfl | rfl | rfl <;> rcases hk with rfl | rfl
    · have : valuesOf (attrsAll (mk 9 0 [1] [53] [120])) txHeightKey = [dec 9] := by decide
      rw [this] at hv; simp at hv; exact ⟨9, by decide, hv⟩
    · have : valuesOf (attrsAll (mk 9 0 [1] [53] [120])) an = [dec 5] := by decide
      rw [this] at hv; simp at hv; exact ⟨5, by decide, hv⟩
    · have : valuesOf (attrsAll (mk 10 0 [2] [49, 48, 53] [120, 121])) txHeightKey = [dec 10] := by decide
      rw [this] at hv; simp at hv; exact ⟨10, by decide, hv⟩
    · have : valuesOf (attrsAll (mk 10 0 [2] [49, 48, 53] [120, 121])) an = [dec 105] := by decide
      rw [this] at hv; simp at hv; exact ⟨105, by decide, hv⟩
    · have : valuesOf (attrsAll (mk 10 1 [3] [50] [120])) txHeightKey = [dec 10] := by decide
      rw [this] at hv; simp at hv; exact ⟨10, by decide, hv⟩
    · have : valuesOf (attrsAll (mk 10 1 [3] [50] [120])) an = [dec 2] := by decide
      rw [this] at hv; simp at hv; exact ⟨2, by decide, hv⟩
  have hrc : rangeConds q = [{ key := an, op := .ge, operand := .int 5 }] := by decide
  refine ⟨by decide, ?_, ?_, ?_, ?_, ?_⟩
  · intro c hc
    simp only [q, List.mem_cons, List.not_mem_nil, or_false] at hc
    rcases hc with rfl | rfl | rfl | rfl
    · exact ⟨by decide, by decide, Or.inr (Or.inl ⟨rfl, 10, rfl, by decide⟩)⟩
    · exact ⟨by decide, by decide, Or.inr (Or.inr (Or.inr (Or.inr ⟨rfl, 5, rfl, by decide, by intro h; cases h⟩)))⟩
    · exact ⟨by decide, by decide, Or.inr (Or.inr (Or.inr (Or.inl ⟨rfl, _, rfl⟩)))⟩
    · exact ⟨by decide, by decide, Or.inr (Or.inr (Or.inl ⟨rfl, rfl, by decide⟩))⟩
  · intro k; rw [hrc]; simp only [List.filter_cons, List.filter_nil]; split <;> simp
  · intro k; rw [hrc]; simp [isUpper]
  · intro c hc r hr n hn v hv
    simp only [q, List.mem_cons, List.not_mem_nil, or_false] at hc
    rcases hc with rfl | rfl | rfl | rfl
    · exact hcanon r hr _ (Or.inl rfl) v hv
    · exact hcanon r hr _ (Or.inr rfl) v hv
    · cases hn
    · cases hn
  · intro k h2; rw [hrc] at h2
    simp only [List.filter_cons, List.filter_nil] at h2
    split at h2 <;> simp at h2

/-- `search_exact` at full strength is false of the code (1): a value containing the separator.
The tx carries `a.b = "x/1"`; the query `a.b = 'x'` does not match its events, yet `Search`
returns it (prefix `a.b/x/` of the row `a.b/x/1/1/0`). -/
theorem search_exact_fails_on_separator :
    let ab : Str := [97, 46, 98]
    let r : TxResult := { height := 1, index := 0, tx := [1], events := [{ type := [97], attrs := [{ key := [98], value := [120, 47, 49], index := true }] }] }
    let q : Query := [{ key := ab, op := .eq, operand := .str [120] }]
    search (addBatch (fun x => x) [] [r]) q = .hashes [[1]] ∧ «matches» q (eventsOf r) = .ok false := by
  decide

/-- (2): the `tx.hash` shortcut ignores every other condition: the tx sits at height 1, the query
asks for height 7 as well, `Search` still returns it.  (`tx.hash` is hex: "01" = [48, 49].) -/
theorem search_hash_shortcut_fails :
    let r : TxResult := { height := 1, index := 0, tx := [1], events := [] }
    let q : Query := [{ key := txHashKey, op := .eq, operand := .str [48, 49] },
                      { key := txHeightKey, op := .eq, operand := .int 7 }]
    search (addBatch (fun x => x) [] [r]) q = .hashes [[1]] ∧ «matches» q (eventsOf r) = .ok false := by
  decide

/-- (3): `k EXISTS` with an undotted key is a prefix test on composite keys for `Matches` and an
exact-key scan for the index. -/
theorem search_exists_undotted_fails :
    let r : TxResult := { height := 1, index := 0, tx := [1], events := [{ type := [97], attrs := [{ key := [98], value := [120], index := true }] }] }
    let q : Query := [{ key := [97], op := .exists, operand := .none }]
    search (addBatch (fun x => x) [] [r]) q = .hashes [] ∧ «matches» q (eventsOf r) = .ok true := by
  decide

/-- (4): range conditions on one key are merged into one interval: `a.n >= 1 AND a.n > 5` is
scanned as `a.n >= 5`, so a tx with `a.n = 5` is returned although it does not satisfy `a.n > 5`. -/
theorem search_range_merge_fails :
    let an : Str := [97, 46, 110]
    let r : TxResult := { height := 1, index := 0, tx := [1], events := [{ type := [97], attrs := [{ key := [110], value := [53], index := true }] }] }
    let q : Query := [{ key := an, op := .ge, operand := .int 1 }, { key := an, op := .gt, operand := .int 5 }]
    search (addBatch (fun x => x) [] [r]) q = .hashes [[1]] ∧ «matches» q (eventsOf r) = .ok false := by
  decide

/-- the block index's `block.height = H` shortcut ignores every other condition -/
theorem block_height_shortcut_fails :
    let q : Query := [{ key := BlockIndex.blockHeightKey, op := .eq, operand := .int 1 },
                      { key := [97, 46, 98], op := .exists, operand := .none }]
    (BlockIndex.index [] 1 [] []).map (fun db => BlockIndex.search db q) = some (.heights [1]) := by
  decide

/-- **What a subscriber is matched against and what the index is searched by are the same
attributes**: `validateAndStringifyEvents` (event bus) and `indexEvents` (tx index) flatten the
ABCI events in the same way — same skipping of empty types and empty keys, empty values kept —
and differ only by the `index` flag: when every attribute of a tx asks to be indexed, the two
attribute lists are equal.  (With `search_exact_clean` and `Query.Matches` on the published map,
a subscriber and a search with the same query — not mentioning `tm.event`/`tx.hash` — then agree
on that tx; the stream checks this agreement on the real EventBus and the real index.) -/
theorem bus_and_index_flatten_alike (r : TxResult)
    (hall : ∀ e ∈ r.events, ∀ a ∈ e.attrs, a.index = true) :
    EventBus.flatten r.events = indexedAttrs r := by
  unfold EventBus.flatten indexedAttrs
  generalize r.events = evs at hall
  induction evs with
  | nil => rfl
  | cons e rest ih =>
    simp only [List.flatMap_cons]
    rw [ih (fun e' he' => hall e' (List.mem_cons_of_mem _ he'))]
    congr 1
    split
    · rfl
    · have hfe := hall e List.mem_cons_self
      generalize e.attrs = as at hfe
      induction as with
      | nil => rfl
      | cons a rest' ih2 =>
        simp only [List.filterMap_cons, hfe a List.mem_cons_self, if_true]
        rw [ih2 (fun a' ha' => hfe a' (List.mem_cons_of_mem _ ha'))]

end index

/-! ## the indexer service: committed blocks arriving through the event bus -/
section service
open Tmv.Index Tmv.IndexerService
variable (H : Bytes → Bytes)

/-- **Every committed tx is indexed once under its height, position and events** — over histories
of service steps.  For EVERY sequence of committed blocks (0..n txs each, any begin/end events,
including blocks whose own events the block index rejects) whose tx results form a clean history:
after the service has processed them, `Get(hash)` returns each committed tx's result, each of its
secondary rows (indexed attributes and height) is present and points at it, no key of the tx
index occurs twice, and the tx index is exactly the one `search_exact_clean` speaks about
(`AddBatch` of all results in commit order) — in particular a rejected block never costs its txs
their index entries (the behaviour the seeded change C19-3 broke). -/
theorem service_indexes_every_tx (bs : List Block) (hc : CleanHist H (allResults bs))
    (b : Block) (hb : b ∈ bs) (r : TxResult) (hr : r ∈ blockResults b) :
    (run H {} bs).db = addBatch H [] (allResults bs) ∧
    Index.get (run H {} bs).db (H r.tx) = .found r ∧
    (∀ kv ∈ attrsAll r, dbGet (run H {} bs).db (keyForEvent kv.1 kv.2 r.height r.index)
        = some (.hash (H r.tx))) ∧
    ((run H {} bs).db.map (·.1)).Nodup := by
  have hdb : (run H {} bs).db = addBatch H [] (allResults bs) := run_db H {} bs
  have hmem : r ∈ allResults bs := by
    simp only [allResults, List.mem_flatMap]; exact ⟨b, hb, hr⟩
  rw [hdb]
  exact ⟨rfl, indexed_once_partial H (allResults bs) hc r hmem⟩

/-- **Every committed block is indexed once, or explicitly refused.**  For every history
`pre ++ b :: post` of committed blocks: if the block index accepts `b`'s events when `b` arrives,
`Has(b.height)` holds at the end of the history (later blocks never remove it); if it refuses
them (the reserved key `block.height` among the begin/end events), the block index is left
exactly as it was; and in every case no key of the block index occurs twice. -/
theorem service_indexes_every_block (pre post : List Block) (b : Block) :
    (accepted (run H {} pre) b = true →
        BlockIndex.has (run H {} (pre ++ b :: post)).bdb b.height = true) ∧
    (accepted (run H {} pre) b = false → (run H {} (pre ++ [b])).bdb = (run H {} pre).bdb) ∧
    ((run H {} (pre ++ b :: post)).bdb.map (·.1)).Nodup := by
  have hn0 : ((({} : IndexerService.State).bdb).map (·.1)).Nodup := by simp
  have hpre := run_bdb H {} pre hn0
  have hstep := step_bdb H (run H {} pre) b hpre.1
  have hsplit : run H {} (pre ++ b :: post) = run H (step H (run H {} pre) b) post := by
    rw [run_append]; rfl
  have hpost := run_bdb H (step H (run H {} pre) b) post hstep.1
  refine ⟨?_, ?_, ?_⟩
  · intro ha
    rw [hsplit]
    exact hpost.2 _ (hstep.2.2.1 ha)
  · intro ha
    have : run H {} (pre ++ [b]) = step H (run H {} pre) b := by rw [run_append]; rfl
    rw [this]
    exact hstep.2.2.2 ha
  · rw [hsplit]; exact hpost.1

/-- non-vacuity: a three-block history whose middle block is refused by the block index (its
BeginBlock events use the reserved key `block.height`): the middle block's tx is indexed all the
same, the block index knows heights 1 and 3 only -/
example :
    let ev : Event := { type := [97], attrs := [{ key := [98], value := [120], index := true }] }
    let bad : Event := { type := [98, 108, 111, 99, 107], attrs := [{ key := [104, 101, 105, 103, 104, 116], value := [49], index := true }] }
    let b1 : Block := { height := 1, beginEvents := [ev], endEvents := [], txs := [([1], [ev])] }
    let b2 : Block := { height := 2, beginEvents := [bad], endEvents := [], txs := [([2], [ev])] }
    let b3 : Block := { height := 3, beginEvents := [], endEvents := [ev], txs := [] }
    let s := run (fun x => x) {} [b1, b2, b3]
    CleanHist (fun x => x) (allResults [b1, b2, b3]) ∧
    accepted (run (fun x => x) {} [b1]) b2 = false ∧
    Index.get s.db [2] = .found { height := 2, index := 0, tx := [2], events := [ev] } ∧
    (BlockIndex.has s.bdb 1, BlockIndex.has s.bdb 2, BlockIndex.has s.bdb 3) = (true, false, true) := by
  refine ⟨by constructor <;> decide, by decide, by decide, by decide⟩

/-- **`Has` is exact** (block index, over the orderedcode tuple model): after any history of
committed blocks, `Has(x)` holds iff some block of height `x` was accepted by the block index
when it arrived. -/
theorem block_has_exact (bs : List Block) (x : Nat) :
    BlockIndex.has (run H {} bs).bdb x = true ↔
      ∃ pre b post, bs = pre ++ b :: post ∧ b.height = x ∧ accepted (run H {} pre) b = true := by
  have := run_has_iff H {} bs (by simp) x
  rw [this]
  constructor
  · rintro (h | h)
    · simp [BlockIndex.has] at h
    · exact h
  · intro h; exact Or.inr h

/-- **`Search` by height is exact** (block index): a query whose first `block.height = n`
condition has a numeric operand (whatever else it contains — see `block_height_shortcut_fails`)
and whose numbers fit int64 returns `[n]` iff a block of height `n` was accepted, `[]` otherwise. -/
theorem block_search_by_height (bs : List Block) (q : Query) (n : Nat)
    (hok : conditionsOK q = true) (hh : BlockIndex.lookForHeight q = some n) :
    BlockIndex.search (run H {} bs).bdb q =
      .heights (if BlockIndex.has (run H {} bs).bdb n then [n] else []) ∧
    (BlockIndex.has (run H {} bs).bdb n = true ↔
      ∃ pre b post, bs = pre ++ b :: post ∧ b.height = n ∧ accepted (run H {} pre) b = true) := by
  refine ⟨?_, block_has_exact H bs n⟩
  simp only [BlockIndex.search, hok, hh, Bool.not_true, Bool.false_eq_true, if_false]
  split <;> rfl

/-- **Block search exactness on clean input** (over the orderedcode tuple model: `orderedcode.Append`
assumed an injective, prefix-free, order-preserving tuple encoding).
For EVERY history of committed blocks in which accepted blocks have distinct heights, and EVERY
query satisfying `CleanQueryB` — any non-empty conjunction, in any order, of `k = 's'`, `k = n`,
`k EXISTS`, `k CONTAINS 's'` and range conditions (several keys, one- or two-sided, mixed with the
others; `block.height` itself under `EXISTS` and ranges) — `BlockerIndexer.Search` returns exactly
the heights of the accepted blocks whose event map (indexed BeginBlock/EndBlock attributes plus
`block.height`) satisfies `Query.Matches`, and returns them in strictly ASCENDING order (the
code's final `sort.Slice`), each once.
Excluded by `CleanQueryB`, as for the tx index: `EXISTS` on an undotted key, two bounds of one side
on a key or both bounds on a key with several values in one block, non-canonical decimals,
numbers beyond int64 and `k > MaxInt64`; specific to the block index: `block.height = n` (the
shortcut: `block_search_by_height`, `block_height_shortcut_fails`) and string conditions on
`block.height` (known finding `string-operand-on-block-height`); floats, TIME, DATE. No separator
exclusions are needed here: the keys are tuples. -/
theorem block_search_exact_clean (bs : List Block) (hd : BlockIndex.DistinctHeights bs)
    (q : Query) (hq : BlockIndex.CleanQueryB bs q) :
    ∃ hs, BlockIndex.search (run H {} bs).bdb q = .heights hs ∧ hs.Pairwise (· < ·) ∧
      ∀ x, x ∈ hs ↔ ∃ b ∈ bs, BlockIndex.acceptable b = true ∧ b.height = x ∧
        «matches» q (evOf (BlockIndex.attrsB b)) = .ok true := by
  rw [BlockIndex.run_bdb_eq]
  obtain ⟨L, eL, sL, mL⟩ := BlockIndex.search_clean_compute_B bs q hq
  refine ⟨L, eL, sL, ?_⟩
  intro x
  rw [mL]
  have hpart : ∀ (P : Cond → Prop), (∀ c ∈ q, P c) ↔ (∀ c ∈ rangeConds q, P c) ∧ (∀ c ∈ otherConds q, P c) := by
    intro P
    constructor
    · intro h
      exact ⟨fun c hc' => h c (List.mem_filter.mp hc').1, fun c hc' => h c (List.mem_filter.mp hc').1⟩
    · rintro ⟨h1, h2⟩ c hcq
      by_cases hr : isRangeOp c.op = true
      · exact h1 c (List.mem_filter.mpr ⟨hcq, hr⟩)
      · exact h2 c (List.mem_filter.mpr ⟨hcq, by simpa using hr⟩)
  have hper : ∀ b ∈ bs, BlockIndex.acceptable b = true →
      (((∀ W ∈ lookForRanges q, ∃ m, (W.key, dec m) ∈ BlockIndex.attrsB b ∧ inR W m = true) ∧
       (∀ c ∈ otherConds q, holdsA c (BlockIndex.attrsB b) = true)) ↔
      «matches» q (evOf (BlockIndex.attrsB b)) = .ok true) := by
    intro b hb ha
    have hne : ∃ kv, kv ∈ BlockIndex.attrsB b :=
      ⟨_, (BlockIndex.mem_attrsB b _).mpr (Or.inr rfl)⟩
    rw [matches_A q _ hne (fun c hc => (hq.conds c hc).1) (fun c hc => hq.canon c hc b hb ha), hpart]
    have spec := lookForRanges_spec q
    have hri := range_item q (fun c hc => (hq.conds c hc).1) hq.oneLower hq.oneUpper
      (BlockIndex.attrsB b) (fun c hc => hq.canon c hc b hb ha) (fun k h2 => hq.single k h2 b hb ha)
    constructor
    · rintro ⟨hR, hC⟩
      refine ⟨?_, hC⟩
      intro c hcr
      obtain ⟨W, hW, hk⟩ := spec.covers c hcr
      exact (hri W hW).mp (hR W hW) c hcr hk.symm
    · rintro ⟨hR, hC⟩
      exact ⟨fun W hW => (hri W hW).mpr (fun c hcr _ => hR c hcr), hC⟩
  constructor
  · rintro ⟨hR, hC⟩
    have hex : ∃ b ∈ bs, BlockIndex.acceptable b = true ∧ b.height = x := by
      obtain ⟨c0, hc0⟩ := List.exists_mem_of_ne_nil q hq.nonempty
      by_cases hr0 : isRangeOp c0.op = true
      · obtain ⟨W, hW, _⟩ := (lookForRanges_spec q).covers c0 (List.mem_filter.mpr ⟨hc0, hr0⟩)
        obtain ⟨b, hb, ha, hx, _⟩ := hR W hW
        exact ⟨b, hb, ha, hx⟩
      · obtain ⟨b, hb, ha, hx, _⟩ := hC c0 (List.mem_filter.mpr ⟨hc0, by simpa using hr0⟩)
        exact ⟨b, hb, ha, hx⟩
    obtain ⟨b, hb, ha, hx⟩ := hex
    refine ⟨b, hb, ha, hx, (hper b hb ha).mp ⟨?_, ?_⟩⟩
    · intro W hW
      obtain ⟨b', hb', ha', hx', h⟩ := hR W hW
      have : b' = b := hd b' hb' b hb ha' ha (hx'.trans hx.symm)
      rw [← this]; exact h
    · intro c hcq
      obtain ⟨b', hb', ha', hx', h⟩ := hC c hcq
      have : b' = b := hd b' hb' b hb ha' ha (hx'.trans hx.symm)
      rw [← this]; exact h
  · rintro ⟨b, hb, ha, hx, hm⟩
    obtain ⟨hR, hC⟩ := (hper b hb ha).mpr hm
    exact ⟨fun W hW => ⟨b, hb, ha, hx, hR W hW⟩, fun c hcq => ⟨b, hb, ha, hx, hC c hcq⟩⟩

/-- the hypotheses of `block_search_exact_clean` are satisfiable: three committed blocks, indexed
in the order 10, 9, 11, the last one refused by the block index; the query
`a.n >= 5 AND block.height <= 10` (values 105 and 5: different digit counts) returns the heights
in ascending order -/
example :
    let an : Str := [97, 46, 110]
    let ev : Str → Event := fun v => { type := [97], attrs := [{ key := [110], value := v, index := true }] }
    let bad : Event := { type := [98, 108, 111, 99, 107], attrs := [{ key := [104, 101, 105, 103, 104, 116], value := [49], index := false }] }
    let b10 : Block := { height := 10, beginEvents := [ev [49, 48, 53]], endEvents := [], txs := [] }
    let b9 : Block := { height := 9, beginEvents := [], endEvents := [ev [53]], txs := [] }
    let b11 : Block := { height := 11, beginEvents := [ev [55], bad], endEvents := [], txs := [] }
    let bs := [b10, b9, b11]
    let q : Query := [{ key := an, op := .ge, operand := .int 5 },
                      { key := BlockIndex.blockHeightKey, op := .le, operand := .int 10 }]
    BlockIndex.DistinctHeights bs ∧ BlockIndex.CleanQueryB bs q ∧
      BlockIndex.acceptable b11 = false ∧
      BlockIndex.search (run (fun x => x) {} bs).bdb q = .heights [9, 10] := by
  intro an ev bad b10 b9 b11 bs q
  refine ⟨by unfold BlockIndex.DistinctHeights; decide, ?_, by decide, by decide⟩
  have hrc : rangeConds q = q := by decide
  have hne : an ≠ BlockIndex.blockHeightKey := by decide
  have hcanon : ∀ b ∈ bs, BlockIndex.acceptable b = true → ∀ k, k = an ∨ k = BlockIndex.blockHeightKey →
      ∀ v ∈ valuesOf (BlockIndex.attrsB b) k, ∃ m, m ≤ maxInt64 ∧ v = dec m := by
    intro b hb ha k hk v hv
    simp only [bs, List.mem_cons, List.not_mem_nil, or_false] at hb
    rcases hb with rfl | rfl | rfl
    · rcases hk with rfl | rfl
      · have : valuesOf (BlockIndex.attrsB b10) an = [dec 105] := by decide
        rw [this] at hv; simp at hv; exact ⟨105, by decide, hv⟩
      · have : valuesOf (BlockIndex.attrsB b10) BlockIndex.blockHeightKey = [dec 10] := by decide
        rw [this] at hv; simp at hv; exact ⟨10, by decide, hv⟩
    · rcases hk with rfl | rfl
      · have : valuesOf (BlockIndex.attrsB b9) an = [dec 5] := by decide
        rw [this] at hv; simp at hv; exact ⟨5, by decide, hv⟩
      · have : valuesOf (BlockIndex.attrsB b9) BlockIndex.blockHeightKey = [dec 9] := by decide
        rw [this] at hv; simp at hv; exact ⟨9, by decide, hv⟩
    · have : BlockIndex.acceptable b11 = false := by decide
      rw [this] at ha; cases ha
  refine ⟨by decide, ?_, ?_, ?_, ?_, ?_⟩
  · intro c hc
    simp only [q, List.mem_cons, List.not_mem_nil, or_false] at hc
    rcases hc with rfl | rfl
    · exact ⟨Or.inr (Or.inr (Or.inr (Or.inr ⟨rfl, 5, rfl, by decide, by intro h; cases h⟩))),
        fun h => absurd h hne⟩
    · exact ⟨Or.inr (Or.inr (Or.inr (Or.inr ⟨rfl, 10, rfl, by decide, by intro h; cases h⟩))),
        fun _ => Or.inr rfl⟩
  · intro k; rw [hrc]
    have : (q.filter fun c => decide (c.key = k) && isLower c.op) =
        (q.filter fun c => isLower c.op).filter (fun c => decide (c.key = k)) := by rw [List.filter_filter]
    rw [this]
    exact Nat.le_trans (List.length_filter_le _ _) (by decide)
  · intro k; rw [hrc]
    have : (q.filter fun c => decide (c.key = k) && isUpper c.op) =
        (q.filter fun c => isUpper c.op).filter (fun c => decide (c.key = k)) := by rw [List.filter_filter]
    rw [this]
    exact Nat.le_trans (List.length_filter_le _ _) (by decide)
  · intro c hc b hb ha n hn v hv
    simp only [q, List.mem_cons, List.not_mem_nil, or_false] at hc
    rcases hc with rfl | rfl
    · exact hcanon b hb ha _ (Or.inl rfl) v hv
    · exact hcanon b hb ha _ (Or.inr rfl) v hv
  · intro k h2
    rw [hrc] at h2
    simp only [q, List.filter_cons, List.filter_nil] at h2
    by_cases h1 : an = k
    · have : ¬ BlockIndex.blockHeightKey = k := fun e => hne (h1.trans e.symm)
      simp [h1, this] at h2
    · by_cases h3 : BlockIndex.blockHeightKey = k
      · simp [h1, h3] at h2
      · simp [h1, h3] at h2

end service

end Tmv.Props.C19
