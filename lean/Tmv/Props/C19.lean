import Tmv.Lemmas.PubSub
import Tmv.Lemmas.Index
import Tmv.Model.BlockIndex
/-! # C19 — Subscribers get exactly their matching events; searches return exact matches
Property theorems only (pub/sub part).  The model is `Tmv.PubSub` (libs/pubsub as repaired by the
`fix:` commit), histories are arbitrary lists of the command loop's atomic steps. -/
namespace Tmv.Props.C19
open Tmv Tmv.Query Tmv.PubSub

deriving instance DecidableEq for Except

/-- the answers client `c` gets to its own commands (subscribe / unsubscribe / read results) -/
def answers (c : Str) : State → List PsOp → List Out
  | _, [] => []
  | s, o :: rest => (if ownOp c o then [(step s o).2] else []) ++ answers c (step s o).1 rest

/-- **Isolation (state).** What the server holds for client `c` after any history — its
registrations, its subscription objects with their buffers and cancellation reasons — is what it
would hold had only `c`'s own commands and the publications happened. -/
theorem view_run (c : Str) (s : State) (ops : List PsOp) :
    viewS c (run s ops) = run (viewS c s) (ops.filter (relevant c)) := by
  induction ops generalizing s with
  | nil => rfl
  | cons o rest ih =>
    by_cases h : relevant c o = true
    · simp only [run, List.filter_cons, h, if_true]
      rw [ih, (step_relevant c s o h).1]
    · have h' : relevant c o = false := by simpa using h
      simp only [run, List.filter_cons, h', Bool.false_eq_true, if_false]
      rw [ih, step_irrelevant c s o h']

/-- **Isolation (observations).** The sequence of answers `c` receives (every message id read,
every `empty`, every cancellation reason, every subscribe/unsubscribe verdict) is the sequence it
would receive had the other clients never issued a command. -/
theorem answers_run (c : Str) (s : State) (ops : List PsOp) :
    answers c s ops = answers c (viewS c s) (ops.filter (relevant c)) := by
  induction ops generalizing s with
  | nil => rfl
  | cons o rest ih =>
    by_cases h : relevant c o = true
    · have hs := step_relevant c s o h
      simp only [answers, List.filter_cons, h, if_true]
      rw [ih, hs.1]
      by_cases ho : ownOp c o = true
      · simp only [ho, if_true]; rw [hs.2 ho]
      · simp [ho]
    · have h' : relevant c o = false := by simpa using h
      have ho : ownOp c o = false := by
        cases o <;> simp_all [ownOp, relevant]
      simp only [answers, List.filter_cons, h', ho, Bool.false_eq_true, if_false, List.nil_append]
      rw [ih, step_irrelevant c s o h']

/-- **Isolation.** Two histories that agree on `c`'s own commands and on the publications — and
differ arbitrarily in what other clients subscribe to (including queries whose comparisons do not
fit the events), in their capacities and in how they read — give `c` the same answers and leave
the same state for `c`. -/
theorem isolation (c : Str) (ops₁ ops₂ : List PsOp)
    (h : ops₁.filter (relevant c) = ops₂.filter (relevant c)) :
    answers c State.init ops₁ = answers c State.init ops₂ ∧
    viewS c (run State.init ops₁) = viewS c (run State.init ops₂) := by
  rw [answers_run, answers_run c _ ops₂, view_run, view_run c _ ops₂, h]
  exact ⟨rfl, rfl⟩

/-- non-vacuity of `isolation`: the scenario of the repaired defect — another client whose query
compares `acc.n` numerically while the event carries a non-numeric value -/
example :
    let q1 : Str := [1]; let q2 : Str := [2]; let c1 : Str := [1]; let c2 : Str := [2]
    let key : Str := [97]
    let ill : Query := [{ key := key, op := .ge, operand := .int 100 }]
    let ok : Query := [{ key := key, op := .exists, operand := .none }]
    let ev : Events := [(key, [[120]])]
    answers c1 State.init [.sub c2 q2 ill 1, .sub c1 q1 ok 1, .pub (8, ev), .read c1 q1]
      = [.ok, .msg 8] ∧
    answers c1 State.init [.sub c1 q1 ok 1, .pub (8, ev), .read c1 q1] = [.ok, .msg 8] := by
  decide

/-! ### every matching event once, in publication order, or an explicit cancellation -/

/-- Follow the subscription object created by a successful `Subscribe(c, q, cap)` through ANY
later history in which `c` does not subscribe to `q` again (other clients do what they like; `c`
may read, unsubscribe, subscribe to other queries).  At the end the object exists, and what the
client has received from it followed by what is still buffered is a prefix — without gaps,
repetitions or reordering — of the publications its own query matches; it is ALL of them while
the subscription is active, and otherwise the object carries an explicit cancellation reason
(`Status.cancelled r`: unsubscribed by the client itself, or out of capacity). -/
theorem once_in_order_or_cancelled (s : State) (c q : Str) (ast : Query) (cap : Nat)
    (post : List PsOp)
    (hsub : (step s (.sub c q ast cap)).2 = .ok)
    (hpost : ∀ o ∈ post, isSub c q o = false) :
    ∃ r, (run (step s (.sub c q ast cap)).1 post).recs.filter (·.isFor c q) = [r] ∧
      r.query = ast ∧
      r.content <+: owed ast post ∧
      (r.status = .active → r.content = owed ast post) ∧
      (r.status ≠ .active → ∃ why, r.status = .cancelled why) := by
  -- the fresh record is the only one of the pair
  have h0 : ∃ r0, (step s (.sub c q ast cap)).1.recs.filter (·.isFor c q) = [r0] ∧
      r0.query = ast ∧ r0.content = [] ∧ r0.status = .active := by
    simp only [step] at hsub ⊢
    split at hsub
    · cases hsub
    · rename_i hreg
      simp only [hreg, if_false, Bool.false_eq_true]
      refine ⟨{ client := c, qstr := q, query := ast, cap := cap, queue := [], taken := [],
                status := .active }, ?_, rfl, rfl, rfl⟩
      simp only [List.filter_append, List.filter_filter]
      have : List.filter (fun x : Rec => x.isFor c q && !x.isFor c q) s.recs = [] := by
        apply List.filter_eq_nil_iff.mpr
        intro x _; simp
      rw [this]
      simp [Rec.isFor]
  obtain ⟨r0, hf0, hq0, hc0, ha0⟩ := h0
  -- generalised invariant
  have key : ∀ (post : List PsOp) (s : State) (r : Rec),
      s.recs.filter (·.isFor c q) = [r] → (∀ o ∈ post, isSub c q o = false) →
      ∃ r' l, (run s post).recs.filter (·.isFor c q) = [r'] ∧ r'.query = r.query ∧
        l <+: owed r.query post ∧ r'.content = r.content ++ l ∧
        (r'.status = .active → l = owed r.query post) ∧
        (r.status ≠ .active → l = [] ∧ r'.status ≠ .active) := by
    intro post
    induction post with
    | nil =>
      intro s r hf _
      exact ⟨r, [], hf, rfl, List.prefix_refl _, by simp, fun _ => rfl, fun h => ⟨rfl, h⟩⟩
    | cons o rest ih =>
      intro s r hf hp
      obtain ⟨r1, hf1, hq1, hstep, hna1⟩ :=
        step_rec c q s r o hf (hp o (List.mem_cons_self))
      obtain ⟨r', l, hf', hq', hl, hc', hact, hnact⟩ :=
        ih (step s o).1 r1 hf1 (fun o' ho' => hp o' (List.mem_cons_of_mem _ ho'))
      have howed : owed r.query (o :: rest) = owed r.query [o] ++ owed r.query rest := by
        cases o <;> simp only [owed] <;> try rfl
        split <;> simp
      rw [hq1] at hl hact
      rcases hstep with ⟨hra, hcont⟩ | ⟨hr1na, hcont⟩
      · refine ⟨r', owed r.query [o] ++ l, hf', hq'.trans hq1, ?_, ?_, ?_, fun h => absurd hra h⟩
        · rw [howed]; exact (List.prefix_append_right_inj _).mpr hl
        · rw [hc', hcont, List.append_assoc]
        · intro h; rw [howed, hact h]
      · obtain ⟨hl0, hr'na⟩ := hnact hr1na
        refine ⟨r', [], hf', hq'.trans hq1, List.nil_prefix, ?_, fun h => absurd h hr'na,
          fun _ => ⟨rfl, hr'na⟩⟩
        rw [hc', hcont, hl0]
  obtain ⟨r', l, hf', hq', hl, hc', hact, _⟩ := key post _ r0 hf0 hpost
  rw [hq0] at hq' hl hact
  refine ⟨r', hf', hq', ?_, ?_, ?_⟩
  · rw [hc', hc0]; simpa using hl
  · intro h; rw [hc', hc0, hact h]; rfl
  · intro h
    cases hs : r'.status with
    | active => exact absurd hs h
    | cancelled why => exact ⟨why, rfl⟩

/-- the hypotheses of `once_in_order_or_cancelled` are satisfiable, and both outcomes occur: with
capacity 1 and two matching publications before any read the subscription ends up cancelled
(out of capacity) holding the first message only; with a read in between it stays active and holds
both in order. -/
example :
    let c : Str := [1]; let q : Str := [2]; let key : Str := [97, 46, 98]
    let ast : Query := [{ key := key, op := .exists, operand := .none }]
    let ev : Events := [(key, [[120]])]
    let slow : List PsOp := [.pub (1, ev), .sub [9] q ast 0, .pub (2, ev), .read c q]
    let fast : List PsOp := [.pub (1, ev), .read c q, .pub (2, ev)]
    (step State.init (.sub c q ast 1)).2 = .ok ∧ (∀ o ∈ slow, isSub c q o = false) ∧
    (∀ o ∈ fast, isSub c q o = false) ∧
    ((run (step State.init (.sub c q ast 1)).1 slow).recs.filter (·.isFor c q)).map
        (fun r => (r.content.map (·.1), r.status)) = [([1], .cancelled .outOfCapacity)] ∧
    ((run (step State.init (.sub c q ast 1)).1 fast).recs.filter (·.isFor c q)).map
        (fun r => (r.content.map (·.1), r.status)) = [([1, 2], .active)] := by
  decide

/-! ## the kv tx index -/
section index
open Tmv.Index
variable (H : Bytes → Bytes)

/-- **Indexed once, under height, position and events** (partial: needs `CleanHist` — distinct tx
hashes, distinct positions, no '/' in indexed keys/values nor in the hash bytes; the first is
violated by the known finding `txindex.duplicate-tx-overwritten`, the third by
`txindex.Search.separator-in-key-or-value`).  After indexing ANY clean history (batches in any
grouping, replays of the same result allowed): `Get(hash)` returns the result itself, every
secondary row of the result (one per indexed attribute, one for the height) is present and points
at its hash, and no key occurs twice in the database. -/
theorem indexed_once_partial (hist : List TxResult) (hc : CleanHist H hist) (r : TxResult)
    (hr : r ∈ hist) :
    Index.get (addBatch H [] hist) (H r.tx) = .found r ∧
    (∀ kv ∈ attrsAll r, dbGet (addBatch H [] hist) (keyForEvent kv.1 kv.2 r.height r.index)
        = some (.hash (H r.tx))) ∧
    ((addBatch H [] hist).map (·.1)).Nodup := by
  refine ⟨?_, ?_, db_keys_nodup H hist⟩
  · have hm : (H r.tx, Val.result r) ∈ hist.flatMap (rowsOf H) := by
      simp only [List.mem_flatMap]; exact ⟨r, hr, by simp [rowsOf]⟩
    have := dbGet_of_mem H hc _ hm
    have hne : (H r.tx).isEmpty = false := by
      cases h : H r.tx with
      | nil => exact absurd h (hc.hashNonempty r hr)
      | cons _ _ => rfl
    simp only [Index.get, hne, Bool.false_eq_true, if_false]
    simp only at this
    rw [this]
  · intro kv hkv
    have hm : secRow H r kv ∈ hist.flatMap (rowsOf H) := by
      simp only [List.mem_flatMap]
      exact ⟨r, hr, by simp only [rowsOf, List.mem_append, List.mem_map]; exact Or.inl ⟨kv, hkv, rfl⟩⟩
    exact dbGet_of_mem H hc _ hm

/-- the hypotheses of `indexed_once_partial` are satisfiable by a non-trivial history -/
example : CleanHist (fun x => x)
    [{ height := 1, index := 0, tx := [1], events := [{ type := [97], attrs := [{ key := [98], value := [120], index := true }] }] },
     { height := 1, index := 1, tx := [2], events := [] }] := by
  constructor <;> decide

/-- `indexed_once` at full strength is false of the code: the same tx bytes committed at two
heights leave only the later record retrievable. -/
theorem indexed_once_fails_on_duplicate :
    let r1 : TxResult := { height := 1, index := 0, tx := [1], events := [] }
    let r2 : TxResult := { height := 2, index := 0, tx := [1], events := [] }
    Index.get (addBatch (fun x => x) [] [r1, r2]) [1] = .found r2 ∧ r1 ≠ r2 := by
  decide

/-- the query class of `search_exact_partial`: a non-empty conjunction of `k = 's'`, `k = n`
(`k` other than `tx.height`), `k EXISTS` (dotted key) and `k CONTAINS 's'` conditions
(`Index.StrCond`: no separator in keys / equality operands, key other than `tx.hash`) -/
def StrQuery (q : Query) : Prop := q ≠ [] ∧ ∀ c ∈ q, StrCond c

/-- values compared numerically by the query are canonical decimals within int64 in every indexed
result (violated by the known finding `txindex.Search.noncanonical-number-value`) -/
def NumClean (hist : List TxResult) (q : Query) : Prop :=
  ∀ c ∈ q, ∀ n, c.operand = .int n → ∀ r ∈ hist, ∀ kv ∈ attrsAll r, kv.1 = c.key →
    ∃ m, m ≤ maxInt64 ∧ kv.2 = dec m

/-- **Search exactness** (partial).  For every clean history (`CleanHist`) and every query of the
class `StrQuery` whose numerically compared values are canonical (`NumClean`), `Search` succeeds
and returns exactly the hashes of the indexed txs whose event map (indexed attributes plus
`tx.height`) satisfies the query in the sense of `Query.Matches` — no indexed tx that satisfies it
is missing, nothing else is returned.
Missing for the full statement: range conditions and the `tx.height = n` narrowing (tied to the
code by the correspondence stream only), and the inputs on which the code is NOT exact (listed as
known findings with their own witnesses below). -/
theorem search_exact_partial (hist : List TxResult) (hc : CleanHist H hist) (q : Query)
    (hq : StrQuery q) (hnum : NumClean hist q) :
    ∃ hs, search (addBatch H [] hist) q = .hashes hs ∧
      ∀ x, x ∈ hs ↔ ∃ r ∈ hist, H r.tx = x ∧ «matches» q (eventsOf r) = .ok true := by
  obtain ⟨hne, hcs⟩ := hq
  -- the shape of a condition of the class
  have shape : ∀ c ∈ q, isRangeOp c.op = false ∧
      (operandNat c.operand = none ∨ ((∃ n, c.operand = .int n ∧ n ≤ maxInt64) ∧ c.key ≠ txHeightKey)) ∧
      c.key ≠ txHashKey := by
    intro c hcq
    obtain ⟨_, hk, h⟩ := hcs c hcq
    rcases h with ⟨hop, s, hs, _⟩ | ⟨hop, hn, _⟩ | ⟨hop, s, hs⟩ | ⟨hop, n, hn, hle, hkh⟩
    · exact ⟨by rw [hop]; rfl, Or.inl (by rw [hs]; rfl), hk⟩
    · exact ⟨by rw [hop]; rfl, Or.inl (by rw [hn]; rfl), hk⟩
    · exact ⟨by rw [hop]; rfl, Or.inl (by rw [hs]; rfl), hk⟩
    · exact ⟨by rw [hop]; rfl, Or.inr ⟨⟨n, hn, hle⟩, hkh⟩, hk⟩
  have h1 : conditionsOK q = true := by
    simp only [conditionsOK, List.all_eq_true]
    intro c hcq
    rcases (shape c hcq).2.1 with h | ⟨⟨n, hn, hle⟩, _⟩
    · cases ho : c.operand <;> simp_all [operandNat]
    · simp [hn, hle]
  have h2 : lookForHash q = none := by
    simp only [lookForHash, List.findSome?_eq_none_iff]
    intro c hcq
    have := (shape c hcq).2.2
    simp [this]
  have h3 : q.filter (fun c => isRangeOp c.op) = [] := by
    apply List.filter_eq_nil_iff.mpr
    intro c hcq; simp [(shape c hcq).1]
  have h4 : lookForHeight q = none := by
    simp only [lookForHeight, List.findSome?_eq_none_iff]
    intro c hcq
    rcases (shape c hcq).2.1 with h | ⟨_, hkh⟩
    · simp [h]
    · simp [hkh]
  have h5 : q.filter (fun c => !isRangeOp c.op) = q := by
    apply List.filter_eq_self.mpr
    intro c hcq; simp [(shape c hcq).1]
  -- per-condition exactness
  let S : Cond → List Bytes := fun c => (hist.filter (condHolds c)).map (fun r => H r.tx)
  have hS : ∀ c ∈ q, ∃ rows, condRows (addBatch H [] hist) c 0 = some rows ∧
      ∃ hs, valHashes rows = some hs ∧ ∀ x, x ∈ hs ↔ x ∈ S c := by
    intro c hcq
    obtain ⟨rows, e, hm⟩ := condRows_strCond H hc c (hcs c hcq)
    refine ⟨rows, e, ?_⟩
    obtain ⟨hs, ev, hmem⟩ := valHashes_all_hash rows (by
      intro row hrow
      obtain ⟨r, _, kv, _, _, _, rfl⟩ := (hm row).mp hrow
      exact ⟨_, rfl⟩)
    refine ⟨hs, ev, ?_⟩
    intro x
    rw [hmem]
    simp only [S, List.mem_map, List.mem_filter]
    constructor
    · rintro ⟨row, hrow, hx⟩
      obtain ⟨r, hr, kv, hkv, hk, ht, rfl⟩ := (hm row).mp hrow
      simp only [secRow, Val.hash.injEq] at hx
      exact ⟨r, ⟨hr, (condHolds_iff c r).mpr ⟨kv, hkv, hk, ht⟩⟩, hx⟩
    · rintro ⟨r, ⟨hr, hh⟩, hx⟩
      obtain ⟨kv, hkv, hk, ht⟩ := (condHolds_iff c r).mp hh
      exact ⟨secRow H r kv, (hm _).mpr ⟨r, hr, kv, hkv, hk, ht, rfl⟩, by simp [secRow, hx]⟩
  obtain ⟨L, eL, mL⟩ := fold_scan_first (addBatch H [] hist) q hne S hS
  refine ⟨L, ?_, ?_⟩
  · simp only [search, h1, h2, h4, h5, lookForRanges, h3, List.foldl_nil, Bool.not_true,
      Bool.false_eq_true, if_false, Option.getD_none, eL]
  · intro x
    rw [mL]
    have hmatch : ∀ r ∈ hist, («matches» q (eventsOf r) = .ok true ↔ ∀ c ∈ q, condHolds c r = true) := by
      intro r hr
      have hcan : ∀ c ∈ q, ∀ n, c.operand = .int n →
          ∀ v ∈ valuesOf (attrsAll r) c.key, ∃ m, m ≤ maxInt64 ∧ v = dec m := by
        intro c hcq n hn v hv
        exact hnum c hcq n hn r hr (c.key, v) ((mem_valuesOf _ _ _).mp hv) rfl
      simp only [«matches», eventsOf_nonempty, Bool.false_eq_true, if_false,
        matchConds_all q r hcs hcan]
      constructor
      · intro h; injection h with h; exact List.all_eq_true.mp h
      · intro h; rw [List.all_eq_true.mpr h]
    constructor
    · intro hall
      obtain ⟨c0, hc0⟩ := List.exists_mem_of_ne_nil q hne
      have := hall c0 hc0
      simp only [S, List.mem_map, List.mem_filter] at this
      obtain ⟨r, ⟨hr, _⟩, hx⟩ := this
      refine ⟨r, hr, hx, (hmatch r hr).mpr ?_⟩
      intro c hcq
      have := hall c hcq
      simp only [S, List.mem_map, List.mem_filter] at this
      obtain ⟨r', ⟨hr', hh'⟩, hx'⟩ := this
      have : r' = r := hc.hashInj r' hr' r hr (hx'.trans hx.symm)
      rw [← this]; exact hh'
    · rintro ⟨r, hr, hx, hm⟩ c hcq
      simp only [S, List.mem_map, List.mem_filter]
      exact ⟨r, ⟨hr, (hmatch r hr).mp hm c hcq⟩, hx⟩

/-- **Range exactness** (partial).  For every clean history, every key `k` whose indexed values
are canonical decimals within int64 (`CanonKey`) with at most one value per tx, and every
two-sided window `k >(=) a AND k <(=) b` (either order of the two conditions, inclusive or
exclusive bounds): `Search` returns exactly the hashes of the indexed txs whose events satisfy the
query — whatever the numbers of digits of the values, i.e. although the scan walks the keys in
lexicographic order of their decimal text (this is what a "stop at the first value above the upper
bound" scan gets wrong).  `k` may be `tx.height`: height windows are covered.
Missing for the full statement: several range keys in one query, ranges combined with other
conditions, one-sided ranges (stream only); multi-valued attributes and two bounds of the same
side are known findings (`range-conditions-merged-per-key`, witness `search_range_merge_fails`). -/
theorem search_range_exact_partial (hist : List TxResult) (hc : CleanHist H hist)
    (k : Str) (hk : sep ∉ k) (hkh : k ≠ txHashKey)
    (a b : Nat) (incA incB : Bool) (ha : a ≤ maxInt64) (hb : b ≤ maxInt64)
    (hax : incA = false → a < maxInt64)
    (hcan : CanonKey hist k)
    (hsingle : ∀ r ∈ hist, (valuesOf (attrsAll r) k).length ≤ 1)
    (q : Query)
    (hq : q = [loCond k a incA, hiCond k b incB] ∨ q = [hiCond k b incB, loCond k a incA]) :
    ∃ hs, search (addBatch H [] hist) q = .hashes hs ∧
      ∀ x, x ∈ hs ↔ ∃ r ∈ hist, H r.tx = x ∧ «matches» q (eventsOf r) = .ok true := by
  let W := window k a incA b incB
  have hrows := mem_rangeRows H hc W hk hcan
  obtain ⟨hs0, ev, hmem⟩ := valHashes_all_hash (rangeRows (addBatch H [] hist) W) (by
    intro row hrow
    obtain ⟨rr, _, kv, _, _, _, rfl⟩ := (hrows row).mp hrow
    exact ⟨_, rfl⟩)
  have shape : conditionsOK q = true ∧ lookForHash q = none ∧ lookForRanges q = [W] ∧
      lookForHeight q = none ∧ q.filter (fun c => !isRangeOp c.op) = [] := by
    rcases hq with rfl | rfl
    · refine ⟨?_, ?_, (lookForRanges_lo_hi k a incA b incB).1, ?_, ?_⟩ <;>
        cases incA <;> cases incB <;>
        simp [conditionsOK, lookForHash, lookForHeight, loCond, hiCond, isRangeOp, ha, hb, hkh]
    · refine ⟨?_, ?_, (lookForRanges_lo_hi k a incA b incB).2, ?_, ?_⟩ <;>
        cases incA <;> cases incB <;>
        simp [conditionsOK, lookForHash, lookForHeight, loCond, hiCond, isRangeOp, ha, hb, hkh]
  obtain ⟨h1, h2, h3, h4, h5⟩ := shape
  obtain ⟨L, eL, mL⟩ := search_single_range (addBatch H [] hist) q W hs0 h1 h2 h3 h4 h5 ev
  refine ⟨L, eL, ?_⟩
  intro x
  rw [mL, hmem]
  have hmatch : ∀ r ∈ hist, («matches» q (eventsOf r) = .ok true ↔
      ∃ m, (k, dec m) ∈ attrsAll r ∧ inR W m = true) := by
    intro r hr
    have hcanr : ∀ v ∈ valuesOf (attrsAll r) k, ∃ m, m ≤ maxInt64 ∧ v = dec m := by
      intro v hv
      exact hcan r hr (k, v) ((mem_valuesOf _ _ _).mp hv) rfl
    have := matches_window k a incA b incB ha hb hax r hcanr (hsingle r hr)
    rcases hq with rfl | rfl
    · exact this.1
    · exact this.2
  constructor
  · rintro ⟨row, hrow, hx⟩
    obtain ⟨rr, hrr, kv, hkv, hk1, ⟨m, hv, hin⟩, rfl⟩ := (hrows row).mp hrow
    simp only [secRow, Val.hash.injEq] at hx
    refine ⟨rr, hrr, hx, (hmatch rr hrr).mpr ⟨m, ?_, hin⟩⟩
    have : kv = (k, dec m) := Prod.ext hk1 hv
    rw [← this]; exact hkv
  · rintro ⟨r, hr, hx, hm⟩
    obtain ⟨m, hkv, hin⟩ := (hmatch r hr).mp hm
    exact ⟨secRow H r (k, dec m), (hrows _).mpr ⟨r, hr, (k, dec m), hkv, rfl, ⟨m, rfl, hin⟩, rfl⟩,
      by simp [secRow, hx]⟩

/-- the hypotheses of `search_range_exact_partial` are satisfiable, with values of 1, 2 and 3
digits under the key: the window `5 <= a.n < 100` returns the txs carrying 5 and 25, not 105 —
although `a.n/105/…` sorts before `a.n/25/…` and `a.n/5/…` in the index -/
example :
    let an : Str := [97, 46, 110]
    let mk : Nat → Nat → Bytes → Str → TxResult := fun h i tx v =>
      { height := h, index := i, tx := tx, events := [{ type := [97], attrs := [{ key := [110], value := v, index := true }] }] }
    let hist : List TxResult := [mk 9 0 [1] [53], mk 10 0 [2] [49, 48, 53], mk 11 0 [3] [50, 53]]
    CleanHist (fun x => x) hist ∧ (∀ r ∈ hist, (valuesOf (attrsAll r) an).length ≤ 1) ∧
    search (addBatch (fun x => x) [] hist) [loCond an 5 true, hiCond an 100 false] = .hashes [[1], [3]] := by
  refine ⟨by constructor <;> decide, by decide, by decide⟩

/-- the hypotheses of `search_exact_partial` are satisfiable: a clean two-tx history and a
four-condition query of the class (with a numeric equality on canonical values); the search
really returns a hit -/
example :
    let ab : Str := [97, 46, 98]; let an : Str := [97, 46, 110]
    let hist : List TxResult :=
      [{ height := 1, index := 0, tx := [1], events := [{ type := [97], attrs := [{ key := [98], value := [120, 121], index := true }, { key := [110], value := [52, 50], index := true }] }] },
       { height := 1, index := 1, tx := [2], events := [] }]
    let q : Query := [{ key := ab, op := .eq, operand := .str [120, 121] }, { key := ab, op := .exists, operand := .none },
                      { key := ab, op := .contains, operand := .str [121] }, { key := an, op := .eq, operand := .int 42 }]
    CleanHist (fun x => x) hist ∧ StrQuery q ∧ NumClean hist q ∧
      search (addBatch (fun x => x) [] hist) q = .hashes [[1]] := by
  refine ⟨by constructor <;> decide, ⟨by decide, ?_⟩, ?_, by decide⟩
  · intro c hc
    simp only [List.mem_cons, List.not_mem_nil, or_false] at hc
    rcases hc with rfl | rfl | rfl | rfl
    · exact ⟨by decide, by decide, Or.inl ⟨rfl, _, rfl, by decide⟩⟩
    · exact ⟨by decide, by decide, Or.inr (Or.inl ⟨rfl, rfl, by decide⟩)⟩
    · exact ⟨by decide, by decide, Or.inr (Or.inr (Or.inl ⟨rfl, _, rfl⟩))⟩
    · exact ⟨by decide, by decide, Or.inr (Or.inr (Or.inr ⟨rfl, _, rfl, by decide, by decide⟩))⟩
  · intro c hc n hn r hr kv hkv hk
    simp only [List.mem_cons, List.not_mem_nil, or_false] at hc hr
    rcases hc with rfl | rfl | rfl | rfl <;> simp at hn
    subst hn
    rcases hr with rfl | rfl
    · have : kv = ([97, 46, 110], [52, 50]) := by
        have hkv' : kv ∈ [(([97, 46, 98] : Str), ([120, 121] : Str)), ([97, 46, 110], [52, 50]), (txHeightKey, dec 1)] := hkv
        simp only [List.mem_cons, List.not_mem_nil, or_false] at hkv'
        rcases hkv' with rfl | rfl | rfl
        · exact absurd hk (by decide)
        · rfl
        · exact absurd hk (by decide)
      subst this
      exact ⟨42, by decide, by decide⟩
    · have hkv' : kv ∈ [(txHeightKey, dec 1)] := hkv
      simp only [List.mem_cons, List.not_mem_nil, or_false] at hkv'
      subst hkv'
      exact absurd hk (by decide)

/-- `search_exact` at full strength is false of the code (1): a value containing the separator.
The tx carries `a.b = "x/1"`; the query `a.b = 'x'` does not match its events, yet `Search`
returns it (prefix `a.b/x/` of the row `a.b/x/1/1/0`). -/
theorem search_exact_fails_on_separator :
    let ab : Str := [97, 46, 98]
    let r : TxResult := { height := 1, index := 0, tx := [1], events := [{ type := [97], attrs := [{ key := [98], value := [120, 47, 49], index := true }] }] }
    let q : Query := [{ key := ab, op := .eq, operand := .str [120] }]
    search (addBatch (fun x => x) [] [r]) q = .hashes [[1]] ∧ «matches» q (eventsOf r) = .ok false := by
  decide

/-- (2): the `tx.hash` shortcut ignores every other condition: the tx sits at height 1, the query
asks for height 7 as well, `Search` still returns it.  (`tx.hash` is hex: "01" = [48, 49].) -/
theorem search_hash_shortcut_fails :
    let r : TxResult := { height := 1, index := 0, tx := [1], events := [] }
    let q : Query := [{ key := txHashKey, op := .eq, operand := .str [48, 49] },
                      { key := txHeightKey, op := .eq, operand := .int 7 }]
    search (addBatch (fun x => x) [] [r]) q = .hashes [[1]] ∧ «matches» q (eventsOf r) = .ok false := by
  decide

/-- (3): `k EXISTS` with an undotted key is a prefix test on composite keys for `Matches` and an
exact-key scan for the index. -/
theorem search_exists_undotted_fails :
    let r : TxResult := { height := 1, index := 0, tx := [1], events := [{ type := [97], attrs := [{ key := [98], value := [120], index := true }] }] }
    let q : Query := [{ key := [97], op := .exists, operand := .none }]
    search (addBatch (fun x => x) [] [r]) q = .hashes [] ∧ «matches» q (eventsOf r) = .ok true := by
  decide

/-- (4): range conditions on one key are merged into one interval: `a.n >= 1 AND a.n > 5` is
scanned as `a.n >= 5`, so a tx with `a.n = 5` is returned although it does not satisfy `a.n > 5`. -/
theorem search_range_merge_fails :
    let an : Str := [97, 46, 110]
    let r : TxResult := { height := 1, index := 0, tx := [1], events := [{ type := [97], attrs := [{ key := [110], value := [53], index := true }] }] }
    let q : Query := [{ key := an, op := .ge, operand := .int 1 }, { key := an, op := .gt, operand := .int 5 }]
    search (addBatch (fun x => x) [] [r]) q = .hashes [[1]] ∧ «matches» q (eventsOf r) = .ok false := by
  decide

/-- the block index's `block.height = H` shortcut ignores every other condition -/
theorem block_height_shortcut_fails :
    let q : Query := [{ key := BlockIndex.blockHeightKey, op := .eq, operand := .int 1 },
                      { key := [97, 46, 98], op := .exists, operand := .none }]
    (BlockIndex.index [] 1 [] []).map (fun db => BlockIndex.search db q) = some (.heights [1]) := by
  decide

end index

end Tmv.Props.C19
