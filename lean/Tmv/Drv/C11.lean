import Tmv.Drv.Core
import Tmv.Model.Evidence
/-! Line-protocol driver for C11 (evidence pool). The hash / size / signature / light-client-attack
verdict parameters of the model are instantiated by tables filled from the `ev` definition lines. -/
namespace Tmv.Drv.C11
open Tmv Tmv.Evidence

/-- key identity of an 8-hex-digit address token -/
def keyOfTok (s : String) : Option Nat :=
  if s.length = 8 then (ofHex s).map (fun b => b.foldl (fun a x => a * 256 + x.toNat) 0) else none

def keyTokBytes : Nat → Nat → Bytes
  | 0, _ => []
  | k+1, n => keyTokBytes k (n / 256) ++ [UInt8.ofNat (n % 256)]

def keyTok (k : Nat) : String := toHex (keyTokBytes 4 k)

structure EvDef where
  id : String
  ev : Ev
  hash : Nat
  sz : Nat
  vb : Bool

structure St where
  A : Int := 0
  D : Int := 0
  blocks : List Block := []
  defs : List EvDef := []
  sigs : List (String × Vote × Bool) := []
  sys : Option Sys := none
  ab : Bool := false        -- `ctx … mode=ab`: the chain is applied by ApplyBlock (apply / abrestart)

def St.ctx (s : St) : Ctx :=
  { blocks := s.blocks, maxAgeBlocks := s.A, maxAgeDur := s.D,
    H := fun e => match s.defs.find? (fun d => d.ev = e) with | some d => d.hash | none => 0,
    S := fun e => match s.defs.find? (fun d => d.ev = e) with | some d => d.sz | none => 0,
    sigOK := fun pk v => match s.sigs.find? (fun x => x.1 = pk ∧ x.2.1 = v) with
      | some x => x.2.2 | none => false,
    chainID := "c11-chain",
    -- ideal signatures: the token `s<key>` verifies under exactly that key (the Go side derives the
    -- token from real ed25519 verification of the slot's sign bytes)
    csigOK := fun key _ sig => sig = "s" ++ keyTok key }

def parseBool (s : String) : Option Bool :=
  if s = "1" then some true else if s = "0" then some false else none

def parseVote (s : String) : Option Vote :=
  match s.splitOn "/" with
  | [h, r, t, addr, bid, ts, idx, sig] => do
    let _ ← keyOfTok addr
    pure { height := ← h.toInt?, round := ← r.toInt?, typ := ← t.toInt?, addr := addr,
           bid := ← bid.toInt?, ts := ← ts.toInt?, idx := ← idx.toInt?, sig := sig }
  | _ => none

def parseVal (s : String) : Option Validator :=
  match s.splitOn ":" with
  | [a, p, pk] => do
    let _ ← keyOfTok a
    pure { addr := a, power := ← p.toInt?, pkAddr := pk, key := ← keyOfTok pk }
  | _ => none

def parseDerived (s : String) : Option Derived :=
  match s.splitOn "." with
  | [a, b, c, d, e] =>
    if [a, b, c, d, e].all (fun x => (keyOfTok x).isSome) then some ⟨a, b, c, d, e⟩ else none
  | _ => none

def parseCSig (s : String) : Option CSig :=
  match s.splitOn ":" with
  | [f, a, sg] => do pure { flag := ← f.toNat?, addr := a, sig := sg }
  | _ => none

def parseByz (s : String) : Option (String × Int) :=
  match s.splitOn ":" with
  | [a, p] => do pure (a, ← p.toInt?)
  | _ => none

def splitSemi (s : String) : List String := if s = "-" ∨ s = "" then [] else s.splitOn ";"

def insertKey (k : Key) : List Key → List Key
  | [] => [k]
  | x :: xs => if keyLt k x then k :: x :: xs else x :: insertKey k xs

/-- hash tokens are 12 hex digits (the first 6 bytes of the hash) -/
def natOfBytes (b : Bytes) : Nat := b.foldl (fun a x => a * 256 + x.toNat) 0

def bytesOfNat : Nat → Nat → Bytes
  | 0, _ => []
  | k+1, n => bytesOfNat k (n / 256) ++ [UInt8.ofNat (n % 256)]

def parseHash (s : String) : Option Nat :=
  if s.length = 12 then (ofHex s).map natOfBytes else none

def showKey (k : Key) : String := s!"{k.1}/{toHex (bytesOfNat 6 k.2)}"

def showKeys (l : List Key) : String :=
  if l.isEmpty then "-" else ",".intercalate (l.map showKey)

def view (c : Ctx) (p : Pool) : String :=
  s!"size={p.size} pend={showKeys (p.pending.map (key c))} comm={showKeys (p.committed.foldr insertKey [])} bad=0"

def showVErr : VErr → String
  | .noHeader => "noheader" | .time => "time" | .expired => "expired" | .noVals => "novals"
  | .notVal => "dv-notval" | .hrs => "dv-hrs" | .addr => "dv-addr" | .sameBlock => "dv-sameblock"
  | .pkAddr => "dv-pkaddr" | .power => "dv-power" | .total => "dv-total" | .sigA => "dv-siga"
  | .sigB => "dv-sigb" | .lcaNoHeader => "lca-noheader" | .lcaLatestBefore => "lca-latestbefore"
  | .lcaBad => "lca-bad" | .lcaPanic => "panic"

def showRes : Res → String
  | .ok => "ok" | .invalid .lcaPanic => "panic" | .invalid e => "err-" ++ showVErr e | .committed => "err-committed"
  | .duplicate => "err-duplicate" | .panicked => "panic" | .dead => "dead"

/-- `CheckEvidence` returns verify's error unwrapped (the failing item is not named): canonical
result of a check is pass / committed / duplicate / invalid -/
def showCheckRes : Res → String
  | .invalid .lcaPanic => "panic" | .invalid _ => "err-invalid" | r => showRes r

def lookup (s : St) (id : String) : Option EvDef := s.defs.find? (fun d => d.id = id)

def lookupAll (s : St) (ids : String) : Option (List EvDef) := (splitComma ids).mapM (lookup s)

def sysStep (s : St) (sys : Sys) (op : Op) : St × String :=
  let c := s.ctx
  let (sys', r) := Evidence.step c sys op
  let rs := match op with | .check _ => showCheckRes r | _ => showRes r
  ({ s with sys := some sys' }, rs ++ " " ++ view c sys'.pool)

def step (s : St) (toks : List String) : St × String :=
  match toks with
  | "ctx" :: rest =>
    match (kv rest "A").bind String.toInt?, (kv rest "D").bind String.toInt? with
    | some a, some d =>
      -- `M` = Evidence.MaxBytes of the chain's consensus params: the pool never reads it (the
      -- proposer passes it to PendingEvidence), so the model has no such field
      match kv rest "M" with
      | none => ({ A := a, D := d, ab := kv rest "mode" == some "ab" }, "ok")
      | some m => if m.toInt?.isSome then ({ A := a, D := d, ab := kv rest "mode" == some "ab" }, "ok") else (s, "bad-op")
    | _, _ => (s, "bad-op")
  | "blk" :: rest =>
    match (kv rest "h").bind String.toInt?, (kv rest "t").bind String.toInt?,
          (kv rest "vals").bind (fun v => (splitComma v).mapM parseVal),
          (kv rest "cr").bind String.toInt?, (kv rest "cf").bind (fun v => (splitComma v).mapM String.toNat?),
          (kv rest "hash").bind (fun x => (keyOfTok x).map (fun _ => x)), (kv rest "d").bind parseDerived with
    | some h, some t, some vs, some cr, some cf, some hash, some d =>
      if s.sys.isSome ∨ h ≠ s.blocks.length + 1 ∨ h > 250 ∨ vs.isEmpty then (s, "bad-op")
      else ({ s with blocks := s.blocks ++ [{ time := t, vals := vs, hash := hash, derived := d, round := cr,
                                               flags := cf }] }, "ok")
    | _, _, _, _, _, _, _ => (s, "bad-op")
  | "ev" :: rest =>
    match kv rest "id", kv rest "kind", (kv rest "hash").bind parseHash, (kv rest "sz").bind String.toNat?,
          (kv rest "vb").bind parseBool, (kv rest "tvp").bind String.toInt?, (kv rest "t").bind String.toInt? with
    | some id, some kind, some hash, some sz, some vb, some tvp, some t =>
      if (lookup s id).isSome ∨ s.blocks.isEmpty then (s, "bad-op") else
      if kind = "dv" then
        match (kv rest "a").bind parseVote, (kv rest "b").bind parseVote, (kv rest "vp").bind String.toInt?,
              (kv rest "sa").bind parseBool, (kv rest "sb").bind parseBool with
        | some a, some b, some vp, some sa, some sb =>
          let e := Ev.dv { a := a, b := b, tvp := tvp, vp := vp, time := t }
          ({ s with defs := s.defs ++ [{ id := id, ev := e, hash := hash, sz := sz, vb := vb }],
                    sigs := s.sigs ++ [(a.addr, a, sa), (a.addr, b, sb)] }, "ok")
        | _, _, _, _, _ => (s, "bad-op")
      else if kind = "lca" then
        match (kv rest "common").bind String.toInt?, (kv rest "cfh").bind String.toInt?,
              (kv rest "cft").bind String.toInt?, kv rest "tag", kv rest "hh", (kv rest "hd").bind parseDerived,
              (kv rest "cmh").bind String.toInt?, (kv rest "cr").bind String.toInt?,
              (kv rest "cs").bind (fun v => (splitSemi v).mapM parseCSig),
              (kv rest "cv").bind (fun v => (splitComma v).mapM parseVal),
              (kv rest "byz").bind (fun v => (splitComma v).mapM parseByz) with
        | some common, some cfh, some cft, some tag, some hh, some hd, some cmh, some cr, some cs, some cv, some byz =>
          let e := Ev.lca { common := common, cfh := cfh, cft := cft, tvp := tvp, time := t, chash := hh,
                            cderived := hd, commitHeight := cmh, round := cr, sigs := cs, cvals := cv, byz := byz,
                            tag := tag }
          ({ s with defs := s.defs ++ [{ id := id, ev := e, hash := hash, sz := sz, vb := vb }] }, "ok")
        | _, _, _, _, _, _, _, _, _, _, _ => (s, "bad-op")
      else (s, "bad-op")
    | _, _, _, _, _, _, _ => (s, "bad-op")
  | "abinit" :: rest =>
    -- genuine chain (blocks 1..h applied by ApplyBlock without evidence): same pool as `init`
    match (kv rest "h").bind String.toInt? with
    | some h =>
      if s.sys.isSome ∨ h < 1 ∨ h > s.blocks.length ∨ !s.ab then (s, "bad-op") else
      let c := s.ctx
      let sys := initSys c h
      ({ s with sys := some sys }, s!"ok sh={sys.stateH} bh={sys.storeH} " ++ view c sys.pool)
    | none => (s, "bad-op")
  | "init" :: rest =>
    match (kv rest "h").bind String.toInt? with
    | some h =>
      if s.sys.isSome ∨ h < 1 ∨ h > s.blocks.length ∨ s.ab then (s, "bad-op") else
      let c := s.ctx
      let sys := initSys c h
      ({ s with sys := some sys }, "ok " ++ view c sys.pool)
    | none => (s, "bad-op")
  | op :: rest =>
    match s.sys with
    | none => (s, "bad-op")
    | some sys =>
      if s.ab ∧ (op = "grow" ∨ op = "update" ∨ op = "cupdate" ∨ op = "restart") then (s, "bad-op")
      else if !s.ab ∧ (op = "apply" ∨ op = "abrestart") then (s, "bad-op") else
      match op with
      | "grow" =>
        match (kv rest "h").bind String.toInt? with
        | some h => if canGrow s.ctx sys h then sysStep s sys (.grow h) else (s, "bad-op")
        | none => (s, "bad-op")
      | "rpcbroadcast" =>
        -- rpc/core.BroadcastEvidence: ValidateBasic, then AddEvidence
        match (kv rest "e").bind (lookup s) with
        | some d => if d.vb ∨ sys.dead then sysStep s sys (.add d.ev) else (s, "err-basic " ++ view s.ctx sys.pool)
        | none => (s, "bad-op")
      | "add" =>
        match (kv rest "e").bind (lookup s) with
        | some d => if d.vb ∨ sys.dead then sysStep s sys (.add d.ev) else (s, "err-basic " ++ view s.ctx sys.pool)
        | none => (s, "bad-op")
      | "check" =>
        match (kv rest "l").bind (lookupAll s) with
        | some ds =>
          if ds.all (·.vb) ∨ sys.dead then sysStep s sys (.check (ds.map (·.ev)))
          else (s, "err-basic " ++ view s.ctx sys.pool)
        | none => (s, "bad-op")
      | "update" =>
        match (kv rest "h").bind String.toInt?, (kv rest "ev").bind (lookupAll s) with
        | some h, some ds =>
          if h ≤ sys.storeH ∧ 1 ≤ h then sysStep s sys (.update h (ds.map (·.ev))) else (s, "bad-op")
        | _, _ => (s, "bad-op")
      | "cupdate" =>
        -- `Update` with a concurrent `ReportConflictingVotes`: the pool's mutex orders the report
        -- after the buffer was flushed, i.e. update ; report
        match (kv rest "h").bind String.toInt?, (kv rest "ev").bind (lookupAll s),
              (kv rest "e").bind (lookup s), (kv rest "swap").bind parseBool with
        | some h, some ds, some d, some sw =>
          match d.ev with
          | .dv dv =>
            if h ≤ sys.storeH ∧ 1 ≤ h then
              let c := s.ctx
              let (sys1, r) := Evidence.step c sys (.update h (ds.map (·.ev)))
              let (sys2, _) := Evidence.step c sys1 (if sw then .report dv.b dv.a else .report dv.a dv.b)
              ({ s with sys := some sys2 }, showRes r ++ " " ++ view c sys2.pool)
            else (s, "bad-op")
          | .lca _ => (s, "bad-op")
        | _, _, _, _ => (s, "bad-op")
      | "report" =>
        match (kv rest "e").bind (lookup s), (kv rest "swap").bind parseBool with
        | some d, some sw =>
          match d.ev with
          | .dv dv => if sw then sysStep s sys (.report dv.b dv.a) else sysStep s sys (.report dv.a dv.b)
          | .lca _ => (s, "bad-op")
        | _, _ => (s, "bad-op")
      | "apply" =>
        -- consensus' finalizeCommit for block h: ValidateBlock (→ CheckEvidence), SaveBlock, then
        -- ApplyBlock = [SaveABCIResponses, evpool.Update, store.Save]; `crash` = the process dies
        -- before / after the k-th of those three calls
        match (kv rest "h").bind String.toInt?, (kv rest "ev").bind (lookupAll s), kv rest "crash" with
        | some h, some ds, some cr =>
          if !(["-", "b1", "a1", "b2", "a2", "b3", "a3"].contains cr) ∨ sys.dead ∨ h ≠ sys.storeH + 1 ∨
              sys.stateH ≠ sys.storeH ∨ h > s.blocks.length ∨ !(ds.all (·.vb)) then (s, "bad-op")
          else
            let c := s.ctx
            let evs := ds.map (·.ev)
            let (s1, r) := Evidence.step c sys (.check evs)
            let fin := fun (sys' : Sys) (res : String) =>
              ({ s with sys := some sys' }, s!"{res} sh={sys'.stateH} bh={sys'.storeH} " ++ view c sys'.pool)
            if r ≠ .ok then fin s1 (showCheckRes r)
            else
              let s2 := (Evidence.step c s1 (.saveBlock h)).1
              let updated := cr = "-" ∨ cr = "a2" ∨ cr = "b3" ∨ cr = "a3"
              let saved := cr = "-" ∨ cr = "a3"
              let (s3, ru) := if updated then Evidence.step c s2 (.update h evs) else (s2, Res.ok)
              if ru = .panicked then fin s3 "panic"
              else
                let s4 := if saved then (Evidence.step c s3 (.saveState h)).1 else s3
                if cr = "-" then fin s4 "ok" else fin { s4 with dead := true } "crash"
        | _, _, _ => (s, "bad-op")
      | "abrestart" =>
        if rest.isEmpty then
          let c := s.ctx
          let s1 := (Evidence.step c sys .replay).1
          let s2 := (Evidence.step c s1 .restart).1
          ({ s with sys := some s2 }, s!"ok sh={s2.stateH} bh={s2.storeH} " ++ view c s2.pool)
        else (s, "bad-op")
      | "recv" =>
        -- a peer message: decoding + ValidateBasic of every item first, then AddEvidence one by one
        match (kv rest "l").bind (lookupAll s) with
        | some ds =>
          if sys.dead then (s, "dead " ++ view s.ctx sys.pool)
          else if !(ds.all (·.vb)) then (s, "recv stop=1 " ++ view s.ctx sys.pool)
          else
            let c := s.ctx
            let (sys', stop) := receive c sys (ds.map (·.ev))
            ({ s with sys := some sys' }, s!"recv stop={if stop then 1 else 0} " ++ view c sys'.pool)
        | none => (s, "bad-op")
      | "prep" =>
        match (kv rest "e").bind (lookup s), kv rest "ph" with
        | some d, some ph =>
          if ph = "-" then (s, "prep send=0")
          else match ph.toInt? with
            | some h => (s, s!"prep send={if prepare sys.pool.state d.ev h then 1 else 0}")
            | none => (s, "bad-op")
        | _, _ => (s, "bad-op")
      | "restart" => if rest.isEmpty then sysStep s sys .restart else (s, "bad-op")
      | "pe" =>
        match (kv rest "max").bind String.toInt? with
        | some m =>
          if sys.dead then (s, "dead " ++ view s.ctx sys.pool) else
          let c := s.ctx
          let (l, n) := pendingEvidence c sys.pool m
          (s, s!"pe n={l.length} bytes={n} real={n} ids={showKeys (l.map (key c))}")
        | none => (s, "bad-op")
      | _ => (s, "bad-op")
  | [] => (s, "bad-op")

def machine : Machine := { σ := St, init := {}, step := step }

end Tmv.Drv.C11

def main : IO Unit := Tmv.Drv.run Tmv.Drv.C11.machine
