import Tmv.Drv.Core
import Tmv.Model.StoreNode
namespace Tmv.Drv.C18
open Tmv Tmv.StoreNode

structure S where
  node : Node
  ih : Int
  used : List Nat

/-- numbers on op lines: Lean's `toNat?`/`toInt?` syntax (digits, single `_` between digits,
optional leading `-` for ints), magnitude at most 10^15 (the Go side parses the same language) -/
def pNat (s : String) : Option Nat := s.toNat?.filter (· ≤ 1000000000000000)
def pInt (s : String) : Option Int := s.toInt?.filter (fun v => v.natAbs ≤ 1000000000000000)

def flag (toks : List String) (k : String) : Bool := kv toks k == some "1"
def natOr (toks : List String) (k : String) (d : Nat) : Option Nat :=
  match kv toks k with
  | none => some d
  | some v => pNat v
def intOr (toks : List String) (k : String) (d : Int) : Option Int :=
  match kv toks k with
  | none => some d
  | some v => pInt v

/-- verdicts of the audit after every prefix of the crash units, only the failing ones listed -/
def crashVerdicts (n : Node) (us : List U) : String :=
  let rec go (d : BlockStore.DB × StateStore.DB) (k : Nat) (rest : List U) (acc : List String) : List String :=
    let acc' := match audit d.1 d.2 with
      | none => acc
      | some v => acc ++ [s!"{k}={showVerdict (some v)}"]
    match rest with
    | [] => acc'
    | u :: r => go (applyU d u) (k + 1) r acc'
  let bad := go (n.bdb, n.sdb) 0 us []
  s!"{us.length + 1}:" ++ (if bad.isEmpty then "-" else ";".intercalate bad)

def summary (n : Node) : String :=
  s!"base={n.bs.base} height={n.bs.height} sth={n.st.lastBlockHeight}"

/-- finish an op that produced `us` from node `before`, ending (uncrashed) in `after` -/
def finish (s : S) (before after : Node) (us : List U) (toks : List String) (head : String) : S × String :=
  match natOr toks "audit" 0, natOr toks "crashat" 1000000000 with
  | some a, some c =>
    let crashed := c < us.length
    let fin : Node := if crashed then reopen (applyUs (before.bdb, before.sdb) (us.take c)) (genesis s.ih) else after
    let out := head ++ s!" units={us.length} crashed={if crashed then 1 else 0} " ++ summary fin ++
      (if a ≥ 1 then " audit=" ++ showVerdict (audit fin.bdb fin.sdb) else "") ++
      (if a ≥ 2 then " crash=" ++ crashVerdicts before us else "")
    ({ s with node := fin }, out)
  | _, _ => (s, "bad-op")

def parseStep (toks : List String) : Option StepIn := do
  let id ← pNat (← kv toks "id")
  let parts ← natOr toks "parts" 1
  let retain ← intOr toks "retain" 0
  if id = 0 ∨ id ≥ 1000000000 ∨ parts = 0 ∨ parts > 8 then none
  pure { id := id, parts := parts, vu := flag toks "vu", pu := flag toks "pu", retain := retain,
         badlc := flag toks "badlc", badsc := flag toks "badsc", incomplete := flag toks "incomplete" }

def stepHead (o : StepOut) : String :=
  s!"h={o.h} saved={o.saved} apply={o.applied} prune={o.blocks} st={o.states}"

def bulk (n : Node) : Nat → Nat → Nat → Nat → Nat → Int → Node × Bool
  | 0, _, _, _, _, _ => (n, true)
  | k + 1, id, parts, vue, pue, lag =>
    let H := nextHeight n.st
    let o := step n { id := id, parts := parts, vu := vue > 0 ∧ H.toNat % vue = 0,
                      pu := pue > 0 ∧ H.toNat % pue = 0,
                      retain := if lag > 0 ∧ H - lag > 0 then H - lag else 0 }
    if o.applied ≠ "ok" then (o.node, false) else bulk o.node k (id + 1) parts vue pue lag

def step1 (st : Option S) (toks : List String) : Option S × String :=
  match toks, st with
  | "new" :: rest, _ =>
    match intOr rest "ih" 1, natOr rest "nv" 2 with
    | some ih, some nv => if ih < 1 ∨ nv < 1 ∨ nv > 4 then (st, "bad-op") else
      (some { node := newNode ih, ih := ih, used := [] }, "ok")
    | _, _ => (st, "bad-op")
  | "step" :: rest, some s =>
    match parseStep rest with
    | none => (st, "bad-op")
    | some i =>
      if s.used.contains i.id then (st, "bad-op") else
      let o := step s.node i
      let (s', out) := finish { s with used := i.id :: s.used } s.node o.node o.units rest (stepHead o)
      (some s', out)
  | "bulk" :: rest, some s =>
    match natOr rest "n" 1, (kv rest "id").bind pNat, natOr rest "parts" 1,
          natOr rest "vue" 0, natOr rest "pue" 0, intOr rest "lag" 0 with
    | some n, some id, some parts, some vue, some pue, some lag =>
      if id = 0 ∨ id ≥ 1000000000 ∨ parts = 0 ∨ parts > 8 ∨ n > 5000 ∨
         (List.range n).any (fun k => s.used.contains (id + k)) then (st, "bad-op") else
      let (nd, ok) := bulk s.node n id parts vue pue lag
      (some { s with node := nd, used := (List.range n).map (· + id) ++ s.used },
        s!"ok={if ok then 1 else 0} " ++ summary nd ++ " audit=" ++ showVerdict (audit nd.bdb nd.sdb))
    | _, _, _, _, _, _ => (st, "bad-op")
  | "prune" :: rest, some s =>
    match (kv rest "retain").bind pInt with
    | none => (st, "bad-op")
    | some r =>
      let p := pruneGlue s.node.bdb s.node.sdb s.node.bs r
      let d := applyUs (s.node.bdb, s.node.sdb) p.units
      let after : Node := { s.node with bdb := d.1, sdb := d.2, bs := p.bs }
      let (s', out) := finish s s.node after p.units rest s!"prune={p.blocks} st={p.states}"
      (some s', out)
  | "bsprune" :: rest, some s =>
    match (kv rest "retain").bind pInt with
    | none => (st, "bad-op")
    | some r =>
      match BlockStore.pruneBlocks s.node.bs s.node.bdb r with
      | .error e => (st, "err:" ++ showBErr e)
      | .ok (bs', n, us) =>
        let us := us.map U.b
        let d := applyUs (s.node.bdb, s.node.sdb) us
        let (s', out) := finish s s.node { s.node with bdb := d.1, bs := bs' } us rest s!"pruned={n}"
        (some s', out)
  | "stprune" :: rest, some s =>
    match (kv rest "from").bind pInt, (kv rest "to").bind pInt with
    | some f, some t =>
      let r := StateStore.pruneStates s.node.sdb f t
      let us := r.1.map U.s
      let d := applyUs (s.node.bdb, s.node.sdb) us
      let (s', out) := finish s s.node { s.node with sdb := d.2 } us rest
        ("st=" ++ match r.2 with | none => "ok" | some e => "err:" ++ showSErr e)
      (some s', out)
    | _, _ => (st, "bad-op")
  | ["audit"], some s => (st, summary s.node ++ " audit=" ++ showVerdict (audit s.node.bdb s.node.sdb))
  | _, _ => (st, "bad-op")

def machine : Machine := { σ := Option S, init := none, step := step1 }

end Tmv.Drv.C18

def main : IO Unit := Tmv.Drv.run Tmv.Drv.C18.machine
