import Tmv.Drv.Core
import Tmv.Model.Syncer
import Tmv.Model.StateProvider
import Tmv.Model.StatesyncReactor
import Tmv.Gen.Facts
/-! Line-protocol driver for C14: chunk queue (`q.*`), snapshot pool (`p.*`), syncer (`s.*`). -/
namespace Tmv.Drv.C14
open Tmv Tmv.StateSync

/-- `recentSnapshots`, from the regenerated facts -/
def recent : Nat := Facts.c14_recentSnapshots.toNat

structure EnvRow where
  h : Nat
  appHash : ProvRes Bytes
  state : ProvRes PState
  commit : ProvRes PCommit

/-- the generated chain of the `l.*` ops: per height the light block and the consensus parameters
in effect (what an honest `/consensus_params` answers) -/
structure LChain where
  seed : Nat
  ih : Nat
  blocks : List (LightBlock × Params)

structure St where
  q : Option Queue := none
  p : Pool := Pool.empty
  sy : Sy := { pool := Pool.empty, queue := none, active := false, journal := [] }
  env : List EnvRow := []
  offers : List OfferV := []
  applies : List ApplyV := []
  infos : List InfoV := []
  late : List Msg := []
  fallback : Option String := some "pf"
  live : Bool := false
  lch : Option LChain := none
  serve : ServeApp := { snapshots := [], chunk := fun _ _ _ => none }
  attached : Bool := false
  via : Bool := false

def nat? (toks : List String) (k : String) : Option Nat := (kv toks k).bind String.toNat?

def body? (s : String) : Option (Option Bytes) :=
  if s = "nil" then some none else (ofHex s).map some

def showBody (b : Option Bytes) : String :=
  match b with
  | none => "nil"
  | some x => hexOrDash x

def name? (s : String) : String := if s = "_" then "" else s
def showName (s : String) : String := if s = "" then "_" else s

def parseSnapF (h f c hash md : String) : Option Snapshot := do
  pure { height := ← h.toNat?, format := ← f.toNat?, chunks := ← c.toNat?, hash := ← ofHex hash,
         metadata := ← ofHex md }

def parseSnap (toks : List String) : Option Snapshot := do
  parseSnapF (← kv toks "h") (← kv toks "f") (← kv toks "c") (← kv toks "hash") (← kv toks "meta")

def showSnap (s : Snapshot) : String :=
  s!"{s.height}/{s.format}/{s.chunks}/{hexOrDash s.hash}/{hexOrDash s.metadata}"

def parseMsg (s : String) : Option Msg :=
  match s.splitOn ":" with
  | ["c", p, h, f, i, b] => do
    pure (.chunk { height := ← h.toNat?, format := ← f.toNat?, index := ← i.toNat?, body := ← body? b,
                   sender := name? p })
  | ["s", p, h, f, c, hash, md] => do pure (.snap (name? p) (← parseSnapF h f c hash md))
  | _ => none

def parseMsgs (s : String) : Option (List Msg) := (splitComma s).mapM parseMsg

def showArr : ArriveRes → String
  | .added => "added" | .ignored => "ignored" | .noSync => "err-nosync"
  | .rejectedSender => "ignored" | .errNil => "err-nil" | .errHeight => "err-height"
  | .errFormat => "err-format" | .errIndex => "err-index"

def parseOfferRes : String → Option OfferRes
  | "accept" => some .accept | "abort" => some .abort | "reject" => some .reject
  | "reject_format" => some .rejectFormat | "reject_sender" => some .rejectSender
  | "unknown" => some .unknown | "error" => some .error | "deadline" => some .deadline | _ => none

def showOfferRes : OfferRes → String
  | .accept => "accept" | .abort => "abort" | .reject => "reject" | .rejectFormat => "reject_format"
  | .rejectSender => "reject_sender" | .unknown => "unknown" | .error => "error" | .deadline => "deadline"

def parseApplyRes : String → Option ApplyRes
  | "accept" => some .accept | "abort" => some .abort | "retry" => some .retry
  | "retry_snapshot" => some .retrySnapshot | "reject_snapshot" => some .rejectSnapshot
  | "unknown" => some .unknown | "error" => some .error | "deadline" => some .deadline | _ => none

def showApplyRes : ApplyRes → String
  | .accept => "accept" | .abort => "abort" | .retry => "retry" | .retrySnapshot => "retry_snapshot"
  | .rejectSnapshot => "reject_snapshot" | .unknown => "unknown" | .error => "error" | .deadline => "deadline"

def parseOfferV (s : String) : Option OfferV :=
  match s.splitOn "/" with
  | [r, ms] => do pure { result := ← parseOfferRes r, pre := ← parseMsgs ms }
  | _ => none

def parseApplyV (s : String) : Option ApplyV :=
  match s.splitOn "/" with
  | [r, rf, rs, ms] => do
    pure { result := ← parseApplyRes r, refetch := ← (splitComma rf).mapM String.toNat?,
           rejectSenders := (splitComma rs).map name?, pre := ← parseMsgs ms }
  | [r, rf, rs, ms, cs] => do
    let conc ← (← parseMsgs cs).mapM fun m => match m with
      | .chunk c => some c
      | _ => none
    pure { result := ← parseApplyRes r, refetch := ← (splitComma rf).mapM String.toNat?,
           rejectSenders := (splitComma rs).map name?, pre := ← parseMsgs ms, conc := conc }
  | _ => none

def parseInfoV (s : String) : Option InfoV :=
  match s.splitOn ":" with
  | ["echo"] => some .echo
  | ["err"] => some .error
  | ["deadline"] => some .deadline
  | [v, h, ht] => do pure (.info (← v.toNat?) (← ofHex h) (← ht.toInt?))
  | _ => none

def semis (s : String) : List String := if s = "-" ∨ s = "" then [] else s.splitOn ";"

def natList (l : List Nat) : String := if l.isEmpty then "-" else ",".intercalate (l.map toString)
def nameList (l : List String) : String := if l.isEmpty then "-" else ",".intercalate (l.map showName)

/-- heights are printed as Go prints an int64 (the matching answer of a snapshot at height ≥ 2^63
is a negative `LastBlockHeight`) -/
def asInt64 (h : Int) : Int :=
  let m := h % 18446744073709551616
  if m ≥ 9223372036854775808 then m - 18446744073709551616 else m

def showEv : Ev → String
  | .provAppHash h => s!"ph:{h}"
  | .provState h => s!"ps:{h}"
  | .provCommit h => s!"pc:{h}"
  | .offer s ah r => s!"O:{showSnap s}:{hexOrDash ah}:{showOfferRes r}"
  | .apply i b p r rf rs => s!"A:{i}:{hexOrDash b}:{showName p}:{showApplyRes r}:{natList rf}:{nameList rs}"
  | .info .error => "I:err"
  | .info .deadline => "I:deadline"
  | .info .echo => "I:echo"
  | .info (.info v h ht) => s!"I:{v}:{hexOrDash h}:{asInt64 ht}"
  | .arriveChunk c r => s!"c:{showName c.sender}:{c.height}:{c.format}:{c.index}:{showBody c.body}={showArr r}"
  | .raceChunk c => s!"cc:{showName c.sender}:{c.height}:{c.format}:{c.index}:{showBody c.body}=raced"
  | .peerStopped p => s!"stop:{showName p}"
  | .arriveSnap p s a =>
    s!"s:{showName p}:{s.height}:{s.format}:{s.chunks}:{hexOrDash s.hash}:{hexOrDash s.metadata}={a}"

def showJournal (j : List Ev) : String := if j.isEmpty then "-" else " ".intercalate (j.map showEv)

def parseProv {α : Type} (s : String) (f : String → Option α) : Option (ProvRes α) :=
  if s = "nowit" then some .noWitness else if s = "err" then some .err else (f s).map .ok

def parsePState (s : String) : Option PState :=
  match s.splitOn "/" with
  | [t, v] => do pure { tag := ← t.toNat?, appVersion := ← v.toNat? }
  | _ => none

def mkEnv (rows : List EnvRow) : Env :=
  { appHash := fun h => match rows.find? (·.h = h) with | some r => r.appHash | none => .err
    state := fun h => match rows.find? (·.h = h) with | some r => r.state | none => .err
    commit := fun h => match rows.find? (·.h = h) with | some r => r.commit | none => .err }

def showErr : SyncErr → String
  | .abort => "abort" | .retrySnapshot => "retry-snapshot" | .rejectSnapshot => "reject-snapshot"
  | .rejectFormat => "reject-format" | .rejectSender => "reject-sender" | .verifyFailed => "verify-failed"
  | .timeout => "timeout" | .noWitness => "no-witnesses" | .other => "other" | .deadline => "deadline"

def keyLe (a b : Snapshot) : Bool := decide (keyOf a ≤ keyOf b)

def showRanked (p : Pool) : String :=
  let l := p.ranked
  if l.isEmpty then "-" else
  ";".intercalate (l.map fun s => showSnap s ++ "/" ++ nameList (p.getPeers s))

def insertBytes (x : Bytes) : List Bytes → List Bytes
  | [] => [x]
  | y :: ys => if decide (y ≤ x) then y :: insertBytes x ys else x :: y :: ys

def insertNat (x : Nat) : List Nat → List Nat
  | [] => [x]
  | y :: ys => if y ≤ x then y :: insertNat x ys else x :: y :: ys

def showPool (p : Pool) : String :=
  let blf := (p.blFormat.eraseDups).foldr insertNat []
  let blp := (p.blPeer.eraseDups).foldr Pool.insertStr []
  let bls := (p.blSnap.eraseDups).foldr insertBytes []
  s!"ranked={showRanked p} blf={natList blf} blp={nameList blp} bls={hexListStr bls}"

/-- the driver's `Best`: canonical head, or nothing when the code's choice is not determined -/
def choose (p : Pool) : Option Snapshot := if p.bestTied then none else p.best

def topGroup (p : Pool) : List Snapshot :=
  match p.ranked with
  | [] => []
  | a :: rest => a :: rest.takeWhile (fun b => p.tied a b)

def maxBlock : Int := Facts.c14_MaxBlockSizeBytes

def parseBlock (t : String) : Option (LightBlock × Params) :=
  match t.splitOn "/" with
  | [h, bh, ah, vh, av, lrh, mb, mg, iota, eab, ead, emb, pk, cav] => do
    let p : Params := { maxBytes := ← mb.toInt?, maxGas := ← mg.toInt?, timeIota := ← iota.toInt?
                        evAgeBlocks := ← eab.toInt?, evAgeDur := ← ead.toInt?, evMaxBytes := ← emb.toInt?
                        pubKeyTypes := if pk = "" then [] else pk.splitOn "+", appVersion := ← cav.toNat? }
    let b : LightBlock := { height := ← h.toNat?, hash := ← ofHex bh, appHash := ← ofHex ah
                            appVersion := ← av.toNat?, vals := ← ofHex vh, lastResults := ← ofHex lrh
                            consHashed := p.hashed }
    pure (b, p)
  | _ => none

def showParams (p : Params) : String :=
  s!"{p.maxBytes}/{p.maxGas}/{p.timeIota}/{p.evAgeBlocks}/{p.evAgeDur}/{p.evMaxBytes}/" ++
    "+".intercalate p.pubKeyTypes ++ s!"/{p.appVersion}"

def parseLie (s : String) : Option (Option (String × Nat)) :=
  if s = "-" then some none else
  match s.splitOn "@" with
  | [k, h] => h.toNat?.map fun n => some (k, n)
  | _ => none

/-- the lying server's change of a `/consensus_params` answer (harness: `mutateParams`) -/
def mutateParams (kind : String) (r : ParamsResp) : ParamsResp :=
  let p := r.params
  match kind with
  | "pmb" => { r with params := { p with maxBytes := p.maxBytes + 1 } }
  | "pmg" => { r with params := { p with maxGas := p.maxGas + 3 } }
  | "piota" => { r with params := { p with timeIota := p.timeIota + 9 } }
  | "peab" => { r with params := { p with evAgeBlocks := p.evAgeBlocks + 7 } }
  | "pead" => { r with params := { p with evAgeDur := p.evAgeDur + 3600000000000 } }
  | "pemb" => { r with params := { p with evMaxBytes := p.evMaxBytes + 11 } }
  | "ppk" => { r with params := { p with pubKeyTypes := ["secp256k1"] } }
  | "pav" => { r with params := { p with appVersion := p.appVersion + 5 } }
  | "pinv" => { r with params := { p with evAgeBlocks := 0 } }
  | "pht" => { r with height := r.height + 1 }
  | _ => r

def LChain.lc (c : LChain) (k : Nat) : ProvRes LightBlock :=
  match c.blocks.find? (fun bp => bp.1.height = k) with
  | some bp => .ok bp.1
  | none => .err

def LChain.rpc (c : LChain) (lie : Option (String × Nat)) (k : Nat) : ProvRes ParamsResp :=
  match c.blocks.find? (fun bp => bp.1.height = k) with
  | some bp =>
    let r : ParamsResp := { height := k, params := bp.2 }
    match lie with
    | some (kind, atH) => .ok (if atH = k then mutateParams kind r else r)
    | none => .ok r
  | none => .err

/-- what `Sync` asks of the provider, in its order -/
def lcSync (c : LChain) (lie : Option (String × Nat)) (h : Nat) :
    Except String (Bytes × LcState × LcCommit) :=
  match lcAppHash c.lc h with
  | .ok ah =>
    match lcState c.lc maxBlock (c.rpc lie) c.ih h with
    | .ok st =>
      match lcCommit c.lc h with
      | .ok cm => .ok (ah, st, cm)
      | _ => .error "err@commit"
    | _ => .error "err@state"
  | _ => .error "err@apphash"

def showLcSync (c : LChain) (ah : Bytes) (s : LcState) (cm : LcCommit) : String :=
  s!"apphash={hexOrDash ah} state=lbh:{s.lastBlockHeight},app:{hexOrDash s.appHash},ver:{s.appVersion}," ++
  s!"lv:{hexOrDash s.lastValidators},v:{hexOrDash s.validators},nv:{hexOrDash s.nextValidators}," ++
  s!"lhvc:{s.lastHeightValidatorsChanged},lhcpc:{s.lastHeightParamsChanged},lbid:{hexOrDash s.lastBlockID}," ++
  s!"lrh:{hexOrDash s.lastResults},cp:{showParams s.params},ih:{s.initialHeight},chain:c14-{c.seed % 5} " ++
  s!"commit={cm.height}:{hexOrDash cm.blockHash}"

def showBoot (h : Nat) (s : Stores) : String :=
  match s.state with
  | none => "state=empty start=statesync-again"
  | some st =>
    let v := fun (k : Nat) => match s.vals (h + k) with
      | some x => s!"vals{k}={hexOrDash x}"
      | none => s!"vals{k}=none"
    let p := fun (k : Nat) => match loadParams s (h + k) with
      | some x => s!"params{k}={showParams x}"
      | none => s!"params{k}=none"
    let seen := match s.seen h with
      | some c => s!"seen={c.height}:{hexOrDash c.blockHash}"
      | none => "seen=none"
    let start := match startNode s with
      | .ok => "ok" | .stateSyncAgain => "statesync-again"
      | .panicNoSeenCommit => "panic:seen-commit-not-found" | .panicWrongCommit => "panic:wrong-commit"
    s!"state=lbh:{st.lastBlockHeight},app:{hexOrDash st.appHash},v:{hexOrDash st.validators}," ++
    s!"nv:{hexOrDash st.nextValidators},lv:{hexOrDash st.lastValidators} {v 0} {v 1} {v 2} {v 3} {p 0} {p 1} " ++
    s!"{seen} start={start}"

/-- the order of the two writes in node/node.go `startStateSync`, from the regenerated fact -/
def nodeCommitFirst : Bool :=
  let l := Facts.c14_startStateSync_order
  match l.idxOf? "SaveSeenCommit", l.idxOf? "Bootstrap" with
  | some a, some b => a < b
  | _, _ => true

/-- what `startStateSync` does with the errors of its two writes, from the regenerated facts -/
def nodeHandCode : HandCode :=
  { commitFirst := nodeCommitFirst, seenErrReturns := Facts.c14_handover_seen_err_returns
    bootErrReturns := Facts.c14_handover_boot_err_returns }

def lop (st : St) (toks : List String) : St × String :=
  match toks with
  | "l.hand" :: rest =>
    match st.lch, nat? rest "h", nat? rest "trust", nat? rest "boot", kv rest "seen", kv rest "switch" with
    | some c, some h, some trust, some boot, some seen, some sw =>
      if boot > 9 ∨ (seen ≠ "ok" ∧ seen ≠ "fail") ∨ (sw ≠ "ok" ∧ sw ≠ "fail") then (st, "bad-op")
      else
        let inRange := (c.blocks.any fun bp => bp.1.height = trust)
        match (if inRange then lcSync c none h else .error "err@init") with
        | .error e => (st, e)
        | .ok (_, s, cm) =>
          let (stores, switched) := handOver nodeHandCode
            { seenFails := seen = "fail", bootFailAt := boot, switchFails := sw = "fail" } s cm
          let sts := match stores.state with
            | none => "state=empty"
            | some x => s!"state=lbh:{x.lastBlockHeight}"
          let seenS := match stores.seen h with
            | some x => s!"seen={x.height}:{hexOrDash x.blockHash}"
            | none => "seen=none"
          (st, s!"{sts} {seenS} switched={if switched then 1 else 0}")
    | _, _, _, _, _, _ => (st, "bad-op")
  | "l.chain" :: rest =>
    match nat? rest "seed", nat? rest "n", nat? rest "nv", nat? rest "ih", nat? rest "pchg", nat? rest "uchg",
          nat? rest "vver", (kv rest "vchg").bind (fun s => (splitComma s).mapM String.toNat?),
          (kv rest "blocks").bind (fun s => (s.splitOn ";").mapM parseBlock) with
    | some seed, some n, some nv, some ih, some _, some _, some _, some _, some blocks =>
      if n < 1 ∨ n > 40 ∨ nv < 1 ∨ nv > 8 ∨ ih < 1 then (st, "bad-op")
      else ({ st with lch := some { seed := seed, ih := ih, blocks := blocks } }, "ok")
    | _, _, _, _, _, _, _, _, _ => (st, "bad-op")
  | op :: rest =>
    match st.lch, nat? rest "h", nat? rest "trust", (kv rest "lieP").bind parseLie, (kv rest "lieW").bind parseLie,
          kv rest "expect", kv rest "all" with
    | some c, some h, some trust, some lp, some _, some exp, some all =>
      if (exp ≠ "exact" ∧ exp ≠ "any") ∨ (all ≠ "0" ∧ all ≠ "1") then (st, "bad-op")
      else
        let inRange := (c.blocks.any fun bp => bp.1.height = trust)
        let res := if inRange then lcSync c lp h else .error "err@init"
        if op = "l.sync" then
          if exp = "any" then (st, "ok-or-err")
          else (st, match res with
            | .ok (ah, s, cm) => showLcSync c ah s cm
            | .error e => e)
        else
          match kv rest "crash", kv rest "order" with
          | some cr, some ord =>
            let crash? : Option Crash := match cr with
              | "-" => some .none | "between" => some .between | "before" => some .before | _ => none
            match crash?, decide (ord = "commit-first" ∨ ord = "state-first" ∨ ord = "node") with
            | some crash, true =>
              (st, match res with
                | .ok (_, s, cm) => showBoot h (startWrites (ord = "commit-first" ∨ (ord = "node" ∧ nodeCommitFirst)) crash s cm)
                | .error e => e)
            | _, _ => (st, "bad-op")
          | _, _ => (st, "bad-op")
    | _, _, _, _, _, _, _ => (st, "bad-op")
  | _ => (st, "bad-op")

/-- journal entry of an arrival that went through the reactor: its outcome is not observable -/
def showEvVia : Ev → String
  | .arriveChunk c r =>
    s!"rc:{showName c.sender}:{c.height}:{c.format}:{c.index}:{showBody c.body}=" ++ (if r = .added then "added" else "no")
  | .arriveSnap p s _ =>
    s!"rs:{showName p}:{s.height}:{s.format}:{s.chunks}:{hexOrDash s.hash}:{hexOrDash s.metadata}"
  | e => showEv e

/-- an arriving message as the reactor hands it on (sync in progress): wire encoding, validation -/
def viaMsg (m : Msg) : Msg :=
  match m with
  | .chunk c =>
    match receive recent { snapshots := [], chunk := fun _ _ _ => none } true chunkChannel c.sender
        (WireMsg.chunkResponse c.height c.format c.index c.body false).decoded with
    | .addChunk c' => .chunk c'
    | _ => .stop c.sender
  | .snap peer s =>
    match receive recent { snapshots := [], chunk := fun _ _ _ => none } true snapshotChannel peer
        (WireMsg.snapshotsResponse s) with
    | .addSnapshot p s' => .snap p s'
    | _ => .stop peer
  | m => m

def parseWire (s : String) : Option WireMsg :=
  match s.splitOn "/" with
  | ["sq"] => some .snapshotsRequest
  | ["S", h, f, c, hash, md] => (parseSnapF h f c hash md).map .snapshotsResponse
  | ["Q", h, f, i] => do pure (.chunkRequest (← h.toNat?) (← f.toNat?) (← i.toNat?))
  | ["C", h, f, i, b, mi] => do
    let missing ← if mi = "0" then some false else if mi = "1" then some true else none
    pure (.chunkResponse (← h.toNat?) (← f.toNat?) (← i.toNat?) (← body? b) missing)
  | _ => none

def showWire : WireMsg → String
  | .snapshotsRequest => "sq"
  | .snapshotsResponse s => s!"S/{s.height}/{s.format}/{s.chunks}/{hexOrDash s.hash}/{hexOrDash s.metadata}"
  | .chunkRequest h f i => s!"Q/{h}/{f}/{i}"
  | .chunkResponse h f i c m => s!"C/{h}/{f}/{i}/{showBody c}/{if m then 1 else 0}"

def rop (st : St) (toks : List String) : St × String :=
  match toks with
  | "r.app" :: rest =>
    match (kv rest "snaps").bind (fun s => (semis s).mapM fun t => match t.splitOn "/" with
            | [h, f, c, hash, md] => parseSnapF h f c hash md
            | _ => none),
          (kv rest "chunks").bind (fun s => (splitComma s).mapM fun t => match t.splitOn ":" with
            | [h, f, i, b] => do pure ((← h.toNat?, ← f.toNat?, ← i.toNat?), ← body? b)
            | _ => none) with
    | some snaps, some chunks =>
      ({ st with serve := { snapshots := snaps
                            chunk := fun h f i => (chunks.reverse.find? (fun e => e.1 = (h, f, i))).bind (·.2) } }, "ok")
    | _, _ => (st, "bad-op")
  | "r.attach" :: rest =>
    match kv rest "on" with
    | some "1" => ({ st with attached := true }, "ok")
    | some "0" => ({ st with attached := false }, "ok")
    | _ => (st, "bad-op")
  | "r.recv" :: rest =>
    match kv rest "peer", nat? rest "ch", (kv rest "m").bind parseWire with
    | some peer, some ch, some m =>
      if ch > 255 then (st, "bad-op") else
      match receive recent st.serve st.attached ch (name? peer) m.decoded with
      | .stopPeer =>
        -- the switch stops the peer; the reactor's RemovePeer reaches the syncer only if one is attached
        ((if st.attached then { st with sy := { st.sy with pool := st.sy.pool.removePeer (name? peer) } } else st), "stop")
      | .ignore => (st, s!"ok sent=- pool={showRanked st.sy.pool}")
      | .reply ms =>
        (st, "ok sent=" ++ (if ms.isEmpty then "-" else ",".intercalate (ms.map showWire)) ++
          s!" pool={showRanked st.sy.pool}")
      | .addSnapshot p s =>
        let (p', _) := st.sy.pool.add recent p s
        let st' := { st with sy := { st.sy with pool := p' } }
        (st', s!"ok sent=- pool={showRanked p'}")
      | .addChunk c =>
        let (sy', _) := addChunk st.sy c
        ({ st with sy := sy' }, s!"ok sent=- pool={showRanked sy'.pool}")
    | _, _, _ => (st, "bad-op")
  | _ => (st, "bad-op")

def qop (st : St) (f : Queue → Queue × String) : St × String :=
  match st.q with
  | some q => let (q', o) := f q; ({ st with q := some q' }, o)
  | none => (st, "bad-op")

def step (st : St) (toks : List String) : St × String :=
  match toks with
  | "r.app" :: _ => rop st toks
  | "r.attach" :: _ => rop st toks
  | "r.recv" :: _ => rop st toks
  | "s.via" :: rest =>
    match kv rest "on" with
    | some "1" => ({ st with via := true, attached := true }, "ok")
    | some "0" => ({ st with via := false }, "ok")
    | _ => (st, "bad-op")
  | "l.chain" :: _ => lop st toks
  | "l.hand" :: _ => lop st toks
  | "l.sync" :: _ => lop st toks
  | "l.boot" :: _ => lop st toks
  | "q.new" :: rest =>
    match nat? rest "h", nat? rest "f", nat? rest "c" with
    | some h, some f, some c =>
      match Queue.new { height := h, format := f, chunks := c, hash := [], metadata := [] } with
      | some q => ({ st with q := some q }, "ok")
      | none => ({ st with q := none }, "err-nochunks")
    | _, _, _ => (st, "bad-op")
  | "q.add" :: rest =>
    match nat? rest "h", nat? rest "f", nat? rest "i", (kv rest "b").bind body?, kv rest "p" with
    | some h, some f, some i, some b, some p =>
      qop st fun q =>
        let (q', r) := q.add { height := h, format := f, index := i, body := b, sender := name? p }
        (q', match r with
          | .added => "added" | .ignored => "ignored" | .errNil => "err-nil" | .errHeight => "err-height"
          | .errFormat => "err-format" | .errIndex => "err-index")
    | _, _, _, _, _ => (st, "bad-op")
  | ["q.alloc"] => qop st fun q =>
      let (q', r) := q.allocate
      (q', match r with | some i => toString i | none => "done")
  | ["q.close"] => qop st fun q => (q.close, "ok")
  | "q.discard" :: rest =>
    match nat? rest "i" with
    | some i => qop st fun q => (q.discard i, "ok")
    | none => (st, "bad-op")
  | "q.dsender" :: rest =>
    match kv rest "p" with
    | some p => qop st fun q => (q.discardSender (name? p), "ok")
    | none => (st, "bad-op")
  | "q.sender" :: rest =>
    match nat? rest "i" with
    | some i => qop st fun q => (q, showName (q.getSender i))
    | none => (st, "bad-op")
  | "q.has" :: rest =>
    match nat? rest "i" with
    | some i => qop st fun q => (q, toString (q.has i))
    | none => (st, "bad-op")
  | ["q.next"] => qop st fun q =>
      match q.next with
      | .done => (q, "done")
      | .wait i => (q, s!"wait {i}")
      | .chunk c q' => (q', s!"chunk {c.height} {c.format} {c.index} {showBody c.body} {showName c.sender}")
  | "q.retry" :: rest =>
    match nat? rest "i" with
    | some i => qop st fun q => (q.retry i, "ok")
    | none => (st, "bad-op")
  | ["q.retryall"] => qop st fun q => (q.retryAll, "ok")
  | ["q.size"] => qop st fun q => (q, toString q.size)
  | "q.wait" :: rest =>
    match nat? rest "i" with
    | some i => qop st fun q =>
        (q, match q.waitFor i with | .closed => "closed" | .ready => "ready" | .pending => "pending")
    | none => (st, "bad-op")
  -- pool
  | ["p.new"] => ({ st with p := Pool.empty }, "ok")
  | "p.add" :: rest =>
    match kv rest "peer", parseSnap rest with
    | some peer, some s =>
      let (p', a) := st.p.add recent (name? peer) s
      ({ st with p := p' }, toString a)
    | _, _ => (st, "bad-op")
  | ["p.best"] =>
    let g := topGroup st.p
    (st, if g.isEmpty then "none" else "best " ++ ";".intercalate (g.map showSnap))
  | ["p.ranked"] => (st, showRanked st.p)
  | "p.peers" :: rest =>
    match parseSnap rest with
    | some s => (st, nameList (st.p.getPeers s))
    | none => (st, "bad-op")
  | "p.reject" :: rest =>
    match parseSnap rest with
    | some s => ({ st with p := st.p.reject s }, "ok")
    | none => (st, "bad-op")
  | "p.rejfmt" :: rest =>
    match nat? rest "f" with
    | some f => ({ st with p := st.p.rejectFormat f }, "ok")
    | none => (st, "bad-op")
  | "p.rejpeer" :: rest =>
    match kv rest "peer" with
    | some peer => ({ st with p := st.p.rejectPeer (name? peer) }, "ok")
    | none => (st, "bad-op")
  | "p.rmpeer" :: rest =>
    match kv rest "peer" with
    | some peer => ({ st with p := st.p.removePeer (name? peer) }, "ok")
    | none => (st, "bad-op")
  | ["p.dump"] => (st, showPool st.p)
  -- syncer
  | ["s.new"] => ({ q := st.q, p := st.p }, "ok")
  | "s.snap" :: rest =>
    match kv rest "peer", parseSnap rest with
    | some peer, some s =>
      let (p', a) := st.sy.pool.add recent (name? peer) s
      ({ st with sy := { st.sy with pool := p' } }, toString a)
    | _, _ => (st, "bad-op")
  | "s.chunk" :: rest =>
    match nat? rest "h", nat? rest "f", nat? rest "i", (kv rest "b").bind body?, kv rest "p" with
    | some h, some f, some i, some b, some p =>
      let (sy', r) := addChunk st.sy { height := h, format := f, index := i, body := b, sender := name? p }
      ({ st with sy := sy' }, showArr r)
    | _, _, _, _, _ => (st, "bad-op")
  | "s.env" :: rest =>
    match nat? rest "h", (kv rest "apphash").bind (parseProv · ofHex),
          (kv rest "state").bind (parseProv · parsePState),
          (kv rest "commit").bind (parseProv · (fun s => s.toNat?.map PCommit.mk)) with
    | some h, some a, some s, some c =>
      ({ st with env := { h := h, appHash := a, state := s, commit := c } :: st.env }, "ok")
    | _, _, _, _ => (st, "bad-op")
  | ["s.offers", l] =>
    match (semis l).mapM parseOfferV with
    | some v => ({ st with offers := v }, "ok")
    | none => (st, "bad-op")
  | ["s.applies", l] =>
    match (semis l).mapM parseApplyV with
    | some v => ({ st with applies := v }, "ok")
    | none => (st, "bad-op")
  | ["s.infos", l] =>
    match (semis l).mapM parseInfoV with
    | some v => ({ st with infos := v }, "ok")
    | none => (st, "bad-op")
  | ["s.late", l] =>
    match parseMsgs l with
    | some v => ({ st with late := v }, "ok")
    | none => (st, "bad-op")
  | "s.fallback" :: rest =>
    match kv rest "p" with
    | some p => ({ st with fallback := if p = "-" then none else some p }, "ok")
    | none => (st, "bad-op")
  | "s.live" :: rest =>
    -- real fetcher goroutines: every request is answered by the peer it is sent to with the
    -- standard bytes; arrivals are not journalled (their timing is the fetchers')
    match nat? rest "n" with
    | some n => if n = 0 then (st, "bad-op") else ({ q := st.q, p := st.p, live := true }, "ok")
    | none => (st, "bad-op")
  | ["s.run"] =>
    let tr : List Msg → List Msg := fun ms => if st.via then ms.map viaMsg else ms
    let sc : Script := { offers := st.offers.map (fun v => { v with pre := tr v.pre })
                         applies := st.applies.map (fun v => { v with pre := tr v.pre })
                         infos := st.infos
                         late := if st.live then [] else tr st.late
                         fallback := if st.live then some "p1" else st.fallback
                         gap := fun _ => [], tick := 0 }
    let sy0 := { st.sy with journal := [] }
    let (r, sy', sc') := syncAny recent choose (mkEnv st.env) 200 60 none sy0 sc
    let rs := match r with
      | .ok snap s c => s!"ok snap={showSnap snap} state={s.tag}/{s.appVersion} commit={c.tag}"
      | .noSnapshots => if sy'.pool.bestTied then "tie" else "no-snapshots"
      | .abort => "abort"
      | .failed e => "failed:" ++ showErr e
      | .outOfFuel => "out-of-fuel"
    ({ st with sy := sy', offers := sc'.offers, applies := sc'.applies, infos := sc'.infos, late := sc'.late },
      rs ++ " | " ++ (if st.via then
          (if sy'.journal.isEmpty then "-" else " ".intercalate (sy'.journal.map showEvVia))
        else showJournal (if st.live then sy'.journal.filter (fun e => match e with
        | .arriveChunk _ _ => false
        | _ => true) else sy'.journal)))
  | ["s.pool"] => (st, showPool st.sy.pool)
  | _ => (st, "bad-op")

def machine : Machine := { σ := St, init := {}, step := step }

end Tmv.Drv.C14

def main : IO Unit := Tmv.Drv.run Tmv.Drv.C14.machine
