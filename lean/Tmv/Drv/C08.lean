import Tmv.Drv.Core
import Tmv.Model.ValStore
/-! Line-protocol driver for C08: validator set (`new/raw/upd/incr`) and state store
(`genesis/block/load/prune/info`). -/
namespace Tmv.Drv.C08
open Tmv Tmv.ValSet Tmv.ValStore

def addrHexLen : Nat := 2 * Facts.c08_AddressSize.toNat

def parseAddr (s : String) : Option Nat :=
  if s.length ≠ addrHexLen then none
  else s.toList.foldlM (fun acc c => (hexVal c).map (fun d => acc * 16 + d)) 0

def showAddrAux : Nat → Nat → List Char → List Char
  | 0, _, acc => acc
  | k+1, n, acc => showAddrAux k (n / 16) (hexDigit (n % 16) :: acc)

def showAddr (a : Nat) : String := String.ofList (showAddrAux addrHexLen a [])

def showVal (v : Val) : String := s!"{showAddr v.addr}:{v.power}:{v.prio}"
def showVals (l : List Val) : String := if l.isEmpty then "-" else ",".intercalate (l.map showVal)
def showSet (s : VSet) : String :=
  showVals s.vals ++ ";prop=" ++ (match s.proposer with | some p => showVal p | none => "-")

/-- `addr:power` or `addr:power:prio` -/
def parseVal (withPrio : Bool) (s : String) : Option Val :=
  match s.splitOn ":", withPrio with
  | [a, p], false => do pure ⟨← parseAddr a, ← p.toInt?, 0⟩
  | [a, p, q], true => do pure ⟨← parseAddr a, ← p.toInt?, ← q.toInt?⟩
  | _, _ => none

def parseVals (withPrio : Bool) (s : String) : Option (List Val) := (splitComma s).mapM (parseVal withPrio)

def inI64 (x : Int) : Bool := minI64 ≤ x ∧ x ≤ maxI64

def showErr : UpdErr → String
  | .dup => "dup" | .negative => "negative" | .tooBig => "toobig" | .zeroPower => "zero"
  | .empty => "empty" | .removeMissing => "remove-missing" | .overflow => "overflow"
  | .panicTotal => "panic-total"

def hasDupAddr : List Val → Bool
  | [] => false
  | v :: r => hasAddr r v.addr || hasDupAddr r

/-- with duplicate addresses in a batch the unstable sort of `processChanges` decides which of
the three scan errors is met first: the class is collapsed on both sides -/
def showErrIn (changes : List Val) (e : UpdErr) : String :=
  if hasDupAddr changes ∧ (e = .dup ∨ e = .negative ∨ e = .tooBig) then "invalid" else showErr e

structure St where
  cur : Option VSet := none
  db : DB := DB.empty
  st : Option State := none

/-- a raw set is accepted by both sides only if it is a set the real code does not panic on -/
def rawOk (l : List Val) : Bool :=
  !l.isEmpty ∧ !hasDupAddr l ∧ l.all (fun v => 0 ≤ v.power ∧ v.power ≤ maxTotal ∧
    -2305843009213693952 ≤ v.prio ∧ v.prio ≤ 2305843009213693952) ∧ !totalPanics l

def showInfoRange (t : Tbl Info) (a : Int) (n : Nat) : String :=
  " ".intercalate ((List.range n).map fun (i : Nat) =>
    match t.get (a + (i : Int)) with
    | none => "."
    | some ⟨c, none⟩ => s!"p{c}"
    | some ⟨c, some _⟩ => s!"s{c}")

def step (σ : St) (toks : List String) : St × String :=
  match toks with
  | "new" :: rest =>
    match (kv rest "v").bind (parseVals false) with
    | some valz =>
      if !valz.all (fun v => inI64 v.power) then (σ, "bad-op") else
      match newValidatorSet valz with
      | .ok s => ({ σ with cur := some s }, "ok " ++ showSet s)
      | .error e => (σ, "panic-" ++ showErrIn valz e)
    | none => (σ, "bad-op")
  | "raw" :: rest =>
    match (kv rest "v").bind (parseVals true), (kv rest "prop").bind String.toNat? with
    | some l, some i =>
      if rawOk l ∧ i < l.length then
        let s : VSet := ⟨l, l[i]?⟩
        ({ σ with cur := some s }, "ok " ++ showSet s)
      else (σ, "bad-op")
    | _, _ => (σ, "bad-op")
  | "upd" :: rest =>
    match σ.cur, (kv rest "ch").bind (parseVals false) with
    | some s, some ch =>
      if !ch.all (fun v => inI64 v.power) then (σ, "bad-op") else
      let r := updateWithChangeSet s ch true
      -- `alt` is the same batch in another order, applied to a copy of the receiver
      let alt := match kv rest "alt" with
        | none => some ""
        | some a => (parseVals false a).map fun ch2 =>
          let r2 := updateWithChangeSet s ch2 true
          if r2.1.vals = r.1.vals ∧ r2.2.isSome = r.2.isSome then " alt=same" else " alt=differs"
      match alt with
      | none => (σ, "bad-op")
      | some sfx =>
      ({ σ with cur := some r.1 },
        (match r.2 with | none => "ok" | some e => "err-" ++ showErrIn ch e) ++ " " ++ showVals r.1.vals ++ sfx)
    | _, _ => (σ, "bad-op")
  | "incr" :: rest =>
    match σ.cur, (kv rest "n").bind String.toInt? with
    | some s, some n =>
      if n < -2147483648 ∨ n > 2147483647 then (σ, "bad-op") else
      match increment s n with
      | some s' => ({ σ with cur := some s' }, "ok " ++ showSet s')
      | none => (σ, "panic")
    | _, _ => (σ, "bad-op")
  | "genesis" :: rest =>
    match (kv rest "ih").bind String.toInt?, (kv rest "v").bind (parseVals false) with
    | some ih, some valz =>
      if ih < 1 ∨ ih > 4000000000000 ∨ valz.isEmpty ∨ !valz.all (fun v => inI64 v.power) then (σ, "bad-op") else
      match genesisState ih valz with
      | .error e => (σ, "err-" ++ showErrIn valz e)
      | .ok st =>
        match save DB.empty st with
        | none => (σ, "err-save")
        | some db => ({ σ with db := db, st := some st },
            "ok " ++ showSet st.validators ++ " / " ++ showSet st.nextValidators)
    | _, _ => (σ, "bad-op")
  | "handshake" :: rest =>
    -- MakeGenesisState, then the node's Handshaker with an app whose InitChain returns `iv`
    match (kv rest "ih").bind String.toInt?, (kv rest "v").bind (parseVals false),
          (kv rest "iv").bind (parseVals false) with
    | some ih, some valz, some iv =>
      if ih < 1 ∨ ih > 4000000000000 ∨ !valz.all (fun v => inI64 v.power) ∨ !iv.all (fun v => inI64 v.power)
      then (σ, "bad-op") else
      match genesisState ih valz with
      | .error e => (σ, "err-" ++ showErrIn valz e)
      | .ok st0 =>
        match handshakeInit st0 valz iv with
        | .panic e => (σ, "hs-panic-" ++ showErrIn iv e)
        | .noValidators => (σ, "err-novalidators")
        | .ok st =>
          match save DB.empty st with
          | none => (σ, "err-save")
          | some db => ({ σ with db := db, st := some st },
              "ok " ++ showSet st.validators ++ " / " ++ showSet st.nextValidators)
    | _, _, _ => (σ, "bad-op")
  | ["bootstrap"] =>
    -- state sync: a fresh store bootstrapped from the current state (LastHeightValidatorsChanged =
    -- height of NextValidators, as statesync's state provider sets it)
    match σ.st with
    | some st =>
      if st.lastBlockHeight < 1 then (σ, "bad-op") else
      let st' := { st with lhvc := st.lastBlockHeight + 2 }
      match bootstrap st' with
      | none => (σ, "err-bootstrap")
      | some db => ({ σ with db := db, st := some st' }, s!"ok base={st.lastBlockHeight}")
    | none => (σ, "bad-op")
  | "rpcvals" :: rest =>
    -- the /validators RPC; `lag` only configures the Go side's stale consensus state
    match σ.st, kv rest "h", (kv rest "sync").bind String.toNat?, (kv rest "lag").bind String.toNat? with
    | some st, some hs, some sync, some _ =>
      let h? : Option (Option Int) := if hs = "-" then some none else hs.toInt?.map some
      match h? with
      | none => (σ, "bad-op")
      | some h =>
        if sync > 1 then (σ, "bad-op") else
        match rpcValidators σ.db st (sync = 1) h with
        | none => (σ, "err-height")
        | some (x, .ok s) => (σ, s!"ok h={x} " ++ showVals s.vals)
        | some (_, .panic) => (σ, "panic")
        | some (_, _) => (σ, "err-load")
    | _, _, _, _ => (σ, "bad-op")
  | ["rollback"] =>
    match σ.st with
    | some st =>
      match rollback σ.db st with
      | .ok db st' => ({ σ with db := db, st := some st' },
          s!"ok h={st'.lastBlockHeight} lhc={st'.lhvc} cur=" ++ showSet st'.validators ++ " next=" ++ showSet st'.nextValidators)
      | .errNoBlock => (σ, "err-noblock")
      | .errLoad => (σ, "err-load")
      | .errParams => (σ, "err-params")
      | .errSave => (σ, "err-save")
      | .panic => (σ, "panic")
    | none => (σ, "bad-op")
  | "block" :: rest =>
    match σ.st, (kv rest "ch").bind (parseVals false) with
    | some st, some ch =>
      if !ch.all (fun v => inI64 v.power) then (σ, "bad-op") else
      let h := if st.lastBlockHeight = 0 then st.initialHeight else st.lastBlockHeight + 1
      match updateState st h ch with
      | .err e => (σ, "err-" ++ showErrIn ch e)
      | .panic => (σ, "panic")
      | .ok st' =>
        match save σ.db st' with
        | none => (σ, "err-save")
        | some db => ({ σ with db := db, st := some st' },
            s!"ok h={h} lhc={st'.lhvc} next=" ++ showSet st'.nextValidators)
    | _, _ => (σ, "bad-op")
  | "load" :: rest =>
    match (kv rest "h").bind String.toInt? with
    | some h =>
      (σ, match loadValidators σ.db.vals h with
        | .ok s => "ok " ++ showSet s
        | .noValSet => "err-novalset"
        | .notFound => "err-notfound"
        | .protoErr => "err-proto"
        | .panic => "panic")
    | none => (σ, "bad-op")
  | "prune" :: rest =>
    match (kv rest "from").bind String.toInt?, (kv rest "to").bind String.toInt? with
    | some a, some b =>
      if b - a > 300000 then (σ, "bad-op") else
      let r := pruneStates σ.db a b
      ({ σ with db := r.1 }, match r.2 with
        | .ok => "ok" | .errArgs => "err-args" | .errNoVals => "err-novals"
        | .errNoParams => "err-noparams" | .errLoad => "err-load" | .panic => "panic")
    | _, _ => (σ, "bad-op")
  | "info" :: rest =>
    match (kv rest "from").bind String.toInt?, (kv rest "n").bind String.toNat? with
    | some a, some n => if n > 64 then (σ, "bad-op") else (σ, "info " ++ showInfoRange σ.db.vals a n)
    | _, _ => (σ, "bad-op")
  | _ => (σ, "bad-op")

def machine : Machine := { σ := St, init := {}, step := step }

end Tmv.Drv.C08

def main : IO Unit := Tmv.Drv.run Tmv.Drv.C08.machine
