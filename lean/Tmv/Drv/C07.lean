import Tmv.Drv.Core
import Tmv.Model.CommitVerify
import Tmv.Model.CommitDecode
/-! Line-protocol driver for C07 (commit verification).

    vals v=<addr>/<key>/<power>,...                      -> total=<T> | panic-total
    commit h=<int> r=<int> bid=<hash>/<total>/<pshash> sigs=<flag>/<addr>/<ts>/<sig>,...   -> ok
    full chain=<c> bid=<..> h=<int>                      -> verdict
    light chain=<c> bid=<..> h=<int>                     -> verdict
    trusting chain=<c> num=<uint64> den=<uint64>         -> verdict

`vals` and `commit` lines may carry `via=proto` (and `vals` a `tvp=<int64>`): the Go side then passes
the value through ToProto -> wire bytes (with `tvp` written into total_voting_power) -> FromProto,
the model through `valSetFromProto` / `commitFromProto`; a value that does not decode answers
`proto-error:<kind>` and leaves no set / commit. Further ops:

    basic                      -> Commit.ValidateBasic of the current commit: ok | basic-error:<kind>
    bid b=<hash>/<total>/<pshash>  -> valid=<bool> zero=<bool> complete=<bool>

Timestamps are nanoseconds since the epoch; the token -9223372036854775808 stands for Go's zero
time.Time (year 1), which does not fit int64 nanoseconds.

`<sig>` says what the signature really is: `V~key~chain~type~h~r~hash~total~pshash~ts` = a genuine
signature by key `key` over that canonical vote; `F~…` (bit-flipped), `J` (junk, 64 bytes), `E` (empty),
`S` (short, 10 bytes), `L` (long, 65 bytes) never verify. -/
namespace Tmv.Drv.C07
open Tmv Tmv.CommitVerify

/-- what a signature was really made over -/
structure Sig where
  len : Nat                          -- byte length of the signature
  what : Option (Nat × SignBytes)    -- the key and record it is a genuine signature of

def sigOK (k : Nat) (sb : SignBytes) (s : Sig) : Bool := s.what == some (k, sb)

def sigLen (s : Sig) : Nat := s.len

/-- timestamp token: the minimum int64 stands for Go's zero time -/
def tsOf (i : Int) : Int := if i = minInt64 then zeroTime else i

def int64? (s : String) : Option Int := do
  let i ← s.toInt?
  if minInt64 ≤ i ∧ i ≤ maxInt64 then some i else none

def int32? (s : String) : Option Int := do
  let i ← s.toInt?
  if -2147483648 ≤ i ∧ i ≤ 2147483647 then some i else none

def uint64? (s : String) : Option Nat := do
  let n ← s.toNat?
  if n < 18446744073709551616 then some n else none

def uint32? (s : String) : Option Nat := do
  let n ← s.toNat?
  if n < 4294967296 then some n else none

def chain? (s : String) : String := if s = "-" then "" else s

def parseBid3 (h t p : String) : Option BlockID := do
  let hh ← ofHex h
  let tt ← uint32? t
  let pp ← ofHex p
  pure ⟨hh, tt, pp⟩

def parseBid (s : String) : Option BlockID :=
  match s.splitOn "/" with
  | [h, t, p] => parseBid3 h t p
  | _ => none

def parseSig (s : String) : Option Sig :=
  if s = "J" then some ⟨64, none⟩
  else if s = "E" then some ⟨0, none⟩
  else if s = "S" then some ⟨10, none⟩
  else if s = "L" then some ⟨65, none⟩
  else
    match s.splitOn "~" with
    | [tag, key, chain, ty, h, r, bh, bt, bp, ts] => do
      let k ← key.toNat?
      let ty ← ty.toNat?
      let h ← int64? h
      let r ← int32? r
      let b ← parseBid3 bh bt bp
      let ts ← int64? ts
      if !b.validBasic then none
      else if tag = "F" then some ⟨64, none⟩
      else if tag = "V" then
        some ⟨64, some (k, { type := ty, height := h, round := r, blockID := canonBlockID b,
                             ts := tsOf ts, chainID := chain? chain })⟩
      else none
    | _ => none

def parseSlot (s : String) : Option (CommitSig Sig) :=
  match s.splitOn "/" with
  | [f, a, ts, sg] => do
    let f ← f.toNat?
    if f ≥ 256 then none
    let a ← ofHex a
    let ts ← int64? ts
    let sg ← parseSig sg
    pure { flag := f, addr := a, ts := tsOf ts, sig := sg }
  | _ => none

def parseVal (s : String) : Option Validator :=
  match s.splitOn "/" with
  | [a, k, p] => do
    let a ← ofHex a
    let k ← k.toNat?
    let p ← int64? p
    pure { addr := a, key := k, power := p }
  | _ => none

def showRes : Res → String
  | .ok => "ok"
  | .size a b => s!"size({a},{b})"
  | .height => "height"
  | .blockID => "blockid"
  | .wrongSig i => s!"wrong-sig({i})"
  | .notEnough g n => s!"not-enough({g},{n})"
  | .zeroDen => "zero-den"
  | .fractionRange => "bad-fraction"
  | .overflow => "overflow"
  | .doubleVote a b => s!"double-vote({a},{b})"
  | .panicFlag => "panic-flag"
  | .panicBlockID => "panic-blockid"
  | .panicTotal => "panic-total"
  | .panicIndex => "panic-index"

def showSigErr : SigErr → String
  | .unknownFlag => "unknown-flag" | .absentAddr => "absent-address" | .absentTime => "absent-time"
  | .absentSig => "absent-signature" | .addrSize => "address-size" | .sigMissing => "signature-missing"
  | .sigTooBig => "signature-too-big"

def showCommitErr : CommitErr → String
  | .blockID => "blockid" | .sig e => s!"sig({showSigErr e})" | .negHeight => "negative-height"
  | .negRound => "negative-round" | .nilBlock => "nil-block" | .noSigs => "no-signatures"

def showValErr : ValErr → String
  | .negPower => "negative-power" | .addrSize => "address-size"

def showSetErr : SetErr → String
  | .nilProposer => "nil-proposer" | .empty => "empty"
  | .validator i e => s!"validator({i},{showValErr e})" | .proposer e => s!"proposer({showValErr e})"
  | .panicTotal => "panic-total"

structure St where
  vals : Option (List Validator) := none
  commit : Option (Commit Sig) := none

def step (st : St) (toks : List String) : St × String :=
  match toks with
  | "vals" :: rest =>
    match (kv rest "v").bind (fun s => (splitComma s).mapM parseVal) with
    | some vs =>
      if kv rest "via" = some "proto" then
        match (match kv rest "tvp" with | none => some 0 | some t => int64? t) with
        | none => (st, "bad-op")
        | some tvp =>
          match valSetFromProto { validators := vs, proposer := vs.head?, total := tvp } with
          | .error e => ({ st with vals := none }, "proto-error:" ++ showSetErr e)
          | .ok dec => ({ st with vals := some dec },
              match totalVotingPower dec with
              | some t => s!"total={t}"
              | none => "panic-total")
      else
      ({ st with vals := some vs },
        match totalVotingPower vs with
        | some t => s!"total={t}"
        | none => "panic-total")
    | none => (st, "bad-op")
  | "commit" :: rest =>
    match (kv rest "h").bind int64?, (kv rest "r").bind int32?, (kv rest "bid").bind parseBid,
          (kv rest "sigs").bind (fun s => (splitComma s).mapM parseSlot) with
    | some h, some r, some b, some sigs =>
      let c : Commit Sig := { height := h, round := r, blockID := b, sigs := sigs }
      if kv rest "via" = some "proto" then
        match commitFromProto sigLen c with
        | .error e => ({ st with commit := none }, "proto-error:" ++ showCommitErr e)
        | .ok dec => ({ st with commit := some dec }, "ok")
      else ({ st with commit := some c }, "ok")
    | _, _, _, _ => (st, "bad-op")
  | ["basic"] =>
    match st.commit with
    | some c => (st, match commitValidateBasic sigLen c with
        | none => "ok"
        | some e => "basic-error:" ++ showCommitErr e)
    | none => (st, "bad-op")
  | "bid" :: rest =>
    match (kv rest "b").bind parseBid with
    | some b => (st, s!"valid={b.validBasic} zero={b.isZero} complete={b.isComplete}")
    | none => (st, "bad-op")
  | "full" :: rest =>
    match st.vals, st.commit, kv rest "chain", (kv rest "bid").bind parseBid, (kv rest "h").bind int64? with
    | some vs, some c, some ch, some b, some h =>
      (st, showRes (verifyCommit sigOK vs (chain? ch) b h c))
    | _, _, _, _, _ => (st, "bad-op")
  | "light" :: rest =>
    match st.vals, st.commit, kv rest "chain", (kv rest "bid").bind parseBid, (kv rest "h").bind int64? with
    | some vs, some c, some ch, some b, some h =>
      (st, showRes (verifyCommitLight sigOK vs (chain? ch) b h c))
    | _, _, _, _, _ => (st, "bad-op")
  | "trusting" :: rest =>
    match st.vals, st.commit, kv rest "chain", (kv rest "num").bind uint64?, (kv rest "den").bind uint64? with
    | some vs, some c, some ch, some n, some d =>
      (st, showRes (verifyCommitLightTrusting sigOK vs (chain? ch) c n d))
    | _, _, _, _, _ => (st, "bad-op")
  | _ => (st, "bad-op")

def machine : Machine := { σ := St, init := {}, step := step }

end Tmv.Drv.C07

def main : IO Unit := Tmv.Drv.run Tmv.Drv.C07.machine
