import Tmv.Drv.Core
import Tmv.Model.CommitVerify
/-! Line-protocol driver for C07 (commit verification).

    vals v=<addr>/<key>/<power>,...                      -> total=<T> | panic-total
    commit h=<int> r=<int> bid=<hash>/<total>/<pshash> sigs=<flag>/<addr>/<ts>/<sig>,...   -> ok
    full chain=<c> bid=<..> h=<int>                      -> verdict
    light chain=<c> bid=<..> h=<int>                     -> verdict
    trusting chain=<c> num=<uint64> den=<uint64>         -> verdict

`vals` and `commit` lines may carry `via=proto` (and `vals` a `tvp=<int64>`): the Go side then passes
the value through ToProto -> wire bytes (with `tvp` written into total_voting_power) -> FromProto
before use. The stream only emits this for values that decode, and for the model decoding is the
identity (a decoded set IS the set, whatever total the wire claimed), so the tokens are ignored here.

`<sig>` says what the signature really is: `V~key~chain~type~h~r~hash~total~pshash~ts` = a genuine
signature by key `key` over that canonical vote; `F~…` (bit-flipped), `J` (junk), `E` (empty),
`S` (short) never verify. -/
namespace Tmv.Drv.C07
open Tmv Tmv.CommitVerify

/-- what a signature was really made over -/
abbrev Sig := Option (Nat × SignBytes)

def sigOK (k : Nat) (sb : SignBytes) (s : Sig) : Bool := s == some (k, sb)

def int64? (s : String) : Option Int := do
  let i ← s.toInt?
  if minInt64 ≤ i ∧ i ≤ maxInt64 then some i else none

def int32? (s : String) : Option Int := do
  let i ← s.toInt?
  if -2147483648 ≤ i ∧ i ≤ 2147483647 then some i else none

def uint64? (s : String) : Option Nat := do
  let n ← s.toNat?
  if n < 18446744073709551616 then some n else none

def uint32? (s : String) : Option Nat := do
  let n ← s.toNat?
  if n < 4294967296 then some n else none

def chain? (s : String) : String := if s = "-" then "" else s

def parseBid3 (h t p : String) : Option BlockID := do
  let hh ← ofHex h
  let tt ← uint32? t
  let pp ← ofHex p
  pure ⟨hh, tt, pp⟩

def parseBid (s : String) : Option BlockID :=
  match s.splitOn "/" with
  | [h, t, p] => parseBid3 h t p
  | _ => none

def parseSig (s : String) : Option Sig :=
  if s = "J" ∨ s = "E" ∨ s = "S" then some none
  else
    match s.splitOn "~" with
    | [tag, key, chain, ty, h, r, bh, bt, bp, ts] => do
      let k ← key.toNat?
      let ty ← ty.toNat?
      let h ← int64? h
      let r ← int32? r
      let b ← parseBid3 bh bt bp
      let ts ← int64? ts
      if !b.validBasic then none
      else if tag = "F" then some none
      else if tag = "V" then
        some (some (k, { type := ty, height := h, round := r, blockID := canonBlockID b,
                         ts := ts, chainID := chain? chain }))
      else none
    | _ => none

def parseSlot (s : String) : Option (CommitSig Sig) :=
  match s.splitOn "/" with
  | [f, a, ts, sg] => do
    let f ← f.toNat?
    if f ≥ 256 then none
    let a ← ofHex a
    let ts ← int64? ts
    let sg ← parseSig sg
    pure { flag := f, addr := a, ts := ts, sig := sg }
  | _ => none

def parseVal (s : String) : Option Validator :=
  match s.splitOn "/" with
  | [a, k, p] => do
    let a ← ofHex a
    let k ← k.toNat?
    let p ← int64? p
    pure { addr := a, key := k, power := p }
  | _ => none

def showRes : Res → String
  | .ok => "ok"
  | .size a b => s!"size({a},{b})"
  | .height => "height"
  | .blockID => "blockid"
  | .wrongSig i => s!"wrong-sig({i})"
  | .notEnough g n => s!"not-enough({g},{n})"
  | .zeroDen => "zero-den"
  | .fractionRange => "bad-fraction"
  | .overflow => "overflow"
  | .doubleVote a b => s!"double-vote({a},{b})"
  | .panicFlag => "panic-flag"
  | .panicBlockID => "panic-blockid"
  | .panicTotal => "panic-total"
  | .panicIndex => "panic-index"

structure St where
  vals : Option (List Validator) := none
  commit : Option (Commit Sig) := none

def step (st : St) (toks : List String) : St × String :=
  match toks with
  | "vals" :: rest =>
    match (kv rest "v").bind (fun s => (splitComma s).mapM parseVal) with
    | some vs =>
      ({ st with vals := some vs },
        match totalVotingPower vs with
        | some t => s!"total={t}"
        | none => "panic-total")
    | none => (st, "bad-op")
  | "commit" :: rest =>
    match (kv rest "h").bind int64?, (kv rest "r").bind int32?, (kv rest "bid").bind parseBid,
          (kv rest "sigs").bind (fun s => (splitComma s).mapM parseSlot) with
    | some h, some r, some b, some sigs =>
      ({ st with commit := some { height := h, round := r, blockID := b, sigs := sigs } }, "ok")
    | _, _, _, _ => (st, "bad-op")
  | "full" :: rest =>
    match st.vals, st.commit, kv rest "chain", (kv rest "bid").bind parseBid, (kv rest "h").bind int64? with
    | some vs, some c, some ch, some b, some h =>
      (st, showRes (verifyCommit sigOK vs (chain? ch) b h c))
    | _, _, _, _, _ => (st, "bad-op")
  | "light" :: rest =>
    match st.vals, st.commit, kv rest "chain", (kv rest "bid").bind parseBid, (kv rest "h").bind int64? with
    | some vs, some c, some ch, some b, some h =>
      (st, showRes (verifyCommitLight sigOK vs (chain? ch) b h c))
    | _, _, _, _, _ => (st, "bad-op")
  | "trusting" :: rest =>
    match st.vals, st.commit, kv rest "chain", (kv rest "num").bind uint64?, (kv rest "den").bind uint64? with
    | some vs, some c, some ch, some n, some d =>
      (st, showRes (verifyCommitLightTrusting sigOK vs (chain? ch) c n d))
    | _, _, _, _, _ => (st, "bad-op")
  | _ => (st, "bad-op")

def machine : Machine := { σ := St, init := {}, step := step }

end Tmv.Drv.C07

def main : IO Unit := Tmv.Drv.run Tmv.Drv.C07.machine
