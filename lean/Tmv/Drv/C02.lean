import Tmv.Drv.Core
import Tmv.Model.Cons
import Tmv.Model.VoteSetCommit
/-! Line-protocol driver for the consensus node model (C02; reused by C01/C03). -/
namespace Tmv.Drv.C02
open Tmv Tmv.Cons

structure St where
  cfg : Option Cfg
  ids : Nat            -- block ids 0..ids-1 are shown in the vote-set summary
  s : NodeState
  shown : Nat          -- outputs already printed

def natList (s : String) : Option (List Nat) := (splitComma s).mapM String.toNat?

def parseBool (s : String) : Option Bool :=
  if s = "1" then some true else if s = "0" then some false else none

def parseCfg (toks : List String) : Option (Cfg × Nat) := do
  let n ← (← kv toks "n").toNat?
  let powers ← natList (← kv toks "powers")
  let selfI ← (← kv toks "self").toInt?
  let props ← natList (← kv toks "proposers")
  let invalid ← natList (← kv toks "invalid")
  let own ← (← kv toks "own").toNat?
  let ids ← (← kv toks "ids").toNat?
  let wait ← parseBool (← kv toks "wait")
  let np ← parseBool (← kv toks "needproof")
  let iv ← parseBool (← kv toks "interval")
  let hrs ← parseBool (← kv toks "hrs")
  if powers.length ≠ n ∨ n = 0 ∨ props.isEmpty then none else
  if selfI ≥ (n : Int) then none else
  pure ({ n := n, power := fun i => powers.getD i 0,
          self := if selfI < 0 then none else some selfI.toNat,
          proposer := fun k => props.getD k 0, valid := fun b => !invalid.contains b,
          ownBlock := own, waitForTxs := wait, needProofBlock := np, emptyInterval := iv,
          checkHRS := hrs }, ids)

def parseBid (s : String) : Option Bid :=
  if s = "nil" then some none else s.toNat?.map some

def parseVType (s : String) : Option VType :=
  if s = "pv" then some .prevote else if s = "pc" then some .precommit else none

def stepName : Step → String
  | .newHeight => "newHeight" | .newRound => "newRound" | .propose => "propose"
  | .prevote => "prevote" | .prevoteWait => "prevoteWait" | .precommit => "precommit"
  | .precommitWait => "precommitWait" | .commit => "commit"

def parseStep (s : String) : Option Step :=
  [Step.newHeight, .newRound, .propose, .prevote, .prevoteWait, .precommit, .precommitWait, .commit].find?
    (fun x => stepName x = s)

def parseInput (toks : List String) : Option Input :=
  match toks with
  | "prop" :: rest => do
    let r ← (← kv rest "r").toNat?
    let b ← (← kv rest "b").toNat?
    let pol ← (← kv rest "pol").toInt?
    let by_ ← (← kv rest "by").toNat?
    pure (.proposal { round := r, bid := b, pol := pol, signer := by_ })
  | "block" :: rest => do
    let b ← (← kv rest "b").toNat?
    pure (.blockComplete b)
  | "vote" :: rest => do
    let t ← parseVType (← kv rest "t")
    let r ← (← kv rest "r").toNat?
    let b ← parseBid (← kv rest "b")
    let v ← (← kv rest "v").toNat?
    let peer ← (← kv rest "peer").toNat?
    let sig ← parseBool (← kv rest "sig")
    -- optional: a = index of the validator whose address is carried, k = whose key signed (default v)
    let a ← match kv rest "a" with | some x => x.toNat? | none => some v
    let k ← match kv rest "k" with | some x => x.toNat? | none => some v
    pure (.vote ⟨t, r, b, v, sig, a, k⟩ peer)
  | "maj23" :: rest => do
    let t ← parseVType (← kv rest "t")
    let r ← (← kv rest "r").toNat?
    let b ← parseBid (← kv rest "b")
    let peer ← (← kv rest "peer").toNat?
    pure (.peerMaj23 r t peer b)
  | "timeout" :: rest => do
    let r ← (← kv rest "r").toNat?
    let st ← parseStep (← kv rest "s")
    pure (.timeout r st)
  | ["txs"] => some .txsAvailable
  | _ => none

def showBid : Bid → String
  | none => "nil"
  | some b => toString b

def showOB : Option Nat → String
  | none => "-"
  | some b => toString b

def showOut : Output → String
  | .signProposal r b pol => s!"prop({r},{b},{pol})"
  | .signVote .prevote r b => s!"pv({r},{showBid b})"
  | .signVote .precommit r b => s!"pc({r},{showBid b})"
  | .schedule r st => s!"to({r},{stepName st})"
  | .decide b r => s!"decide({b},{r})"
  | .panic why => s!"panic({why})"

def showVS (ids : Nat) (vs : VoteSet) : String :=
  let keys : List Bid := none :: (List.range ids).map some
  let buckets := keys.filterMap fun k =>
    let x := vs.blockSum k
    if x = 0 then none else some s!"{showBid k}={x}"
  let m := match vs.maj23 with | none => "-" | some b => showBid b
  s!"{vs.sum}/{m}/" ++ (if buckets.isEmpty then "-" else "+".intercalate buckets)

def showHV (ids : Nat) (h : HVS) : String :=
  let rounds : List Int := (List.range 42).map fun (i : Nat) => (i : Int) - 1
  ",".intercalate (rounds.filterMap fun r =>
    (h.getRound r).map fun rvs => s!"{r}:P{showVS ids rvs.prevotes}:C{showVS ids rvs.precommits}")

def showFlag : SigFlag → String
  | .absent => "A" | .nil => "N" | .commit => "C"

/-- what `MakeCommit` of the round's precommits yields, with the canonical vote of every slot -/
def showCommit (c : Cfg) (s : NodeState) (r : Int) : String :=
  match s.votes.precommits r with
  | none => "nocommit"
  | some vs =>
    match vs.makeCommit c.n with
    | some (some b, flags) =>
      let slots := (List.range c.n).map fun i => match alookup vs.votes i with
        | none => "-" | some x => showBid x
      s!"commit r={r} b={b} bucket={vs.blockSum (some b)} sigs={String.join (flags.map showFlag)} " ++
        s!"votes={",".intercalate slots} vc=ok"
    | _ => "nocommit"

def showState (c : Cfg) (ids : Nat) (s : NodeState) : String :=
  if s.halted then "halted" else
  match s.decided with
  | some (b, r) => s!"decided {b}@{r} {showCommit c s r}"
  | none =>
    let prop := match s.proposal with
      | none => "-"
      | some p => s!"{p.bid}/{p.pol}"
    s!"r={s.round} s={stepName s.step} lr={s.lockedRound} lb={showOB s.lockedBlock} " ++
    s!"vr={s.validRound} vb={showOB s.validBlock} prop={prop} pb={showOB s.proposalBlock} " ++
    s!"pp={showOB s.proposalParts}/{if s.partsDone then 1 else 0} cr={s.commitRound} " ++
    s!"tp={if s.triggered then 1 else 0} pr={c.proposer s.valRound} q={s.queue.length} " ++
    s!"hr={s.votes.round} hv={showHV ids s.votes}"

def step (st : St) (toks : List String) : St × String :=
  match toks with
  | "cfg" :: rest =>
    match parseCfg rest with
    | some (c, ids) => ({ cfg := some c, ids := ids, s := .init, shown := 0 }, "ok")
    | none => (st, "bad-op")
  | "makecommit" :: rest =>
    match st.cfg, (kv rest "r").bind String.toNat? with
    | some c, some r =>
      if st.s.halted ∨ st.s.decided.isSome then (st, "nocommit") else (st, showCommit c st.s (r : Int))
    | _, _ => (st, "bad-op")
  | _ =>
    match st.cfg, parseInput toks with
    | some c, some i =>
      let s' := Cons.step c st.s i
      let news := s'.out.drop st.shown
      ({ st with s := s', shown := s'.out.length },
        showState c st.ids s' ++ " |" ++ String.join (news.map fun o => " " ++ showOut o))
    | _, _ => (st, "bad-op")

def machine : Machine := { σ := St, init := ⟨none, 0, .init, 0⟩, step := step }

end Tmv.Drv.C02

def main : IO Unit := Tmv.Drv.run Tmv.Drv.C02.machine
