import Tmv.Util
/-! Line-protocol driver core: one op per line in, one canonical answer per line out.
`#case <id>` resets the model state (and is echoed). -/
namespace Tmv.Drv

structure Machine where
  σ : Type
  init : σ
  step : σ → List String → σ × String

partial def loop (m : Machine) (h : IO.FS.Stream) (out : IO.FS.Stream) (s : m.σ) : IO Unit := do
  let line ← h.getLine
  if line.isEmpty then
    out.flush
    return ()
  let l := (line.dropRightWhile (fun c => c = '\n' ∨ c = '\r'))
  if l.startsWith "#case" then
    out.putStrLn l
    loop m h out m.init
  else
    let toks := (l.splitOn " ").filter (· ≠ "")
    let (s', o) := m.step s toks
    out.putStrLn o
    loop m h out s'

def run (m : Machine) : IO Unit := do
  let i ← IO.getStdin
  let o ← IO.getStdout
  loop m i o m.init

end Tmv.Drv
