import Tmv.Drv.Core
import Tmv.Sha256
import Tmv.Model.SecretFrames
import Tmv.Model.Sts
/-! C16 driver: data phase of a secret connection pair under an adversarial pipe (toy ideal
AEAD: plaintext ‖ 16-byte SHA-256 tag over key, counter and plaintext — only positions and
verdicts are compared with the real code, never ciphertext), and symbolic MITM scenarios. -/
namespace Tmv.Drv.C16
open Tmv Tmv.SecretFrames

def tag (key : UInt8) (c : Nat) (m : Bytes) : Bytes :=
  (Sha256.hash (key :: (le64 c ++ m))).take aeadSizeOverhead

def enc (key : UInt8) (c : Nat) (m : Bytes) : Bytes := m ++ tag key c m

def dec (key : UInt8) (c : Nat) (ct : Bytes) : Option Bytes :=
  if ct.length < aeadSizeOverhead then none
  else
    let m := ct.take (ct.length - aeadSizeOverhead)
    if ct.drop (ct.length - aeadSizeOverhead) = tag key c m then some m else none

def junk (_ : Nat) : Bytes := []

/-- one direction: the writer's counter and conn condition, the reader (with the wire) -/
structure Dir where
  key : UInt8
  wNonce : Nat
  connOk : Bool
  r : RState

structure St where
  up : Bool
  ab : Dir
  ba : Dir

def init : St :=
  { up := false,
    ab := { key := 1, wNonce := 0, connOk := true, r := ⟨[], 0, []⟩ },
    ba := { key := 2, wNonce := 0, connOk := true, r := ⟨[], 0, []⟩ } }

def getDir (s : St) (d : String) : Option Dir :=
  if d = "ab" then some s.ab else if d = "ba" then some s.ba else none

def setDir (s : St) (d : String) (x : Dir) : St :=
  if d = "ab" then { s with ab := x } else { s with ba := x }

def doWrite (x : Dir) (data : Bytes) : Dir × WResult :=
  let r := write (enc x.key) junk x.wNonce data x.connOk
  ({ x with wNonce := r.nonce, r := { x.r with wire := x.r.wire ++ wireOf r.frames } }, r)

def showW (r : WResult) : String :=
  match r.outcome with
  | .ok => s!"n={r.n} ok frames={r.frames.length} nonce={r.nonce}"
  | .connErr => s!"n={r.n} err frames={r.frames.length} nonce={r.nonce}"
  | .panic => s!"panic frames={r.frames.length} nonce={r.nonce}"

def showErr : RErr → String
  | .eof => "eof" | .ueof => "ueof" | .decrypt => "decrypt" | .tooLong => "toolong" | .panic => "panic"

def showR (s : RState) (r : RResult) : String :=
  match r with
  | .ok b => s!"ok {hexOrDash b} nonce={s.nonce} buf={s.buf.length}"
  | .error e => s!"err:{showErr e} nonce={s.nonce} buf={s.buf.length}"

/-- the auth frame of the handshake: one write and one full read per direction -/
def handshakeDir (x : Dir) : Dir :=
  let (x1, _) := doWrite x (List.replicate 100 7)
  let (r', _) := read (dec x.key) x1.r dataMaxSize
  { x1 with r := r' }

def S : Nat := sealedFrameSize

def editWire (x : Dir) (f : Bytes → Option Bytes) : Dir × String :=
  match f x.r.wire with
  | some w => ({ x with r := { x.r with wire := w } }, s!"ok len={w.length}")
  | none => (x, "bad-range")

def nat? (toks : List String) (k : String) : Option Nat := (kv toks k).bind String.toNat?

/-! symbolic MITM scenarios -/
open Tmv.Sts in
def ltP (a b : Point) : Bool :=
  match a, b with
  | .honest x, .honest y => x < y
  | .honest _, _ => true
  | .adv _, .honest _ => false
  | .adv x, .adv y => x < y
  | .adv _, .lowOrder _ => true
  | .adv _, .foreign _ => true
  | .lowOrder x, .lowOrder y => x < y
  | .lowOrder _, .foreign _ => true
  | .lowOrder _, _ => false
  | .foreign x, .foreign y => x < y
  | .foreign _, _ => false

open Tmv.Sts in
def showV (s : Session) (peer : Nat) : Verdict → String
  | .ok (.honest i) => if i = s.owner then "ok:self" else if i = peer then "ok:peer" else "ok:other"
  | .ok (.adv _) => "ok:adv"
  | .ok (.other _) => "ok:othertype"
  | .lowOrder => "fail:low-order"
  | .decrypt => "fail:decrypt"
  | .keyType => "fail:keytype"
  | .verify => "fail:verify"

open Tmv.Sts in
/-- re-seal the payload of `e` under the receive key of `s` (what an adversary sharing that key
can do) -/
def reseal (s : Session) (e : Option Sealed) : Option Sealed :=
  match s.recvKey ltP, e with
  | some k, some x => some ⟨k, x.payload⟩
  | _, _ => none

open Tmv.Sts in
def advMsg (s : Session) (k : Key) (good : Bool) : Option Sealed :=
  match s.recvKey ltP, s.chal ltP with
  | some rk, some c => some ⟨rk, ⟨k, if good then some ⟨k, c⟩ else none⟩⟩
  | _, _ => none

open Tmv.Sts in
def mitm (kind : String) (k : Nat) : String :=
  let a1 : Session := ⟨0, 10, .honest 11⟩
  let b1 : Session := ⟨1, 11, .honest 10⟩
  let a2 : Session := ⟨0, 10, .adv 5⟩
  let b2 : Session := ⟨1, 11, .adv 6⟩
  let one (s : Session) (inp : Option Sealed) : String := "a=" ++ showV s 1 (s.finish ltP inp)
  let two (sa sb : Session) (ia ib : Option Sealed) : String :=
    "a=" ++ showV sa 1 (sa.finish ltP ia) ++ " b=" ++ showV sb 0 (sb.finish ltP ib)
  if kind = "relay" then two a1 b1 (b1.authOut ltP) (a1.authOut ltP)
  else if kind = "own-key" then one a2 (advMsg a2 (.adv 7) true)
  else if kind = "swap-eph" then two a2 b2 (reseal a2 (b2.authOut ltP)) (reseal b2 (a2.authOut ltP))
  else if kind = "swap-eph-noreenc" then two a2 b2 (b2.authOut ltP) (a2.authOut ltP)
  else if kind = "replay-auth" then
    let b0 : Session := ⟨1, 12, .adv 8⟩
    one a2 (reseal a2 (b0.authOut ltP))
  else if kind = "low-order" then
    -- the stream knows 14 small-order encodings (7 points, with and without the ignored top bit)
    if k < 14 then one ⟨0, 10, .lowOrder k⟩ none else "bad-op"
  else if kind = "wrong-keytype" then one a2 (advMsg a2 (.other 3) true)
  else if kind = "bad-sig" then one a2 (advMsg a2 (.adv 7) false)
  else if kind = "reflect" then
    let ar : Session := ⟨0, 10, .honest 10⟩
    one ar (ar.authOut ltP)
  else if kind = "reflect-sig" then one a2 (reseal a2 (a2.authOut ltP))
  else if kind = "garbage-auth" then one a2 none
  else if kind = "flip-eph" then
    -- A is handed B's ephemeral with one bit flipped; frames are relayed untouched
    let af : Session := ⟨0, 10, .foreign 1⟩
    two af b1 (b1.authOut ltP) (af.authOut ltP)
  else if kind = "short-eph" then
    -- a 31-byte ephemeral is zero-extended by the victim: a point nobody has the scalar of
    one ⟨0, 10, .foreign 2⟩ (advMsg a2 (.adv 7) true)
  else if kind = "long-eph" then one a2 (advMsg a2 (.adv 7) true)
  else "bad-op"

open Tmv.Sts in
def showUp : UpVerdict → String
  | .ok => "ok" | .dialedMismatch => "rej:auth:dialed" | .nodeInfoMismatch => "rej:auth:nodeinfo"
  | .self => "rej:self"

open Tmv.Sts in
/-- `transport.upgrade` on top of a handshake outcome: own key `honest 0`, the peer `honest 1`,
a third node `honest 2`, the adversary's key `adv 7` -/
def upScript (kind : String) : String :=
  let own : Key := .honest 0
  let a1 : Session := ⟨0, 10, .honest 11⟩
  let a2 : Session := ⟨0, 10, .adv 5⟩
  let run (v : Verdict) (dialed : Option Key) (info : Key) : String :=
    match v with
    | .ok k => showUp (upgrade own dialed k info)
    | _ => "rej:auth:secretconn"
  let peerOut (owner : Nat) : Option Sealed := (⟨owner, 11, .honest 10⟩ : Session).authOut ltP
  if kind = "honest-out" then run (a1.finish ltP (peerOut 1)) (some (.honest 1)) (.honest 1)
  else if kind = "honest-in" then run (a1.finish ltP (peerOut 1)) none (.honest 1)
  else if kind = "dialed-mismatch" then run (a1.finish ltP (peerOut 1)) (some (.honest 2)) (.honest 1)
  else if kind = "nodeinfo-mismatch" then run (a1.finish ltP (peerOut 1)) none (.honest 2)
  else if kind = "self-dial" then run (a1.finish ltP (peerOut 0)) none (.honest 0)
  else if kind = "own-key-out" then run (a2.finish ltP (advMsg a2 (.adv 7) true)) (some (.honest 1)) (.adv 7)
  else if kind = "reflect-in" then run (a2.finish ltP (reseal a2 (a2.authOut ltP))) none (.honest 0)
  else if kind = "reflect-out" then run (a2.finish ltP (reseal a2 (a2.authOut ltP))) (some (.honest 1)) (.honest 0)
  else if kind = "reflect-advinfo" then run (a2.finish ltP (reseal a2 (a2.authOut ltP))) none (.adv 7)
  else if kind = "bad-sig" then run (a2.finish ltP (advMsg a2 (.adv 7) false)) none (.adv 7)
  else "bad-op"

open Tmv.Sts in
/-- `k` recorded sessions of node 0 with fresh peers, then `r` handshakes of node 0 answered by a
replay of the peer side of session `t mod k`; session index = ephemeral scalar (`mkRun`) -/
def multi (k r : Nat) : String :=
  let honestSpecs : List (Nat × Point) :=
    (List.range k).flatMap fun i => [(0, .honest (2 * i + 1)), (i + 1, .honest (2 * i))]
  let replaySpecs : List (Nat × Point) :=
    (List.range r).map fun t => (0, .honest (2 * (t % k) + 1))
  let run := mkRun (honestSpecs ++ replaySpecs)
  let d := if decide (EphDistinct run) then "distinct" else "reused"
  let verdicts := (List.range r).map fun t =>
    match run[2 * k + t]?, run[2 * (t % k) + 1]? with
    | some s, some x =>
      match s.finish ltP (x.authOut ltP) with
      | .ok _ => "ok:replayed-session"
      | v => showV s 0 v
    | _, _ => "?"
  s!"eph={d} replays=" ++ (if verdicts.isEmpty then "-" else ",".intercalate verdicts)

open Tmv.Sts in
/-- a real Dial/Accept of node `honest 0` against a counterparty holding key A = `honest 1` that
presents NodeInfo ID A or B = `honest 2`; dialed under ID A, B or with an ID-less address -/
def linkScript (dir did info : String) : String :=
  let a1 : Session := ⟨0, 10, .honest 11⟩
  let keyOf (x : String) : Option Key :=
    if x = "A" then some (.honest 1) else if x = "B" then some (.honest 2) else none
  let d : Option Dialed :=
    if dir = "in" then (if did = "-" then some .inbound else none)
    else if dir = "out" then
      (if did = "none" then some (.outbound none) else (keyOf did).map fun k => .outbound (some k))
    else none
  match d, keyOf info with
  | some d, some i =>
    match a1.finish ltP ((⟨1, 11, .honest 10⟩ : Session).authOut ltP) with
    | .ok k =>
      match upgradeD (.honest 0) d k i with
      | .ok => if i = k then "admitted:key-id" else "admitted:foreign-id"
      | v => showUp v
    | _ => "rej:auth:secretconn"
  | _, _ => "bad-op"

def step (s : St) (toks : List String) : St × String :=
  match toks with
  | ["hs"] =>
    let s' : St := { up := true, ab := handshakeDir init.ab, ba := handshakeDir init.ba }
    (s', s!"ok a={s'.ab.wNonce},{s'.ba.r.nonce} b={s'.ba.wNonce},{s'.ab.r.nonce}")
  | "link" :: rest =>
    match kv rest "dir", kv rest "did", kv rest "info" with
    | some dir, some did, some info => (s, linkScript dir did info)
    | _, _, _ => (s, "bad-op")
  | "multi" :: rest =>
    match nat? rest "k", nat? rest "r" with
    | some k, some r => if k < 1 ∨ k > 16 ∨ r > 64 then (s, "bad-op") else (s, multi k r)
    | _, _ => (s, "bad-op")
  | "up" :: rest =>
    match kv rest "kind" with
    | some kind => (s, upScript kind)
    | none => (s, "bad-op")
  | "mitm" :: rest =>
    match kv rest "kind" with
    | some kind => (s, mitm kind ((nat? rest "k").getD 0))
    | none => (s, "bad-op")
  | op :: rest =>
    if ¬ s.up then (s, "bad-op") else
    match (kv rest "d").bind (getDir s) with
    | none => (s, "bad-op")
    | some x =>
      let d := (kv rest "d").getD ""
      let fin (p : Dir × String) : St × String := (setDir s d p.1, p.2)
      match op with
      | "w" =>
        match (kv rest "data").bind ofHex with
        | some data => let (x', r) := doWrite x data; (setDir s d x', showW r)
        | none => (s, "bad-op")
      | "r" =>
        match nat? rest "k" with
        | some k =>
          let (r', res) := read (dec x.key) x.r k
          (setDir s d { x with r := r' }, showR r' res)
        | none => (s, "bad-op")
      | "flip" =>
        match nat? rest "off", nat? rest "bit" with
        | some off, some bit =>
          if bit ≥ 8 then (s, "bad-op") else
          fin (editWire x fun w => if off < w.length then
            some (w.set off ((w.getD off 0) ^^^ (UInt8.ofNat (2 ^ bit)))) else none)
        | _, _ => (s, "bad-op")
      | "cut" =>
        match nat? rest "off", nat? rest "len" with
        | some off, some len =>
          fin (editWire x fun w => if off + len ≤ w.length then some (w.take off ++ w.drop (off + len)) else none)
        | _, _ => (s, "bad-op")
      | "ins" =>
        match nat? rest "off", (kv rest "bytes").bind ofHex with
        | some off, some b =>
          fin (editWire x fun w => if off ≤ w.length then some (w.take off ++ b ++ w.drop off) else none)
        | _, _ => (s, "bad-op")
      | "dupf" =>
        match nat? rest "i", nat? rest "at" with
        | some i, some at_ =>
          fin (editWire x fun w => if (i + 1) * S ≤ w.length ∧ at_ * S ≤ w.length then
            some (w.take (at_ * S) ++ (w.drop (i * S)).take S ++ w.drop (at_ * S)) else none)
        | _, _ => (s, "bad-op")
      | "swapf" =>
        match nat? rest "i", nat? rest "j" with
        | some i, some j =>
          fin (editWire x fun w => if (i + 1) * S ≤ w.length ∧ (j + 1) * S ≤ w.length ∧ i < j then
            some (w.take (i * S) ++ (w.drop (j * S)).take S ++ (w.drop ((i + 1) * S)).take ((j - i - 1) * S)
              ++ (w.drop (i * S)).take S ++ w.drop ((j + 1) * S)) else none)
        | _, _ => (s, "bad-op")
      | "trunc" =>
        match nat? rest "n" with
        | some n => fin (editWire x fun w => if n ≤ w.length then some (w.take n) else none)
        | none => (s, "bad-op")
      | "setnonce" =>
        match kv rest "side", nat? rest "v" with
        | some "w", some v => if v ≤ maxU64 then (setDir s d { x with wNonce := v }, "ok") else (s, "bad-op")
        | some "r", some v => if v ≤ maxU64 then (setDir s d { x with r := { x.r with nonce := v } }, "ok") else (s, "bad-op")
        | _, _ => (s, "bad-op")
      | "closew" => (setDir s d { x with connOk := false }, "ok")
      | "wraw" =>
        -- a peer that holds the key but not the framing rules: arbitrary length field
        match nat? rest "len", (kv rest "body").bind ofHex with
        | some len, some body =>
          if len ≥ 2 ^ 32 ∨ body.length > dataMaxSize then (s, "bad-op") else
          let frame := le32 len ++ body ++ List.replicate (dataMaxSize - body.length) 0
          let sealed := enc x.key x.wNonce frame
          match incrNonce x.wNonce with
          | none => (s, s!"panic nonce={x.wNonce}")
          | some n' =>
            if x.connOk then
              (setDir s d { x with wNonce := n', r := { x.r with wire := x.r.wire ++ sealed } }, s!"ok nonce={n'}")
            else (setDir s d { x with wNonce := n' }, s!"err nonce={n'}")
        | _, _ => (s, "bad-op")
      | "reflectw" =>
        -- the unread ciphertext of this direction is also fed into the opposite direction
        let od := if d = "ab" then "ba" else "ab"
        match getDir s od with
        | some y =>
          let y' := { y with r := { y.r with wire := y.r.wire ++ x.r.wire } }
          (setDir s od y', s!"ok len={y'.r.wire.length}")
        | none => (s, "bad-op")
      | _ => (s, "bad-op")
  | _ => (s, "bad-op")

def machine : Machine := { σ := St, init := init, step := step }

end Tmv.Drv.C16

def main : IO Unit := Tmv.Drv.run Tmv.Drv.C16.machine
