import Tmv.Drv.Core
import Tmv.Model.Net
/-! Line-protocol driver for the network model (C01): every op line is one `NetStep` attempt
(`Net.apply`); the answer shows the node that moved (same canonical state line as the C02 stream),
what it emitted, and the log position of every message it appended. -/
namespace Tmv.Drv.C01
open Tmv Tmv.Cons Tmv.Net

structure St where
  cfg : Option NetCfg
  ids : Nat
  net : Net
  wal : Bool := false     -- `wal=1` on the net line: the real nodes keep a WAL, `restart` ops are real restarts

def natList (s : String) : Option (List Nat) := (splitComma s).mapM String.toNat?

def parseBool (s : String) : Option Bool :=
  if s = "1" then some true else if s = "0" then some false else none

def parseCfg (toks : List String) : Option (NetCfg × Nat) := do
  let n ← (← kv toks "n").toNat?
  let powers ← natList (← kv toks "powers")
  let faulty ← natList (← kv toks "faulty")
  let props ← natList (← kv toks "proposers")
  let invalid ← natList (← kv toks "invalid")
  let own ← natList (← kv toks "own")
  let ids ← (← kv toks "ids").toNat?
  let wait ← parseBool (← kv toks "wait")
  let np ← parseBool (← kv toks "needproof")
  let iv ← parseBool (← kv toks "interval")
  let hrs ← parseBool (← kv toks "hrs")
  let _ ← parseBool (← kv toks "judge")
  if powers.length ≠ n ∨ own.length ≠ n ∨ n = 0 ∨ props.isEmpty then none else
  if faulty.any (· ≥ n) then none else
  pure ({ n := n, power := fun i => powers.getD i 0, faulty := fun i => faulty.contains i,
          proposer := fun k => props.getD k 0, valid := fun b => !invalid.contains b,
          ownBlock := fun p => own.getD p 0, waitForTxs := wait, needProofBlock := np,
          emptyInterval := iv, checkHRS := hrs }, ids)

def parseBid (s : String) : Option Bid :=
  if s = "nil" then some none else s.toNat?.map some

def parseVType (s : String) : Option VType :=
  if s = "pv" then some .prevote else if s = "pc" then some .precommit else none

def stepName : Step → String
  | .newHeight => "newHeight" | .newRound => "newRound" | .propose => "propose"
  | .prevote => "prevote" | .prevoteWait => "prevoteWait" | .precommit => "precommit"
  | .precommitWait => "precommitWait" | .commit => "commit"

def parseStep (s : String) : Option Step :=
  [Step.newHeight, .newRound, .propose, .prevote, .prevoteWait, .precommit, .precommitWait, .commit].find?
    (fun x => stepName x = s)

def parseOp (toks : List String) : Option Op :=
  match toks with
  | "deliver" :: rest => do
    let p ← (← kv rest "node").toNat?
    let k ← (← kv rest "msg").toNat?
    let peer ← (← kv rest "peer").toNat?
    pure (.deliver p k peer)
  | "block" :: rest => do
    let p ← (← kv rest "node").toNat?
    let b ← (← kv rest "b").toNat?
    pure (.block p b)
  | "claim" :: rest => do
    let p ← (← kv rest "node").toNat?
    let t ← parseVType (← kv rest "t")
    let r ← (← kv rest "r").toNat?
    let b ← parseBid (← kv rest "b")
    let peer ← (← kv rest "peer").toNat?
    pure (.claim p r t peer b)
  | "timeout" :: rest => do
    let p ← (← kv rest "node").toNat?
    let r ← (← kv rest "r").toNat?
    let st ← parseStep (← kv rest "s")
    pure (.fire p r st)
  | "txs" :: rest => do
    let p ← (← kv rest "node").toNat?
    pure (.txs p)
  | "restart" :: rest => do
    let p ← (← kv rest "node").toNat?
    pure (.restart p)
  | "own" :: rest => do
    let p ← (← kv rest "node").toNat?
    let k ← (← kv rest "idx").toNat?
    pure (.own p k)
  | "byz" :: rest => do
    let sender ← (← kv rest "sender").toNat?
    let ok ← parseBool (← kv rest "ok")
    let r ← (← kv rest "r").toNat?
    match ← kv rest "kind" with
    | "prop" =>
      let b ← (← kv rest "b").toNat?
      let pol ← (← kv rest "pol").toInt?
      pure (.byz ⟨sender, .proposal r b pol, ok⟩)
    | "vote" =>
      let t ← parseVType (← kv rest "t")
      let b ← parseBid (← kv rest "b")
      -- optional: the address the vote carries and the key that signed it (default: the sender's).
      -- `VoteSet.addVote` takes the vote only if the address is the one of slot `sender` and the
      -- signature verifies for that slot's key (sign bytes contain neither index nor address)
      let addr ← match kv rest "addr" with
        | none => some sender
        | some s => s.toNat?
      let key ← match kv rest "key" with
        | none => some sender
        | some s => s.toNat?
      pure (.byz ⟨sender, .vote t r b, ok && addr == sender && key == sender⟩)
    | _ => none
  | _ => none

def opNode : Op → Option Nat
  | .deliver p _ _ => some p | .block p _ => some p | .claim p _ _ _ _ => some p
  | .fire p _ _ => some p | .txs p => some p | .own p _ => some p | .restart p => some p | .byz _ => none

/-- `drain=0` on a node op: the node handles the input only and leaves its own messages queued
(they are heard later through `own` ops, in any order); default: FIFO drain as `Tmv.Cons.step` -/
def parseDrain (toks : List String) : Option Bool :=
  match kv toks "drain" with
  | none => some true
  | some s => parseBool s

def showBid : Bid → String
  | none => "nil"
  | some b => toString b

def showOB : Option Nat → String
  | none => "-"
  | some b => toString b

def showOut : Output → String
  | .signProposal r b pol => s!"prop({r},{b},{pol})"
  | .signVote .prevote r b => s!"pv({r},{showBid b})"
  | .signVote .precommit r b => s!"pc({r},{showBid b})"
  | .schedule r st => s!"to({r},{stepName st})"
  | .decide b r => s!"decide({b},{r})"
  | .panic why => s!"panic({why})"

def showMsg (m : Msg) : String :=
  let b := match m.body with
    | .proposal r b pol => s!"prop({r},{b},{pol})"
    | .vote .prevote r b => s!"pv({r},{showBid b})"
    | .vote .precommit r b => s!"pc({r},{showBid b})"
  s!"v{m.sender}:{b}" ++ (if m.ok then "" else "!")

def showVS (ids : Nat) (vs : VoteSet) : String :=
  let keys : List Bid := none :: (List.range ids).map some
  let buckets := keys.filterMap fun k =>
    let x := vs.blockSum k
    if x = 0 then none else some s!"{showBid k}={x}"
  let m := match vs.maj23 with | none => "-" | some b => showBid b
  s!"{vs.sum}/{m}/" ++ (if buckets.isEmpty then "-" else "+".intercalate buckets)

def showHV (ids : Nat) (h : HVS) : String :=
  let rounds : List Int := (List.range 42).map fun (i : Nat) => (i : Int) - 1
  ",".intercalate (rounds.filterMap fun r =>
    (h.getRound r).map fun rvs => s!"{r}:P{showVS ids rvs.prevotes}:C{showVS ids rvs.precommits}")

def showState (c : Cfg) (ids : Nat) (s : NodeState) : String :=
  if s.halted then "halted" else
  match s.decided with
  | some (b, r) => s!"decided {b}@{r}"
  | none =>
    let prop := match s.proposal with
      | none => "-"
      | some p => s!"{p.bid}/{p.pol}"
    s!"r={s.round} s={stepName s.step} lr={s.lockedRound} lb={showOB s.lockedBlock} " ++
    s!"vr={s.validRound} vb={showOB s.validBlock} prop={prop} pb={showOB s.proposalBlock} " ++
    s!"pp={showOB s.proposalParts}/{if s.partsDone then 1 else 0} cr={s.commitRound} " ++
    s!"tp={if s.triggered then 1 else 0} pr={c.proposer s.valRound} q={s.queue.length} " ++
    s!"hr={s.votes.round} hv={showHV ids s.votes}"

/-- the outputs a node emitted in one step; signed messages carry their log position -/
def showNew (news : List Output) (pos : Nat) : String :=
  (news.foldl (fun (acc : String × Nat) o =>
    match outMsg 0 o with
    | some _ => (acc.1 ++ " " ++ showOut o ++ s!"@{acc.2}", acc.2 + 1)
    | none => (acc.1 ++ " " ++ showOut o, acc.2)) ("", pos)).1

def step (st : St) (toks : List String) : St × String :=
  match toks with
  | "net" :: rest =>
    match parseCfg rest with
    | some (c, ids) => ({ cfg := some c, ids := ids, net := Net.init, wal := kv rest "wal" == some "1" }, "ok")
    | none => (st, "bad-op")
  | _ =>
    match st.cfg, parseOp toks, parseDrain toks with
    | some nc, some op, some drain =>
      match st.net.apply nc drain op with
      | none => (st, "refused")
      | some net' =>
        let st' := { st with net := net' }
        match opNode op with
        | some p =>
          let old := st.net.nodes p
          let s' := net'.nodes p
          let news := s'.out.drop old.out.length
          -- a node that decides in this op also shows the commit it stored (MakeCommit) and whether
          -- VerifyCommit accepts it
          let commit :=
            if news.any (fun o => match o with | .decide _ _ => true | _ => false) then
              match seenCommit (nc.node p) s' with
              | some flags =>
                " commit(" ++ String.join (flags.map fun f => if f = 2 then "C" else if f = 3 then "N" else "A") ++
                  "," ++ (if commitVerifies (nc.node p) flags then "ok" else "bad") ++ ")"
              | none => " commit(-,bad)"
            else ""
          -- a restart of a live node replays its WAL (walcatchup): the node state simply persists
          let restarted :=
            match op with
            | .restart _ => if st.wal ∧ ¬ (old.halted ∨ old.decided.isSome) then " restarted(walcatchup=true)" else ""
            | _ => ""
          (st', s!"n{p} " ++ showState (nc.node p) st.ids s' ++ " |" ++ showNew news st.net.log.length ++ commit ++ restarted)
        | none =>
          match op with
          | .byz m => (st', s!"+{st.net.log.length} " ++ showMsg m)
          | _ => (st', "ok")
    | _, _, _ => (st, "bad-op")

def machine : Machine := { σ := St, init := ⟨none, 0, Net.init, false⟩, step := step }

end Tmv.Drv.C01

def main : IO Unit := Tmv.Drv.run Tmv.Drv.C01.machine
