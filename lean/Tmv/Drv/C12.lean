import Tmv.Drv.Core
import Tmv.Model.MempoolV0
import Tmv.Model.MempoolV1
import Tmv.Model.MempoolV0Async
import Tmv.Model.MempoolV1Split
/-! Line-protocol driver for C12: the v0 and v1 mempool models. After every op the observation
`n=<Size> b=<SizeBytes> all=<ReapMaxTxs(-1)>` is appended. -/
namespace Tmv.Drv.C12
open Tmv Tmv.Mempool

inductive Pool
  | v0 (s : V0.State)
  | v1 (s : V1.State) (d : Nat)   -- d = TTLDuration in logical time units (cfg ttldur=, 0 = off)
  | a0 (a : V0.AState)      -- v0 over the asynchronous FIFO client (cfg async=1)
  | s1 (a : V1.SState)      -- v1 with CheckTx calls in flight (cfg split=1; ops begin / finish)

def lowerHex (s : String) : Bool :=
  s = "-" ∨ s = "." ∨ (s.length > 0 ∧ s.length % 2 = 0 ∧
    s.toList.all (fun c => ('0' ≤ c ∧ c ≤ '9') ∨ ('a' ≤ c ∧ c ≤ 'f')))

/-- tx token: lower-case hex, "-"/"." (empty), or "hh*N" = byte hh repeated N times -/
def parseTx (s : String) : Option Bytes :=
  match s.splitOn "*" with
  | [h, n] =>
    if h.length = 2 ∧ lowerHex h ∧ s.length ≤ 10 ∧ n.length ≥ 1 ∧ n.toList.all Char.isDigit ∧
        n.toList.head? ≠ some '0' then
      match ofHex h, n.toNat? with
      | some [b], some k => some (List.replicate k b)
      | _, _ => none
    else none
  | _ => if lowerHex s then ofHex s else none

/-- canonical output form: "." empty, runs of ≥ 8 equal bytes as hh*N, else hex -/
def showTx (b : Bytes) : String :=
  match b with
  | [] => "."
  | x :: _ =>
    if b.length ≥ 8 ∧ b.all (· == x) then toHex [x] ++ "*" ++ toString b.length else toHex b

def showTxs (l : List Bytes) : String :=
  if l.isEmpty then "-" else ",".intercalate (l.map showTx)

def obs : Pool → String
  | .v0 s => s!" | n={s.txs.length} b={s.txsBytes} all={showTxs (V0.reapMaxTxs s (-1))}"
  | .v1 s _ => s!" | n={s.txs.length} b={s.txsBytes} all={showTxs (V1.reapMaxTxs s (-1))}"
  | .s1 a => s!" | n={a.s.txs.length} b={a.s.txsBytes} all={showTxs (V1.reapMaxTxs a.s (-1))} pend={a.pending.length}"
  | .a0 a => s!" | n={a.s.txs.length} b={a.s.txsBytes} all={showTxs (V0.reapMaxTxs a.s (-1))} q={a.queue.length}"

/-- recorded peer ids of the tx just submitted (sorted; "-" = not in the pool) -/
def showPeers : Option (List Nat) → String
  | none => "-"
  | some l => ",".intercalate ((V1.sortBy (fun a b => decide (a < b)) l).map toString)

def bool01 (i : Int) : Option Bool := if i = 0 then some false else if i = 1 then some true else none

def getInt (toks : List String) (k : String) : Option Int := (kv toks k).bind String.toInt?

def parseCfg (toks : List String) : Option Pool := do
  let ver ← getInt toks "ver"
  let size ← getInt toks "size"
  let maxb ← getInt toks "maxbytes"
  let maxtx ← getInt toks "maxtx"
  let cache ← getInt toks "cache"
  let keep ← (← getInt toks "keep") |> bool01
  let rc ← (← getInt toks "recheck") |> bool01
  let ttl ← getInt toks "ttl"
  let ttld ← (← getInt toks "ttld") |> bool01
  let h ← getInt toks "h"
  let async ← match kv toks "async" with
    | none => some false
    | some "0" => some false
    | some "1" => if ver = 0 then some true else none
    | some _ => none
  if ver = 0 ∧ async then
    pure (.a0 (V0.ainit { size := size, maxTxsBytes := maxb, maxTxBytes := maxtx, cacheSize := cache,
                          keepInvalid := keep, recheck := rc } h))
  else if ver = 0 then
    pure (.v0 (V0.init { size := size, maxTxsBytes := maxb, maxTxBytes := maxtx, cacheSize := cache,
                         keepInvalid := keep, recheck := rc } h))
  else if ver = 1 then
    let d ← match kv toks "ttldur" with
      | none => some 0
      | some x => x.toNat?
    if kv toks "split" = some "1" then
      pure (.s1 (V1.sinit { size := size, maxTxsBytes := maxb, maxTxBytes := maxtx, cacheSize := cache,
                            keepInvalid := keep, recheck := rc, ttlNumBlocks := ttl, ttlDuration := ttld } h))
    else
    pure (.v1 (V1.init { size := size, maxTxsBytes := maxb, maxTxBytes := maxtx, cacheSize := cache,
                         keepInvalid := keep, recheck := rc, ttlNumBlocks := ttl,
                         ttlDuration := ttld || decide (d > 0) } h) d)
  else none

def parseCode (s : String) : Option Nat := do
  let c ← s.toInt?
  if c < 0 ∨ c > 4294967295 then none else pure c.toNat

def parseVerdict (toks : List String) : Option Verdict := do
  let code ← parseCode (← kv toks "code")
  let gas ← getInt toks "gas"
  let prio ← getInt toks "prio"
  let s ← kv toks "sender"
  pure { code := code, gas := gas, prio := prio, sender := if s = "-" then "" else s }

/-- `rv=tx:code:gas:prio;...` ("-" = none); the first entry for a tx wins; default verdict = {} -/
def parseRV (s : String) : Option (List (Bytes × Verdict)) :=
  if s = "-" then some []
  else if s = "" then none
  else (s.splitOn ";").mapM fun e =>
    match e.splitOn ":" with
    | [t, c, g, p] => do
      let tx ← parseTx t
      let code ← parseCode c
      let gas ← g.toInt?
      let prio ← p.toInt?
      pure (tx, { code := code, gas := gas, prio := prio, sender := "" })
    | _ => none

def rvFun (l : List (Bytes × Verdict)) (tx : Bytes) : Verdict :=
  match l.find? (fun e => e.1 = tx) with
  | some e => e.2
  | none => {}

def parseFilter (s : String) : Option (Option Int) :=
  if s = "-" then some none else s.toInt?.map some

def parseBlock (toks : List String) : Option (List (Bytes × Nat)) := do
  let ts ← kv toks "txs"
  let cs ← kv toks "codes"
  let tl := splitComma ts
  let cl := splitComma cs
  if ts = "" ∨ cs = "" ∨ tl.length ≠ cl.length then none
  else
    let txs ← tl.mapM parseTx
    let codes ← cl.mapM parseCode
    pure (txs.zip codes)

def showV0Res : V0.CheckRes → String
  | .ok => "ok" | .full => "full" | .tooLarge => "too-large" | .pre => "pre" | .inCache => "in-cache"

def showMe : V1.MemErr → String
  | .none => "-" | .post => "post" | .sender => "sender" | .full => "full"

def showV1Res : V1.CheckRes → String
  | .ok me => "ok me=" ++ showMe me | .tooLarge => "too-large" | .pre => "pre" | .inCache => "in-cache"

def step (st : Option Pool) (toks : List String) : Option Pool × String :=
  match toks with
  | "cfg" :: rest =>
    match parseCfg rest with
    | some p => (some p, "ok" ++ obs p)
    | none => (st, "bad-op")
  | "hazard" :: rest =>
    -- Flush / RemoveTxByKey while recheck answers are in flight: outside the modelled discipline;
    -- the property's answer is that the rejected entry is gone and the counters fit ("hazard-ok")
    match kv rest "kind" with
    | some "flush" =>
      -- known finding v0.async.flush-during-recheck.panic: the cursor dangles on a removed
      -- element, not expressible in the model; the recorded behaviour of the code is answered
      (st, "hazard-fail panic")
    | some "remove" =>
      let a := V0.hazardRemove
      (st, if a.panicked then "hazard-fail panic"
           else if [0xc1] ∈ V0.keys a.s then "hazard-fail rejected-tx-kept"
           else "hazard-ok")
    | some "tie" =>
      -- two entries with equal priority and timestamp: the stable sort keeps their arrival order
      let a : V1.WTx := { tx := [0xa1], height := 1, seq := 0, gas := 0, prio := 1, sender := "" }
      let b : V1.WTx := { tx := [0xb1], height := 1, seq := 0, gas := 0, prio := 1, sender := "" }
      (st, if V1.sortBy V1.reapBefore [a, b] = [a, b] then "hazard-ok" else "hazard-fail order-varies")
    | some "none" => (st, "hazard-ok")
    | _ => (st, "bad-op")
  | "stress" :: rest =>
    -- concurrent stress run of the implementation: the model's answer is that every state
    -- invariant of Props.C12 holds throughout ("stress-ok")
    match getInt rest "ver", getInt rest "seed", getInt rest "workers", getInt rest "size",
          getInt rest "cache", getInt rest "maxbytes" with
    | some ver, some _, some w, some _, some _, some _ =>
      if (ver ≠ 0 ∧ ver ≠ 1) ∨ w < 1 ∨ w > 64 then (st, "bad-op") else (st, "stress-ok")
    | _, _, _, _, _, _ => (st, "bad-op")
  | op :: rest =>
    match st with
    | none => (st, "bad-op")
    | some p =>
      match op with
      | "check" =>
        match (kv rest "tx").bind parseTx, parseVerdict rest, getInt rest "peer" with
        | some tx, some v, some peer =>
          if peer < 0 ∨ peer > 65535 then (st, "bad-op") else
          match p with
          | .v0 s =>
            let r := V0.checkTxFrom s tx v peer.toNat
            let ps := (r.1.txs.find? (fun e => e.tx = tx)).map (·.senders)
            (some (.v0 r.1), showV0Res r.2 ++ " p=" ++ showPeers ps ++ obs (.v0 r.1))
          | .v1 s d =>
            -- `now=<t>`: the arrival timestamp of this submission (logical clock)
            let s := match (kv rest "now").bind String.toNat? with
              | some t => { s with clock := t }
              | none => s
            let r := V1.checkTxFrom s tx v peer.toNat
            let ps := (r.1.txs.find? (fun e => e.tx = tx)).map (·.peers)
            (some (.v1 r.1 d), showV1Res r.2 ++ " p=" ++ showPeers ps ++ obs (.v1 r.1 d))
          | .a0 a =>
            let r := V0.asend a tx v
            (some (.a0 r.1), showV0Res r.2 ++ obs (.a0 r.1))
          | .s1 _ => (st, "bad-op")
        | _, _, _ => (st, "bad-op")
      | "begin" =>
        match p, (kv rest "tx").bind parseTx, getInt rest "peer" with
        | .s1 a, some tx, some peer =>
          if peer < 0 ∨ peer > 65535 then (st, "bad-op") else
          let r := V1.sbegin a tx peer.toNat
          let res := match r.2 with
            | .ok _ => "pending" | .tooLarge => "too-large" | .pre => "pre" | .inCache => "in-cache"
          (some (.s1 r.1), res ++ obs (.s1 r.1))
        | _, _, _ => (st, "bad-op")
      | "finish" =>
        match p, getInt rest "i", parseVerdict rest with
        | .s1 a, some i, some v =>
          if i < 0 ∨ i.toNat ≥ a.pending.length then (st, "bad-op") else
          let tx := (a.pending[i.toNat]?.map (·.tx)).getD []
          let r := V1.sfinish a i.toNat v
          let ps := (r.1.s.txs.find? (fun e => e.tx = tx)).map (·.peers)
          (some (.s1 r.1), "ok me=" ++ showMe r.2 ++ " p=" ++ showPeers ps ++ obs (.s1 r.1))
        | _, _, _ => (st, "bad-op")
      | "deliver" =>
        match p, getInt rest "n" with
        | .a0 a, some n =>
          if n < 0 ∨ n > 1000 then (st, "bad-op") else
          let a' := (List.range n.toNat).foldl (fun b _ => V0.adeliver b) a
          (some (.a0 a'), (if a'.panicked then "panic" else "ok") ++ obs (.a0 a'))
        | _, _ => (st, "bad-op")
      | "ccheck" =>
        -- K concurrent submissions of fresh, equally long txs with one verdict: every
        -- linearisation admits the same number; the model runs them in the listed order
        match (kv rest "txs").map splitComma, parseVerdict rest with
        | some tl, some v =>
          if tl.length = 0 ∨ tl.length > 64 then (st, "bad-op") else
          match tl.mapM parseTx with
          | none => (st, "bad-op")
          | some txs =>
            match p with
            | .v0 s =>
              let s' := txs.foldl (fun a tx => (V0.checkTx a tx v).1) s
              (some (.v0 s'), s!"admitted={(s'.txs.length : Int) - s.txs.length} | n={s'.txs.length} b={s'.txsBytes} dup=0 reap={(V0.reapMaxTxs s' (-1)).length}")
            | .a0 _ => (st, "bad-op")
            | .s1 _ => (st, "bad-op")
            | .v1 s d =>
              let s' := txs.foldl (fun a tx => (V1.checkTx a tx v).1) s
              (some (.v1 s' d), s!"admitted={(s'.txs.length : Int) - s.txs.length} | n={s'.txs.length} b={s'.txsBytes} dup=0 reap={(V1.reapMaxTxs s' (-1)).length}")
        | _, _ => (st, "bad-op")
      | "update" =>
        match getInt rest "h", parseBlock rest, (kv rest "rv").bind parseRV,
              (kv rest "pre").bind parseFilter, (kv rest "post").bind parseFilter with
        | some h, some block, some rv, some pre, some post =>
          match p with
          | .v0 s =>
            let s' := V0.update s h block pre post (rvFun rv)
            (some (.v0 s'), "ok" ++ obs (.v0 s'))
          | .v1 s d =>
            -- TTLDuration: with ttldur=d>0 and `now=<t>` an entry expires when t − timestamp > d;
            -- the legacy ttld=1 (1ns) expires everything
            let expired : V1.WTx → Bool := match d, (kv rest "now").bind String.toNat? with
              | 0, _ => fun _ => true
              | _, none => fun _ => false
              | d, some t => fun w => decide (t - w.seq > d)
            let s' := V1.update s h block pre post (rvFun rv) expired
            (some (.v1 s' d), "ok" ++ obs (.v1 s' d))
          | .s1 a =>
            let a' := V1.supdate a h block pre post (rvFun rv) (fun _ => true)
            (some (.s1 a'), "ok" ++ obs (.s1 a'))
          | .a0 a =>
            let a' := V0.aupdate a h block pre post (rvFun rv)
            (some (.a0 a'), (if a'.panicked then "panic" else "ok") ++ obs (.a0 a'))
        | _, _, _, _, _ => (st, "bad-op")
      | "flush" =>
        if rest ≠ [] then (st, "bad-op") else
        match p with
        | .v0 s => let p' := Pool.v0 (V0.flush s); (some p', "ok" ++ obs p')
        | .v1 s d => let p' := Pool.v1 (V1.flush s) d; (some p', "ok" ++ obs p')
        | .a0 a =>
          -- allowed only while no recheck answer is pending (V0.Allowed); else refused, not performed
          if a.queue.all (fun r => match r with | .recheck _ => false | .first _ _ => true) then
            let a' := V0.aflush a
            (some (.a0 a'), "ok" ++ obs (.a0 a'))
          else (st, "unsafe" ++ obs p)
        | .s1 _ => (st, "bad-op")
      | "rmkey" =>
        match p, (kv rest "tx").bind parseTx with
        | .a0 a, some tx =>
          if a.queue.all (fun r => r.isRecheckOf tx == false) then
            let a' := V0.aremoveByKey a tx
            (some (.a0 a'), "ok" ++ obs (.a0 a'))
          else (st, "unsafe" ++ obs p)
        | _, _ => (st, "bad-op")
      | "reap" =>
        match getInt rest "bytes", getInt rest "gas" with
        | some b, some g =>
          match p with
          | .v0 s => (st, showTxs (V0.reapMaxBytesMaxGas s b g) ++ obs p)
          | .v1 s d => (st, showTxs (V1.reapMaxBytesMaxGas s b g) ++ obs p)
          | .a0 a => (st, showTxs (V0.reapMaxBytesMaxGas a.s b g) ++ obs p)
          | .s1 a => (st, showTxs (V1.reapMaxBytesMaxGas a.s b g) ++ obs p)
        | _, _ => (st, "bad-op")
      | "reapn" =>
        match getInt rest "n" with
        | some n =>
          if n > 1073741824 ∨ n < -1073741824 then (st, "bad-op") else
          match p with
          | .v0 s => (st, showTxs (V0.reapMaxTxs s n) ++ obs p)
          | .v1 s d => (st, showTxs (V1.reapMaxTxs s n) ++ obs p)
          | .a0 a => (st, showTxs (V0.reapMaxTxs a.s n) ++ obs p)
          | .s1 a => (st, showTxs (V1.reapMaxTxs a.s n) ++ obs p)
        | none => (st, "bad-op")
      | _ => (st, "bad-op")
  | [] => (st, "bad-op")

def machine : Machine := { σ := Option Pool, init := none, step := step }

end Tmv.Drv.C12

def main : IO Unit := Tmv.Drv.run Tmv.Drv.C12.machine
