import Tmv.Drv.Core
import Tmv.Sha256
import Tmv.Model.PubSub
import Tmv.Model.Index
import Tmv.Model.BlockIndex
import Tmv.Model.IndexerService
import Tmv.Model.EventBus
namespace Tmv.Drv.C19
open Tmv Tmv.Query Tmv.PubSub

/-! line protocol of C19 (all strings hex, "." = empty string, "-" = empty list/map)
  ast   : cond;cond;…      cond = <keyhex>,<le|ge|lt|gt|eq|ct|ex>,<s<hex>|i<decimal>|n>
  ev    : <keyhex>:<valhex>,<valhex>;<keyhex>:…
  txs   : <txhex>@<events>+<txhex>@<events>…   events = <typehex>:<attr>,<attr>|<typehex>:…
          attr = <keyhex>^<valhex>^<0|1>  -/

def str (s : String) : Option Str := ofHex s

def parseOp : String → Option Op
  | "le" => some .le | "ge" => some .ge | "lt" => some .lt | "gt" => some .gt
  | "eq" => some .eq | "ct" => some .contains | "ex" => some .exists
  | _ => none

def parseOperand (s : String) : Option Operand :=
  match s.toList with
  | 's' :: rest => (str (String.ofList rest)).map .str
  | 'i' :: rest => (String.ofList rest).toNat?.map .int
  | ['n'] => some .none
  | _ => none

def parseCond (s : String) : Option Cond :=
  match s.splitOn "," with
  | [k, o, v] => do
    let k ← str k
    let o ← parseOp o
    let v ← parseOperand v
    pure { key := k, op := o, operand := v }
  | _ => none

def splitList (sepS : String) (s : String) : List String :=
  if s = "-" ∨ s = "" then [] else s.splitOn sepS

def parseAst (s : String) : Option Query := (splitList ";" s).mapM parseCond

def parseEvents (s : String) : Option Events :=
  (splitList ";" s).mapM fun e =>
    match e.splitOn ":" with
    | [k, vs] => do
      let k ← str k
      let vs ← (if vs = "" then [] else vs.splitOn ",").mapM str
      pure (k, vs)
    | _ => none

def parseAttr (s : String) : Option Index.Attr :=
  match s.splitOn "^" with
  | [k, v, i] => do
    let k ← str k
    let v ← str v
    let i ← (if i = "1" then some true else if i = "0" then some false else none)
    pure { key := k, value := v, index := i }
  | _ => none

def parseTxEvents (s : String) : Option (List Index.Event) :=
  (splitList "|" s).mapM fun e =>
    match e.splitOn ":" with
    | [t, as] => do
      let t ← str t
      let as ← (if as = "" then [] else as.splitOn ",").mapM parseAttr
      pure { type := t, attrs := as }
    | _ => none

def showErr : Err → String
  | .conv => "err-conv" | .queryNum => "err-querynum" | .unsupported => "unsupported"

def showMatch : Except Err Bool → String
  | .ok true => "true" | .ok false => "false" | .error e => showErr e

def showReason : Reason → String
  | .unsubscribed => "unsubscribed" | .outOfCapacity => "out-of-capacity"

def showOut : Out → String
  | .ok => "ok" | .okErr => "ok match-error"
  | .errAlready => "err-already" | .errNotFound => "err-not-found"
  | .msg id => s!"msg {id}" | .empty => "empty"
  | .cancelled r => "cancelled:" ++ showReason r | .noSub => "no-sub"

structure St where
  ps : PubSub.State := PubSub.State.init
  db : Index.DB := []
  bdb : BlockIndex.DB := []
  bus : PubSub.State := PubSub.State.init   -- the pubsub server inside the EventBus

def Hs : Bytes → Bytes := Sha256.hash

/-- byte-wise lexicographic order, for canonical output -/
def bytesLt : Bytes → Bytes → Bool
  | [], [] => false
  | [], _ => true
  | _, [] => false
  | a :: as, b :: bs => if a < b then true else if b < a then false else bytesLt as bs

def insertSorted (x : String) : List String → List String
  | [] => [x]
  | y :: ys => if x < y then x :: y :: ys else y :: insertSorted x ys

def sortStrs (l : List String) : List String := l.foldr insertSorted []

def pad (n : Nat) : String :=
  let s := toString n
  String.ofList (List.replicate (12 - s.length) '0') ++ s

def showGet : Index.GetRes → String
  | .none => "nil" | .errEmpty => "err-empty" | .unsupported => "unsupported"
  | .found r => s!"{pad r.height}/{pad r.index}/{toHex (Hs r.tx)}"

def showSearch (db : Index.DB) : Index.Res → String
  | .err => "err" | .panic => "panic" | .unsupported => "unsupported"
  | .hashes hs => "res " ++ (let l := sortStrs (hs.map fun h => showGet (Index.get db h))
                             if l.isEmpty then "-" else ",".intercalate l)

def showBSearch : BlockIndex.Res → String
  | .err => "err" | .panic => "panic"
  | .heights hs => "res " ++ (let l := sortStrs (hs.map pad)
                              if l.isEmpty then "-" else ",".intercalate l)

def step (s : St) (toks : List String) : St × String :=
  match toks with
  | "sub" :: r =>
    match (kv r "c").bind str, (kv r "q").bind str, (kv r "ast").bind parseAst,
          (kv r "cap").bind String.toNat? with
    | some c, some q, some ast, some cap =>
      let (ps, o) := PubSub.step s.ps (.sub c q ast cap)
      ({ s with ps := ps }, showOut o)
    | _, _, _, _ => (s, "bad-op")
  | "unsub" :: r =>
    match (kv r "c").bind str, (kv r "q").bind str with
    | some c, some q =>
      let (ps, o) := PubSub.step s.ps (.unsub c q)
      ({ s with ps := ps }, showOut o)
    | _, _ => (s, "bad-op")
  | "unsuball" :: r =>
    match (kv r "c").bind str with
    | some c =>
      let (ps, o) := PubSub.step s.ps (.unsubAll c)
      ({ s with ps := ps }, showOut o)
    | _ => (s, "bad-op")
  | "pub" :: r =>
    match (kv r "id").bind String.toNat?, (kv r "ev").bind parseEvents with
    | some id, some ev =>
      let (ps, o) := PubSub.step s.ps (.pub (id, ev))
      ({ s with ps := ps }, showOut o)
    | _, _ => (s, "bad-op")
  | "read" :: r =>
    match (kv r "c").bind str, (kv r "q").bind str with
    | some c, some q =>
      let (ps, o) := PubSub.step s.ps (.read c q)
      ({ s with ps := ps }, showOut o)
    | _, _ => (s, "bad-op")
  | "bussub" :: r =>
    match (kv r "c").bind str, (kv r "q").bind str, (kv r "ast").bind parseAst,
          (kv r "cap").bind String.toNat? with
    | some c, some q, some ast, some cap =>
      let (ps, o) := PubSub.step s.bus (.sub c q ast cap)
      ({ s with bus := ps }, showOut o)
    | _, _, _, _ => (s, "bad-op")
  | "bustx" :: r =>
    -- EventBus.PublishEventTx: flattened ABCI events + tm.event, tx.hash, tx.height
    match (kv r "id").bind String.toNat?, (kv r "tx").bind str, (kv r "events").bind parseTxEvents with
    | some id, some tx, some evs =>
      let (ps, _) := PubSub.step s.bus (.pub (id, EventBus.txEvents Hs id tx evs))
      ({ s with bus := ps }, "ok")
    | _, _, _ => (s, "bad-op")
  | "bushdr" :: r =>
    match (kv r "id").bind String.toNat?, (kv r "begin").bind parseTxEvents, (kv r "end").bind parseTxEvents with
    | some id, some b, some e =>
      let (ps, _) := PubSub.step s.bus (.pub (id, EventBus.headerEvents b e))
      ({ s with bus := ps }, "ok")
    | _, _, _ => (s, "bad-op")
  | "busread" :: r =>
    match (kv r "c").bind str, (kv r "q").bind str with
    | some c, some q =>
      let (ps, o) := PubSub.step s.bus (.read c q)
      ({ s with bus := ps }, showOut o)
    | _, _ => (s, "bad-op")
  | "stat" :: r =>
    match (kv r "c").bind str with
    | some c => (s, s!"clients={numClients s.ps} subs={numClientSubs s.ps c}")
    | _ => (s, "bad-op")
  | "match" :: r =>
    match (kv r "ast").bind parseAst, (kv r "ev").bind parseEvents with
    | some ast, some ev => (s, showMatch («matches» ast ev))
    | _, _ => (s, "bad-op")
  | "addbatch" :: r =>
    match (kv r "height").bind String.toNat?, kv r "txs" with
    | some h, some txs =>
      let items := (splitList "+" txs).mapM fun t =>
        match t.splitOn "@" with
        | [tx, evs] => do
          let tx ← str tx
          let evs ← parseTxEvents evs
          pure (tx, evs)
        | _ => none
      match items with
      | some items =>
        let rs : List Index.TxResult := (items.zipIdx).map fun (p, i) =>
          { height := h, index := i, tx := p.1, events := p.2 }
        ({ s with db := Index.addBatch Hs s.db rs }, "ok")
      | none => (s, "bad-op")
    | _, _ => (s, "bad-op")
  | "get" :: r =>
    match (kv r "hash").bind str with
    | some h => (s, showGet (Index.get s.db h))
    | _ => (s, "bad-op")
  | "search" :: r =>
    match (kv r "ast").bind parseAst with
    | some ast => (s, showSearch s.db (Index.search s.db ast))
    | _ => (s, "bad-op")
  | "svcblock" :: r =>
    -- IndexerService: BlockIndexer.Index (a rejected block leaves the block index as it was),
    -- then TxIndexer.AddBatch of the block's txs in every case
    match (kv r "height").bind String.toNat?, (kv r "begin").bind parseTxEvents,
          (kv r "end").bind parseTxEvents, kv r "txs" with
    | some h, some b, some e, some txs =>
      let items := (splitList "+" txs).mapM fun t =>
        match t.splitOn "@" with
        | [tx, evs] => do
          let tx ← str tx
          let evs ← parseTxEvents evs
          pure (tx, evs)
        | _ => none
      match items with
      | some items =>
        -- `wait=0`: the block is only queued (answer `queued`); its effect is the same
        let queued := kv r "wait" == some "0"
        let blk : IndexerService.Block := { height := h, beginEvents := b, endEvents := e, txs := items }
        let st : IndexerService.State := { db := s.db, bdb := s.bdb }
        let ok := IndexerService.accepted st blk
        let st' := IndexerService.step Hs st blk
        ({ s with db := st'.db, bdb := st'.bdb },
          if queued then "queued" else if ok then "ok" else "ok block-rejected")
      | none => (s, "bad-op")
    | _, _, _, _ => (s, "bad-op")
  | "bindex" :: r =>
    match (kv r "height").bind String.toNat?, (kv r "begin").bind parseTxEvents,
          (kv r "end").bind parseTxEvents with
    | some h, some b, some e =>
      match BlockIndex.index s.bdb h b e with
      | some db => ({ s with bdb := db }, "ok")
      | none => (s, "err-reserved")
    | _, _, _ => (s, "bad-op")
  | "bhas" :: r =>
    match (kv r "height").bind String.toNat? with
    | some h => (s, toString (BlockIndex.has s.bdb h))
    | _ => (s, "bad-op")
  | "bsearch" :: r =>
    match (kv r "ast").bind parseAst with
    | some ast => (s, showBSearch (BlockIndex.search s.bdb ast))
    | _ => (s, "bad-op")
  | _ => (s, "bad-op")

def machine : Machine := { σ := St, init := {}, step := step }

end Tmv.Drv.C19

def main : IO Unit := Tmv.Drv.run Tmv.Drv.C19.machine
