import Tmv.Drv.Core
import Tmv.Model.WalInst
/-! Line-protocol driver for C15 (WAL): the model of `Tmv.Wal` instantiated with the real CRC-32C
and a minimal protobuf reader that recognises `TimedWALMessage{…, Msg: WALMessage{…}}`. -/
namespace Tmv.Drv.C15
open Tmv Tmv.Wal Tmv.Wal.Inst

/-! ## canonical output -/

def showErr : DecErr → String
  | .crcRead => "crc-read" | .lenRead => "len-read" | .tooBig => "too-big"
  | .dataRead => "data-read" | .crcMismatch => "crc" | .proto => "proto"

def showRec (d : Bytes) : String :=
  toHex (P.crc d) ++ ":" ++ toString d.length ++
    (match P.parse d with | some (some h) => s!":E{h}" | _ => "")

def showRecs (ds : List Bytes) : String :=
  if ds.isEmpty then "-" else ",".intercalate (ds.map showRec)

def showEnd : DecRes → String
  | .corrupt e => "corrupt:" ++ showErr e
  | _ => "eof"

def showFiles (fs : List (Nat × Bytes)) : String :=
  if fs.isEmpty then "-" else ",".intercalate (fs.map fun (i, b) => s!"{i}:{b.length}")

def dump (g : Group) : String :=
  let cor := match g.cor with | some n => toString n | none => "-"
  if g.isOpen then
    s!"min={g.minIndex} max={g.maxIndex} files={showFiles g.files} head={g.head.length} buf={g.buf.length} cor={cor}"
  else s!"closed files={showFiles g.files} head={g.head.length} cor={cor}"

/-- messages the replay hands to the state machine (markers are skipped) -/
def steps (ds : List Bytes) : Nat := (ds.filter fun d => P.parse d == some none).length

def showCatch : CatchRes → String
  | .ok ds => s!"ok({steps ds})"
  | .foundCurrent => "found-current"
  | .belowInitial => "below-initial"
  | .noMarker => "marker-written"
  | .searchErr e => "search-err:" ++ showErr e
  | .corrupt ds e => s!"corrupt:{showErr e}({steps ds})"

def flipAt (b : Bytes) (off x : Nat) : Bytes :=
  let i := off % b.length
  b.set i ((b.getD i 0) ^^^ UInt8.ofNat x)

def natOf (toks : List String) (k : String) : Option Nat := (kv toks k).bind String.toNat?
def intOf (toks : List String) (k : String) : Option Int := (kv toks k).bind String.toInt?
def hexOf (toks : List String) (k : String) : Option Bytes := (kv toks k).bind ofHex

def step (g : Group) (toks : List String) : Group × String :=
  match toks with
  | "open" :: rest =>
    match natOf rest "hl", natOf rest "tl", hexOf rest "e0" with
    | some hl, some tl, some e0 =>
      if g.isOpen then (g, "bad-op") else
      let (g', w) := onStart P S (openGroup g hl tl) e0
      (g', s!"ok wrote={w} " ++ dump g')
    | _, _, _ => (g, "bad-op")
  | "write" :: rest =>
    match hexOf rest "data" with
    | some d =>
      if !g.isOpen then (g, "bad-op") else
      match write P S g d with
      | some g' => (g', "ok")
      | none => (g, "err-too-big")
    | none => (g, "bad-op")
  | "wsync" :: rest =>
    match hexOf rest "data" with
    | some d =>
      if !g.isOpen then (g, "bad-op") else
      match writeSync P S g d with
      | some g' => (g', "ok")
      | none => (g, "err-too-big")
    | none => (g, "bad-op")
  | "writerot" :: rest =>
    -- a write during which the size-limit ticker fires: `Encode` hands the whole record to the
    -- group in ONE `Write`, so the check runs after the record (w = number of `Write` calls)
    match hexOf rest "data", natOf rest "sync" with
    | some d, some sy =>
      if !g.isOpen then (g, "bad-op") else
      match write P S g d with
      | some g1 =>
        let (g2, r) := checkHeadSizeLimit g1
        let g3 := if sy ≠ 0 then flushAndSync g2 else g2
        (g3, s!"ok w=1 rotated={r} " ++ dump g3)
      | none => (g, "err-too-big")
    | _, _ => (g, "bad-op")
  | ["sync"] => if !g.isOpen then (g, "bad-op") else (flushAndSync g, "ok")
  | ["rotate"] =>
    if !g.isOpen then (g, "bad-op") else
    let (g', r) := checkHeadSizeLimit g
    (g', s!"rotated={r} " ++ dump g')
  | ["prune"] =>
    if !g.isOpen then (g, "bad-op") else
    let (g', rem) := checkTotalSizeLimit maxRemove g
    (g', "removed=" ++ (if rem.isEmpty then "-" else ",".intercalate (rem.map toString)) ++ " " ++ dump g')
  | ["stop"] =>
    if !g.isOpen then (g, "bad-op") else
    let g' := stop g
    (g', dump g')
  | "crash" :: rest =>
    match natOf rest "cut" with
    | some cut =>
      if !g.isOpen then (g, "bad-op") else
      let g' := crash g cut
      (g', dump g')
    | none => (g, "bad-op")
  | "flip" :: rest =>
    match kv rest "f", natOf rest "off", natOf rest "x" with
    | some f, some off, some x =>
      if x = 0 ∨ x > 255 then (g, "bad-op") else
      if f = "h" then
        if g.head.isEmpty then (g, "skip") else ({ g with head := flipAt g.head off x }, "ok")
      else match f.toNat? with
        | some i =>
          match lookupFile g.files i with
          | some b => if b.isEmpty then (g, "skip") else ({ g with files := setFile g.files i (flipAt b off x) }, "ok")
          | none => (g, "skip")
        | none => (g, "bad-op")
    | _, _, _ => (g, "bad-op")
  | "mkfile" :: rest =>
    match natOf rest "i", (kv rest "recs").bind (fun s => (splitComma s).mapM ofHex) with
    | some i, some ds =>
      if g.isOpen then (g, "bad-op") else
      let g' := { g with files := setFile g.files i (frames P ds) }
      (g', dump g')
    | _, _ => (g, "bad-op")
  | "raw" :: rest =>
    match hexOf rest "data" with
    | some d =>
      if g.isOpen then (g, "bad-op") else
      ({ g with head := g.head ++ d, synced := g.head.length + d.length }, "ok")
    | none => (g, "bad-op")
  | ["readall"] =>
    if !g.isOpen then (g, "bad-op") else
    let ((ds, e), g') := readAll P g
    (g', s!"recs={showRecs ds} end={showEnd e}")
  | "search" :: rest =>
    match intOf rest "h", natOf rest "ign" with
    | some h, some ign =>
      if !g.isOpen then (g, "bad-op") else
      let (r, g') := search P g h (ign ≠ 0)
      (g', match r with
        | .found rs =>
          let (ds, e) := readAllG P rs
          s!"found rest={showRecs ds} end={showEnd e}"
        | .notFound => "not-found"
        | .err e => "err:" ++ showErr e)
    | _, _ => (g, "bad-op")
  | "recover" :: rest =>
    match intOf rest "h", hexOf rest "e0", hexOf rest "em" with
    | some h, some e0, some em =>
      if !g.isOpen then (g, "bad-op") else
      let (r, g') := recoverW P S defaultHeadLimit defaultTotalLimit g h e0 em
      (g', (match r with
        | .first c => "res=" ++ showCatch c
        | .repaired e c w => s!"res=repair:{showErr e}/" ++ showCatch c ++ s!" wrote={w}") ++ " " ++ dump g')
    | _, _, _ => (g, "bad-op")
  | ["ls"] => (g, dump g)
  | _ => (g, "bad-op")

/-! ## readers that stay open across writes, rotations and prunes -/

structure St where
  g : Group := {}
  rs : List (String × Reader) := []

def findReader (rs : List (String × Reader)) (n : String) : Option Reader :=
  (rs.find? (·.1 = n)).map (·.2)

def setReader (rs : List (String × Reader)) (n : String) (r : Reader) : List (String × Reader) :=
  (rs.filter (·.1 ≠ n)) ++ [(n, r)]

def raceWrites (g : Group) : List Bytes → Option Group
  | [] => some g
  | d :: ds =>
    match writeSync P S g d with
    | some g' => raceWrites (checkHeadSizeLimit g').1 ds
    | none => none

def stepR (st : St) (toks : List String) : St × String :=
  let g := st.g
  match toks with
  | "ropen" :: rest =>
    match kv rest "name", natOf rest "idx" with
    | some n, some i =>
      if !g.isOpen then (st, "bad-op") else
      if i > g.maxIndex then (st, "err-eof") else
      ({ g := readerOpen g i, rs := setReader st.rs n { idx := i } }, "ok")
    | _, _ => (st, "bad-op")
  | "rsearch" :: rest =>
    match kv rest "name", intOf rest "h", natOf rest "ign" with
    | some n, some h, some ign =>
      if !g.isOpen then (st, "bad-op") else
      let idxs := (List.range' g.minIndex (g.maxIndex + 1 - g.minIndex)).reverse
      let (r, low) := searchIdx P g h (ign ≠ 0) idxs (-1) (g.maxIndex + 1)
      let g' := touchFrom g low
      match r with
      | .found rs =>
        let c := (streamFrom g low).length - rs.length
        ({ g := g', rs := setReader st.rs n (readerAfter g' (g'.maxIndex + 1) low c) }, "found")
      | .notFound => ({ st with g := g' }, "not-found")
      | .err e => ({ st with g := g' }, "err:" ++ showErr e)
    | _, _, _ => (st, "bad-op")
  | "rnext" :: rest =>
    match kv rest "name", natOf rest "n" with
    | some n, some k =>
      match findReader st.rs n with
      | some r =>
        let (ds, e, r', g') := readerNext P k g r
        ({ g := g', rs := setReader st.rs n r' },
          s!"recs={showRecs ds} end=" ++ (match e with
            | none => "more"
            | some x => showEnd x))
      | none => (st, "bad-op")
    | _, _ => (st, "bad-op")
  | "rclose" :: rest =>
    match kv rest "name" with
    | some n =>
      match findReader st.rs n with
      | some _ => ({ st with rs := st.rs.filter (·.1 ≠ n) }, "ok")
      | none => (st, "bad-op")
    | none => (st, "bad-op")
  | "race" :: rest =>
    match (kv rest "recs").bind (fun s => (splitComma s).mapM ofHex) with
    | some ds =>
      if !g.isOpen then (st, "bad-op") else
      match raceWrites (touchFrom g g.minIndex) ds with
      | some g' => ({ st with g := g' }, "race ok " ++ dump g')
      | none => (st, "bad-op")
    | none => (st, "bad-op")
  | ["prune"] =>
    if !g.isOpen then (st, "bad-op") else
    let (_, rem) := checkTotalSizeLimit maxRemove g
    let (g', o) := step g toks
    ({ g := g', rs := pinReaders g rem st.rs }, o)
  | op :: _ =>
    if (op = "flip" ∨ op = "recover") ∧ !st.rs.isEmpty then (st, "bad-op") else
    let (g', o) := step g toks
    ({ g := g', rs := if g'.isOpen then st.rs else [] }, o)
  | [] => (st, "bad-op")

def machine : Machine := { σ := St, init := {}, step := stepR }

end Tmv.Drv.C15

def main : IO Unit := Tmv.Drv.run Tmv.Drv.C15.machine
