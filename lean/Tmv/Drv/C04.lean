import Tmv.Drv.Core
import Tmv.Model.Sign
import Tmv.Model.Cons
/-! Line-protocol driver for C04 (file signer with crash points). The signature scheme is
instantiated with the ideal one: a signature *is* the content it signs (`Sig := SB`, `sigOf := id`);
the Go side maps real ed25519 signatures to the content they verify for. -/
namespace Tmv.Drv.C04
open Tmv Tmv.Sign

def showChain (s : String) : String := if s = "" then "-" else s
def readChain (s : String) : String := if s = "-" then "" else s

def showBid (b : BlockID) : String := s!"{hexOrDash b.hash}:{b.total}:{hexOrDash b.phash}"

def showSB (s : SB) : String :=
  s!"{s.typ}/{s.h}/{s.r}/{s.pol}/" ++ (match s.bid with | none => "nil" | some b => showBid b) ++
    s!"/{s.ts}/{showChain s.chain}"

def showOSB : Option SB → String
  | none => "nil"
  | some s => showSB s

def parseBid (s : String) : Option BlockID :=
  match s.splitOn ":" with
  | [a, t, b] => do
    let hash ← ofHex a
    let total ← t.toInt?
    let ph ← ofHex b
    pure { hash := hash, total := total, phash := ph }
  | _ => none

def parseSB (s : String) : Option SB :=
  match s.splitOn "/" with
  | [typ, h, r, pol, bid, ts, chain] => do
    let typ ← typ.toInt?
    let h ← h.toInt?
    let r ← r.toInt?
    let pol ← pol.toInt?
    let ts ← ts.toInt?
    let bid ← if bid = "nil" then some none else (parseBid bid).map some
    pure { typ := typ, h := h, r := r, pol := pol, bid := bid, ts := ts, chain := readChain chain }
  | _ => none

/-- `nil` or a content -/
def parseOSB (s : String) : Option (Option SB) :=
  if s = "nil" then some none else (parseSB s).map some

def parseReq (toks : List String) : Option Req := do
  let kind ← match kv toks "kind" with
    | some "vote" => some Kind.vote
    | some "proposal" => some Kind.proposal
    | _ => none
  let typ ← (← kv toks "typ").toInt?
  let h ← (← kv toks "h").toInt?
  let r ← (← kv toks "r").toInt?
  let pol ← (← kv toks "pol").toInt?
  let bid ← parseBid (← kv toks "bid")
  let ts ← (← kv toks "ts").toInt?
  let chain ← kv toks "chain"
  pure { kind := kind, typ := typ, h := h, r := r, pol := pol, bid := bid, ts := ts, chain := readChain chain }

def showErr : Err → String
  | .height => "err-height"
  | .round => "err-round"
  | .step => "err-step"
  | .noSignBytes => "err-nosignbytes"
  | .conflict => "err-conflict"

def showOut : Out SB → String
  | .none => "crashed"
  | .err e => showErr e
  | .panic => "panic"
  | .ok sb sig => s!"ok sb={showSB sb} sig={showSB sig}"

def showLSS (l : LSS SB) : String :=
  s!"{l.h}/{l.r}/{l.step} sb={showOSB l.sb} sig={showOSB l.sig}"

/-- `node height=<1..50> kills=<sys>:<n>,…|- trunc=<n>,…|-` (same validation as the Go side) -/
def nodeOpOK (rest : List String) : Bool :=
  let hOK := match (kv rest "height").bind String.toInt? with
    | some h => decide (1 ≤ h ∧ h ≤ 50)
    | none => false
  let natOK (s : String) : Bool := match s.toNat? with
    | some n => decide (n < 2147483648)
    | none => false
  let kills := match kv rest "kills" with
    | some s => if s = "" ∨ s = "-" then [] else s.splitOn ","
    | none => []
  let truncs := match kv rest "trunc" with
    | some s => if s = "" ∨ s = "-" then [] else s.splitOn ","
    | none => []
  hOK && kills.all (fun k => match k.splitOn ":" with
    | [sys, n] => ["write", "fsync", "fdatasync", "renameat", "openat"].contains sys && natOK n
    | _ => false) && truncs.all natOK

/-! ### replay of WAL records through the consensus model (node rig: round state after
`catchupReplay` vs the model). Same state line as the C02 driver, without the queue length. -/
section Replay
open Tmv.Cons

def rStepName : Step → String
  | .newHeight => "newHeight" | .newRound => "newRound" | .propose => "propose"
  | .prevote => "prevote" | .prevoteWait => "prevoteWait" | .precommit => "precommit"
  | .precommitWait => "precommitWait" | .commit => "commit"

def rParseStep (s : String) : Option Step :=
  [Step.newHeight, .newRound, .propose, .prevote, .prevoteWait, .precommit, .precommitWait, .commit].find?
    (fun x => rStepName x = s)

def rShowBid : Bid → String
  | none => "nil"
  | some b => toString b

def rParseBid (s : String) : Option Bid :=
  if s = "nil" then some none else s.toNat?.map some

def rShowOB : Option Nat → String
  | none => "-"
  | some b => toString b

def rShowVS (ids : Nat) (vs : VoteSet) : String :=
  let keys : List Bid := none :: (List.range ids).map some
  let buckets := keys.filterMap fun k =>
    let x := vs.blockSum k
    if x = 0 then none else some s!"{rShowBid k}={x}"
  let m := match vs.maj23 with | none => "-" | some b => rShowBid b
  s!"{vs.sum}/{m}/" ++ (if buckets.isEmpty then "-" else "+".intercalate buckets)

def rShowHV (ids : Nat) (h : HVS) : String :=
  let rounds : List Int := (List.range 42).map fun (i : Nat) => (i : Int) - 1
  ",".intercalate (rounds.filterMap fun r =>
    (h.getRound r).map fun rvs => s!"{r}:P{rShowVS ids rvs.prevotes}:C{rShowVS ids rvs.precommits}")

def rShowState (c : Cons.Cfg) (ids : Nat) (s : NodeState) : String :=
  if s.halted then "halted" else
  match s.decided with
  | some (b, r) => s!"decided {b}@{r}"
  | none =>
    let prop := match s.proposal with
      | none => "-"
      | some p => s!"{p.bid}/{p.pol}"
    s!"r={s.round} s={rStepName s.step} lr={s.lockedRound} lb={rShowOB s.lockedBlock} " ++
    s!"vr={s.validRound} vb={rShowOB s.validBlock} prop={prop} pb={rShowOB s.proposalBlock} " ++
    s!"pp={rShowOB s.proposalParts}/{if s.partsDone then 1 else 0} cr={s.commitRound} " ++
    s!"tp={if s.triggered then 1 else 0} pr={c.proposer s.valRound} " ++
    s!"hr={s.votes.round} hv={rShowHV ids s.votes}"

/-- single validator of the given power proposing block `own`; the signer answers everything
(during replay the real one refuses or reuses; the round state does not depend on its answer) -/
def rCfg (power own : Nat) : Cons.Cfg :=
  { n := 1, power := fun _ => power, self := some 0, proposer := fun _ => 0, valid := fun _ => true,
    ownBlock := own, waitForTxs := false, needProofBlock := false, emptyInterval := false, checkHRS := false }

end Replay

structure σ where
  sg : Cfg SB
  rc : Option (Cons.Cfg × Nat)    -- replay configuration, number of block ids shown
  rs : Cons.NodeState

def stepSign (c : Cfg SB) (toks : List String) : Cfg SB × String :=
  match toks with
  | "load" :: rest =>
    match (kv rest "h").bind String.toInt?, (kv rest "r").bind String.toInt?, (kv rest "s").bind String.toInt?,
          (kv rest "sb").bind parseOSB, (kv rest "sig").bind parseOSB with
    | some h, some r, some s, some sb, some sig =>
      (Sign.init { h := h, r := r, step := s, sig := sig, sb := sb }, "ok")
    | _, _, _, _, _ => (c, "bad-op")
  | "sign" :: rest =>
    match parseReq rest with
    | none => (c, "bad-op")
    | some q =>
      match kv rest "crash", kv rest "fail" with
      | none, none => let r := call id c q none; (r.1, showOut r.2)
      | none, some f =>
        -- the state file cannot be written during this call
        if f = "1" then let r := callFail id c q; (r.1, showOut r.2) else (c, "bad-op")
      | some k, none =>
        match k.toNat? with
        | none => (c, "bad-op")
        | some k => let r := call id c q (some k); (r.1, showOut r.2)
      | some _, some _ => (c, "bad-op")
  | ["crash"] => ((Sign.step id c .crash).1, "ok")
  | ["crash", via] =>
    -- restart through a named loader; key file and state file both exist in the streams
    let ld : Option Loader :=
      if via = "via=loadorgen" then some .loadOrGen else if via = "via=load" then some .load
      else if via = "via=emptystate" then some .emptyState else none
    match ld with
    | none => (c, "bad-op")
    | some ld =>
      match restartWith id ld true true c with
      | some c' => (c', "ok")
      | none => (c, "exit")
  | "node" :: rest =>
    -- a whole single-validator node killed at persistence syscalls and restarted: by
    -- `Props.C04.released_consistent` no history of requests and crashes releases conflicting
    -- signatures, so the model's answer is always "no conflict"
    (c, if nodeOpOK rest then "node-ok" else "bad-op")
  | ["state"] => (c, s!"disk={showLSS c.disk} mem={showLSS c.mem}")
  | _ => (c, "bad-op")

/-- replay ops: one WAL record each, handled the way `catchupReplay` does (`handleTimeout` /
`handleMsg` on the record, the internal queue is not drained) -/
def stepReplay (st : σ) (toks : List String) : Option (σ × String) :=
  match toks with
  | "rcfg" :: rest =>
    match (kv rest "power").bind String.toNat?, (kv rest "own").bind String.toNat?, (kv rest "ids").bind String.toNat? with
    | some p, some o, some ids => some ({ st with rc := some (rCfg p o, ids), rs := .init }, "ok")
    | _, _, _ => some (st, "bad-op")
  | op :: rest =>
    if !["rtimeout", "rprop", "rpart", "rvote", "rstate"].contains op then none else
    match st.rc with
    | none => some (st, "bad-op")
    | some (c, ids) =>
      let fin (s : Cons.NodeState) : Option (σ × String) := some ({ st with rs := s }, rShowState c ids s)
      if st.rs.halted ∨ st.rs.decided.isSome then fin st.rs else
      match op with
      | "rtimeout" =>
        match (kv rest "r").bind String.toNat?, (kv rest "s").bind rParseStep with
        | some r, some stp => fin (Cons.handleTimeout c st.rs r stp)
        | _, _ => some (st, "bad-op")
      | "rprop" =>
        match (kv rest "r").bind String.toNat?, (kv rest "b").bind String.toNat?, (kv rest "pol").bind String.toInt? with
        | some r, some b, some pol => fin (Cons.handleInternal c st.rs (.proposal { round := r, bid := b, pol := pol, signer := 0 }))
        | _, _, _ => some (st, "bad-op")
      | "rpart" =>
        match (kv rest "b").bind String.toNat? with
        | some b => fin (Cons.handleInternal c st.rs (.part b))
        | none => some (st, "bad-op")
      | "rvote" =>
        match kv rest "t", (kv rest "r").bind String.toNat?, (kv rest "b").bind rParseBid with
        | some "pv", some r, some b => fin (Cons.handleInternal c st.rs (.vote ⟨.prevote, r, b, 0, true, 0, 0⟩))
        | some "pc", some r, some b => fin (Cons.handleInternal c st.rs (.vote ⟨.precommit, r, b, 0, true, 0, 0⟩))
        | _, _, _ => some (st, "bad-op")
      | _ => fin st.rs
  | [] => none

def step (st : σ) (toks : List String) : σ × String :=
  match stepReplay st toks with
  | some r => r
  | none => let r := stepSign st.sg toks; ({ st with sg := r.1 }, r.2)

def machine : Machine := { σ := σ, init := ⟨Sign.init Sign.genesis, none, .init⟩, step := step }

end Tmv.Drv.C04

def main : IO Unit := Tmv.Drv.run Tmv.Drv.C04.machine
