import Tmv.Drv.Core
import Tmv.Model.Sign
/-! Line-protocol driver for C04 (file signer with crash points). The signature scheme is
instantiated with the ideal one: a signature *is* the content it signs (`Sig := SB`, `sigOf := id`);
the Go side maps real ed25519 signatures to the content they verify for. -/
namespace Tmv.Drv.C04
open Tmv Tmv.Sign

def showChain (s : String) : String := if s = "" then "-" else s
def readChain (s : String) : String := if s = "-" then "" else s

def showBid (b : BlockID) : String := s!"{hexOrDash b.hash}:{b.total}:{hexOrDash b.phash}"

def showSB (s : SB) : String :=
  s!"{s.typ}/{s.h}/{s.r}/{s.pol}/" ++ (match s.bid with | none => "nil" | some b => showBid b) ++
    s!"/{s.ts}/{showChain s.chain}"

def showOSB : Option SB → String
  | none => "nil"
  | some s => showSB s

def parseBid (s : String) : Option BlockID :=
  match s.splitOn ":" with
  | [a, t, b] => do
    let hash ← ofHex a
    let total ← t.toInt?
    let ph ← ofHex b
    pure { hash := hash, total := total, phash := ph }
  | _ => none

def parseSB (s : String) : Option SB :=
  match s.splitOn "/" with
  | [typ, h, r, pol, bid, ts, chain] => do
    let typ ← typ.toInt?
    let h ← h.toInt?
    let r ← r.toInt?
    let pol ← pol.toInt?
    let ts ← ts.toInt?
    let bid ← if bid = "nil" then some none else (parseBid bid).map some
    pure { typ := typ, h := h, r := r, pol := pol, bid := bid, ts := ts, chain := readChain chain }
  | _ => none

/-- `nil` or a content -/
def parseOSB (s : String) : Option (Option SB) :=
  if s = "nil" then some none else (parseSB s).map some

def parseReq (toks : List String) : Option Req := do
  let kind ← match kv toks "kind" with
    | some "vote" => some Kind.vote
    | some "proposal" => some Kind.proposal
    | _ => none
  let typ ← (← kv toks "typ").toInt?
  let h ← (← kv toks "h").toInt?
  let r ← (← kv toks "r").toInt?
  let pol ← (← kv toks "pol").toInt?
  let bid ← parseBid (← kv toks "bid")
  let ts ← (← kv toks "ts").toInt?
  let chain ← kv toks "chain"
  pure { kind := kind, typ := typ, h := h, r := r, pol := pol, bid := bid, ts := ts, chain := readChain chain }

def showErr : Err → String
  | .height => "err-height"
  | .round => "err-round"
  | .step => "err-step"
  | .noSignBytes => "err-nosignbytes"
  | .conflict => "err-conflict"

def showOut : Out SB → String
  | .none => "crashed"
  | .err e => showErr e
  | .panic => "panic"
  | .ok sb sig => s!"ok sb={showSB sb} sig={showSB sig}"

def showLSS (l : LSS SB) : String :=
  s!"{l.h}/{l.r}/{l.step} sb={showOSB l.sb} sig={showOSB l.sig}"

/-- `node height=<1..50> kills=<sys>:<n>,…|- trunc=<n>,…|-` (same validation as the Go side) -/
def nodeOpOK (rest : List String) : Bool :=
  let hOK := match (kv rest "height").bind String.toInt? with
    | some h => decide (1 ≤ h ∧ h ≤ 50)
    | none => false
  let natOK (s : String) : Bool := match s.toNat? with
    | some n => decide (n < 2147483648)
    | none => false
  let kills := match kv rest "kills" with
    | some s => if s = "" ∨ s = "-" then [] else s.splitOn ","
    | none => []
  let truncs := match kv rest "trunc" with
    | some s => if s = "" ∨ s = "-" then [] else s.splitOn ","
    | none => []
  hOK && kills.all (fun k => match k.splitOn ":" with
    | [sys, n] => ["write", "fsync", "fdatasync", "renameat", "openat"].contains sys && natOK n
    | _ => false) && truncs.all natOK

abbrev σ := Cfg SB

def step (c : σ) (toks : List String) : σ × String :=
  match toks with
  | "load" :: rest =>
    match (kv rest "h").bind String.toInt?, (kv rest "r").bind String.toInt?, (kv rest "s").bind String.toInt?,
          (kv rest "sb").bind parseOSB, (kv rest "sig").bind parseOSB with
    | some h, some r, some s, some sb, some sig =>
      (Sign.init { h := h, r := r, step := s, sig := sig, sb := sb }, "ok")
    | _, _, _, _, _ => (c, "bad-op")
  | "sign" :: rest =>
    match parseReq rest with
    | none => (c, "bad-op")
    | some q =>
      match kv rest "crash", kv rest "fail" with
      | none, none => let r := call id c q none; (r.1, showOut r.2)
      | none, some f =>
        -- the state file cannot be written during this call
        if f = "1" then let r := callFail id c q; (r.1, showOut r.2) else (c, "bad-op")
      | some k, none =>
        match k.toNat? with
        | none => (c, "bad-op")
        | some k => let r := call id c q (some k); (r.1, showOut r.2)
      | some _, some _ => (c, "bad-op")
  | ["crash"] => ((Sign.step id c .crash).1, "ok")
  | "node" :: rest =>
    -- a whole single-validator node killed at persistence syscalls and restarted: by
    -- `Props.C04.released_consistent` no history of requests and crashes releases conflicting
    -- signatures, so the model's answer is always "no conflict"
    (c, if nodeOpOK rest then "node-ok" else "bad-op")
  | ["state"] => (c, s!"disk={showLSS c.disk} mem={showLSS c.mem}")
  | _ => (c, "bad-op")

def machine : Machine := { σ := σ, init := Sign.init Sign.genesis, step := step }

end Tmv.Drv.C04

def main : IO Unit := Tmv.Drv.run Tmv.Drv.C04.machine
