import Tmv.Drv.Core
import Tmv.Model.Pipeline
import Tmv.Model.MempoolLock
namespace Tmv.Drv.C05
open Tmv Tmv.Pipeline

structure St where
  retainK : Option Nat := none
  ih : Nat := 1
  blocks : List (List Tx) := []
  sys : Sys := {}
  seen : Nat := 0                       -- journal entries already printed
  ver : MempoolLock.Ver := .v0
  ms : Option MempoolLock.MS := none

/-- `retain=K`: the application answers RetainHeight = height + 1 - K to every Commit (K = 0: one
beyond the block just committed, which PruneBlocks refuses; K = 1: that block itself; …) -/
def retainOf (k : Option Nat) : Nat → Nat := fun h => match k with
  | some k => h + 1 - k
  | none => 0

def chainOf (ih : Nat) (bs : List (List Tx)) (rk : Option Nat := none) : Chain :=
  { ihPred := ih - 1, txs := fun h => if h < ih then [] else bs.getD (h - ih) [], retain := retainOf rk }

def parseBlock (s : String) : Option (List Tx) :=
  if s = "e" then some [] else (s.splitOn ".").mapM String.toNat?

def parseCrash (s : String) : Option (Option Nat) :=
  if s = "-" then some none else s.toNat?.map some

/-- `mid=j`: the crash falls inside the next state-store effect after `j` of its database writes,
at the latest before its last one — which is the write that commits the effect
(state/store.go: the SetSync of the state / of the last-responses record), so for the model it is
the same crash point -/
def midOk (toks : List String) : Bool :=
  match kv toks "mid" with
  | some s => match s.toNat? with | some x => x ≤ 9 | none => false
  | none => true

def showCall : Call → String
  | .initChain => "I"
  | .begin h => s!"B{h}"
  | .deliver tx => s!"T{tx}"
  | .endBlock h => s!"E{h}"
  | .commit => "C"
  | .restart => "R"
  | .restored h => s!"S{h}"

def showOutcome : Outcome → String
  | .ok => "ok"
  | .errAppTooHigh => "err-app-too-high"
  | .errAppTooLow => "err-app-too-low"
  | .panicStateAhead => "panic-state-ahead"
  | .panicStoreAhead => "panic-store-ahead"
  | .errNoResp => "err-no-resp"
  | .errInvalidBlock => "err-invalid-block"
  | .panicHashBlock => "panic-hash-block"
  | .panicHashState => "panic-hash-state"
  | .panicUncovered => "panic-uncovered"
  | .panicValsPruned => "panic-validators-pruned"

def b01 (b : Bool) : String := if b then "1" else "0"

def line (st : St) (hd : String) (s : Sys) : St × String :=
  let d := s.disk
  let c := chainOf st.ih st.blocks st.retainK
  let delta := d.app.journal.drop st.seen
  let j := if delta.isEmpty then "-" else ",".intercalate (delta.map showCall)
  let resp := match d.lastResp with | some h => toString h | none => "-"
  ({ st with sys := s, seen := d.app.journal.length },
   s!"{hd} app={d.app.height} store={d.storeH} base={d.storeBase} state={d.stateH} resp={resp} wal={d.walEnd} " ++
   s!"pv={d.pvH} heq={b01 (d.app.hash == d.stateHash)} sc={b01 (d.stateHash == hist c d.stateH)} up={b01 s.up} live={b01 s.live} j={j}")

/-! mempool part -/
open MempoolLock in
def insertSorted (x : String) : List String → List String
  | [] => [x]
  | y :: ys => if x < y then x :: y :: ys else y :: insertSorted x ys

open MempoolLock in
def gateNames (s : MS) : List String :=
  let ks := s.chk.filterMap fun p => if p.2 == .atGate then some s!"check:{p.1}" else none
  let cs := match s.cpc with
    | .flushGate => ["flush"]
    | .commitGate => ["commit"]
    | .recheckGate cur _ => [s!"recheck:{cur}"]
    | _ => []
  let rs := s.rechecks.map fun j => s!"recheck:{j}"
  (ks ++ cs ++ rs).foldr insertSorted []

open MempoolLock in
def mpLine (v : Ver) (s : MS) : String :=
  if v = .v0a ∨ v = .v1a then
    -- asynchronous connection: the commit request is at the gate, the unanswered mempool requests
    -- are listed in connection (FIFO) order
    -- the flush answer is held at the gate once everything queued before it has been answered
    let g := match s.cpc with
      | .commitGate => "commit"
      | .flushGate => if (MempoolLock.step v s .relFlush).isSome then "flush" else "-"
      | _ => "-"
    let q := s.queue.map fun p => if p.1 then s!"recheck:{p.2}" else s!"check:{p.2}"
    s!"gate={g} queue={if q.isEmpty then "-" else ",".intercalate q} pool={s.pool}"
  else
    let g := gateNames s
    s!"gate={if g.isEmpty then "-" else ",".intercalate g} pool={s.pool}"

open MempoolLock in
def mpEv (st : St) (s : MS) (e : Ev) : St × String :=
  match MempoolLock.step st.ver s e with
  | some s' =>
    let s'' := settle st.ver 64 s'
    ({ st with ms := some s'' }, mpLine st.ver s'')
  | none => (st, "not-enabled")

open MempoolLock in
def parseRel (w : String) : Option Ev :=
  match w.splitOn ":" with
  | ["flush"] => some .relFlush
  | ["commit"] => some .relCommit
  | ["check", i] => i.toNat?.map .relCheck
  | ["recheck", j] => j.toNat?.map .relRecheck
  | _ => none

def step (st : St) (toks : List String) : St × String :=
  let c := chainOf st.ih st.blocks st.retainK
  match toks with
  | "chain" :: rest =>
    match (kv rest "n").bind String.toNat?, (kv rest "txs").bind (fun s => (splitComma s).mapM parseBlock),
        ((kv rest "ih").getD "1").toNat? with
    | some n, some bs, some ih =>
      let dis := (kv rest "discard").getD "0"
      -- discard=1: storage.discard_abci_responses; the last responses record is written regardless
      -- (state/store.go SaveABCIResponses), which is all the pipeline reads: same model
      let rk : Option (Option Nat) := match kv rest "retain" with
        | some s => (s.toNat?).bind fun x => if x ≤ 100 then some (some x) else none
        | none => some none
      match rk with
      | none => (st, "bad-op")
      | some rk =>
      -- emptyhash=1: the application's app hash is zero-length at every height; the model's hash is the
      -- committed history, and nothing in the pipeline depends on the hash being non-empty
      let eh := (kv rest "emptyhash").getD "0"
      if bs.length = n ∧ 1 ≤ ih ∧ ih ≤ 1000 ∧ (dis = "0" ∨ dis = "1") ∧ (eh = "0" ∨ eh = "1") then ({ ih := ih, blocks := bs, retainK := rk }, "ok") else (st, "bad-op")
    | _, _, _ => (st, "bad-op")
  | "start" :: rest =>
    match (if midOk rest then (kv rest "crash").bind parseCrash else none) with
    | some k =>
      let r := handshake c st.sys.disk
      let s' := stepSys c st.sys (.start k)
      let crashed := match k with | some k => decide (k < (startEffs c st.sys.disk).length) | none => false
      let out := if crashed then "crashed" else showOutcome r.outcome
      let real := r.branch == .lastReal && !crashed
      let mock := r.branch == .lastMock && !crashed && r.outcome != .errNoResp
      line st s!"start out={out} real={b01 real} mock={b01 mock}" s'
    | none => (st, "bad-op")
  | "commit" :: rest =>
    match (if midOk rest then (kv rest "crash").bind parseCrash else none) with
    | some k =>
      if !(st.sys.up && st.sys.live) then line st "commit out=not-up" st.sys
      else if nxt c st.sys.disk.stateH ≥ st.ih + st.blocks.length then line st "commit out=no-block" st.sys
      else
        match finalizeEffs c st.sys.disk (nxt c st.sys.disk.stateH) with
        | none => line st "commit out=invalid" (stepSys c st.sys (.commit k))
        | some es =>
          let crashed := match k with | some k => decide (k < es.length) | none => false
          line st s!"commit out={if crashed then "crashed" else "ok"}" (stepSys c st.sys (.commit k))
    | none => (st, "bad-op")
  | "rollback" :: rest =>
    match (kv rest "n").bind String.toNat? with
    | some j =>
      let a' := st.sys.disk.app.restore j
      line st "rollback" { disk := { st.sys.disk with app := a' }, up := false, live := false }
    | none => (st, "bad-op")
  | "appextra" :: rest =>
    match (kv rest "n").bind String.toNat? with
    | some j =>
      let a' := (List.range j).foldl (fun a _ => a.call .commit) (st.sys.disk.app.call .restart)
      line st "appextra" { disk := { st.sys.disk with app := a' }, up := false, live := false }
    | none => (st, "bad-op")
  | "setresp" :: rest =>
    match (kv rest "h").bind String.toNat? with
    | some h => line st "setresp" { st.sys with disk := { st.sys.disk with lastResp := some h } }
    | none => (st, "bad-op")
  | ["saveblock"] =>
    if nxt c st.sys.disk.storeH ≥ st.ih + st.blocks.length then line st "saveblock out=no-block" st.sys
    else line st "saveblock out=ok"
      { disk := applyEff (crash st.sys.disk) (.saveBlock (nxt c st.sys.disk.storeH)), up := false, live := false }
  | ["check"] =>
    let r := jrun c ⟨0, none⟩ st.sys.disk.app.journal
    (st, match r with
      | some s => s!"wf=1 committed={s.committed}"
      | none => "wf=0")
  | "node" :: rest =>
    -- a real node run to height n, stopped at BeginBlock of n+1 (whatever crashes happened on the
    -- way): the model's prediction of the final disk and of the verdicts
    match (kv rest "blocks").bind String.toNat?, kv rest "mp", kv rest "fails", kv rest "txs",
        ((kv rest "ih").getD "1").toNat? with
    | some n, some v, some fl, some tx, some ih =>
      let okList (s : String) (allowX : Bool) : Bool :=
        (splitComma s).all fun t => (allowX && t == "x") || t.toNat?.isSome
      let optOk (k : String) : Bool := match kv rest k with
        | some s => match s.toNat? with | some x => x ≤ 100 | none => false
        | none => true
      -- discard / noempty / retain: node options that do not change what the pipeline persists
      -- about heights and calls (responses per height, empty blocks, pruning below RetainHeight)
      if !(optOk "discard" && optOk "noempty" && optOk "retain") then (st, "bad-op") else
      if n < 1 ∨ n > 8 ∨ ih < 1 ∨ ih > 1000 ∨ (v ≠ "v0" ∧ v ≠ "v1") ∨ !okList fl true ∨ !okList tx false then (st, "bad-op") else
      let c0 : Chain := { ihPred := ih - 1, txs := fun _ => [], retain := retainOf ((kv rest "retain").bind String.toNat?) }
      let exitH := ih + n
      let fails : List (Option Nat) := (splitComma fl).map fun t => t.toNat?
      let tri (x : Disk) : String := s!"{x.app.height}/{x.storeH}/{x.stateH}"
      let showInc (d0 dEnd : Disk) (post : Option Disk) : String :=
        let delta := (dEnd.app.journal.drop d0.app.journal.length).filter fun k => match k with | .deliver _ => false | _ => true
        let js := if delta.isEmpty then "-" else ".".intercalate (delta.map showCall)
        s!"{tri d0}>{match post with | some p => tri p | none => "-"}:{js}"
      -- incarnations: one per fail index, then a last one without; a clean stop ends the sequence
      let rec go (fs : List (Option Nat)) (d0 : Disk) (acc : List String) (fuel : Nat) : Disk × List String :=
        match fuel with
        | 0 => (d0, acc)
        | fuel + 1 =>
          let f := fs.headD none
          let (dEnd, post, clean) := incarnation c0 d0 f exitH (n + 2)
          let acc := acc ++ [showInc d0 dEnd post]
          if clean ∨ fs.isEmpty then (dEnd, acc) else go fs.tail (crash dEnd) acc fuel
      let (d, incs) := go fails genesis.disk [] (fails.length + 1)
      let s' := stepSys c0 ⟨crash d, false, false⟩ (.start none)
      let agree := (handshake c0 (crash d)).outcome == .ok && s'.disk.app.height == s'.disk.storeH
        && s'.disk.storeH == s'.disk.stateH && s'.disk.app.hash == s'.disk.stateHash
      (st, s!"done app={d.app.height} store={d.storeH} state={d.stateH} heq={b01 (d.app.hash == d.stateHash)} " ++
        s!"wf={b01 (journalWF c0 d.app.journal)} hs={if agree then "agree" else "differ"} inc={if (kv rest "noempty").getD "0" != "0" ∨ tx ≠ "-" then "-" else ";".intercalate incs}")
    | _, _, _, _, _ => (st, "bad-op")
  | "mp" :: rest =>
    match kv rest "ver", (kv rest "pool").bind String.toNat? with
    | some v, some p =>
      let conn := (kv rest "conn").getD "sync"
      if (v = "v0" ∨ v = "v1") ∧ (conn = "sync" ∨ conn = "async") then
        let ver := if conn = "async" then (if v = "v0" then MempoolLock.Ver.v0a else .v1a)
          else if v = "v0" then MempoolLock.Ver.v0 else .v1
        let s : MempoolLock.MS := { pool := p }
        ({ st with ver := ver, ms := some s }, mpLine ver s)
      else (st, "bad-op")
    | _, _ => (st, "bad-op")
  | "spawncheck" :: rest =>
    match st.ms, (kv rest "i").bind String.toNat? with
    | some s, some i => mpEv st s (.spawnCheck i)
    | _, _ => (st, "bad-op")
  | ["spawncommit"] =>
    match st.ms with
    | some s => mpEv st s .spawnCommit
    | none => (st, "bad-op")
  | "rel" :: rest =>
    match st.ms, (kv rest "what").bind parseRel with
    | some s, some e =>
      mpEv st s e
    | _, _ => (st, "bad-op")
  | _ => (st, "bad-op")

def machine : Machine := { σ := St, init := {}, step := step }

end Tmv.Drv.C05

def main : IO Unit := Tmv.Drv.run Tmv.Drv.C05.machine
