import Tmv.Drv.Core
import Tmv.Sha256
import Tmv.Model.ValidateFull
/-! Line-protocol driver for C06 (block validation / MakeBlock / size budget / updateState). -/
namespace Tmv.Drv.C06
open Tmv Tmv.ProtoSize Tmv.Validate

def Hs : Bytes → Bytes := Sha256.hash

def hexList (s : String) : Option (List Bytes) := (splitComma s).mapM ofHex

def splitOnChar (s : String) (c : String) : List String := if s = "-" ∨ s = "" then [] else s.splitOn c

/-- `hash/total/pshash` -/
def parseBID (s : String) : Option BlockID :=
  match s.splitOn "/" with
  | [h, t, p] => do pure { hash := ← ofHex h, total := ← t.toNat?, psHash := ← ofHex p }
  | _ => none

def showBID (b : BlockID) : String := s!"{hexOrDash b.hash}/{b.total}/{hexOrDash b.psHash}"

/-- validators: `pubkey:power:prio,...`; the address is the truncated hash of the key -/
def parseVals (s : String) : Option ValSet :=
  (splitComma s).mapM fun e =>
    match e.splitOn ":" with
    | [k, p, q] => do
      let pk ← ofHex k
      pure { addr := (Hs pk).take 20, pubKey := pk, power := ← p.toInt?, prio := ← q.toInt? }
    | _ => none

def showVals (vs : ValSet) : String :=
  if vs.isEmpty then "-" else
    ",".intercalate (vs.map fun v => s!"{toHex (v.pubKey.take 4)}:{v.power}:{v.prio}")

/-- `mb/mg/iota/ageblocks/agedur/evmax/types(;)/appver` -/
def parseParams (s : String) : Option Params :=
  match s.splitOn "/" with
  | [mb, mg, io, ab, ad, em, ts, av] => do
    pure { blockMaxBytes := ← mb.toInt?, blockMaxGas := ← mg.toInt?, timeIotaMs := ← io.toInt?,
           evMaxAgeBlocks := ← ab.toInt?, evMaxAgeDur := ← ad.toInt?, evMaxBytes := ← em.toInt?,
           pubKeyTypes := splitOnChar ts ";", appVersion := ← av.toNat? }
  | _ => none

def showParams (p : Params) : String :=
  let ts := if p.pubKeyTypes.isEmpty then "-" else ";".intercalate p.pubKeyTypes
  s!"{p.blockMaxBytes}/{p.blockMaxGas}/{p.timeIotaMs}/{p.evMaxAgeBlocks}/{p.evMaxAgeDur}/{p.evMaxBytes}/{ts}/{p.appVersion}"

def showState (s : State) : String :=
  s!"st vb={s.versionBlock} va={s.versionApp} chain={hexOrDash s.chainID} ih={s.initialHeight} " ++
  s!"lbh={s.lastBlockHeight} lbid={showBID s.lastBlockID} lbt={s.lastBlockTime} " ++
  s!"nvals={showVals s.nextVals} vals={showVals s.vals} lvals={showVals s.lastVals} " ++
  s!"lhvc={s.lastHeightValsChanged} params={showParams s.params} lhpc={s.lastHeightParamsChanged} " ++
  s!"lrh={hexOrDash s.lastResultsHash} apph={hexOrDash s.appHash} " ++
  s!"vh={toHex (valsHash Hs s.vals)} nvh={toHex (valsHash Hs s.nextVals)} ch={toHex (paramsHash Hs s.params)}"

def parseState (t : List String) : Option State := do
  pure {
    versionBlock := ← (← kv t "vb").toNat?, versionApp := ← (← kv t "va").toNat?,
    chainID := ← ofHex (← kv t "chain"), initialHeight := ← (← kv t "ih").toInt?,
    lastBlockHeight := ← (← kv t "lbh").toInt?, lastBlockID := ← parseBID (← kv t "lbid"),
    lastBlockTime := ← (← kv t "lbt").toInt?,
    nextVals := ← parseVals (← kv t "nvals"), vals := ← parseVals (← kv t "vals"),
    lastVals := ← parseVals (← kv t "lvals"), lastHeightValsChanged := ← (← kv t "lhvc").toInt?,
    params := ← parseParams (← kv t "params"), lastHeightParamsChanged := ← (← kv t "lhpc").toInt?,
    lastResultsHash := ← ofHex (← kv t "lrh"), appHash := ← ofHex (← kv t "apph") }

/-- `flag:addr:ts:sig;...` -/
def parseSigs (s : String) : Option (List CommitSig) :=
  (splitOnChar s ";").mapM fun e =>
    match e.splitOn ":" with
    | [f, a, t, g] => do
      pure { flag := ← f.toNat?, addr := ← ofHex a, ts := ← t.toInt?, sig := ← ofHex g }
    | _ => none

/-- `nil` or `height/round/hash/total/pshash/sigs` -/
def parseCommit (s : String) : Option (Option Commit) :=
  if s = "nil" then some none else
  match s.splitOn "/" with
  | [h, r, bh, bt, bp, sg] => do
    pure (some { height := ← h.toInt?, round := ← r.toInt?,
                 blockID := { hash := ← ofHex bh, total := ← bt.toNat?, psHash := ← ofHex bp },
                 sigs := ← parseSigs sg })
  | _ => none

/-- a vote of duplicate-vote evidence `h/r/type/addr/bid/ts/idx/sig` in C11's terms; heights are
taken relative to the chain's initial height (C11's chain starts at height 1); `bid` is a number
identifying the block id, `sig` starts with `ok` iff the real ed25519 accepts the vote's signature
under the key of the validator with that address at that height -/
def parseVote (ih : Int) (s : String) : Option Evidence.Vote :=
  match s.splitOn "/" with
  | [h, r, t, addr, bid, ts, idx, sig] => do
    pure { height := (← h.toInt?) - ih + 1, round := ← r.toInt?, typ := ← t.toInt?, addr := addr,
           bid := ← bid.toInt?, ts := ← ts.toInt?, idx := ← idx.toInt?, sig := sig }
  | _ => none

/-- `voteA~voteB~totalVotingPower~validatorPower~time` -/
def parseDV (ih : Int) (s : String) : Option Evidence.Ev :=
  match s.splitOn "~" with
  | [a, b, tvp, vp, tm] => do
    pure (.dv { a := ← parseVote ih a, b := ← parseVote ih b, tvp := ← tvp.toInt?, vp := ← vp.toInt?,
                time := ← tm.toInt? })
  | _ => none

/-- `kind:inner:basic[:dv],...`: the item as the block carries it (opaque bytes), and its reading
as C11's structured evidence -/
def parseEvsX (ih : Int) (s : String) : Option (List (Ev × Option Evidence.Ev)) :=
  (splitComma s).mapM fun e =>
    match e.splitOn ":" with
    | [k, i, b] => do pure ({ kind := ← k.toNat?, inner := ← ofHex i, basic := b = "1" }, none)
    | [k, i, b, d] => do
      let m : Ev := { kind := ← k.toNat?, inner := ← ofHex i, basic := b = "1" }
      if d = "-" then pure (m, none) else pure (m, some (← parseDV ih d))
    | _ => none

def parseHeader (t : List String) : Option Header := do
  pure {
    versionBlock := ← (← kv t "vb").toNat?, versionApp := ← (← kv t "va").toNat?,
    chainID := ← ofHex (← kv t "chain"), height := ← (← kv t "h").toInt?,
    time := ← (← kv t "t").toInt?, lastBlockID := ← parseBID (← kv t "lbid"),
    lastCommitHash := ← ofHex (← kv t "lch"), dataHash := ← ofHex (← kv t "dh"),
    valsHash := ← ofHex (← kv t "vh"), nextValsHash := ← ofHex (← kv t "nvh"),
    consensusHash := ← ofHex (← kv t "ch"), appHash := ← ofHex (← kv t "apph"),
    lastResultsHash := ← ofHex (← kv t "lrh"), evidenceHash := ← ofHex (← kv t "eh"),
    proposer := ← ofHex (← kv t "prop") }

def showHeader (h : Header) : String :=
  s!"vb={h.versionBlock} va={h.versionApp} chain={hexOrDash h.chainID} h={h.height} t={h.time} " ++
  s!"lbid={showBID h.lastBlockID} lch={hexOrDash h.lastCommitHash} dh={hexOrDash h.dataHash} " ++
  s!"vh={hexOrDash h.valsHash} nvh={hexOrDash h.nextValsHash} ch={hexOrDash h.consensusHash} " ++
  s!"apph={hexOrDash h.appHash} lrh={hexOrDash h.lastResultsHash} eh={hexOrDash h.evidenceHash} " ++
  s!"prop={hexOrDash h.proposer}"

def parseBlock (t : List String) : Option Block := do
  pure { header := ← parseHeader t, txs := ← hexList (← kv t "txs"),
         evidence := (← parseEvsX 1 (← kv t "ev")).map (·.1), lastCommit := ← parseCommit (← kv t "lc") }

def showErr : Err → String
  | .hdrVersionBlock => "e-hdr-version-block" | .hdrChainIDLen => "e-hdr-chainid-len"
  | .hdrHeight => "e-hdr-height" | .hdrLastBlockID => "e-hdr-lastblockid"
  | .hdrLastCommitHash => "e-hdr-lastcommithash" | .hdrDataHash => "e-hdr-datahash"
  | .hdrEvidenceHash => "e-hdr-evidencehash" | .hdrProposerLen => "e-hdr-proposer-len"
  | .hdrValsHash => "e-hdr-valshash" | .hdrNextValsHash => "e-hdr-nextvalshash"
  | .hdrConsensusHash => "e-hdr-consensushash" | .hdrLastResultsHash => "e-hdr-lastresultshash"
  | .nilLastCommit => "e-nil-lastcommit" | .lastCommitBasic => "e-lastcommit-basic"
  | .lastCommitHash => "e-lastcommithash" | .dataHash => "e-datahash"
  | .evidenceBasic => "e-evidence-basic" | .evidenceHash => "e-evidencehash"
  | .version => "e-version" | .chainID => "e-chainid" | .height => "e-height"
  | .lastBlockID => "e-lastblockid" | .appHash => "e-apphash" | .consensusHash => "e-consensushash"
  | .lastResultsHash => "e-lastresultshash" | .valsHash => "e-valshash"
  | .nextValsHash => "e-nextvalshash" | .initialCommitSigs => "e-initial-commit-sigs"
  | .commit c => "e-commit:" ++ c | .proposerLen => "e-proposer-len"
  | .proposerUnknown => "e-proposer-unknown" | .timeNotAfter => "e-time-not-after"
  | .timeMedian => "e-time-median" | .timeGenesis => "e-time-genesis"
  | .heightBelowInitial => "e-height-below-initial" | .evidenceOverflow => "e-evidence-overflow"
  | .evidenceCheck => "e-evidence-check"

def showRes : Except Err Unit → String
  | .ok _ => "ok"
  | .error e => showErr e

/-- the (key, timestamp, signature) triples of the op's commit that the real ed25519 accepted:
slot `i` is checked against the validator at position `i` of `LastValidators` over the canonical
vote of that slot, exactly the call C07's model makes (`sigok=` has one character per slot:
`1` verifies, `0` does not, `-` absent / no validator at that position) -/
def validTriples (st : State) (c : Commit) (bits : String) : List (Nat × Int × Bytes) :=
  let bl := bits.toList
  (List.range c.sigs.length).filterMap fun i =>
    match c.sigs[i]?, st.lastVals[i]?, bl[i]? with
    | some s, some v, some '1' => some (keyId v.pubKey, s.ts, s.sig)
    | _, _, _ => none

structure EvDef where
  mine : Ev
  c11 : Evidence.Ev
  hash : Nat

structure S where
  st : Option State := none
  blk : Option Block := none
  ih : Int := 1
  ageB : Int := 0
  ageD : Int := 0
  chain : String := ""
  blocks : List Evidence.Block := []
  sys : Option Evidence.Sys := none
  defs : List EvDef := []

def dummyVote : Evidence.Vote := { height := -1, round := 0, typ := 0, addr := "", bid := 0, ts := 0, idx := 0, sig := "" }
def dummyEv : Evidence.Ev := .dv { a := dummyVote, b := dummyVote, tvp := 0, vp := 0, time := 0 }

/-- C11's context from what the driver has seen of the chain -/
def ctxOf (s : S) : Evidence.Ctx :=
  { blocks := s.blocks, maxAgeBlocks := s.ageB, maxAgeDur := s.ageD,
    H := fun e => match s.defs.find? (fun d => d.c11 = e) with | some d => d.hash | none => 0,
    S := fun e => match s.defs.find? (fun d => d.c11 = e) with | some d => evWrapSize d.mine | none => 0,
    sigOK := fun _ v => v.sig.startsWith "ok",
    chainID := s.chain }

def decodeOf (s : S) (m : Ev) : Evidence.Ev :=
  match s.defs.find? (fun d => d.mine.inner = m.inner) with
  | some d => d.c11
  | none => dummyEv

/-- remember the structured reading of the evidence items of an op line (hash = SHA-256 of the
inner message, as `DuplicateVoteEvidence.Hash()`) -/
def register (s : S) (l : List (Ev × Option Evidence.Ev)) : S :=
  l.foldl (fun s p =>
    match p.2 with
    | some c =>
      if s.defs.any (fun d => d.mine.inner = p.1.inner) then s
      else { s with defs := ⟨p.1, c, natOfBytes (Hs p.1.inner)⟩ :: s.defs }
    | none => s) s

def poolEnv (s : S) : PoolEnv :=
  { ctx := ctxOf s, sys := s.sys.getD (Evidence.initSys (ctxOf s) 0), decode := decodeOf s }

/-- environment for one op: `VerifyCommit` is C07's model (signature verdicts of the real ed25519
come with the op line), the evidence pool is C11's model on the driver's pool state -/
def envOf (s : S) (t : List String) (st : State) (c : Option Commit) : Env :=
  let tr := match c with
    | some c => validTriples st c ((kv t "sigok").getD "")
    | none => []
  fullEnv Hs (fun k sb sg => tr.contains (k, sb.ts, sg)) (poolEnv s)

/-- `ValidateBlock` on the driver's state: verdict and the pool afterwards -/
def validateOp (s : S) (t : List String) (st : State) (b : Block) : String × S :=
  let tr := match b.lastCommit with
    | some c => validTriples st c ((kv t "sigok").getD "")
    | none => []
  let r := validateWithPool Hs (fun k sb sg => tr.contains (k, sb.ts, sg)) (poolEnv s) st b
  (showRes r.1, { s with sys := some r.2 })

def blockLine (st : State) (b : Block) (verdict : String) : String :=
  let lch := match b.lastCommit with | some c => toHex (commitHash Hs c) | none => "nil"
  s!"hh={hexOrDash (headerHash Hs b.header)} size={blockSize b} " ++
  s!"enc={toHex ((Hs (encBlock b)).take 8)} lch={lch} dh={toHex (dataHash Hs b.txs)} " ++
  s!"eh={toHex (evHash Hs b.evidence)} evsize={evByteSize b.evidence} v={verdict}" ++
  -- the model is one function: a second replica trivially reaches the same verdict
  " rb=same"

def toC11Val (v : Validator) : Evidence.Validator :=
  { addr := toHex v.addr, power := v.power, pkAddr := toHex v.addr, key := 0 }

/-- the mock mempool of the harness: longest prefix of the pool whose `Data` size fits -/
def reap : List Bytes → Int → Int → List Bytes
  | [], _, _ => []
  | t :: r, budget, running =>
    let sz : Int := (dataSize [t] : Nat)
    if running + sz > budget then [] else t :: reap r budget (running + sz)

def parsePU (s : String) : Option (Option ParamUpdate) :=
  if s = "none" then some none else do
    let parts := s.splitOn ";"
    let mut u : ParamUpdate := { block := none, evidence := none, validator := none, version := none }
    for p in parts do
      match p.splitOn ":" with
      | ["b", mb, mg] => u := { u with block := some (← mb.toInt?, ← mg.toInt?) }
      | ["e", a, d, m] => u := { u with evidence := some (← a.toInt?, ← d.toInt?, ← m.toInt?) }
      | ["v", ts] => u := { u with validator := some (splitOnChar ts "+") }
      | ["a", v] => u := { u with version := some (← v.toNat?) }
      | ["x"] => pure ()
      | _ => none
    pure (some u)

def parseResults (s : String) : Option (List TxResult) :=
  (splitComma s).mapM fun e =>
    match e.splitOn ":" with
    | [c, d, gw, gu] => do
      pure { code := ← c.toNat?, data := ← ofHex d, gasWanted := ← gw.toInt?, gasUsed := ← gu.toInt? }
    | _ => none

/-- `pubkey:power,...` -/
def parseUpd (s : String) : Option (List ValUpdate) :=
  (splitComma s).mapM fun e =>
    match e.splitOn ":" with
    | [k, p] => do pure (← ofHex k, ← p.toInt?)
    | _ => none

def setField (st : State) (f v : String) : Option State :=
  match f with
  | "lbh" => do pure { st with lastBlockHeight := ← v.toInt? }
  | "ih" => do pure { st with initialHeight := ← v.toInt? }
  | "lbt" => do pure { st with lastBlockTime := ← v.toInt? }
  | "apph" => do pure { st with appHash := ← ofHex v }
  | "lrh" => do pure { st with lastResultsHash := ← ofHex v }
  | "chain" => do pure { st with chainID := ← ofHex v }
  | "va" => do pure { st with versionApp := ← v.toNat? }
  | "vb" => do pure { st with versionBlock := ← v.toNat? }
  | "lbid" => do pure { st with lastBlockID := ← parseBID v }
  | "maxbytes" => do pure { st with params := { st.params with blockMaxBytes := ← v.toInt? } }
  | "evmax" => do pure { st with params := { st.params with evMaxBytes := ← v.toInt? } }
  | _ => none

def step (s : S) (toks : List String) : S × String :=
  match toks with
  | "state" :: t =>
    match parseState t with
    | some st =>
      let s0 : S := { st := some st, ih := st.initialHeight, ageB := st.params.evMaxAgeBlocks,
                      ageD := st.params.evMaxAgeDur, chain := chainStr st.chainID }
      ({ s0 with sys := some (Evidence.initSys (ctxOf s0) 0) }, showState st)
    | none => (s, "bad-op")
  | "set" :: t =>
    match s.st, kv t "f", kv t "v" with
    | some st, some f, some v =>
      match setField st f v with
      | some st' => ({ s with st := some st' }, showState st')
      | none => (s, "bad-op")
    | _, _, _ => (s, "bad-op")
  | "block" :: t =>
    match s.st, parseBlock t, (kv t "ev").bind (parseEvsX s.ih) with
    | some st, some b, some evx =>
      let s := register s evx
      let (v, s) := validateOp s t st b
      -- `rc`: the verdict of a node that only applied the chain; one function here
      ({ s with blk := some b }, blockLine st b v ++ " rc=same")
    | _, _, _ => (s, "bad-op")
  | "votetime" :: t =>
    -- block times are given as offsets (ns) from the local clock: the model runs with now = 0
    let opt (k : String) : Option (Option Int) :=
      match kv t k with
      | some "nil" => some none
      | some v => v.toInt?.map some
      | none => none
    match opt "locked", opt "prop", (kv t "iota").bind String.toInt? with
    | some l, some p, some iotaMs =>
      let r := voteTime 0 l p (iotaMs * 1000000)
      let cls := if r = 0 then "now"
        else if l.any (fun x => r = x + iotaMs * 1000000) then "locked+iota"
        else if p.any (fun x => r = x + iotaMs * 1000000) then "proposal+iota" else "other"
      let gt (o : Option Int) : String := match o with | some x => toString (decide (r > x)) | none => "-"
      (s, s!"vt={cls} gtlocked={gt l} gtprop={gt p}")
    | _, _, _ => (s, "bad-op")
  | "addev" :: t =>
    match s.st, (kv t "ev").bind (parseEvsX s.ih) with
    | some _, some [(m, some c)] =>
      let s := register s [(m, some c)]
      let pe := poolEnv s
      let r := Evidence.step pe.ctx pe.sys (.add (decodeOf s m))
      ({ s with sys := some r.1 }, if r.2 == .ok then "ok" else "err")
    | _, _ => (s, "bad-op")
  | "make" :: t =>
    match s.st, (kv t "h").bind String.toInt?, (kv t "txs").bind hexList, (kv t "ev").bind (parseEvsX s.ih),
          (kv t "prop").bind ofHex, (kv t "lc").bind parseCommit with
    | some st, some h, some txs, some evx, some prop, some (some c) =>
      let s := register s evx
      let b := makeBlock (envOf s t st (some c)) st h txs c (evx.map (·.1)) prop
      let (v, s) := validateOp s t st b
      ({ s with blk := some b }, showHeader b.header ++ " " ++ blockLine st b v)
    | _, _, _, _, _, _ => (s, "bad-op")
  | "create" :: t =>
    match s.st, (kv t "h").bind String.toInt?, (kv t "pool").bind hexList,
          (kv t "prop").bind ofHex, (kv t "lc").bind parseCommit with
    | some st, some h, some pool, some prop, some (some c) =>
      -- `evpool.PendingEvidence(Evidence.MaxBytes)`: C11's model on the driver's pool
      let pe := poolEnv s
      let pend := Evidence.pendingEvidence pe.ctx pe.sys.pool st.params.evMaxBytes
      let evs : List Ev := pend.1.filterMap fun e => (s.defs.find? (fun d => d.c11 = e)).map (·.mine)
      match proposalDataBudget st (pend.2 : Nat) with
      | none => (s, "maxdata=panic")
      | some budget =>
        let txs := reap pool budget 0
        let b := makeBlock (envOf s t st (some c)) st h txs c evs prop
        let (v, s) := validateOp s t st b
        ({ s with blk := some b },
          s!"maxdata={budget} ntx={txs.length} nev={evs.length} " ++ blockLine st b v ++
          s!" fits={decide ((blockSize b : Int) ≤ st.params.blockMaxBytes)}")
    | _, _, _, _, _ => (s, "bad-op")
  | "apply" :: t =>
    match s.st, s.blk, (kv t "bid").bind parseBID, (kv t "res").bind parseResults,
          (kv t "valupd").bind parseUpd, kv t "nvals", (kv t "pu").bind parsePU, (kv t "apph").bind ofHex with
    | some st, some b, some bid, some res, some upd, some nvs, some pu, some apph =>
      let env := envOf s t st b.lastCommit
      -- validator updates go through C08's model; the set the real code computed (`nvals=`) is only
      -- cross-checked
      match applyBlockV env (fun pk => (Hs pk).take 20) st b bid upd pu res apph with
      | .error (.invalid e) => (s, "err-invalid:" ++ showErr e)
      | .error (.upd .valset) => (s, "err-valset")
      | .error (.upd .params) => (s, "err-params")
      | .ok st' =>
        let xck := match parseVals nvs with
          | some hv => if hv = st'.nextVals then "ok" else "DIFF"
          | none => "ok"
        -- the stores now hold block h, then `evpool.Update(state, block evidence)`
        let rh := b.header.height - s.ih + 1
        let s1 := { s with blocks := s.blocks ++ [{ time := b.header.time, vals := st.vals.map toC11Val }] }
        let pe := poolEnv s1
        let g := Evidence.step pe.ctx pe.sys (.grow rh)
        let u := Evidence.step pe.ctx g.1 (.update rh (b.evidence.map (decodeOf s1)))
        ({ s1 with st := some st', blk := none, sys := some u.1 },
          "ok det=same " ++ showState st' ++ " xck=" ++ xck)
    | _, _, _, _, _, _, _, _ => (s, "bad-op")
  | _ => (s, "bad-op")

def machine : Machine := { σ := S, init := {}, step := step }

end Tmv.Drv.C06

def main : IO Unit := Tmv.Drv.run Tmv.Drv.C06.machine
